/-
  C07 driver engine.  Requests:
    C07 verify src:<hex source> <proto> [<proto> …]     every FunctionProto of one compiled chunk (pre-order), one request per source
        <proto> ::= P <NumUpvalues> <len(DbgUpvalues)> <NumParameters> <IsVarArg> <NumUsedRegisters> <len(DbgSourcePositions)>
                    C <n> <word>*n   K <n> (n | s<hex>)*n   S <n> s<hex>*n   F <n> <NumUpvalues of nested proto>*n
        reply: ok | SPEC notwf proto=<k> <first failing condition>      (translation validation: `wf` decides)
    C07 dec <word> => <NAME> <operands as printed by FunctionProto.String()>
        reply: ok | MODEL <expected>    (differential test of the regenerated decoders against the real ones)
    C07 frag <prog> => <proto> | compile-error <msg>
        <prog> in the token language of the C01M engine (a program of the modelled compiler fragment), <proto> the
        prototype the REAL compiler produced for its rendering.  The engine computes `fragProto` (compile model →
        patchCode → `toProto`) and answers MODEL when it differs from the real prototype in any field (this is the tie
        of `toProto`/`fragProto`, the objects of `compile_fragment_wf`), MODEL theorem-instance when `FragOK` holds
        but `wf` rejects the model's prototype (an instance of the theorem, evaluated), SPEC notwf when `wf` rejects
        the real prototype.
-/
import GLua.Engines.Common
import GLua.Engines.C01MEng
import GLua.Model.Verifier
import GLua.Model.CompileProto

namespace GLua.Eng.ProtoEng
open GLua GLua.Eng GLua.Verifier GLua.Generated

def takeNats (n : Nat) (ws : List String) : Option (Array Nat × List String) :=
  let (a, r) := (ws.take n, ws.drop n)
  if a.length ≠ n then none else
  (a.foldlM (fun (acc : Array Nat) (s : String) => s.toNat?.map acc.push) (Array.mkEmpty n)).map (·, r)

def parseConst (s : String) : Option (Option String) :=
  if s = "n" then some none
  else if s.front = 's' then some (some (s.drop 1).toString)
  else none

def parseProto (ws : List String) : Option (Proto × List String) :=
  match ws with
  | "P" :: nup :: dbg :: np :: va :: nr :: nl :: "C" :: nc :: r =>
    match nup.toNat?, dbg.toNat?, np.toNat?, va.toNat?, nr.toNat?, nl.toNat?, nc.toNat? with
    | some nup, some dbg, some np, some va, some nr, some nl, some nc =>
      match takeNats nc r with
      | some (code, "K" :: nk :: r) =>
        match nk.toNat? with
        | none => none
        | some nk =>
          let ks := r.take nk
          match ks.foldlM (fun (acc : Array (Option String)) (s : String) => (parseConst s).map acc.push) #[], r.drop nk with
          | some consts, "S" :: ns :: r =>
            match ns.toNat? with
            | none => none
            | some ns =>
              let ss := ((r.take ns).map (fun (s : String) => (s.drop 1).toString)).toArray
              match r.drop ns with
              | "F" :: nf :: r =>
                match nf.toNat? with
                | none => none
                | some nf =>
                  match takeNats nf r with
                  | some (fs, r) =>
                    if consts.size ≠ nk ∨ ss.size ≠ ns then none else
                    some ({ code := code, consts := consts, strConsts := ss, protoNups := fs, numUpvalues := nup,
                            nDbgUpvalues := dbg, numParams := np, isVarArg := va, numRegs := nr, nLines := nl }, r)
                  | none => none
              | _ => none
          | _, _ => none
      | _ => none
    | _, _, _, _, _, _, _ => none
  | _ => none

partial def parseProtos (ws : List String) (acc : Array Proto) : Option (Array Proto) :=
  match ws with
  | [] => some acc
  | _ => match parseProto ws with
    | some (p, r) => parseProtos r (acc.push p)
    | none => none

/-- starts at which some condition of `wf` fails -/
def failingPcs (p : Proto) : List Nat :=
  let sm := startMap p
  (List.range p.code.size).filter (fun pc => isSt sm pc && !(startsOkAt p sm pc && stepOk p sm pc && hyg p pc))

/-- class of C07-assign-negative-register: an instruction of compileAssignStmt's store loop (MOVE / MOVEN tail,
    SETGLOBAL, SETUPVAL, SETTABLE, SETTABLEKS) one of whose register operands is the field pattern of −8 … −1
    (A ≥ 248 in the 8-bit field, MOVE's B ≥ 504 in the 9-bit field): the `reg -= 1` bookkeeping ran below zero.
    No real register is ≥ 248 (NumUsedRegisters ≤ maxRegisters = 200). -/
def negRegWord (w : Nat) : Bool :=
  let d := decode w
  ((d.op = 0 ∨ d.op = 1) && (decide (d.b ≥ 504) || decide (d.a ≥ 248))) ||
  ((d.op = 9 ∨ d.op = 10 ∨ d.op = 11 ∨ d.op = 12) && decide (d.a ≥ 248))

def negRegMove (p : Proto) (pc : Nat) : Bool :=
  match p.code[pc]? with
  | none => false
  | some w =>
    negRegWord w ||
      ((decode w).op = 1 && (List.range (decode w).c).any (fun k => match p.code[pc+1+k]? with
          | some w2 => opGetOpCode w2 = 0 && negRegWord w2
          | none => false))

/-- known-finding classes (see known_findings.jsonl): the tag is given only when *every* failing condition of the
    prototype belongs to the class, so a different violation in the same prototype is still reported -/
def tag (p : Proto) (why : String) : String :=
  let bad := failingPcs p
  if headerOk p (startMap p) ∧ !bad.isEmpty ∧ bad.all (negRegMove p) then "KF:C07-assign-negative-register " ++ why
  else why

def opName (op : Nat) : String × String := (opProps[op]?).getD ("?", "?")

def showDec (w : Nat) : String :=
  let d := decode w
  let (name, ty) := opName d.op
  if ty = "opTypeABC" then s!"{name} {d.a} {d.b} {d.c}"
  else if ty = "opTypeABx" then s!"{name} {d.a} {d.bx}"
  else s!"{name} {d.a} {d.sbx}"

/-- the wire form of a prototype (same as harness/c07.go serializeProto) -/
def showProto (p : Proto) : String :=
  let nat (a : Array Nat) : List String := a.toList.map toString
  " ".intercalate (["P", toString p.numUpvalues, toString p.nDbgUpvalues, toString p.numParams, toString p.isVarArg,
      toString p.numRegs, toString p.nLines, "C", toString p.code.size] ++ nat p.code ++
    ["K", toString p.consts.size] ++ p.consts.toList.map (fun k => match k with | none => "n" | some h => "s" ++ h) ++
    ["S", toString p.strConsts.size] ++ p.strConsts.toList.map (fun s => "s" ++ s) ++
    ["F", toString p.protoNups.size] ++ nat p.protoNups)

def handleFrag (args impl : List String) : Verdict :=
  match C01MEng.parseProg args with
  | none => { model := some "bad-program" }
  | some (n, b, _) =>
    if !Compile.scopeOK n b then { model := some "ill-scoped-program(generator)" } else
    match Compile.fragProto n b with
    | .error e => { model := cmpModel ("compile-error " ++ e.replace " " "_") impl }
    | .ok p =>
      match cmpModel (showProto p) impl with
      | some m => { model := some m }
      | none =>
        if Compile.FragOK n b && !wf p then { model := some "theorem-instance:FragOK-but-not-wf" }
        else if !wf p then { spec := some ("notwf proto=0 " ++ whyNot p ++ " (outside FragOK)") }
        else ok

def handle (ws : List String) : Verdict :=
  let (args, impl) := splitArrow ws
  match args with
  | "frag" :: rest => handleFrag rest impl
  | "verify" :: _src :: rest =>      -- `_src` = src:<hex of the source> (replay only)
    match parseProtos rest #[] with
    | none => { model := some "bad-proto-encoding" }
    | some ps =>
      let bad := (List.range ps.size).filterMap (fun k =>
        match ps[k]? with
        | some p => if wf p then none else some (k, p)
        | none => none)
      -- a failure outside the known-finding classes is reported first
      let descr := bad.map (fun (k, p) => tag p ("notwf proto=" ++ toString k ++ " " ++ whyNot p))
      match descr.find? (fun s => !s.startsWith "KF:"), descr.head? with
      | some s, _ => { spec := some s }
      | none, some s => { spec := some s }
      | none, none => ok
  | ["dec", w] =>
    match w.toNat? with
    | some w => { model := cmpModel (showDec w) impl }
    | none => { model := some "bad-op" }
  | _ => { model := some "bad-op" }

end GLua.Eng.ProtoEng
