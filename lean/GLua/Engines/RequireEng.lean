import GLua.Engines.Common
import GLua.Model.Require
import GLua.Spec.Require

/-
  Driver engine "C20": replays a history of preload/file/require/clear/register operations on
  the Model (exact comparison with the implementation's reply), on the Spec (the manual's algorithm, with
  the documented Tie choice `.assigned`) and on a property monitor that looks only at the implementation's
  own replies (a truthy value returned for a module stays *the* value, and that module's loader never runs
  again, until the entry is cleared or re-registered).
-/
namespace GLua.Eng.RequireEng
open GLua GLua.Eng GLua.Require

structure St where
  m : Require.St := {}                    -- Model state
  sp : Require.St := {}                   -- Spec state
  cache : List (Name × String) := []      -- monitor: module ↦ token of the truthy value it is known to hold
  -- the searcher chains. Model: the content of registry._LOADERS (the table OpenPackage created; loRequire reads
  -- nothing else). Spec: the content of the table the field package.loaders holds NOW (`sChain`) and of the table
  -- it held originally (`sOrig`); `detached`: a script assigned another table to package.loaders.
  mChain : List Searcher := Model.loLoaders
  sChain : List Searcher := Spec.stdLoaders
  sOrig : List Searcher := Spec.stdLoaders
  detached : Bool := false

def fuel : Nat := 64

def showLV : LV → String
  | .nil => "nil"
  | .bool true => "T"
  | .bool false => "F"
  | .str s => "s:" ++ s
  | .tbl id => "t" ++ toString id
  | .fn => "fn"
  | .sentinel => "U"

def showErr : RErr → String
  | .loop n => "E:loop:" ++ n
  | .notFound n tried => "E:notfound:" ++ n ++ ":" ++ ",".intercalate tried
  | .raised n => "E:raised:" ++ n
  | .loadErr p => "E:loaderr:" ++ p
  | .conflict n => "E:conflict:" ++ n
  | .fuel => "E:fuel"

def showSrc : Src → String
  | .file => "F" | .lua => "P" | .go => "G" | .searcher => "S"

def showEv : Ev → String
  | .run src key arg => showSrc src ++ ":" ++ key ++ ":" ++ arg
  | .nest m (.ok v) => "N:" ++ m ++ "=" ++ showLV v
  | .nest m (.err e) => "N:" ++ m ++ "!" ++ showErr e

def showRes : Res → String
  | .ok v => "ok " ++ showLV v
  | .err e => showErr e

/-- events logged since `old`, oldest first -/
def newEvents (old new : Require.St) : List Ev := (new.log.take (new.log.length - old.log.length)).reverse

def showRequire (old : Require.St) (r : Require.St × Res) : String :=
  " ".intercalate ((newEvents old r.1).map showEv ++ [showRes r.2])

def showRegister (r : Require.St × Res) : String :=
  match r.2 with
  | .ok (.tbl id) => "ok t" ++ toString id ++ " f1=" ++ showLV (r.1.heap id "f1") ++ " f2=" ++ showLV (r.1.heap id "f2")
  | .ok v => "ok " ++ showLV v
  | .err e => showErr e

/-- the global variable `a.b.c` read with raw gets from the globals table. -/
def globalLookup (s : Require.St) (n : Name) : LV :=
  let rec go (cur : LV) : List String → LV
    | [] => cur
    | k :: r => match cur with
      | .tbl id => go (s.heap id k) r
      | _ => .nil
  go (.tbl 0) (n.splitOn ".")

def parseFinal : String → Option Final
  | "ret" => some .ret | "none" => some .none | "retfalse" => some .retFalse | "set" => some .set
  | "setret" => some .setRet | "setnil" => some .setNil | "setnilret" => some .setNilRet
  | "raise" => some .raise | "setraise" => some .setRaise | "mod" => some .module | "setmod" => some .setMod | _ => none

def parseStep (s : String) : Option Step :=
  match s.splitOn ":" with
  | ["req", m] => some { target := m, prot := false }
  | ["preq", m] => some { target := m, prot := true }
  | _ => none

def parseBeh (s : String) : Option Beh :=
  match s.splitOn ";" with
  | [st, fin] =>
    match parseFinal fin, ((st.splitOn ",").filter (· ≠ "")).mapM parseStep with
    | some f, some steps => some { steps := steps, final := f }
    | _, _ => none
  | _ => none

/-- a searcher token: P / L = the library's preload / path searcher (the original function values), N = a Lua
    function answering nil, M:tag = one answering the string "tag", C:who:beh = one answering a loader for `who`. -/
def parseSearcher (t : String) : Option Searcher :=
  match t.splitOn ":" with
  | ["P"] => some .preload
  | ["L"] => some .lua
  | ["N"] => some .silent
  | ["M", tag] => some (.says tag)
  | "C" :: who :: rest => (parseBeh (":".intercalate rest)).map (.finder who ·)
  | _ => none

def parseChain (t : String) : Option (List Searcher) :=
  if t = "-" then some [] else (t.splitOn "/").mapM parseSearcher

def parseNames (t : String) : List Name := if t = "-" then [] else t.splitOn ","

/-- table.insert(t, pos, x) / table.remove(t, pos) / t[1], t[2] = t[2], t[1] on an array -/
def chainIns (l : List Searcher) (pos : Nat) (x : Searcher) : List Searcher := l.take (pos - 1) ++ [x] ++ l.drop (pos - 1)
def chainRm (l : List Searcher) (pos : Nat) : List Searcher := l.eraseIdx (pos - 1)
def chainSwap : List Searcher → List Searcher
  | a :: b :: r => b :: a :: r
  | l => l

/-- a change made IN PLACE to the table package.loaders holds: it reaches the registry's table only while that
    is the same table. -/
def inPlace (st : St) (f : List Searcher → List Searcher) : St :=
  -- /repo c0d2d09 (fix: require reads package.loaders on every call): the Model's chain follows the field, too
  if st.detached then { st with sChain := f st.sChain, mChain := f st.mChain }
  else { st with sChain := f st.sChain, sOrig := f st.sOrig, mChain := f st.mChain }

/-- apply a state-only op to both states -/
def both (st : St) (f : Require.St → Require.St) : St := { st with m := f st.m, sp := f st.sp }

/-! monitor over the implementation's own replies -/
def cacheGet (c : List (Name × String)) (n : Name) : Option String := (c.find? (·.1 == n)).map (·.2)
def cacheDel (c : List (Name × String)) (n : Name) : List (Name × String) := c.filter (·.1 != n)
def cachePut (c : List (Name × String)) (n : Name) (v : String) : List (Name × String) := (n, v) :: cacheDel c n

def truthyTok (v : String) : Bool := v ≠ "nil" ∧ v ≠ "F" ∧ v ≠ "U"

/-- check the reply tokens of `require n` against the cache; returns complaint and updated cache. -/
def monitor (c : List (Name × String)) (n : Name) (impl : List String) : Option String × List (Name × String) :=
  let step (acc : Option String × List (Name × String)) (tok : String) : Option String × List (Name × String) :=
    let (bad, c) := acc
    match tok.splitOn ":" with
    | [k, _, arg] =>
      if k = "F" ∨ k = "P" ∨ k = "G" ∨ k = "S" then
        (if (cacheGet c arg).isSome ∧ bad.isNone then some ("loader of cached module " ++ arg ++ " ran again") else bad, c)
      else (bad, c)
    | ["N", rest] =>
      match rest.splitOn "=" with
      | [m, v] =>
        match cacheGet c m with
        | some w => (if v ≠ w ∧ bad.isNone then some ("nested require " ++ m ++ " returned " ++ v ++ ", cached " ++ w) else bad, c)
        | none => (bad, if truthyTok v then cachePut c m v else c)
      | _ => (bad, c)
    | "N" :: rest :: _ =>
      -- N:m!E:…  : an error for a cached module
      match rest.splitOn "!" with
      | m :: _ => (if (cacheGet c m).isSome ∧ bad.isNone then some ("nested require of cached module " ++ m ++ " failed") else bad, c)
      | _ => (bad, c)
    | _ => (bad, c)
  let isErr := match impl.reverse with
    | last :: _ => last.startsWith "E:"
    | [] => true
  let body := if isErr then impl.dropLast else impl.dropLast.dropLast
  let (bad, c1) := body.foldl step (none, c)
  match impl.reverse with
  | v :: "ok" :: _ =>
    match cacheGet c n with
    | some w =>
      if impl ≠ ["ok", w] then (some ("require " ++ n ++ " must return the cached " ++ w ++ " without running anything"), c1)
      else (bad, c1)
    | none => (bad, if truthyTok v then cachePut c1 n v else c1)
  | _ =>
    match cacheGet c n with
    | some w => (some ("require " ++ n ++ " failed although " ++ w ++ " is cached"), c1)
    | none => (bad, c1)

def handle (st : St) (ws : List String) : St × Verdict :=
  let (args, impl) := splitArrow ws
  let got := " ".intercalate impl
  match args with
  | ["path", p] => (both st (fun s => { s with path := p }), ok)
  | ["file", p, b] =>
    match parseBeh b with
    | some b => (both st (fun s => s.writeFile p b), ok)
    | none => (st, { model := some "bad-beh" })
  | ["badfile", p, _] => (both st (fun s => s.writeBad p), ok)
  | ["rmfile", p] => (both st (fun s => s.removeFile p), ok)
  | ["newpreload", keep] => (both st (fun s => s.newPreload (parseNames keep)), ok)
  | ["ldswap"] => (inPlace st chainSwap, ok)
  | ["ldrm", pos] => (inPlace st (chainRm · pos.toNat!), ok)
  | ["ldins", pos, tok] =>
    match parseSearcher tok with
    | some x => (inPlace st (chainIns · pos.toNat! x), ok)
    | none => (st, { model := some "bad-searcher" })
  | ["ldnew", toks] =>
    match parseChain toks with
    | some c => ({ st with sChain := c, mChain := c, detached := true }, ok)
    | none => (st, { model := some "bad-searcher" })
  | ["ldrestore"] => ({ st with sChain := st.sOrig, mChain := st.sOrig, detached := false }, ok)
  | ["preload", n, b] =>
    match parseBeh b with
    | some b => (both st (fun s => { s with preload := upd s.preload n (some { src := .lua, key := n, beh := b }) }), ok)
    | none => (st, { model := some "bad-beh" })
  | ["gpreload", n, b] =>
    match parseBeh b with
    | some b => ({ st with m := Model.preloadModule st.m n b,
                           sp := { st.sp with preload := upd st.sp.preload n (some { src := .go, key := n, beh := b }) } }, ok)
    | none => (st, { model := some "bad-beh" })
  | ["unpreload", n] => (both st (fun s => { s with preload := upd s.preload n none }), ok)
  | ["gtrue", n] => (both st (fun s => s.heapSet 0 n (.bool true)), ok)
  | ["clear", n] => ({ both st (fun s => s.setLoaded n .nil) with cache := cacheDel st.cache n }, ok)
  | ["require", n] =>
    let rm := Model.loRequireL st.mChain fuel st.m n
    let rs := Spec.requireL .assigned st.sChain fuel st.sp n
    let em := showRequire st.m rm
    let es := showRequire st.sp rs
    let (mon, c') := monitor st.cache n impl
    -- known finding C20-loaders-replaced: a table ASSIGNED to package.loaders is what the reference iterates over,
    -- gopher-lua keeps iterating over the table in the registry. Recognised only when the Model reproduces the
    -- implementation and the two chains really differ; the Spec then continues from the implementation's state.
    -- (FIXED in /repo c0d2d09: no longer tagged, a recurrence is an ordinary violation)
    let kf := false
    let spec := if got ≠ es then some ("require " ++ n ++ " spec=" ++ es)
                else mon.map ("monitor: " ++ ·)
    ({ st with m := rm.1, sp := if kf then rm.1 else rs.1, cache := c' }, { model := cmpModel em impl, spec := spec })
  | ["register", n, f] =>
    let rm := Model.registerModule st.m n [f]
    let rs := Spec.register st.sp n [f]
    let em := showRegister rm
    let es := showRegister rs
    let c' := match impl with
      | "ok" :: v :: _ => cachePut st.cache n v
      | _ => cacheDel st.cache n
    -- the host's function must be reachable in the module table it got back
    let reach := match impl with
      | "ok" :: _ => if impl.contains (f ++ "=fn") then none else some ("registered function " ++ f ++ " is not in the module table")
      | _ => none
    let spec := if got ≠ es then some ("register " ++ n ++ " spec=" ++ es) else reach
    ({ st with m := rm.1, sp := rs.1, cache := c' }, { model := cmpModel em impl, spec := spec })
  | ["global", n] =>
    let em := showLV (globalLookup st.m n)
    let es := showLV (globalLookup st.sp n)
    (st, { model := cmpModel em impl, spec := if got ≠ es then some ("global " ++ n ++ " spec=" ++ es) else none })
  | ["loaded", n] =>
    let em := showLV (st.m.loaded n)
    let es := showLV (st.sp.loaded n)
    (st, { model := cmpModel em impl, spec := if got ≠ es then some ("loaded " ++ n ++ " spec=" ++ es) else none })
  | _ => (st, { model := some "bad-op" })

end GLua.Eng.RequireEng
