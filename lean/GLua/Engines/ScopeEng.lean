/-
  Driver engine `C17M` — replays the requests of harness/c17_mech.go on the Model (GLua/Model/Scopes.lean, `Cfg.fixed`)
  and on the Spec (GLua/Spec/ScopeSpec.lean).  Stateless: every request line is self-contained.

  requests (names are hex-encoded bytes; `ev` tokens: d<hex> declare, b begin, e end, u mark-upvalue, i instr)

    sim <ev>*                                   => panic | cerr | L <hex>:<start>:<end>* R <reg>* I <pc>*
    enum <ev>* @ <pc> <k|->                     => <hex>*            LocalName(1..,pc) on the real table; k = ordinal of the instr at pc
    probe T <hex>:<s>:<e>* F <g> <pc> <lbase> <cur> <hasnext> <nextbase> <top> EV <ev>* X <hex>=<val>*
                                                => <hex>=<val>*      debug.getlocal sweep at a probe of a generated program
    setlocal T … F … N <no>                     => <hex|-> <changed absolute register>*
    upv T <hex>* X <hex>* NO <no>               => <hex|->           GetUpvalue / SetUpvalue name (T real DbgUpvalues, X expected)
    eq <val>                                    => <val>             a value read back in Lua
    getstack FR <g|l>:<tailcall>:<idx>:<line|->* SP <sp> L <level>   => <idx> | none
    where FR … SP <sp> L <level> S <0|1>        => <line> | G | empty
    raise FR … SP <sp> L <level>                => <line> | G | empty | nopos
    line <lo> <hi>                              => <n>               reported line must lie in the statement's span
    shift <at> <k> <orig>                       => <new>             k lines inserted before line `at`
-/
import GLua.Engines.Common
import GLua.Model.Scopes
import GLua.Spec.ScopeSpec

namespace GLua.Eng.ScopeEng
open GLua GLua.Eng GLua.Scopes

def hexVal (c : Char) : Option Nat :=
  if '0' ≤ c ∧ c ≤ '9' then some (c.toNat - '0'.toNat)
  else if 'a' ≤ c ∧ c ≤ 'f' then some (c.toNat - 'a'.toNat + 10)
  else none

/-- names cross the wire hex-encoded; inside Lean they are `String`s of the (ASCII) bytes. -/
def unhexAux : List Char → List Char → Option (List Char)
  | [], acc => some acc.reverse
  | [_], _ => none
  | a :: b :: r, acc => match hexVal a, hexVal b with
    | some x, some y => unhexAux r (Char.ofNat (x * 16 + y) :: acc)
    | _, _ => none

def unhex (s : String) : Option String := (unhexAux s.toList []).map String.ofList

def hexDigit (n : Nat) : Char := if n < 10 then Char.ofNat (n + 48) else Char.ofNat (n + 87)
def hex (s : String) : String :=
  String.ofList (s.toList.flatMap (fun c => [hexDigit (c.toNat / 16 % 16), hexDigit (c.toNat % 16)]))

def markers : List String := ["T", "F", "EV", "X", "N", "FR", "SP", "L", "S", "@", "NO"]

/-- group the tokens that follow each marker -/
def groupTokens (ws : List String) : List (String × List String) :=
  (ws.foldl (fun (acc : List (String × List String)) w =>
      if markers.contains w then (w, []) :: acc
      else match acc with
        | (m, l) :: t => (m, w :: l) :: t
        | [] => [("", [w])]) []).reverse.map (fun (m, l) => (m, l.reverse))

def sect (gs : List (String × List String)) (m : String) : List String :=
  match gs.find? (fun p => p.1 = m) with
  | some (_, l) => l
  | none => []

def parseEv (w : String) : Option Op :=
  if w = "b" then some .enter else if w = "e" then some .leave else if w = "u" then some .markUp
  else if w = "i" then some .instr
  else if w.startsWith "d" then (unhex (w.drop 1).toString).map .declare else none

def toSpecEv : Op → List ScopeSpec.Ev
  | .declare n => [.declare n]
  | .enter => [.begin]
  | .leave => [.end]
  | .markUp => []
  | .instr => [.instr]

def parseAll {α} (f : String → Option α) (ws : List String) : Option (List α) := ws.mapM f

def showTable (ls : List DbgLocalInfo) : List String :=
  ls.map (fun l => hex l.name ++ ":" ++ toString l.startPc ++ ":" ++ toString l.endPc)

def parseEntry (w : String) : Option DbgLocalInfo :=
  match w.splitOn ":" with
  | [n, s, e] => do
    let n ← unhex n; let s ← s.toInt?; let e ← e.toInt?
    pure { name := n, startPc := s, endPc := e }
  | _ => none

/-- Spec-side sanity of a debug table: ranges nested or disjoint, start pcs non-decreasing. -/
def laminarB (ls : List DbgLocalInfo) : Bool :=
  ls.all (fun a => ls.all (fun b =>
    (a.endPc ≤ b.startPc ∨ b.endPc ≤ a.startPc) ∨ (a.startPc ≤ b.startPc ∧ b.endPc ≤ a.endPc) ∨
    (b.startPc ≤ a.startPc ∧ a.endPc ≤ b.endPc) ∨ a.endPc ≤ a.startPc ∨ b.endPc ≤ b.startPc))

def errShow : Err → String
  | .goPanic _ => "panic"
  | .luaError _ => "cerr"

def parseFrameView (ws : List String) : Option FrameView :=
  match ws with
  | [g, pc, lb, cur, hn, nb, top] => do
    let pc ← pc.toInt?; let lb ← lb.toInt?; let nb ← nb.toInt?; let top ← top.toInt?
    pure { isG := g = "1", pc := pc, localBase := lb, isCurrent := cur = "1", hasNext := hn = "1", nextBase := nb, top := top }
  | _ => none

def parseFrame (w : String) : Option (Frame × Nat) :=
  match w.splitOn ":" with
  | [g, tc, idx, line] => do
    let tc ← tc.toNat?; let idx ← idx.toNat?
    pure ({ isG := g = "g", tailCall := tc, line := line.toNat? }, idx)
  | _ => none

def splitEq (w : String) : String × String :=
  match w.splitOn "=" with
  | [a, b] => (a, b)
  | _ => (w, "")

def showWhere : Except Err WhereRes → String
  | .ok (.pos l) => toString l
  | .ok .g => "G"
  | .ok .empty => "empty"
  | .error _ => "panic"

def toFn (f : Frame) : ScopeSpec.Fn := if f.isG then .host else .lua (f.line.getD 0)

def bad : Verdict := { model := some "bad-op" }

def handle (ws : List String) : Verdict :=
  let (args, impl) := splitArrow ws
  match args with
  | "note" :: _ => ok
  | "sim" :: evs =>
    match parseAll parseEv evs with
    | none => bad
    | some ops =>
      match compileOps .fixed ops with
      | .error e => { model := cmpModel (errShow e) impl }
      | .ok t =>
        let exp := " ".intercalate (["L"] ++ showTable t.fc.locals ++ ["R"] ++ t.regs.map toString ++ ["I"] ++ t.ipcs.map toString)
        { model := cmpModel exp impl,
          spec := if laminarB t.fc.locals then none else some "debug table is not laminar" }
  | "enum" :: rest =>
    let gs := groupTokens ("EV" :: rest)
    match parseAll parseEv (sect gs "EV"), sect gs "@" with
    | some ops, [pc, k] =>
      match pc.toInt?, dbgLocalsOf .fixed ops with
      | some pc, .ok ls =>
        let exp := (enumLocals .fixed ls pc).map hex
        let sp : Option String := match k.toNat? with
          | none => none
          | some k =>
            match (ScopeSpec.scopesAtInstrs (ops.flatMap toSpecEv))[k]? with
            | none => some "spec has no such instr"
            | some want =>
              if ScopeSpec.wellNested (ops.flatMap toSpecEv) = false then none
              else if want.map hex = impl then none
              else some ("in scope: " ++ " ".intercalate (want.map hex))
        { model := cmpModel (" ".intercalate exp) impl, spec := sp }
      | _, .error e => { model := cmpModel (errShow e) impl }
      | _, _ => bad
    | _, _ => bad
  | "probe" :: rest =>
    let gs := groupTokens rest
    match parseAll parseEntry (sect gs "T"), parseFrameView (sect gs "F"), parseAll parseEv (sect gs "EV") with
    | some tbl, some fr, some ops =>
      let implNames := impl.map (fun w => (splitEq w).1)
      let exp := (sweep .fixed tbl fr 300).map hex
      let namedImpl := impl.filter (fun w => ScopeSpec.isNamed ((unhex (splitEq w).1).getD "("))
      let want := ScopeSpec.named (ScopeSpec.scopeAfter (ops.flatMap toSpecEv))
      let oracle := sect gs "X"
      let sp : Option String :=
        if namedImpl.map (fun w => (splitEq w).1) ≠ want.map hex then
          some ("named variables in scope: " ++ " ".intercalate (want.map hex))
        else if oracle.map (fun w => (splitEq w).1) ≠ want.map hex then
          some "generator-inconsistent: oracle names differ from the Spec scope"
        else if (namedImpl.zip oracle).any (fun (a, b) => (splitEq b).2 ≠ "?" ∧ (splitEq a).2 ≠ (splitEq b).2) then
          some ("values: " ++ " ".intercalate oracle)
        else if laminarB tbl = false then some "debug table is not laminar"
        else none
      { model := if implNames = exp then none else some (" ".intercalate exp), spec := sp }
    | _, _, _ => bad
  | "setlocal" :: rest =>
    let gs := groupTokens rest
    match parseAll parseEntry (sect gs "T"), parseFrameView (sect gs "F"), (sect gs "N") with
    | some tbl, some fr, [no] =>
      match no.toInt? with
      | none => bad
      | some no =>
        let name := findLocal .fixed tbl fr no
        let exp := if name = "" then "-" else hex name ++ " " ++ toString (fr.localBase + no - 1)
        -- writing the value the register already holds is not observable as a change
        let exp := if name ≠ "" ∧ impl = [hex name] then hex name else exp
        let limit := if fr.isCurrent then fr.top else fr.nextBase
        let sp : Option String := match impl with
          | [_] => none
          | [_, c] => if no ≥ 1 ∧ c.toInt? = some (fr.localBase + no - 1) ∧ fr.localBase + no - 1 < limit then none
                      else some "setlocal wrote a register outside the queried frame"
          | _ => some "setlocal changed more than one register"
        { model := cmpModel exp impl, spec := sp }
    | _, _, _ => bad
  | "upv" :: rest =>
    let gs := groupTokens rest
    match parseAll unhex (sect gs "T"), sect gs "NO" with
    | some names, [no] =>
      match no.toInt? with
      | none => bad
      | some no =>
        let c : Closure String := { isG := false, names := names, cells := names }
        let exp := match getUpvalue c "" no, setUpvalue c no "x" with
          | .ok (n, _), .ok (n', _) => if n = n' then (if n = "" then "-" else hex n) else "get/set-differ"
          | _, _ => "panic"
        let xs := sect gs "X"
        let want := if no ≥ 1 then (match xs[(no - 1).toNat]? with | some n => n | none => "-") else "-"
        { model := cmpModel exp impl, spec := if impl = [want] then none else some ("upvalue name: " ++ want) }
    | _, _ => bad
  | ["eq", want] =>
    { spec := if impl = [want] then none else some ("value read back in Lua should be " ++ want) }
  | op :: rest =>
    if op = "getstack" ∨ op = "where" ∨ op = "raise" then
      let gs := groupTokens rest
      match parseAll parseFrame (sect gs "FR"), sect gs "SP", sect gs "L" with
      | some frs, [sp], [lv] =>
        match sp.toNat?, lv.toInt? with
        | some sp, some lv =>
          let fs := frs.map (·.1)
          if op = "getstack" then
            let exp := match getStack fs sp lv with
              | .frame i => (match frs[i]? with | some (_, idx) => toString idx | none => "bad")
              | .bottom => "0"
              | .none => "none"
            { model := cmpModel exp impl }
          else if op = "where" then
            { model := cmpModel (showWhere (whereM fs sp lv (sect gs "S" = ["1"]))) impl }
          else
            let exp := match raiseWhere fs sp lv with
              | .ok none => "nopos"
              | .ok (some r) => showWhere (.ok r)
              | .error e => showWhere (.error e)
            -- Spec: level n names the n-th running function above the raising host function (Lua callers only);
            -- stated for stacks without lost (tail-called) frames, where the levels are unambiguous
            let spc : Option String := match fs with
              | f :: r =>
                if f.isG ∧ r.all (fun x => x.tailCall = 0) ∧ lv ≥ 1 then
                  let want := match ScopeSpec.callerAt (r.map toFn) lv.toNat with
                    | some l => toString l
                    | none => "empty"
                  if impl = [want] then none else some ("level " ++ toString lv ++ " is line " ++ want)
                else none
              | [] => none
            { model := cmpModel exp impl, spec := spc }
        | _, _ => bad
      | _, _, _ => bad
    else if op = "line" then
      match rest.map String.toNat?, impl.map String.toNat? with
      | [some lo, some hi], [some n] =>
        { spec := if lo ≤ n ∧ n ≤ hi then none else some ("line " ++ toString n ++ " outside the statement's span " ++ toString lo ++ ".." ++ toString hi) }
      | _, _ => { spec := some "no line reported" }
    else if op = "shift" then
      match rest.map String.toNat?, impl.map String.toNat? with
      | [some at_, some k, some orig], [some n] =>
        let want := if orig ≥ at_ then orig + k else orig
        { spec := if n = want then none else some ("shifted line should be " ++ toString want) }
      | _, _ => { spec := some "no line reported" }
    else bad
  | _ => bad

end GLua.Eng.ScopeEng
