import GLua.Engines.Common
import GLua.Spec.SemStep
import GLua.Spec.AstScan

/-
  Engine `S`: run a program (S-expression, docs/AST.md) on the reference semantics and compare the
  outcome with the implementation's.
    S run <fuel> <faultAt|-> <sexp…> => <impl outcome tokens>
  outcome tokens:  E:<v>,<v>…   one per emit call (E: alone = emit())
                   R:<v>,<v>…   chunk results
                   X:<line|->:<v>  uncaught error: position line parsed from a "<string>:N:" prefix ('-' if none), payload
  Verdict: ok | SPEC <first difference>      (there is no separate Model here: Spec is the oracle)
           `SKIP <why>` when the program leaves the fragment whose meaning the Spec fixes.
-/
namespace GLua.Eng.SemEng
open GLua GLua.Eng GLua.Sem

structure RefSt where
  ids : List (String × Nat) := []

def refTok (r : RefSt) (key : String) : RefSt × String :=
  match r.ids.find? (fun p => p.1 = key) with
  | some p => (r, "r" ++ toString p.2)
  | none =>
    let id := 1000 + r.ids.length
    ({ ids := r.ids ++ [(key, id)] }, "r" ++ toString id)

def valTok (r : RefSt) : SVal → RefSt × String
  | .nil => (r, "nil")
  | .bool b => (r, if b then "T" else "F")
  | .num f => (r, tokOfFloat f)
  | .str h => (r, "s" ++ h)
  | .tbl i => refTok r ("t" ++ toString i)
  | .fn i => refTok r ("f" ++ toString i)
  | .host n => refTok r ("h" ++ n)
  | .thread i => refTok r ("c" ++ toString i)

def valsTok (r : RefSt) (vs : List SVal) : RefSt × String :=
  let (r, toks) := vs.foldl (fun (acc : RefSt × List String) v =>
    let (r, t) := valTok acc.1 v
    (r, acc.2 ++ [t])) (r, [])
  (r, ",".intercalate toks)

/-- split "<string>:N:rest" (hex) into (N, hex rest) -/
def splitPos (h : String) : Option (Nat × String) :=
  let pre := hx "<string>:"
  if h.startsWith pre then
    let rest := (h.drop pre.length).toString
    let bs := bytesOfHex rest
    let ds := bs.takeWhile isDigit
    match bs.drop ds.length with
    | 58 :: r => if ds.isEmpty then none else some (digitsVal ds, hexOfBytes r)
    | _ => none
  else none

def outcomeToks (m : M) (o : Outcome) : List String :=
  let (r, es) := m.trace.toList.foldl (fun (acc : RefSt × List String) vs =>
    let (r, t) := valsTok acc.1 vs
    (r, acc.2 ++ ["E:" ++ t])) ({}, [])
  match o with
  | .results vs => es ++ ["R:" ++ (valsTok r vs).2]
  | .failed v _ _ =>
    (match v with
     | .str h => (match splitPos h with
       | some (n, rest) => es ++ ["X:" ++ toString n ++ ":s" ++ rest]
       | none => es ++ ["X:-:s" ++ h])
     | v => es ++ ["X:-:" ++ (valTok r v).2])
  | .unspecified why => ["SKIP", why]
  | .outOfFuel => ["SKIP", "out of fuel"]

def wild : String := hx " ?"

/-- two number tokens that denote neighbouring floats (relative distance ≤ 2^-51): `^` is C's `pow` in the reference
    implementation and Go's `math.Pow` here, and neither is correctly rounded — results may differ in the last bit.
    Exactly representable small integers never match this way (their relative distance is ≥ 2^-53 · 2^… far above). -/
def numClose (spec impl : String) : Bool :=
  (spec.startsWith "i" || spec.startsWith "f") && (impl.startsWith "i" || impl.startsWith "f") &&
  (match floatOfTok spec, floatOfTok impl with
   | some a, some b =>
     let d := Float.abs (a - b)
     let near : Bool := d ≤ Float.abs a * 4.5e-16
     near && (Float.abs a ≥ 9007199254740992.0 || ((floatExactInt? a).isNone && (floatExactInt? b).isNone))
   | _, _ => false)

/-- a Spec token matches an implementation token; fault messages (ending in " ?") match by prefix -/
def tokMatch (spec impl : String) : Bool :=
  if spec = impl then true
  else
    -- compare comma-separated items
    let ss := spec.splitOn ","
    let is := impl.splitOn ","
    ss.length = is.length ∧ (ss.zip is).all fun (s, i) =>
      s = i ∨ numClose s i ∨ (s.endsWith wild ∧ i.startsWith ((s.dropEnd wild.length).toString)) ∨ (s = "s" ++ hx "?" ∧ i.startsWith "s")
        ∨ (s.startsWith ("s" ++ optPosMarker) ∧
            (let r := (s.drop (1 + optPosMarker.length)).toString
             i = "s" ++ r ∨ (i.startsWith ("s" ++ hx "<string>:") ∧ i.endsWith (hx ": " ++ r))))

def compareOutcome (spec impl : List String) : Option String :=
  let rec go (i : Nat) : List String → List String → Option String
    | [], [] => none
    | s :: sr, t :: tr => if tokMatch s t then go (i + 1) sr tr else some ("item " ++ toString i ++ ": spec=" ++ s ++ " impl=" ++ t)
    | s :: _, [] => some ("item " ++ toString i ++ ": spec=" ++ s ++ " impl=<end>")
    | [], t :: _ => some ("item " ++ toString i ++ ": spec=<end> impl=" ++ t)
  go 0 spec impl

def handle (ws : List String) : String :=
  let (args, impl) := splitArrow ws
  match args with
  | "run" :: fuel :: fa :: sexp =>
    (match parseChunk sexp with
     | none => "MODEL bad-sexp"
     | some body =>
       let (m, o) := run (fuel.toNat?.getD 200000) (initM body fa.toNat?)
       let spec := outcomeToks m o
       match spec with
       | "SKIP" :: why => "SKIP " ++ " ".intercalate why
       | _ =>
         match compareOutcome spec impl with
         | none => "ok"
         | some d =>
           -- attribute the failure to a recorded finding only if the program contains that finding's shape
           match knownFindingTags body with
           | t :: _ => "SPEC KF:" ++ t ++ " " ++ d
           | [] => "SPEC " ++ d)
  | "eval" :: fuel :: fa :: sexp =>   -- no comparison: print the Spec outcome
    (match parseChunk sexp with
     | none => "MODEL bad-sexp"
     | some body =>
       let (m, o) := run (fuel.toNat?.getD 200000) (initM body fa.toNat?)
       "SPECOUT " ++ toString m.steps ++ " " ++ " ".intercalate (outcomeToks m o))
  | _ => "MODEL bad-op"

end GLua.Eng.SemEng
