/-
  Driver engine for C15 (engine word `C15`): replays one observation of the real string / math library on the
  Model (GLua/Model/StrLib.lean) and the Spec (GLua/Spec/StrLib.lean).  Stateless.

  Request:  C15 <op> <args…> => <what the implementation returned>
  Values: `s<hex>` byte strings, `i<int>` integers, `f<bits>` non-integral floats, `nan`, `-` = argument absent.
  Implementation outcomes: result tokens | `err` (Lua error raised) | `gopanic` (Go runtime panic caught by pcall).
-/
import GLua.Engines.Common
import GLua.Model.StrLib
import GLua.Spec.StrLib
import GLua.Model.MathLib
import GLua.Spec.MathSpec

namespace GLua.Eng.StrEng
open GLua GLua.Eng GLua.StrSpec

def hexDigit (c : Char) : Option Nat :=
  if '0' ≤ c ∧ c ≤ '9' then some (c.toNat - 48)
  else if 'a' ≤ c ∧ c ≤ 'f' then some (c.toNat - 87)
  else if 'A' ≤ c ∧ c ≤ 'F' then some (c.toNat - 55)
  else none

def hexToBytesL : List Char → Option Bytes
  | [] => some []
  | a :: b :: r => do
    let x ← hexDigit a
    let y ← hexDigit b
    let t ← hexToBytesL r
    pure ((x * 16 + y) :: t)
  | [_] => none

def hexChar (n : Nat) : Char := Char.ofNat (if n < 10 then 48 + n else 87 + n)

def bytesToHex (b : Bytes) : String :=
  String.ofList (b.flatMap fun x => [hexChar (x / 16 % 16), hexChar (x % 16)])

/-- argument tokens -/
inductive Arg where
  | absent
  | int (i : Int)
  | str (b : Bytes)
  | flt (bits : Nat)
  | nan
  | bool (b : Bool)
  | fltR (bits : Nat) (rendering : Bytes)   -- finite float + the C oracle's rendering of its directive (trusted digits)
deriving Repr, Inhabited

def parseArg (t : String) : Option Arg :=
  if t = "-" then some .absent
  else if t = "nan" then some .nan
  else if t = "T" then some (.bool true)
  else if t = "F" then some (.bool false)
  else
    let rest := (t.drop 1).toString
    match t.front with
    | 'i' => rest.toInt?.map .int
    | 'f' => rest.toNat?.map .flt
    | 's' => (hexToBytesL rest.toList).map .str
    | 'g' =>
      match rest.splitOn ":" with
      | [b, h] => do
        let bits ← b.toNat?
        let r ← hexToBytesL h.toList
        pure (.fltR bits r)
      | _ => none
    | _ => none

def showStr (b : Bytes) : String := "s" ++ bytesToHex b
def showInts (l : List Int) : String := " ".intercalate (l.map fun i => "i" ++ toString i)

def showR {α} (f : α → String) : Except Err α → String
  | .ok v => f v
  | .error (.goPanic _) => "gopanic"
  | .error (.luaError _) => "err"

def optInt : Arg → Option (Option Int)
  | .absent => some none
  | .int i => some (some i)
  | _ => none

/-- verdict from the model's expected reply, the spec's expected reply and what the implementation said -/
def verdict (model spec : String) (impl : List String) (what : String) (kf : Option String := none) : Verdict :=
  let got := " ".intercalate impl
  let sp : Option String :=
    if got = spec then none
    else
      let r := what ++ " spec=" ++ (if spec = "" then "(nothing)" else spec)
      match kf with
      | some id => if got = model then some ("KF:" ++ id ++ " " ++ r) else some r
      | none => some r
  { model := if got = model then none else some (if model = "" then "(nothing)" else model), spec := sp }

/-! ### exact truncation of a float64 given by its bits (for `%d` of a non-integral number) -/

def expBits (bits : Nat) : Nat := bits / 4503599627370496 % 2048
def isInfBits (bits : Nat) : Bool := expBits bits = 2047 ∧ bits % 4503599627370496 = 0
def isNegBits (bits : Nat) : Bool := bits / 9223372036854775808 % 2 = 1

/-- `int64(x)` for a finite x with |x| < 2^63 (truncation toward zero); none for inf / NaN / out of range. -/
def truncBits (bits : Nat) : Option Int :=
  let e := expBits bits
  let m := bits % 4503599627370496
  if e = 2047 then none
  else
    let mant := if e = 0 then m else m + 4503599627370496
    let ex := if e = 0 then 1 else e            -- value = mant * 2^(ex - 1075)
    let mag : Nat := if ex ≥ 1075 then mant * 2 ^ (ex - 1075) else mant / 2 ^ (1075 - ex)
    if mag ≥ 9223372036854775808 then none
    else some (if isNegBits bits then -(mag : Int) else mag)

/-- decimal integer numeral (what the harness sends as a numeric string): optional '-', digits -/
def parseDecimal (b : Bytes) : Option Int :=
  let (neg, ds) := match b with
    | 45 :: r => (true, r)
    | r => (false, r)
  if ds.isEmpty ∨ !ds.all isDigit then none
  else
    let n : Nat := ds.foldl (fun (acc : Nat) (d : Nat) => acc * 10 + (d - 48)) 0
    some (if neg then -(n : Int) else n)

/-! ### string.format: Model (Go fmt through LNumber.Format / LString.Format) and Spec (ISO C) per directive -/

structure DirOut where
  model : Bytes
  spec : Bytes
  kf : Option String := none     -- known-finding class this directive/argument falls in, if any

def intArgOf : Arg → Option Int
  | .int i => some i
  | .flt b => truncBits b
  | .str s => parseDecimal s       -- LString.Format: numeric strings are converted (fixes/C15-format-numeric-string.diff)
  | _ => none

/-- render one directive with its argument; `none` = not renderable in Lean (finite float conversions). -/
def renderDir (d : Directive) (a : Arg) : Option DirOut :=
  if !cDefined d then none
  else if isSignedVerb d.verb then
    (intArgOf a).map fun v =>
      let m := StrModel.goFmtInteger { d with verb := 100 } true v
      let kf := if d.prec = some 0 ∧ v = 0 ∧ (d.plus ∨ d.space) then some "C15-format-prec0-zero" else none
      { model := m, spec := cFormatInt d v, kf := kf }
  else if isUnsignedVerb d.verb then
    (intArgOf a).map fun v =>
      let m := StrModel.goFmtInteger d false v
      let kf :=
        if d.plus ∨ d.space then some "C15-format-unsigned-sign-flags"
        else if d.prec = some 0 ∧ v = 0 ∧ d.sharp ∧ d.verb = 111 then some "C15-format-prec0-zero"
        else if d.sharp ∧ d.verb ≠ 111 ∧ (v = 0 ∨ (d.zero ∧ !d.minus ∧ d.width.isSome ∧ d.prec.isNone)) then
          some "C15-format-sharp-hex"
        else none
      { model := m, spec := cFormatInt d v, kf := kf }
  else if d.verb = 99 then
    (intArgOf a).map fun v =>
      let b : Bytes := [(v % 256).toNat]
      { model := cFormatStr d b, spec := cFormatStr d b }
  else if d.verb = 115 then
    match a with
    | .str s => some { model := cFormatStr d s, spec := cFormatStr d s }
    | _ => none
  else -- e E f
    match a with
    | .fltR _ r => some { model := r, spec := r }     -- finite: Go fmt = C (digits from the trusted strconv)
    | _ =>
    let infnan : Option (Bool × Bool) := match a with
      | .nan => some (false, true)
      | .flt b => if isInfBits b then some (isNegBits b, false) else none
      | _ => none
    infnan.map fun (neg, nan) =>
      { model := StrModel.goFmtInfNan d neg nan, spec := cFormatInfNan d neg nan, kf := some "C15-format-inf-nan" }

/-- render a whole format string; the known-finding class is that of the first directive whose Go rendering
    differs from C's. -/
def renderAll : List Seg → List Arg → Option DirOut
  | [], _ => some { model := [], spec := [] }
  | .lit b :: r, args => (renderAll r args).map fun o => { o with model := b ++ o.model, spec := b ++ o.spec }
  | .dir _ :: _, [] => none
  | .dir d :: r, a :: args => do
    let o ← renderDir d a
    let t ← renderAll r args
    pure { model := o.model ++ t.model, spec := o.spec ++ t.spec,
           kf := if o.model ≠ o.spec then o.kf else t.kf }

def handleFmt (fmt : Bytes) (args : List Arg) (impl : List String) : Verdict :=
  match parseFormat (fmt.length + 1) fmt [] with
  | none => { model := some "format-string-outside-the-grammar" }
  | some segs =>
    -- Model of strFormat's argument counting against the Spec's grammar
    let npatOk := StrModel.strFormatNpat fmt = argCount segs
    match impl with
    | [got, oracle] =>
      if argCount segs > args.length then
        -- fewer arguments than directives: an argument error (model: strFormatArgs)
        { model := if got = "err" then none else some "err",
          spec := if got = "err" then none else some "missing argument must be an error" }
      else
      match renderAll segs args with
      | some o =>
        let m := showStr o.model
        let s := showStr o.spec
        let v := verdict m s [got] "format" o.kf
        if !npatOk then { v with model := some "npat-differs-from-directive-count" }
        else if oracle ≠ s then { v with model := some ("go-oracle=" ++ oracle ++ " lean-spec=" ++ s) }
        else v
      | none =>
        -- finite float conversions: digits come from the trusted strconv on both sides; Model = C oracle
        { model := if npatOk then none else some "npat-differs-from-directive-count",
          spec := if got = oracle then none else some ("format differs from the C oracle " ++ oracle) }
    | _ => { model := some "bad-reply" }

/-! ### special-operand family (`sp`): every number travels as its IEEE bit pattern -/

namespace Sp
open GLua.IEEE GLua.MathSpec

/-- `b<decimal bit pattern>` | `nan` (results: NaNs are one class) | `s<hex>` (a numeric string argument, converted
    as Lua §2.2.1 / C strtod does) -/
def parseNum (t : String) : Option Bits :=
  if t = "nan" then some nanBits
  else
    let rest := (t.drop 1).toString
    match t.front with
    | 'b' => match rest.toNat? with
      | some n => if n < p64 then some n else none
      | none => none
    | 's' => (hexToBytesL rest.toList).bind strtod
    | _ => none

def showNum (b : Bits) : String := if isNaN b then "nan" else "b" ++ toString b
def showNums (l : List Bits) : String := " ".intercalate (l.map showNum)

def sameB (a b : Bits) : Bool := a = b ∨ (isNaN a ∧ isNaN b)
def sameL : List Bits → List Bits → Bool
  | [], [] => true
  | a :: r, b :: t => sameB a b && sameL r t
  | _, _ => false

def splitBar (l : List String) : List String × List String :=
  (l.takeWhile (· ≠ "|"), (l.dropWhile (· ≠ "|")).drop 1)

/-- first result that breaks its expectation -/
def firstBad : List Expect → List Bits → Nat → Option String
  | [], [], _ => none
  | e :: es, r :: rs, k =>
    if e.holds r then firstBad es rs (k + 1)
    else some ("result " ++ toString (k + 1) ++ " = " ++ showNum r ++ ", the definition fixes " ++ e.show)
  | es, _, _ => some (toString es.length ++ " results expected")

def handle (fn : String) (argToks : List String) (impl : List String) : Verdict :=
  let (gotT, refT) := splitBar impl
  match argToks.mapM parseNum, refT.mapM parseNum with
  | some xs, some ref =>
    -- Model (transcribed wrapper over IEEE arithmetic, or Go's own function = the reference) and Spec
    let model : Option (List Bits) :=
      match fn, xs with
      | "max", _ => (MathModel.mathMax xs).map ([·])
      | "min", _ => (MathModel.mathMin xs).map ([·])
      | _, [x] => MathModel.call1 fn x
      | _, [x, y] => MathModel.call2 fn x y
      | _, _ => none
    let spec : Option (List Expect) :=
      match fn, xs with
      | "max", _ => specMaxMin true xs
      | "min", _ => specMaxMin false xs
      | "tonumber", [x] => some [.exact x]
      | _, [x] => spec1 fn x
      | _, [x, y] => spec2 fn x y
      | _, _ => none
    match spec with
    | none => { model := some "bad-op" }
    | some exps =>
      -- a wrapper that post-processes a Go function Lean cannot compute (mathAtan2): Model = f(operands, Go's result)
      let ofRef : Option (List Bits) :=
        match xs with
        | [x, y] => MathModel.call2OfRef fn x y ref
        | _ => none
      let expected := ofRef.getD (model.getD ref)
      if model.isSome ∧ !sameL (model.getD ref) ref then
        -- the trusted base is broken: Go's math (or this file's arithmetic) is not the IEEE operation
        { model := some ("go-reference=" ++ showNums ref ++ " lean-model=" ++ showNums (model.getD ref)) }
      else
      match gotT.mapM parseNum with
      | none =>
        { model := some (showNums expected),
          spec := some (fn ++ ": " ++ " ".intercalate gotT ++ " instead of " ++ toString exps.length ++ " number(s)") }
      | some got =>
        let m : Option String := if sameL got expected then none else some (showNums expected)
        let sp : Option String := (firstBad exps got 0).map fun why =>
          let kf : Bool := (fn == "mod" || fn == "opmod") && m.isNone &&
            (match xs with | [a, b] => luaModIeeeOnly a b | _ => false)
          (if kf then "KF:C15-modulo-ieee-specials " else "") ++
            fn ++ "(" ++ showNums xs ++ "): " ++ why
        { model := m, spec := sp }
  | _, _ => { model := some "bad-args" }

end Sp

/-! ### fmod / mod / max / min / random on exact integers -/

/-- result token of the exact-integer ops: `i<n>`, or −0, which travels as its bit pattern -/
def negZeroTok : String := "f9223372036854775808"
def parseIntZ (t : String) : Option (Int × Bool) :=
  if t = negZeroTok then some (0, true)
  else if t.front = 'i' then ((t.drop 1).toString.toInt?).map fun i => (i, false)
  else none
def showIntZ (i : Int) (negZero : Bool) : String := if i = 0 ∧ negZero then negZeroTok else "i" ++ toString i

def specFmodOk (x y r : Int) : Bool :=
  (r = 0 ∨ ((r > 0) = (x > 0))) ∧ r.natAbs < y.natAbs ∧ (x - r) % y = 0

def specModOk (x y r : Int) : Bool :=
  (r = 0 ∨ ((r > 0) = (y > 0))) ∧ r.natAbs < y.natAbs ∧ (x - r) % y = 0

/-- argument positions (0-based, after the op word) that the library reads with CheckInt / OptInt -/
def intPositions (op : String) : List Nat :=
  match op with
  | "sub" | "byte" => [1, 2]
  | "rep" => [1]
  | "find" => [2]
  | _ => []

/-- an integer argument given as a string is converted (CheckInt = int(CheckNumber), Lua §2.2.1);
    `none`: some string in an integer position is not a numeral — a type error is due -/
def coerceIntArgs (op : String) (as : List Arg) : Option (List Arg) :=
  let pos := intPositions op
  as.zipIdx.mapM fun (a, k) =>
    if pos.contains k then
      match a with
      | .str b => (StrModel.checkIntStr b).map .int
      | a => some a
    else some a

def handle (ws : List String) : Verdict :=
  let (args, impl) := splitArrow ws
  match args with
  | [] => { model := some "bad-op" }
  | "sp" :: fn :: rest => Sp.handle fn rest impl
  | "gochk" :: _ =>
    -- a Lua-level contract checked on the Go side (float results: exact or ≤ 1 ulp against Go's math)
    match impl with
    | ["ok"] => ok
    | _ => { spec := some (" ".intercalate impl) }
  | op :: rest =>
    match rest.mapM parseArg with
    | none => { model := some "bad-args" }
    | some as0 =>
      match coerceIntArgs op as0 with
      | none => verdict "err" "err" impl op     -- Model: ls.TypeError(n, LTNumber); Spec: not convertible, an error
      | some as =>
      match op, as with
      | "sub", [.str s, .int i, j] =>
        match optInt j with
        | some j =>
          verdict (showR showStr (StrModel.strSub s i j)) (showStr (sub s i (j.getD (-1)))) impl "sub"
        | none => { model := some "bad-args" }
      | "byte", [.str s, i, j] =>
        match optInt i, optInt j with
        | some i, some j =>
          verdict (showR (fun l => showInts (l.map Int.ofNat)) (StrModel.strByte s i j))
                  (showInts ((byte s i j).map Int.ofNat)) impl "byte"
        | _, _ => { model := some "bad-args" }
      | "find", [.str s, .str p, init, _plain] =>
        -- plain = true, or a pattern without magic characters (lstrlib then searches plainly as well;
        -- gopher-lua goes through pm.Find: a literal pattern finds the first occurrence — trusted from C14)
        match optInt init with
        | some init =>
          let sh (r : Option (Int × Int)) : String := match r with
            | none => "nil"
            | some (a, b) => showInts [a, b]
          verdict (showR sh (StrModel.strFindPlain s p init)) (sh (findPlain s p (init.getD 1))) impl "find"
        | none => { model := some "bad-args" }
      | "char", cs =>
        match cs.mapM (fun a => match a with | .int i => some i | _ => none) with
        | some cs =>
          verdict (showR showStr (StrModel.strChar cs))
                  (match char cs with | some b => showStr b | none => "err") impl "char"
        | none => { model := some "bad-args" }
      | "len", [.str s] =>
        verdict ("i" ++ toString (StrModel.strLen s)) ("i" ++ toString (len s)) impl "len"
      | "rep", [.str s, .int n] =>
        -- never build a huge list in the driver: the empty string repeats to itself (Props.C15.rep_nil), small
        -- products are evaluated, and beyond that only the overflow branch of strings.Repeat (which builds nothing)
        if s.length = 0 ∨ (s.length : Int) * n ≤ 16777216 then
          verdict (showR showStr (StrModel.strRep s n)) (showStr (if s.length = 0 then [] else rep s n)) impl "rep"
        else if (s.length : Int) > StrModel.maxInt / n then
          { model := cmpModel (showR showStr (StrModel.strRep s n)) impl,
            spec := if impl = ["err"] ∨ impl = ["gopanic"] then none else some "rep beyond memory must be an error" }
        else { model := some "rep-result-too-large-for-the-driver" }
      | "reverse", [.str s] =>
        verdict (showR showStr (StrModel.strReverse s)) (showStr (reverse s)) impl "reverse"
      | "upper", [.str s] => verdict (showStr (StrModel.strUpper s)) (showStr (upper s)) impl "upper"
      | "lower", [.str s] => verdict (showStr (StrModel.strLower s)) (showStr (lower s)) impl "lower"
      | "fmt", .str f :: fargs => handleFmt f fargs impl
      | "max", xs =>
        match xs.mapM (fun a => match a with | .int i => some i | _ => none) with
        | some xs =>
          verdict (showR (fun i => "i" ++ toString i) (StrModel.mathMax xs))
                  (match maxL xs with | some v => "i" ++ toString v | none => "err") impl "max"
        | none => { model := some "bad-args" }
      | "min", xs =>
        match xs.mapM (fun a => match a with | .int i => some i | _ => none) with
        | some xs =>
          verdict (showR (fun i => "i" ++ toString i) (StrModel.mathMin xs))
                  (match minL xs with | some v => "i" ++ toString v | none => "err") impl "min"
        | none => { model := some "bad-args" }
      | "fmod", [.int x, .int y] =>
        if y = 0 then { model := some "bad-args" } else
        let m := showIntZ (StrModel.mathFmod x y) (StrModel.goModNegZero x y)
        { model := cmpModel m impl,
          spec := match impl with
            | [r] => match parseIntZ r with
              | some (r, nz) =>
                if !specFmodOk x y r then some "fmod: not the remainder with the dividend's sign"
                -- C99 7.12.10.1 / F.9.7.1: the result — also a zero — has the sign of x
                else if r = 0 ∧ nz ≠ decide (x < 0) then some "fmod: a zero remainder must have the dividend's sign"
                else none
              | none => some "fmod: not an integer"
            | _ => some "fmod malformed" }
      | "mod", [.int x, .int y] =>
        if y = 0 then { model := some "bad-args" } else
        let m := showIntZ (StrModel.mathMod x y) (StrModel.goModNegZero x y)
        { model := cmpModel m impl,
          spec := match impl with
            | [r] => match parseIntZ r with
              | some (r, nz) =>
                if !specModOk x y r then some "mod: not the remainder with the divisor's sign"
                -- manual §2.5.1: a - floor(a/b)*b; a zero remainder is a − a = +0
                else if r = 0 ∧ nz then
                  some ((if impl = [m] then "KF:C15-modulo-ieee-specials " else "") ++
                        "mod: a zero remainder is -0, the manual's a - floor(a/b)*b gives +0")
                else none
              | none => some "mod: not an integer"
            | _ => some "mod malformed" }
      | "random2", [.int m, .int n] =>
        -- the value is random: the Model only predicts the outcome class (with a dummy generator)
        let cls := match StrModel.mathRandom2 (fun _ => 0) 0 m n with
          | .ok _ => "value" | .error (.goPanic _) => "gopanic" | .error _ => "err"
        let icls := match impl with
          | ["err"] => "err" | ["gopanic"] => "gopanic" | _ => "value"
        let sp : Option String :=
          if m ≤ n then
            match impl with
            | [r] => match (r.drop 1).toString.toInt? with
              | some r => if m ≤ r ∧ r ≤ n then none else some "random(m,n) outside [m,n]"
              | none => some "random(m,n) with m <= n did not return an integer in [m,n]"
            | _ => some "random malformed"
          else if impl = ["err"] then none else some "random(m,n) with m > n must be an error"
        { model := if icls = cls then none else some cls, spec := sp }
      | "random1", [.int n] =>
        let cls := match StrModel.mathRandom1 (fun _ => 0) n with
          | .ok _ => "value" | .error (.goPanic _) => "gopanic" | .error _ => "err"
        let icls := match impl with
          | ["err"] => "err" | ["gopanic"] => "gopanic" | _ => "value"
        let sp : Option String :=
          if 1 ≤ n then
            match impl with
            | [r] => match (r.drop 1).toString.toInt? with
              | some r => if 1 ≤ r ∧ r ≤ n then none else some "random(n) outside [1,n]"
              | none => some "random(n) did not return an integer"
            | _ => some "random malformed"
          else if impl = ["err"] then none else some "random(n) with n < 1 must be an error"
        { model := if icls = cls then none else some cls, spec := sp }
      | _, _ => { model := some "bad-op" }

end GLua.Eng.StrEng
