import GLua.Engines.Common
import GLua.Model.Table
import GLua.Spec.TableSpec

namespace GLua.Eng.TableEng
open GLua GLua.Eng GLua.Table GLua.TableSpec

structure Session where
  active : Bool := false
  visited : List Val := []
  must : List Val := []      -- keys present since the traversal began and never cleared

structure Entry where
  t : Tbl := {}
  s : STbl := {}
  ses : Session := {}

abbrev St := List (Nat × Entry)

def showKV : Option (Val × Val) → String
  | none => "nil nil"
  | some (k, v) => k.show ++ " " ++ v.show

def pairLt (a b : String) : Bool := a < b

def showPairsSorted (l : List (Val × Val)) : String :=
  let strs := l.map (fun p => p.1.show ++ "=" ++ p.2.show)
  " ".intercalate (strs.toArray.qsort (· < ·)).toList

/-- spec bookkeeping for a store during an active traversal -/
def sesStore (e : Entry) (k : Val) (v : OVal) : Session :=
  if e.ses.active ∧ v.isNone then { e.ses with must := e.ses.must.filter (· ≠ k) } else e.ses

def store (e : Entry) (t' : Tbl) (k : Val) (v : OVal) : Entry :=
  { t := t', s := e.s.set k v, ses := sesStore e k v }

def specGet (e : Entry) (k : Val) (impl : List String) : Option String :=
  let want := (e.s.m k).show
  if impl = [want] then none else some ("get " ++ k.show ++ " spec=" ++ want)

def handle (st : St) (ws : List String) : St × Verdict :=
  let (args, impl) := splitArrow ws
  match args with
  | ["new", id, acap, mai] =>
    match id.toNat?, acap.toNat?, mai.toNat? with
    | some id, some a, some mai => (assocSet st id { t := { alloc := a ≠ 0, mai := mai } }, ok)
    | _, _, _ => (st, { model := some "bad-op" })
  | "note" :: _ => (st, ok)   -- free text for the replay file (e.g. the Lua source of a constructor); no effect
  | op :: id :: rest =>
    match id.toNat? >>= fun id => (assocGet st id).map (fun e => (id, e)) with
    | none => (st, { model := some "bad-table" })
    | some (id, e) =>
      -- known-finding classes: behaviours of the unchanged tree that the Model reproduces (see known_findings.jsonl)
      let tag (sp : Option String) : Option String := sp.map fun r =>
        if e.t.array.length ≥ e.t.mai then "KF:C09-array-past-maxarrayindex " ++ r
        else if op = "len" ∧ len e.t + 1 = e.t.mai then "KF:C09-border-at-maxarrayindex " ++ r
        else r
      let put (e' : Entry) (v : Verdict) : St × Verdict := (assocSet st id e', { v with spec := tag v.spec })
      match op, rest.map parseVal with
      | "set", [some (some k), some v] => put (store e (rawSet e.t k v) k v) ok
      | "sets", [some (some k), some v] => put (store e (rawSetString e.t k v) k v) ok
      | "seth", [some (some k), some v] => put (store e (rawSetH e.t k v) k v) ok
      | "seti", [some (some (.int i)), some v] => put (store e (rawSetInt e.t i v) (.int i) v) ok
      | "lset", [some k, some v] =>
        -- Lua-level store `t[k] = v`; NaN keys are sent as the token `nan`
        match luaSet e.t k false v, k with
        | .ok t', some k => put (store e t' k v) { model := cmpModel "ok" impl }
        | _, _ => put e { model := cmpModel "err" impl,
                          spec := if impl = ["err"] then none else some "store under nil must be an error" }
      | "lsetnan", [some _] =>
        put e { model := cmpModel "err" impl,
                spec := if impl = ["err"] then none else some "store under NaN must be an error" }
      | "get", [some (some k)] =>
        put e { model := cmpModel (rawGet e.t k).show impl, spec := specGet e k impl }
      | "gets", [some (some k)] =>
        put e { model := cmpModel (rawGetString e.t k).show impl, spec := specGet e k impl }
      | "geth", [some (some k)] =>
        put e { model := cmpModel (rawGetH e.t k).show impl, spec := specGet e k impl }
      | "geti", [some (some (.int i))] =>
        put e { model := cmpModel (rawGetInt e.t i).show impl, spec := specGet e (.int i) impl }
      | "len", [] =>
        let sp := match impl with
          | [n] => match n.toNat? with
            | some n => if isBorder e.s.m n then none else some ("len " ++ toString n ++ " is not a border")
            | none => some "len not a number"
          | _ => some "len malformed"
        put e { model := cmpModel (toString (len e.t)) impl, spec := sp }
      | "maxn", [] => put e { model := cmpModel (toString (maxN e.t)) impl }
      | "append", [some v] =>
        let t' := append e.t v
        -- spec effect of Append is part of C18; here the spec map simply follows the model
        let k : Val := .int (if v.isNone then 0 else
              (match e.t.array.getLast? with
               | some none => lastNonNil e.t.array.dropLast + 1
               | _ => e.t.array.length + 1))
        put (if v.isNone then e else store e t' k v) ok
      | "insert", [some (some (.int i)), some v] =>
        let t' := insert e.t i v
        -- rebuild the spec map of the integer keys from the model (C18 checks the list semantics)
        let s' : STbl := (List.range (t'.array.length + 1)).foldl
              (fun s (j : Nat) => s.set (.int ((j : Int) + 1)) (rawGet t' (.int ((j : Int) + 1)))) e.s
        let s' := if i ≤ 0 ∨ i > e.t.array.length then s'.set (.int i) (rawGet t' (.int i)) else s'
        put { e with t := t', s := s' } ok
      | "remove", [some (some (.int i))] =>
        let (t', v) := remove e.t i
        let s' : STbl := (List.range (e.t.array.length + 1)).foldl
              (fun s (j : Nat) => s.set (.int ((j : Int) + 1)) (rawGet t' (.int ((j : Int) + 1)))) e.s
        put { e with t := t', s := s' } { model := cmpModel v.show impl }
      | "trbegin", [] =>
        put { e with ses := { active := true, visited := [], must := e.s.support } } ok
      | "next", [some k] =>
        let mres := match next e.t k with
          | .ok r => showKV r
          | .error err => err.show
        -- spec: the pair returned must be a present key with its current value, not yet visited;
        -- at the end every key that stayed present must have been visited
        let (ses', sp) : Session × Option String :=
          if !e.ses.active then (e.ses, none) else
          match impl.map parseVal with
          | [some none, some none] =>
            let missing := e.ses.must.filter (fun k => !e.ses.visited.contains k)
            ({ e.ses with active := false },
              if missing.isEmpty then none else some ("traversal missed " ++ " ".intercalate (missing.map Val.show)))
          | [some (some k'), some v'] =>
            let sp := if e.ses.visited.contains k' then some ("traversal repeated " ++ k'.show)
                      else if e.s.m k' ≠ v' ∨ v'.isNone then some ("traversal gave stale pair for " ++ k'.show)
                      else none
            ({ e.ses with visited := e.ses.visited ++ [k'] }, sp)
          | _ => (e.ses, some "next malformed")
        put { e with ses := ses' } { model := cmpModel mres impl, spec := sp }
      | "foreach", [] =>
        let mres := showPairsSorted (forEach e.t)
        let sres := showPairsSorted (e.s.support.filterMap (fun k => (e.s.m k).map (fun v => (k, v))))
        let got := " ".intercalate impl
        put e { model := if got = mres then none else some mres,
                spec := if got = sres then none else some ("foreach spec=" ++ sres) }
      | _, _ => (st, { model := some "bad-op" })
  | _ => (st, { model := some "bad-op" })

end GLua.Eng.TableEng
