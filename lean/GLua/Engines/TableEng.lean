import GLua.Engines.Common
import GLua.Model.Table
import GLua.Spec.TableSpec

namespace GLua.Eng.TableEng
open GLua GLua.Eng GLua.Table GLua.TableSpec

structure Session where
  active : Bool := false
  visited : List Val := []
  must : List Val := []      -- keys present since the traversal began and never cleared
  fe : FEState := {}         -- LTable.ForEach in progress (Model.feStep / feEnd)
  ipLast : Int := 0          -- ipairs in progress: the last index delivered
  cur : OVal := none         -- the key the chain is at (the key returned by the previous `next`; nil at the start)
  kfPast : Bool := false     -- a `next` of this traversal was called while the array part reached MaxArrayIndex (finding
                             -- C09-array-past-maxarrayindex); a Remove may have shrunk it again before the traversal ends
  kfShrink : Bool := false   -- a `next` of this traversal was called with an integer key beyond the (shrunk) array part

structure Entry where
  t : Tbl := {}
  s : STbl := {}
  ses : Session := {}

abbrev St := List (Nat × Entry)

def showKV : Option (Val × Val) → String
  | none => "nil nil"
  | some (k, v) => k.show ++ " " ++ v.show

def pairLt (a b : String) : Bool := a < b

def showPairsSorted (l : List (Val × Val)) : String :=
  let strs := l.map (fun p => p.1.show ++ "=" ++ p.2.show)
  " ".intercalate (strs.toArray.qsort (· < ·)).toList

/-- spec bookkeeping for a store during an active traversal -/
def sesStore (e : Entry) (k : Val) (v : OVal) : Session :=
  if e.ses.active ∧ v.isNone then { e.ses with must := e.ses.must.filter (· ≠ k) } else e.ses

def store (e : Entry) (t' : Tbl) (k : Val) (v : OVal) : Entry :=
  { t := t', s := e.s.set k v, ses := sesStore e k v }

/-- spec bookkeeping for a list helper (Append/Insert/Remove) during an active traversal: only the keys that are
    still present afterwards stay in `must` -/
def sesAfter (ses : Session) (s' : STbl) : Session :=
  if ses.active then { ses with must := ses.must.filter (fun k => (s'.m k).isSome) } else ses

def specGet (e : Entry) (k : Val) (impl : List String) : Option String :=
  let want := (e.s.m k).show
  if impl = [want] then none else some ("get " ++ k.show ++ " spec=" ++ want)

def handle (st : St) (ws : List String) : St × Verdict :=
  let (args, impl) := splitArrow ws
  match args with
  | ["new", id, acap, mai] =>
    match id.toNat?, acap.toNat?, mai.toNat? with
    | some id, some a, some mai => (assocSet st id { t := { alloc := a ≠ 0, mai := mai } }, ok)
    | _, _, _ => (st, { model := some "bad-op" })
  | ["numkey", bits, mai] =>
    -- key normalisation: the canonical key of the float64 with this bit pattern and its routing (array part / hash part);
    -- impl = `nan` (Lua-level store raised) | `arr <canonical token>` | `hash <canonical token>`
    match bits.toNat?, mai.toNat? with
    | some b, some mai =>
      let mres := match numKey b with
        | none => "nan"
        | some k => (if goIsArrayKey mai b then "arr " else "hash ") ++ k.show
      -- Spec (property text): NaN is rejected; otherwise the key is the number's value — an integral value is its integer
      let sp : Option String := match impl with
        | ["nan"] => if isNaNBits b then none else some "a number that is not NaN was rejected as a key"
        | [_, tok] => if isNaNBits b then some "a NaN key was accepted by the Lua-level store"
                      else match f64int? b with
                        | some z => if tok = (Val.int z).show then none else some ("integral number key not canonical: " ++ tok)
                        | none => if tok = (Val.flt b).show then none else some ("non-integral number key changed: " ++ tok)
        | _ => some "numkey malformed"
      (st, { model := cmpModel mres impl, spec := sp })
    | _, _ => (st, { model := some "bad-op" })
  | "note" :: _ => (st, ok)   -- free text for the replay file (e.g. the Lua source of a constructor); no effect
  | op :: id :: rest =>
    match id.toNat? >>= fun id => (assocGet st id).map (fun e => (id, e)) with
    | none => (st, { model := some "bad-table" })
    | some (id, e) =>
      -- known-finding classes: behaviours of the unchanged tree that the Model reproduces (see known_findings.jsonl)
      let tag (sp : Option String) : Option String := sp.map fun r =>
        if e.t.array.length ≥ e.t.mai then "KF:C09-array-past-maxarrayindex " ++ r
        else if op = "len" ∧ len e.t + 1 = e.t.mai then "KF:C09-border-at-maxarrayindex " ++ r
        else r
      let put (e' : Entry) (v : Verdict) : St × Verdict := (assocSet st id e', { v with spec := tag v.spec })
      match op, rest.map parseVal with
      | "set", [some (some k), some v] => put (store e (rawSet e.t k v) k v) ok
      | "sets", [some (some k), some v] => put (store e (rawSetString e.t k v) k v) ok
      | "seth", [some (some k), some v] => put (store e (rawSetH e.t k v) k v) ok
      | "seti", [some (some (.int i)), some v] => put (store e (rawSetInt e.t i v) (.int i) v) ok
      | "lset", [some k, some v] =>
        -- Lua-level store `t[k] = v`; NaN keys are sent as the token `nan`
        match luaSet e.t k false v, k with
        | .ok t', some k => put (store e t' k v) { model := cmpModel "ok" impl }
        | _, _ => put e { model := cmpModel "err" impl,
                          spec := if impl = ["err"] then none else some "store under nil must be an error" }
      | "lsetnan", [some _] =>
        put e { model := cmpModel "err" impl,
                spec := if impl = ["err"] then none else some "store under NaN must be an error" }
      | "get", [some (some k)] =>
        put e { model := cmpModel (rawGet e.t k).show impl, spec := specGet e k impl }
      | "gets", [some (some k)] =>
        put e { model := cmpModel (rawGetString e.t k).show impl, spec := specGet e k impl }
      | "geth", [some (some k)] =>
        put e { model := cmpModel (rawGetH e.t k).show impl, spec := specGet e k impl }
      | "geti", [some (some (.int i))] =>
        put e { model := cmpModel (rawGetInt e.t i).show impl, spec := specGet e (.int i) impl }
      | "len", [] =>
        let sp := match impl with
          | [n] => match n.toNat? with
            | some n => if isBorder e.s.m n then none else some ("len " ++ toString n ++ " is not a border")
            | none => some "len not a number"
          | _ => some "len malformed"
        put e { model := cmpModel (toString (len e.t)) impl, spec := sp }
      | "maxn", [] => put e { model := cmpModel (toString (maxN e.t)) impl }
      | "append", [some v] =>
        let t' := append e.t v
        -- spec effect of Append is part of C18; here the spec map simply follows the model
        let k : Val := .int (if v.isNone then 0 else
              (match e.t.array.getLast? with
               | some none => lastNonNil e.t.array.dropLast + 1
               | _ => e.t.array.length + 1))
        put (if v.isNone then e else store e t' k v) ok
      | "insert", [some (some (.int i)), some v] =>
        let t' := insert e.t i v
        let n := e.t.array.length
        -- Spec: `table.insert` on the abstract map over the window 1..len(array) (Spec.SMap.insertAt); at the
        -- MaxArrayIndex boundary (finding C09-array-past-maxarrayindex) the spec map is rebuilt from the model
        let s' : STbl :=
          if n + 1 < e.t.mai then
            { m := e.s.m.insertAt n i v,
              dom := ((List.range (n + 1)).map (fun (j : Nat) => Val.int ((j : Int) + 1)) ++ [Val.int i]).foldl
                       (fun d k => if d.contains k then d else d ++ [k]) e.s.dom }
          else
            let s1 : STbl := (List.range (t'.array.length + 1)).foldl
              (fun s (j : Nat) => s.set (.int ((j : Int) + 1)) (rawGet t' (.int ((j : Int) + 1)))) e.s
            if i ≤ 0 ∨ i > n then s1.set (.int i) (rawGet t' (.int i)) else s1
        put { e with t := t', s := s', ses := sesAfter e.ses s' } ok
      | "remove", [some (some (.int i))] =>
        let (t', v) := remove e.t i
        let n := e.t.array.length
        let p : Int := if i < 1 then (n : Int) else i
        let noop : Bool := n = 0 ∨ i > n
        let s' : STbl :=
          if n < e.t.mai then
            if noop then e.s else
            { m := e.s.m.removeAt n p,
              dom := ((List.range n).map (fun (j : Nat) => Val.int ((j : Int) + 1))).foldl
                       (fun d k => if d.contains k then d else d ++ [k]) e.s.dom }
          else
            (List.range (n + 1)).foldl
              (fun s (j : Nat) => s.set (.int ((j : Int) + 1)) (rawGet t' (.int ((j : Int) + 1)))) e.s
        let want : OVal := if noop then none else e.s.m (.int p)
        put { e with t := t', s := s', ses := sesAfter e.ses s' }
          { model := cmpModel v.show impl,
            spec := if impl = [want.show] then none else some ("remove returned " ++ " ".intercalate impl ++ " spec=" ++ want.show) }
      | "ipairs", [] =>
        -- impl: the pairs delivered by `for i, v in ipairs(t)`, flattened `n i1 v1 … in vn`
        let fuel := e.t.array.length + e.t.dict.length + 2
        let mres := match ipairsRun e.t fuel 0 with
          | some l => " ".intercalate (toString l.length :: l.foldr (fun p acc => (Val.int p.1).show :: p.2.show :: acc) [])
          | none => "ipairs-did-not-terminate"
        -- spec: exactly 1..n with the map's values, n+1 absent
        let rec chk (ws : List String) (j : Nat) (fuel : Nat) : Option String :=
          match fuel, ws with
          | _, [] => if (e.s.m (.int ((j : Int) + 1))).isNone then none
                     else some ("ipairs stopped before the first nil at " ++ toString (j + 1))
          | 0, _ => some "ipairs malformed"
          | f + 1, i :: v :: r =>
            if i ≠ (Val.int ((j : Int) + 1)).show then some ("ipairs index out of order at " ++ toString (j + 1))
            else if v = "nil" ∨ (e.s.m (.int ((j : Int) + 1))).show ≠ v then some ("ipairs wrong value at " ++ toString (j + 1))
            else chk r (j + 1) f
          | _, _ => some "ipairs malformed"
        put e { model := cmpModel mres impl, spec := chk (impl.drop 1) 0 impl.length }
      | "trbegin", [] =>
        put { e with ses := { active := true, visited := [], must := e.s.support, cur := none, kfPast := false, kfShrink := false, fe := feBegin e.t, ipLast := 0 } } ok
      | "fevisit", [] =>
        -- one callback of LTable.ForEach / LState.ForEach during a traversal session; impl = the pair delivered.
        -- Model: is this delivery admissible for Go's range over the live array part / maps (Model.feStep)?
        -- Spec: the key is present with exactly this value now and has not been delivered before.
        match impl.map parseVal with
        | [some (some k'), some (some v')] =>
          let (fe', mv) : FEState × Option String := match feStep e.t e.ses.fe k' v' with
            | some s' => (s', none)
            | none => (e.ses.fe, some ("ForEach: no admissible delivery; the table holds " ++ (rawGet e.t k').show ++ " under " ++ k'.show))
          let sp := if !e.ses.active then none
                    else if e.ses.visited.contains k' then some ("traversal repeated " ++ k'.show)
                    else if e.s.m k' ≠ some v' then some ("traversal gave stale pair for " ++ k'.show)
                    else none
          put { e with ses := { e.ses with fe := fe', visited := e.ses.visited ++ [k'] } } { model := mv, spec := sp }
        | _ => put e { model := some "fevisit malformed" }
      | "feend", [] =>
        let mv := if feEnd e.t e.ses.fe then none else some "ForEach: must not end yet (a live entry has not been delivered)"
        let missing := e.ses.must.filter (fun k => !e.ses.visited.contains k)
        let sp := if !e.ses.active ∨ missing.isEmpty then none
                  else some ("traversal missed " ++ " ".intercalate (missing.map Val.show))
        put { e with ses := { e.ses with active := false } } { model := mv, spec := sp }
      | "ipvisit", [] =>
        -- one iteration of `for i, v in ipairs(t)` whose body may store into t; Model: ipairsaux on the table as it is now
        let mres := match ipairsAux e.t e.ses.ipLast with
          | some (i, v) => (Val.int i).show ++ " " ++ v.show
          | none => "end"
        let (ip', sp) : Int × Option String := match impl.map parseVal with
          | [some (some (.int i)), some (some v')] =>
            (i, if i ≠ e.ses.ipLast + 1 then some ("ipairs index out of order: " ++ toString i)
                else if e.s.m (.int i) ≠ some v' then some ("ipairs gave stale value at " ++ toString i) else none)
          | _ => (e.ses.ipLast, some "ipvisit malformed")
        put { e with ses := { e.ses with ipLast := ip' } } { model := cmpModel mres impl, spec := sp }
      | "ipend", [] =>
        let mres := match ipairsAux e.t e.ses.ipLast with
          | some (i, v) => (Val.int i).show ++ " " ++ v.show
          | none => "end"
        let sp := if (e.s.m (.int (e.ses.ipLast + 1))).isNone then none
                  else some ("ipairs stopped before the first nil at " ++ toString (e.ses.ipLast + 1))
        put e { model := cmpModel mres impl, spec := sp }
      | "next", [some k] =>
        let mres := match nextFixed e.t k with    -- /repo (fix: Next after a shrunk array part): `nextFixed`; `next` is the old code
          | .ok r => showKV r
          | .error err => err.show
        -- FIXED finding C09-next-after-array-shrink (kept as a plain complaint: it is reported again if it returns): `Next(k)` with an integer k beyond the array part (a list helper
        -- shrank it during this traversal) skips keys[0]
        let shrunk : Bool := match k with
          | some (.int i) => e.ses.active ∧ 0 < i ∧ i < (e.t.mai : Int) ∧ (e.t.array.length : Int) < i
          | _ => false
        -- a `next` whose argument is not the key returned by the previous call is not part of a chain from nil
        -- (a shrunk scripted case): the traversal claims end there
        let e := { e with ses := { e.ses with kfShrink := e.ses.kfShrink || shrunk,
                                              kfPast := e.ses.kfPast || (e.ses.active && decide (e.t.array.length ≥ e.t.mai)),
                                              active := e.ses.active && decide (k = e.ses.cur) } }
        -- spec: the pair returned must be a present key with its current value, not yet visited;
        -- at the end every key that stayed present must have been visited
        let (ses', sp) : Session × Option String :=
          if !e.ses.active then (e.ses, none) else
          match impl.map parseVal with
          | [some none, some none] =>
            let missing := e.ses.must.filter (fun k => !e.ses.visited.contains k)
            ({ e.ses with active := false },
              if missing.isEmpty then none
              else if e.ses.kfPast then
                some ("KF:C09-array-past-maxarrayindex traversal missed " ++ " ".intercalate (missing.map Val.show))
              else some ("traversal missed " ++ " ".intercalate (missing.map Val.show)))
          | [some (some k'), some v'] =>
            let sp := if e.ses.visited.contains k' then some ("traversal repeated " ++ k'.show)
                      else if e.s.m k' ≠ v' ∨ v'.isNone then some ("traversal gave stale pair for " ++ k'.show)
                      else none
            ({ e.ses with visited := e.ses.visited ++ [k'], cur := some k' }, sp)
          | _ => (e.ses, some "next malformed")
        -- any complaint about a traversal during which the array part had reached MaxArrayIndex belongs to that finding
        let sp := if e.ses.kfPast then sp.map (fun r => if r.startsWith "KF:" then r else "KF:C09-array-past-maxarrayindex " ++ r) else sp
        put { e with ses := ses' } { model := cmpModel mres impl, spec := sp }
      | "foreach", [] =>
        let mres := showPairsSorted (forEach e.t)
        let sres := showPairsSorted (e.s.support.filterMap (fun k => (e.s.m k).map (fun v => (k, v))))
        let got := " ".intercalate impl
        put e { model := if got = mres then none else some mres,
                spec := if got = sres then none else some ("foreach spec=" ++ sres) }
      | _, _ => (st, { model := some "bad-op" })
  | _ => (st, { model := some "bad-op" })

end GLua.Eng.TableEng
