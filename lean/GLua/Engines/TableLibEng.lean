/-
  Driver engine for C18 (engine word `C18`): replays Lua-level `table.*` / `unpack` / `t[k]=v` requests on the
  Model (GLua/Model/TableLib.lean over GLua/Model/Table.lean) and on the Spec (GLua/Spec/TableLib.lean, a plain
  list), and answers one verdict per request.  One table per case (`reset` starts a new case).

    new                                   fresh table
    set <k> <v>            => ok|err      t[k] = v
    ins <v>                => ok|err      table.insert(t, v)
    insp <p> <v>           => ok|err      table.insert(t, p, v)
    rem                    => <val>|err   table.remove(t)
    remp <p>               => <val>|err   table.remove(t, p)
    cat <a2> <a3> <a4>     => <val>|err   table.concat(t, a2, a3, a4)   (`-` = argument not passed; trailing only)
    unp <a2> <a3>          => k v1…vk|err unpack(t, a2, a3)
    maxn | getn | len      => n
    dump                   => n v1…v(n+2) #t and t[1..#t+2]
    sort <cmp>             => ok|err v1…v(n+2)     table.sort(t[,cmp]) then t[1..n+2] (n = #t before)
    sortlog <cmp> <n> e1…en => ok|err <c> f1…fn a1 b1 … ac bc     stand-alone sort with comparator call log
    sortsnap <cmp> <n> e1…en => ok|err <c> f1…fn (a b s1…sn)×c    the same with a snapshot of t at every call
    sortmut <cmp> <n>      => ok|err      sort with a comparator that modifies t (no oracle; crashes are X lines)

  The Spec state is `some l` while the history stays inside the property's domain (a list, positions in range,
  non-nil values) and `none` afterwards; outside the domain only Impl = Model is compared.
-/
import GLua.Engines.Common
import GLua.Model.TableLib
import GLua.Spec.TableLib

namespace GLua.Eng.TableLibEng
open GLua GLua.Eng GLua.Table GLua.TableLib

structure St where
  t : Tbl := {}
  l : Option (List Val) := some []
deriving Inhabited

def showVals (l : List OVal) : String := " ".intercalate (l.map OVal.show)

/-- an argument token: `-` = not passed. -/
def parseArgs (ws : List String) : Option (List OVal) :=
  let ws := ws.takeWhile (· ≠ "-")
  ws.mapM parseVal

def parseVals (ws : List String) : Option (List OVal) := ws.mapM parseVal

def allNonNil (l : List OVal) : Option (List Val) := TableLibSpec.allSome l

def implErr (impl : List String) : Bool := impl.head? = some "err"

/-- model reply of a call that returns one value or raises. -/
def showRes {α} (f : α → String) : Except Err α → String
  | .ok a => f a
  | .error (.luaError _) => "err"
  | .error e => e.show

/-- spec effect of `t[k] = v` on a list (none = leaves the domain). -/
def specSet (l : List Val) (k : Val) (v : OVal) : Option (List Val) :=
  match k with
  | .str _ => some l
  | .int i =>
    let n : Int := l.length
    match v with
    | some x =>
      if 1 ≤ i ∧ i ≤ n then some (l.set (i - 1).toNat x)
      else if i = n + 1 then some (l ++ [x])
      else none
    | none =>
      if i = n ∧ 1 ≤ n then some l.dropLast
      else if i > n then some l
      else none
  | _ => none

/-! comparators of the sort streams (the Lua text of each lives in harness/c18.go) -/

inductive CmpKind where
  | dflt            -- no comparator: the standard <
  | ltf             -- function(a,b) return a<b end
  | gt              -- function(a,b) return a>b end
  | key (m : Nat)   -- function(a,b) return math.floor(a/m) < math.floor(b/m) end
  | truthy          -- a<b as 0 / nil   (0 is true in Lua)
  | truthys         -- a<b as "" / false
  | le              -- a<=b   (not a strict weak order)
  | rand            -- inconsistent pseudo-random answers
  | errk (k : Nat)  -- a<b, raises at the k-th call
  | ctrue | cfalse  -- constant answers
  | nonfn           -- a non-function second argument

def parseCmp (s : String) : Option CmpKind :=
  if s = "lt" then some .dflt else if s = "ltf" then some .ltf else if s = "gt" then some .gt
  else if s = "truthy" then some .truthy else if s = "truthys" then some .truthys
  else if s = "le" then some .le else if s = "ctrue" then some .ctrue else if s = "cfalse" then some .cfalse
  else if s = "nonfn" then some .nonfn
  else if s.startsWith "key" then ((s.drop 3).toString.toNat?).map .key
  else if s.startsWith "errk" then ((s.drop 4).toString.toNat?).map .errk
  else if s.startsWith "rand" then some .rand
  else none

/-- the order a comparator kind denotes when it is a strict weak order on the given elements
    (`none`: not one / not evaluated — only the permutation is required). -/
def specLt (c : CmpKind) : Option (Val → Val → Option Bool) :=
  match c with
  | .dflt | .ltf | .truthy | .truthys | .errk _ => some TableLibSpec.stdLt
  | .gt => some (fun a b => TableLibSpec.stdLt b a)
  | .key m => some (fun a b => match a, b with
      | .int x, .int y => some (decide (x / (m : Int) < y / (m : Int)))
      | _, _ => none)
  | .cfalse => some (fun _ _ => some false)
  | _ => none

/-- every pair of the list is comparable by `lt`. -/
def allComparable (lt : Val → Val → Option Bool) (l : List Val) : Bool :=
  match l with
  | [] => true
  | [a] => (lt a a).isSome || true
  | a :: _ => l.all (fun b => (lt a b).isSome && (lt b a).isSome) && l.all (fun b => (lt b b).isSome)

/-- can the comparator raise on these elements (by itself, not counting `errk`)? -/
def mayRaise (c : CmpKind) (l : List Val) : Bool :=
  match specLt c with
  | some lt => l.length ≥ 2 && !allComparable lt l
  | none => match c with
    | .le => l.length ≥ 2 && !allComparable TableLibSpec.stdLt l
    | _ => false

def orderedBy (lt : Val → Val → Option Bool) (l : List Val) : Bool :=
  TableLibSpec.sortedB (fun a b => (lt a b).getD true) l

/-- the checks shared by every sort request.  `orig` = elements before, `fin` = after, `okOutcome` = no error.
    Returns a Spec complaint. -/
def sortSpecCheck (c : CmpKind) (orig fin : List Val) (okOutcome : Bool) (ncalls : Option Nat) : Option String :=
  if !(fin.isPerm orig) then some "sort: result is not a permutation of the original elements"
  else match c with
    | .nonfn => if okOutcome then some "sort: non-function comparator accepted"
                else if fin = orig then none else some "sort: list changed although the comparator was rejected"
    | _ =>
      let raise := mayRaise c orig
      let errkHit : Bool := match c, ncalls with
        | .errk k, some n => n ≥ k
        | .errk _, none => true
        | _, _ => false
      if okOutcome then
        if raise then some "sort: finished although two elements are not comparable"
        else if (match c, ncalls with | .errk k, some n => decide (n ≥ k) | _, _ => false) then
          some "sort: comparator error at call k was swallowed"
        else match specLt c with
          | some lt => if orderedBy lt fin then none else some "sort: result is not ordered by the comparator"
          | none => none
      else
        if raise || errkHit then none else some "sort: raised although the comparator cannot fail"

def memAll (xs : List OVal) (orig : List Val) : Bool := xs.all (fun x => match x with | some v => orig.contains v | none => false)

def handle (st : St) (ws : List String) : St × Verdict :=
  let (args, impl) := splitArrow ws
  let implS := " ".intercalate impl
  let t := st.t
  match args with
  | ["new"] => ({}, ok)
  | ["set", k, v] =>
    match parseVal k, parseVal v with
    | some (some k), some v =>
      match luaSet t (some k) false v with
      | .ok t' =>
        ({ t := t', l := st.l.bind (fun l => specSet l k v) },
         { model := cmpModel "ok" impl, spec := if implS = "ok" then none else some "store raised" })
      | .error _ => (st, { model := cmpModel "err" impl })
    | _, _ => (st, { model := some "bad-op" })
  | ["ins", v] =>
    match parseVal v with
    | some v =>
      match tableInsert t [v] with
      | .ok t' =>
        ({ t := t', l := st.l.map (fun l => match v with | some x => TableLibSpec.insertEnd l x | none => l) },
         { model := cmpModel "ok" impl, spec := if implS = "ok" ∨ st.l.isNone then none else some "insert raised" })
      | .error _ => (st, { model := cmpModel "err" impl })
    | none => (st, { model := some "bad-op" })
  | ["insp", p, v] =>
    match parseVal p, parseVal v with
    | some p, some v =>
      -- the property's domain: 1 ≤ pos ≤ n+1 and a non-nil value
      let dom : Option (List Val) := st.l.bind fun l =>
        match p, v with
        | some (.int i), some x => if 1 ≤ i ∧ i ≤ (l.length : Int) + 1 then some (TableLibSpec.insertAt l i.toNat x) else none
        | _, _ => none
      match tableInsert t [p, v] with
      | .ok t' => ({ t := t', l := dom },
                   { model := cmpModel "ok" impl, spec := if implS = "ok" ∨ dom.isNone then none else some "insert raised" })
      | .error _ => ({ st with l := dom }, { model := cmpModel "err" impl, spec := if dom.isSome then some "insert in range raised" else none })
    | _, _ => (st, { model := some "bad-op" })
  | ["rem"] =>
    match tableRemove t [] with
    | .ok (t', r) =>
      let (l', sp) : Option (List Val) × Option String := match st.l with
        | some l =>
          if l.length ≥ 1 then
            let (l2, want) := TableLibSpec.removeLast l
            (some l2, if implS = want.show then none else some ("remove: spec=" ++ want.show))
          else (some l, none)
        | none => (none, none)
      ({ t := t', l := l' }, { model := cmpModel r.show impl, spec := sp })
    | .error _ => (st, { model := cmpModel "err" impl })
  | ["remp", p] =>
    match parseVal p with
    | some p =>
      let dom : Option (List Val × OVal) := st.l.bind fun l =>
        match p with
        | some (.int i) => if 1 ≤ i ∧ i ≤ (l.length : Int) then some (TableLibSpec.removeAt l i.toNat) else none
        | _ => none
      match tableRemove t [p] with
      | .ok (t', r) =>
        ({ t := t', l := dom.map (·.1) },
         { model := cmpModel r.show impl,
           spec := match dom with
             | some (_, want) => if implS = want.show then none else some ("remove: spec=" ++ want.show)
             | none => none })
      | .error _ => ({ st with l := dom.map (·.1) }, { model := cmpModel "err" impl, spec := if dom.isSome then some "remove in range raised" else none })
    | none => (st, { model := some "bad-op" })
  | "cat" :: rest =>
    match parseArgs rest with
    | some a =>
      let m := showRes Val.show (tableConcat t a)
      -- spec: sep a string (or default), i/j integers (or defaults), and (i > j or 1 ≤ i ≤ j ≤ n)
      let sp : Option String := match st.l with
        | none => none
        | some l =>
          let sep : Option String := match getArg a 2 with | none => some "" | some (.str h) => some h | _ => none
          let iv : Option Int := match getArg a 3 with | none => some 1 | some (.int i) => some i | _ => none
          let jv : Option Int := match getArg a 4 with | none => some (l.length : Int) | some (.int j) => some j | _ => none
          match sep, iv, jv with
          | some sep, some i, some j =>
            if i > j ∨ (1 ≤ i ∧ j ≤ (l.length : Int)) then
              match TableLibSpec.concat l sep i j with
              | some h => if implS = "s" ++ h then none else some ("concat: spec=s" ++ h)
              | none => if implS = "err" then none else some "concat: spec=err (element neither string nor number)"
            else none
          | _, _, _ => none
      (st, { model := cmpModel m impl, spec := sp })
    | none => (st, { model := some "bad-op" })
  | "unp" :: rest =>
    match parseArgs rest with
    | some a =>
      let m := showRes (fun (r : List OVal) => (toString r.length ++ " " ++ showVals r).trimAscii.toString) (baseUnpack t a)
      let sp : Option String := match st.l with
        | none => none
        | some l =>
          let iv : Option Int := match getArg a 2 with | none => some 1 | some (.int i) => some i | _ => none
          let jv : Option Int := match getArg a 3 with | none => some (l.length : Int) | some (.int j) => some j | _ => none
          match iv, jv with
          | some i, some j =>
            let r := TableLibSpec.unpack l i j
            let want := (toString r.length ++ " " ++ showVals r).trimAscii.toString
            if implS = want then none else some ("unpack: spec=" ++ want)
          | _, _ => none
      (st, { model := cmpModel m impl, spec := sp })
    | none => (st, { model := some "bad-op" })
  | [op] =>
    if op = "maxn" ∨ op = "getn" ∨ op = "len" then
      let m := if op = "maxn" then tableMaxN t else if op = "getn" then tableGetN t else len t
      let sp := match st.l with
        | some l => if implS = toString l.length then none else some (op ++ ": spec=" ++ toString l.length)
        | none => none
      (st, { model := cmpModel (toString m) impl, spec := sp })
    else if op = "dump" then
      let n := len t
      let vals := (List.range (n + 2)).map (fun (k : Nat) => rawGetInt t ((k : Int) + 1))
      let m := (toString n ++ " " ++ showVals vals)
      let sp := match st.l with
        | some l =>
          let want := toString l.length ++ " " ++ showVals (l.map some ++ [none, none])
          if implS = want then none else some ("dump: spec=" ++ want)
        | none => none
      (st, { model := cmpModel m impl, spec := sp })
    else (st, { model := some "bad-op" })
  | ["sort", c] =>
    match parseCmp c, impl with
    | some c, outcome :: vals =>
      match parseVals vals with
      | some vals =>
        let n := len t
        let range := sortRange true t
        let fin := vals.take n
        let rest := vals.drop n
        let restM := [rawGetInt t ((n : Int) + 1), rawGetInt t ((n : Int) + 2)]
        -- Impl ∈ Model: the slice is permuted in place, nothing else moves
        let mdl : Option String :=
          if !(fin.isPerm range) then some ("a permutation of " ++ showVals range)
          else if rest ≠ restM then some ("tail " ++ showVals restM)
          else none
        let sp : Option String := match st.l, allNonNil fin with
          | some l, some f => sortSpecCheck c l f (outcome = "ok") none
          | some _, none => some "sort: nil among the sorted elements of a list"
          | none, _ => none
        let t' := { t with array := fin ++ t.array.drop n }
        ({ t := if mdl.isNone then t' else t, l := if sp.isNone then st.l.bind (fun _ => allNonNil fin) else none },
         { model := mdl, spec := sp })
      | none => (st, { model := some "bad-op" })
    | _, _ => (st, { model := some "bad-op" })
  | ["sortmut", _, _] => (st, ok)   -- comparator modifies the table: only crashes/timeouts (X lines) count
  | kind :: c :: n :: rest =>
    if kind = "sortlog" ∨ kind = "sortsnap" then
      match parseCmp c, n.toNat?, parseVals rest, impl with
      | some c, some n, some orig, outcome :: nc :: out =>
        match allNonNil orig, nc.toNat?, parseVals out with
        | some orig, some nc, some out =>
          let fin := out.take n
          let log := out.drop n
          let stride := if kind = "sortsnap" then n + 2 else 2
          -- every comparator call: both arguments are elements of t; with snapshots: t is a permutation of the
          -- original at that moment and the arguments are in it
          let rec chk (fuel : Nat) (log : List OVal) (cnt : Nat) : Option String :=
            match fuel with
            | 0 => none
            | fuel + 1 =>
              match log with
              | [] => if cnt = nc then none else some ("sort: call log has " ++ toString cnt ++ " entries, reported " ++ toString nc)
              | _ =>
                let e := log.take stride
                if e.length < stride then some "sort: malformed call log"
                else if !(memAll (e.take 2) orig) then
                  some ("sort: comparator received a value that is not an element of the list: " ++ showVals (e.take 2))
                else if kind = "sortsnap" ∧ !((e.drop 2).isPerm (orig.map some)) then
                  some ("sort: table is not a permutation of the original during the sort: " ++ showVals (e.drop 2))
                else if kind = "sortsnap" ∧ !((e.take 2).all (fun x => (e.drop 2).contains x)) then
                  some "sort: comparator argument not in the table at the time of the call"
                else chk fuel (log.drop stride) (cnt + 1)
          let sp : Option String :=
            if fin.length ≠ n then some "sort: malformed reply"
            else match allNonNil fin with
              | none => some "sort: nil among the sorted elements of a list"
              | some f =>
                match sortSpecCheck c orig f (outcome = "ok") (if c matches .dflt then none else some nc) with
                | some r => some r
                | none => chk (log.length + 1) log 0
          (st, { spec := sp })
        | _, _, _ => (st, { model := some "bad-op" })
      | _, _, _, _ => (st, { model := some "bad-op" })
    else (st, { model := some "bad-op" })
  | _ => (st, { model := some "bad-op" })

end GLua.Eng.TableLibEng
