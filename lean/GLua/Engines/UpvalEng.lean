/-
  Driver engine `C03M`: replays, on the Model (Model/Upvalue*.lean) and on the Spec (Spec/Cells.lean),
  the operation sequences the Go harness executed on the real open-upvalue list / opcode handlers, and
  judges the snapshots the monitor took during real program runs.

  request                                   implementation reply (after `=>`)
    new n cap                               —   (cap = len(reg.array))
    declare r v | write r v                 - <open>
    read r                                  <val> <open>
    capture r                               - <open>            (the i-th capture is named i afterwards)
    close k | closev lbase a                - <open>            (closeUpvalues in state.go | inlined in OP_CLOSE)
    uvread i                                <val> <open>
    uvwrite i v                             - <open>
    find idx                                h<k> <open>
    closefrom k                             - <open>
    uvget h | uvset h v | isclosed h        <val>|-|T/F <open>
    regset i v | regget i                   -|<val> <open>
    closure cur lbase a caps                f<k>:<uvs>:e<env> <open>     caps = m<B>,u<B>,x… or -
    getupval|setupval cur lbase a b         - <open>
    vmclose cur lbase a                     - <open>
    newenv                                  e<k>
    setfenv f e | getfenv f                 - | e<k>
    envset e name v | envget e name         - | <val>
    getglobal|setglobal cur lbase a name    - <open>
    snap kind top frames open closed        —   (monitor; kind ∈ probe susp final dead)
    golden <expected outcome>               <outcome>   (hand-checked corpus programs outside Spec/Sem's fragment)
    cc nparams program                      <skeleton of the real prototype>   (compile side: Engines/CloseEng.lean)
  <open> = the chain as `h:index,h:index,…` or `-`; a Go panic is the reply `panic`.
-/
import GLua.Engines.Common
import GLua.Model.UpvalueOps
import GLua.Engines.CloseEng

namespace GLua.Eng.UpvalEng
open GLua GLua.Eng GLua.Upvalue GLua.Cells

structure St where
  vm   : VM := {}
  caps : List Nat := []
  spec : Option CSt := none

def showOpen (s : Upvalue.St) : String :=
  if s.openL.isEmpty then "-" else
  ",".intercalate (s.openL.map fun h =>
    toString h ++ ":" ++ (match s.uvs[h]? with | some u => toString u.index | none => "?"))

/-- a Go panic and a raised Lua error (registry overflow) both end the case: reply `panic`. -/
def showErr : Err → String
  | .goPanic _ => "panic"
  | .luaError _ => "panic"

/-- expected reply of a state-changing request -/
def expect (res : String) (s : Upvalue.St) : String := res ++ " " ++ showOpen s

def parseCaps (s : String) : Option (List Cap) :=
  if s = "-" then some [] else
  (s.splitOn ",").mapM fun t =>
    let rest := (t.drop 1).toString
    match t.front with
    | 'm' => rest.toNat?.map Cap.move
    | 'u' => rest.toNat?.map Cap.getupval
    | 'x' => some Cap.other
    | _ => none

def showSlots (l : List (Option Nat)) : String :=
  if l.isEmpty then "-" else ",".intercalate (l.map fun | some h => toString h | none => "nil")

def parseNats (s : String) : Option (List Nat) :=
  if s = "-" then some [] else (s.splitOn ",").mapM (·.toNat?)

def parsePairs (s : String) : Option (List (Nat × Nat)) :=
  if s = "-" then some [] else
  (s.splitOn ",").mapM fun t =>
    match t.splitOn ":" with
    | [a, b] => do let x ← a.toNat?; let y ← b.toNat?; pure (x, y)
    | _ => none

/-- the runtime image of the invariant on a snapshot of a real thread: the open list is strictly sorted by
    register index, holds no closed upvalue, every index is below the registry top and lies inside the
    register window of a live Lua frame. -/
def strictlySorted : List Nat → Bool
  | a :: b :: r => a < b && strictlySorted (b :: r)
  | _ => true

def snapCheck (kind : String) (top : Nat) (frames : List (Nat × Nat)) (openIdx closed : List Nat) : Option String :=
  if !strictlySorted openIdx then some "open-list-not-strictly-sorted"
  else if closed.any (· ≠ 0) then some "closed-upvalue-in-open-list"
  else if (kind = "final" ∨ kind = "dead") ∧ !openIdx.isEmpty then some ("open-upvalue-after-" ++ kind)
  else if openIdx.any (· ≥ top) then some "open-upvalue-at-or-above-top"
  else if kind = "probe" ∧ openIdx.any (fun i => !frames.any (fun (lb, n) => lb ≤ i ∧ i < lb + n)) then
    some "open-upvalue-outside-every-live-lua-frame"
  else none

/-- high-level request → Cells.Op -/
def parseOp (op : String) (a : List String) : Option Op :=
  match op, a with
  | "declare", [r, v] => do let r ← r.toNat?; let v ← parseVal v; pure (.declare r v)
  | "write", [r, v] => do let r ← r.toNat?; let v ← parseVal v; pure (.write r v)
  | "read", [r] => r.toNat?.map .read
  | "capture", [r] => r.toNat?.map .capture
  | "close", [k] => k.toNat?.map .close
  | "closev", [lb, x] => do let lb ← lb.toNat?; let x ← x.toNat?; pure (.close (lb + x))
  | "uvread", [i] => i.toNat?.map .uvread
  | "uvwrite", [i, v] => do let i ← i.toNat?; let v ← parseVal v; pure (.uvwrite i v)
  | _, _ => none

def outStr : Option OVal → String
  | some v => OVal.show v
  | none => "-"

def bad (st : St) : St × Verdict := (st, { model := some "bad-op" })

/-- a raw request on the VM model: the expected reply and the new VM -/
def rawStep (m : VM) (op : String) (a : List String) : Option (Except Err (String × VM)) :=
  let n (s : String) := s.toNat?
  match op, a with
  | "find", [i] => do
    let i ← n i
    pure (do let (h, s) ← findUpvalue m.st i; pure ("h" ++ toString h, { m with st := s }))
  | "closefrom", [k] => do
    let k ← n k
    pure (do let s ← closeUpvalues k m.st; pure ("-", { m with st := s }))
  | "uvget", [h] => do
    let h ← n h
    pure (do let v ← uvValue m.st h; pure (OVal.show v, m))
  | "uvset", [h, v] => do
    let h ← n h; let v ← parseVal v
    pure (do let s ← uvSetValue m.st h v; pure ("-", { m with st := s }))
  | "isclosed", [h] => do
    let h ← n h
    pure (do let b ← uvIsClosed m.st h; pure (if b then "T" else "F", m))
  | "regset", [i, v] => do
    let i ← n i; let v ← parseVal v
    pure (do let s ← regSet m.st i v; pure ("-", { m with st := s }))
  | "regget", [i] => do
    let i ← n i
    pure (do let v ← regGet m.st i; pure (OVal.show v, m))
  | "closure", [cur, lb, x, caps] => do
    let cur ← n cur; let lb ← n lb; let x ← n x; let caps ← parseCaps caps
    pure (do
      let (h, m1) ← opClosure m cur lb x caps
      let f ← getFn m1 h
      pure ("f" ++ toString h ++ ":" ++ showSlots f.upvals ++ ":e" ++ toString f.env, m1))
  | "getupval", [cur, lb, x, b] => do
    let cur ← n cur; let lb ← n lb; let x ← n x; let b ← n b
    pure (do let m1 ← opGetUpval m cur lb x b; pure ("-", m1))
  | "setupval", [cur, lb, x, b] => do
    let cur ← n cur; let lb ← n lb; let x ← n x; let b ← n b
    pure (do let m1 ← opSetUpval m cur lb x b; pure ("-", m1))
  | "vmclose", [_, lb, x] => do
    let lb ← n lb; let x ← n x
    pure (do let m1 ← opClose m lb x; pure ("-", m1))
  | "getglobal", [cur, lb, x, name] => do
    let cur ← n cur; let lb ← n lb; let x ← n x
    pure (do let m1 ← opGetGlobal m cur lb x name; pure ("-", m1))
  | "setglobal", [cur, lb, x, name] => do
    let cur ← n cur; let lb ← n lb; let x ← n x
    pure (do let m1 ← opSetGlobal m cur lb x name; pure ("-", m1))
  | _, _ => none

/-- requests whose reply carries no open list -/
def envStep (m : VM) (op : String) (a : List String) : Option (Except Err (String × VM)) :=
  let n (s : String) := s.toNat?
  match op, a with
  | "newenv", [] => some (.ok ("e" ++ toString m.envs.length, { m with envs := m.envs ++ [[]] }))
  | "setfenv", [f, e] => do
    let f ← n f; let e ← n e
    pure (do let m1 ← setFEnv m f e; pure ("-", m1))
  | "getfenv", [f] => do
    let f ← n f
    pure (do let fn ← getFn m f; pure ("e" ++ toString fn.env, m))
  | "envset", [e, name, v] => do
    let e ← n e; let v ← parseVal v
    pure (do let t ← getEnv m e; pure ("-", { m with envs := m.envs.set e (envSet t name v) }))
  | "envget", [e, name] => do
    let e ← n e
    pure (do let t ← getEnv m e; pure (OVal.show (envGet t name), m))
  | _, _ => none

def handle (st : St) (ws : List String) : St × Verdict :=
  let (args, impl) := splitArrow ws
  match args with
  | ["new", _, rc] =>
    -- `cap` = len(reg.array) of the real state; the first n slots were initialised by SetTop(n)
    match rc.toNat? with
    | some rc => ({ vm := { st := Upvalue.St.init rc, fns := [{ env := 0 }], envs := [[]] }, caps := [],
                    spec := some CSt.init }, ok)
    | none => bad st
  | ["src", _] => (st, ok)
  | ["cc", np, prog] => (st, CloseEng.handleCC np prog impl)
  | ["golden", exp] =>
    (st, { spec := if impl = [exp] then none else some ("golden-outcome-differs expected=" ++ exp) })
  | ["snap", kind, top, frames, openS, closedS] =>
    match top.toNat?, parsePairs frames, parseNats openS, parseNats closedS with
    | some top, some fr, some op, some cl =>
      (st, { spec := (snapCheck kind top fr op cl).map fun r =>
                r ++ " kind=" ++ kind ++ " top=" ++ toString top ++ " open=" ++ openS })
    | _, _, _, _ => bad st
  | op :: a =>
    match parseOp op a with
    | some o =>
      -- the trace alphabet of the theorem: Model and Spec in lockstep
      let implRes := impl.headD ""
      match mstep { st := st.vm.st, caps := st.caps } o with
      | .error e =>
        -- the implementation must fail in the same way; the state is frozen
        ({ st with spec := none }, { model := cmpModel (showErr e) [implRes] })
      | .ok (m1, out) =>
        let exp := expect (outStr out) m1.st
        let mv := cmpModel exp impl
        let (spec', sv) : Option CSt × Option String :=
          match st.spec with
          | none => (none, none)
          | some c =>
            match Cells.step c o with
            | none => (none, none)     -- outside the Discipline from here on: the Spec is silent
            | some (c1, sout) =>
              if outStr sout = implRes then (some c1, none)
              else (some c1, some ("cells-semantics-expects " ++ outStr sout ++ " got " ++ implRes))
        ({ vm := { st.vm with st := m1.st }, caps := m1.caps, spec := spec' }, { model := mv, spec := sv })
    | none =>
      match rawStep st.vm op a with
      | some r =>
        match r with
        | .error e => ({ st with spec := none }, { model := cmpModel (showErr e) [impl.headD ""] })
        | .ok (res, m1) => ({ st with vm := m1, spec := none }, { model := cmpModel (expect res m1.st) impl })
      | none =>
        match envStep st.vm op a with
        | some r =>
          match r with
          | .error e => (st, { model := cmpModel (showErr e) impl })
          | .ok (res, m1) => ({ st with vm := m1 }, { model := cmpModel res impl })
        | none => bad st
  | [] => bad st

end GLua.Eng.UpvalEng
