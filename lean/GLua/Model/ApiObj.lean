/-
  C10 — the object-level entries of the Go API over the dispatch model of C04 (Model/MetaModel.lean: the transcription of
  state.go / vm.go metamethod dispatch returning `Action`s).

    state.go   GetTable, SetTable, GetField, SetField, GetGlobal, SetGlobal, Equal, RawEqual, LessThan, GetMetatable
               — bodies of ONE call statement (texts regenerated on every run: Generated/ApiDelegates.lean); transcribed
               here as the one call they are;
               ObjLen (MetaModel.objLen), Concat (here), auxlib.go ToStringMeta (MetaModel.toStringMeta) — not single
               delegations: push / call / pop sequences (their stack traffic: Model/ApiStack.lean `callHandler`,
               `concatFrame`; call texts regenerated: Generated/ApiBodies.lean).
  The helpers they call are the ones the VM's opcode handlers call (regenerated: Generated/OpcodeHelpers.lean).
  Core Lean only.
-/
import GLua.Model.MetaModel

namespace GLua.ApiObj
open GLua.Meta GLua.MetaModel

variable {N : Type}

/-- `func (ls *LState) GetTable(obj, key LValue) LValue { return ls.getField(obj, key) }` -/
def GetTable (h : Heap N) (obj key : V N) : Action N := getField h obj key

/-- `SetTable(obj, key, value) { ls.setField(obj, key, value) }` -/
def SetTable (h : Heap N) (obj key value : V N) : Action N := setField h obj key value

/-- `GetField(obj, skey) { return ls.getFieldString(obj, skey) }` -/
def GetField (h : Heap N) (obj : V N) (skey : String) : Action N := getFieldString h obj skey

/-- `SetField(obj, key, value) { ls.setFieldString(obj, key, value) }` -/
def SetField (h : Heap N) (obj : V N) (key : String) (value : V N) : Action N := setFieldString h obj key value

/-- `GetGlobal(name) { return ls.GetField(ls.Get(GlobalsIndex), name) }`; `globals` = what `Get(GlobalsIndex)` reads. -/
def GetGlobal (h : Heap N) (globals : V N) (name : String) : Action N := GetField h globals name

/-- `SetGlobal(name, value) { ls.SetField(ls.Get(GlobalsIndex), name, value) }` -/
def SetGlobal (h : Heap N) (globals : V N) (name : String) (value : V N) : Action N := SetField h globals name value

/-- `Equal(lhs, rhs) bool { return equals(ls, lhs, rhs, false) }` -/
def Equal (p : Prims N) (h : Heap N) (lhs rhs : V N) : Action N := equals p h lhs rhs false

/-- `RawEqual(lhs, rhs) bool { return equals(ls, lhs, rhs, true) }` -/
def RawEqual (p : Prims N) (h : Heap N) (lhs rhs : V N) : Action N := equals p h lhs rhs true

/-- `LessThan(lhs, rhs) bool { return lessThan(ls, lhs, rhs) }` -/
def LessThan (p : Prims N) (h : Heap N) (lhs rhs : V N) : Action N := lessThan p h lhs rhs

/-- `GetMetatable(obj) LValue { return ls.metatable(obj, false) }` -/
def GetMetatable (h : Heap N) (obj : V N) : Action N := .raw (metatable h obj false)

/-! ### ObjLen -/

/-- the action of OP_LEN that corresponds to an outcome of `ObjLen`'s dispatch: the same handler call with the first
    result used as it is; no dispatch at all (`none`: ObjLen falls through to `return 0`) is the "len" error. -/
def lenOfApi : Option (Action N) → Action N
  | some (.call hd args _) => .call hd args .first
  | some a => a
  | none => .error .len

/-- what the Lua expression `#v` evaluates to in this implementation (OP_LEN), given what a handler call returns. -/
def lenValue (p : Prims N) (h : Heap N) (v ret : V N) : Except ErrKind (V N) :=
  match opLen p h v with
  | .raw x => .ok x
  | .call _ _ _ => .ok ret
  | .error k => .error k
  | _ => .error .len

/-- the Go `int` `ObjLen(v)` returns, given what the handler call returns; `toInt` is Go's `int(LNumber)`.
    (`if ret.Type() == LTNumber { return int(ret.(LNumber)) }` … `return 0`.) -/
def ObjLen (p : Prims N) (h : Heap N) (toInt : N → Int) (v ret : V N) : Int :=
  match objLen p h v with
  | some (.raw (.num n)) => toInt n
  | some (.call _ _ _) =>
    match ret with
    | .num n => toInt n
    | _ => 0
  | _ => 0

/-! ### Concat -/

/-- `Concat(values...) string`: `if len(values) == 0 { return "" }` (repair of C10-concat-no-operand: nothing is read,
    nothing is called); otherwise `top := reg.Top(); for … { reg.Push(value) }; ret := stringConcat(ls, len(values),
    reg.Top()-1); reg.SetTop(top); return LVAsString(ret)`. -/
inductive ConcatRes (N : Type) where
  | goPanic (site : String)
  | res (log : List (Call N)) (r : Except ErrKind String)
deriving DecidableEq, Repr

def Concat (p : Prims N) (h : Heap N) (ret : V N → List (V N) → V N) (values : List (V N)) : ConcatRes N :=
  match values with
  | [] => .res [] (.ok "")
  | _ =>
    let (log, r) := stringConcat p h ret values
    .res log (r.map (lvAsString p))

/-- `Concat` as it was BEFORE the repair of C10-concat-no-operand: with no operand at all `stringConcat(ls, 0, top-1)`
    reads `reg.Get(top-1)` — whatever lies below: `below` (`none` = the registry is empty: a slice index -1) — and its
    loop does not run (Props/C10 `concat_no_operand_before_fix_reads_stack`). -/
def ConcatOld (p : Prims N) (h : Heap N) (ret : V N → List (V N) → V N) (values : List (V N)) (below : Option (V N)) :
    ConcatRes N :=
  match values with
  | [] =>
    match below with
    | none => .goPanic "stringConcat: L.reg.Get(-1)"
    | some v => .res [] (.ok (lvAsString p v))
  | _ =>
    let (log, r) := stringConcat p h ret values
    .res log (r.map (lvAsString p))

end GLua.ApiObj
