/-
  Model of the Go value-stack API of /repo/state.go (C10):
    registry            : `array []LValue` (a Go slice, len = cap) + `top`, with growth
                          (`checkSize / resize / forceResize`), `SetTop / Push / Pop / Get / Set / CopyRange`
    LState (stack part) : `indexToReg`, `currentLocalBase`, `GetTop / SetTop / Get / Replace / Push / Pop /
                          Insert / Remove`, the host-function return of vm.go `callGFunction`, and the result
                          adjustment of `callR / Call / PCall`.
  Every function is a transcription of the Go function of the same name (same case splits, same
  arithmetic).  A slot of the slice is either a Go `nil` interface (`.goNil`: never written, or cleared by
  SetTop/CopyRange/forceResize) or an LValue (`.val none` = LNil).  Every slice index / slice expression
  that can be out of range is an explicit `.goPanic`.  Registry indices are Go `int`s, hence `Int` where the
  code can produce a negative one.  The pseudo-indices (`idx <= RegistryIndex`) of Get/Replace do not
  touch the registry: in `get`/`replace` they are an explicit error branch (excluded by guard in the list theorems);
  their own branches are `getPseudo`/`replacePseudo` at the end of this file.
-/
import GLua.Basic
import GLua.Generated.Consts

namespace GLua.ApiStack
open GLua

inductive Slot where
  | goNil
  | val (v : OVal)
deriving DecidableEq, Repr, Inhabited

def Slot.show : Slot → String
  | .goNil => "G"
  | .val v => OVal.show v

/-- what a caller of `LState.Get` sees: an LValue; a Go nil interface is not one. -/
def Slot.toOVal : Slot → OVal
  | .goNil => none
  | .val v => v

structure Reg where
  array   : List Slot          -- len(array) = cap(array): always made by make([]LValue, n)
  top     : Nat
  growBy  : Nat
  maxSize : Nat
deriving DecidableEq, Repr, Inhabited

def overflow : Err := .luaError "registry overflow"

/-- `newSlice := make([]LValue, newSize); copy(newSlice, rg.array[:rg.top])` -/
def forceResize (r : Reg) (newSize : Nat) : Except Err Reg :=
  if r.top > r.array.length then .error (.goPanic "forceResize: rg.array[:rg.top]")
  else
    .ok { r with array := r.array.take (min r.top newSize) ++
                          List.replicate (newSize - (r.array.take (min r.top newSize)).length) .goNil }

/-- `newSize := requiredSize + rg.growBy; if newSize > rg.maxSize { newSize = rg.maxSize }` -/
def resizeTarget (r : Reg) (requiredSize : Nat) : Nat :=
  if requiredSize + r.growBy > r.maxSize then r.maxSize else requiredSize + r.growBy

def resize (r : Reg) (requiredSize : Nat) : Except Err Reg :=
  if resizeTarget r requiredSize < requiredSize then .error overflow   -- handler.registryOverflow() raises, never returns
  else forceResize r (resizeTarget r requiredSize)

def checkSize (r : Reg) (requiredSize : Int) : Except Err Reg :=
  if requiredSize > r.array.length then resize r requiredSize.toNat else .ok r

/-- set the slots `lo ≤ i < hi` to `x` (a Go `for` over an index range that is known to be in bounds). -/
def fillRange (l : List Slot) (lo hi : Nat) (x : Slot) : List Slot :=
  l.mapIdx fun i s => if lo ≤ i ∧ i < hi then x else s

def regSetTop (r : Reg) (topi : Int) : Except Err Reg := do
  let r ← checkSize r topi
  if topi < 0 then .error (.goPanic "registry.SetTop: negative top")
  else if topi.toNat > r.array.length then .error (.goPanic "registry.SetTop: index out of range")
  else
    let oldtop := r.top
    let t := topi.toNat
    -- for i := oldtop; i < top; i++ { array[i] = LNil };  if top < oldtop { array[top:oldtop] = nil… }
    .ok { r with top := t, array := fillRange (fillRange r.array oldtop t (.val none)) t oldtop .goNil }

def regPush (r : Reg) (v : OVal) : Except Err Reg := do
  let r ← checkSize r (r.top + 1)
  if r.top ≥ r.array.length then .error (.goPanic "registry.Push: index out of range")
  else .ok { r with array := r.array.set r.top (.val v), top := r.top + 1 }

def regGet (r : Reg) (reg : Int) : Except Err Slot :=
  if reg < 0 ∨ reg ≥ r.array.length then .error (.goPanic "registry.Get: index out of range")
  else .ok (r.array.getD reg.toNat .goNil)

def regPop (r : Reg) : Except Err (Slot × Reg) :=
  if r.top = 0 ∨ r.top - 1 ≥ r.array.length then .error (.goPanic "registry.Pop: index out of range")
  else .ok (r.array.getD (r.top - 1) .goNil,
            { r with array := r.array.set (r.top - 1) (.val none), top := r.top - 1 })

def regSet (r : Reg) (regi : Int) (v : Slot) : Except Err Reg := do
  let r ← checkSize r (regi + 1)
  if regi < 0 ∨ regi ≥ r.array.length then .error (.goPanic "registry.Set: index out of range")
  else
    let i := regi.toNat
    .ok { r with array := r.array.set i v, top := if i ≥ r.top then i + 1 else r.top }

/-- `CopyRange(regv, start, limit, n)`; the `for` loop, `i` counting up. -/
def copyLoop (a : List Slot) (regv start limit : Int) : (n i : Nat) → Except Err (List Slot)
  | 0, _ => .ok a
  | n + 1, i =>
    let srcIdx := start + i
    let dst := regv + i
    if dst < 0 ∨ dst ≥ a.length then .error (.goPanic "CopyRange: index out of range")
    else if srcIdx ≥ limit ∨ srcIdx < 0 then copyLoop (a.set dst.toNat (.val none)) regv start limit n (i + 1)
    else if srcIdx ≥ a.length then .error (.goPanic "CopyRange: index out of range")
    else copyLoop (a.set dst.toNat (a.getD srcIdx.toNat .goNil)) regv start limit n (i + 1)

def regCopyRange (r : Reg) (regv start limit n : Int) : Except Err Reg := do
  let r ← checkSize r (regv + n)
  let limit := if limit = -1 ∨ limit > r.top then (r.top : Int) else limit
  let a ← copyLoop r.array regv start limit n.toNat 0
  let newTop := regv + n
  if newTop < 0 then .error (.goPanic "CopyRange: negative top")
  else
    let oldtop := r.top
    .ok { r with array := fillRange a newTop.toNat oldtop .goNil, top := newTop.toNat }

/-- the part of an `LState` the stack API touches: the registry and `currentFrame.LocalBase`
    (0 when there is no current frame, `currentLocalBase`). -/
structure St where
  reg  : Reg
  base : Nat
deriving DecidableEq, Repr, Inhabited

def currentLocalBase (s : St) : Int := s.base

def indexToReg (s : St) (idx : Int) : Int :=
  let base := currentLocalBase s
  if idx > 0 then base + idx - 1
  else if idx = 0 then -1
  else
    let tidx := (s.reg.top : Int) + idx
    if tidx < base then -1 else tidx

def getTop (s : St) : Int := (s.reg.top : Int) - currentLocalBase s

def setTop (s : St) (idx : Int) : Except Err St := do
  let base := currentLocalBase s
  let newtop := indexToReg s idx + 1
  let r ← if newtop < base then regSetTop s.reg base else regSetTop s.reg newtop
  .ok { s with reg := r }

def pseudo : Err := .luaError "pseudo-index: not modelled"

def replace (s : St) (idx : Int) (value : OVal) : Except Err St :=
  let base := currentLocalBase s
  if idx > 0 then
    let reg := base + idx - 1
    if reg < s.reg.top then do let r ← regSet s.reg reg (.val value); .ok { s with reg := r }
    else .ok s
  else if idx = 0 then .ok s
  else if idx > Generated.RegistryIndex then
    let tidx := (s.reg.top : Int) + idx
    if tidx ≥ base then do let r ← regSet s.reg tidx (.val value); .ok { s with reg := r }
    else .ok s
  else .error pseudo

def get (s : St) (idx : Int) : Except Err Slot :=
  let base := currentLocalBase s
  if idx > 0 then
    let reg := base + idx - 1
    if reg < s.reg.top then regGet s.reg reg else .ok (.val none)
  else if idx = 0 then .ok (.val none)
  else if idx > Generated.RegistryIndex then
    let tidx := (s.reg.top : Int) + idx
    if tidx < base then .ok (.val none) else regGet s.reg tidx
  else .error pseudo

def push (s : St) (v : OVal) : Except Err St := do
  let r ← regPush s.reg v
  .ok { s with reg := r }

def underflow : Err := .luaError "register underflow"

def pop (s : St) : (n : Nat) → Except Err St
  | 0 => .ok s
  | n + 1 =>
    if getTop s = 0 then .error underflow
    else do
      let (_, r) ← regPop s.reg
      pop { s with reg := r } n

/-- `for ; top >= reg; top-- { reg.Set(top+1, reg.Get(top)) }` with `k` iterations left, `top = reg+k-1`. -/
def insertLoop (r : Reg) (reg : Nat) : (k : Nat) → Except Err Reg
  | 0 => .ok r
  | k + 1 => do
    let v ← regGet r ((reg + k : Nat) : Int)
    let r ← regSet r ((reg + k + 1 : Nat) : Int) v
    insertLoop r reg k

def insert (s : St) (value : OVal) (index : Int) : Except Err St := do
  let reg := indexToReg s index
  let top := s.reg.top
  if reg ≥ top then
    let r ← regSet s.reg reg (.val value)
    .ok { s with reg := r }
  else
    let reg := if reg ≤ currentLocalBase s then currentLocalBase s else reg
    let r ← insertLoop s.reg reg.toNat (top - reg.toNat)
    let r ← regSet r reg (.val value)
    .ok { s with reg := r }

/-- `for i := reg; i < top-1; i++ { reg.Set(i, reg.Get(i+1)) }` with `k` iterations left. -/
def removeLoop (r : Reg) : (i k : Nat) → Except Err Reg
  | _, 0 => .ok r
  | i, k + 1 => do
    let v ← regGet r ((i + 1 : Nat) : Int)
    let r ← regSet r (i : Int) v
    removeLoop r (i + 1) k

def remove (s : St) (index : Int) : Except Err St :=
  let reg := indexToReg s index
  let top : Int := s.reg.top
  if reg ≥ top then .ok s
  else if reg < currentLocalBase s then .ok s
  else if reg = top - 1 then pop s 1
  else do
    let r ← removeLoop s.reg reg.toNat (s.reg.top - 1 - reg.toNat)
    let r ← regSetTop r (top - 1)
    .ok { s with reg := r }

/-! ### call / return contract -/

/-- vm.go `callGFunction` (no tail call, not a coroutine boundary): the host function returned `gfnret`;
    `CopyRange(ReturnBase, Top()-gfnret, -1, wantret)`, then the frame is popped — the caller's base is
    `callerBase`. -/
def callGFunctionRet (s : St) (returnBase : Int) (nRet : Int) (gfnret : Int) (callerBase : Nat) : Except Err St := do
  let wantret := if nRet = Generated.MultRet then gfnret else nRet
  let r ← regCopyRange s.reg returnBase ((s.reg.top : Int) - gfnret) (-1) wantret
  .ok { reg := r, base := callerBase }

/-- state.go `callR(nargs, nret, -1)` as used by `Call/PCall/CallByParam`, with a host-function callee that
    leaves `produced` on top of whatever else it pushed (`junk`) and returns `len(produced)`:
    `base := Top()-nargs-1`; frame `LocalBase = base+1`, `ReturnBase = rbase = base`; after the main loop
    `if nret != MultRet { reg.SetTop(rbase + nret) }`. -/
def callR (s : St) (nargs nret : Int) (junk produced : List OVal) : Except Err St := do
  let base := (s.reg.top : Int) - nargs - 1
  let _fn ← regGet s.reg base            -- lv := ls.reg.Get(base)
  let callee : St := { reg := s.reg, base := (base + 1).toNat }
  let callee ← (junk ++ produced).foldlM push callee
  let s' ← callGFunctionRet callee base nret produced.length s.base
  if nret ≠ Generated.MultRet then do
    let r ← regSetTop s'.reg (base + nret)
    .ok { s' with reg := r }
  else .ok s'

/-- the recovery path of `PCall`: whatever the failed callee left in the registry above `base`,
    `ls.reg.SetTop(base)` with `base := Top()-nargs-1` computed before the call. -/
def pcallRecover (s : St) (nargs : Int) (atFailure : Reg) : Except Err St := do
  let base := (s.reg.top : Int) - nargs - 1
  let r ← regSetTop atFailure base
  .ok { s with reg := r }

/-- the way the deferred function of `PCall` is left once the callee has failed. -/
inductive RecoverPath where
  | noHandler        -- `errfunc == nil`: only the stack trace is filled in
  | handlerReturned  -- `Push(errfunc); Push(obj); Call(1, 1)` came back; `err = Get(-1)`; then the common tail
  | handlerFailed    -- the handler call itself failed (Lua error, Go value, overflow while pushing): inner deferred recover
  deriving DecidableEq, Repr

/-- `PCall`'s deferred function as a whole, by exit path.  `atExit` is the thread at the moment the path reaches its
    `stack.SetSp(sp); currentFrame = stack.Last(); closeUpvalues(base); reg.SetTop(base)`: `atExit.reg` is whatever
    callee and handler left, `atExit.base` the LocalBase of whatever frame was current then (a dead callee or handler
    frame).  Each of the three paths has its own copy of those four statements in state.go; each restores the frame of
    the function that made the protected call (`s.base`: `stack.Last()` after `SetSp(sp)`) and cuts the registry at
    `base := Top()-nargs-1`, computed before the call. -/
def pcallDeferred (s : St) (nargs : Int) (path : RecoverPath) (atExit : St) : Except Err St := do
  let base := (s.reg.top : Int) - nargs - 1
  match path with
  | .noHandler => do
    let r ← regSetTop atExit.reg base
    .ok { reg := r, base := s.base }
  | .handlerReturned => do
    let r ← regSetTop atExit.reg base
    .ok { reg := r, base := s.base }
  | .handlerFailed => do
    let r ← regSetTop atExit.reg base
    .ok { reg := r, base := s.base }

/-- `ObjLen` (state.go) as a function of the operand class and of what the `__len` handler returned.
    `lenRes`: result of the handler when there is one; `tblLen`: `LTable.Len()` for tables. -/
inductive LenOperand where
  | str (n : Nat)                       -- a string of n bytes
  | handler (ret : OVal)                   -- `__len` is a function; it returned `ret`
  | tbl (n : Nat)                       -- a table without `__len`
  | other                               -- anything else without `__len` (userdata, numbers, …)

/-- Go's `int(LNumber)` on an integral value; non-integral results are truncated by the harness-side
    canonicalisation (the wire form `f…` is mapped to `none` here: trusted, see notes). -/
def objLen : LenOperand → Option Int
  | .str n => some n
  | .handler (some (.int i)) => some i
  | .handler (some (.flt _)) => none        -- `int(float)` truncation: compared in Go
  | .handler _ => some 0
  | .tbl n => some n
  | .other => some 0

/-! ## pseudo-indices (`idx <= RegistryIndex`) of `Get` / `Replace`
  The `else` branches of the two functions.  They do not address the value stack at all (the registry is not even
  an argument here): registry table, environment of the running function, globals table, upvalues of the running
  host function.  `isTable` is the outcome of the type assertion `value.(*LTable)`. -/

/-- `ls.currentFrame.Fn`: its `Env` and the values held by its `Upvalues`. -/
structure FnCells where
  env : OVal
  ups : List OVal
deriving DecidableEq, Repr

structure PSt where
  registry  : OVal              -- ls.G.Registry
  globals   : OVal              -- ls.G.Global
  threadEnv : OVal              -- ls.Env
  frame     : Option FnCells    -- ls.currentFrame (nil at top level)
deriving DecidableEq, Repr

def getPseudo (p : PSt) (idx : Int) : Except Err OVal :=
  if idx = Generated.RegistryIndex then .ok p.registry
  else if idx = Generated.EnvironIndex then
    match p.frame with
    | none => .ok p.threadEnv
    | some f => .ok f.env
  else if idx = Generated.GlobalsIndex then .ok p.globals
  else
    match p.frame with
    | none => .error (.goPanic "Get: ls.currentFrame.Fn with currentFrame == nil")
    | some f =>
      let index := Generated.GlobalsIndex - idx - 1
      if index < f.ups.length then
        if index < 0 then .error (.goPanic "Get: fn.Upvalues[index]") else .ok (f.ups.getD index.toNat none)
      else .ok none

def replacePseudo (p : PSt) (idx : Int) (value : OVal) (isTable : Bool) : Except Err PSt :=
  if idx = Generated.RegistryIndex then
    if isTable then .ok { p with registry := value } else .error (.luaError "registry must be a table")
  else if idx = Generated.EnvironIndex then
    match p.frame with
    | none => .error (.luaError "no calling environment")
    | some f =>
      if isTable then .ok { p with frame := some { f with env := value } }
      else .error (.luaError "environment must be a table")
  else if idx = Generated.GlobalsIndex then
    if isTable then .ok { p with globals := value } else .error (.luaError "_G must be a table")
  else
    match p.frame with
    | none => .error (.goPanic "Replace: ls.currentFrame.Fn with currentFrame == nil")
    | some f =>
      let index := Generated.GlobalsIndex - idx - 1
      if index < f.ups.length then
        if index < 0 then .error (.goPanic "Replace: fn.Upvalues[index]")
        else .ok { p with frame := some { f with ups := f.ups.set index.toNat value } }
      else .ok p

end GLua.ApiStack
