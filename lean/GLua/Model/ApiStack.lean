/-
  Model of the Go value-stack API of /repo/state.go (C10):
    registry            : `array []LValue` (a Go slice, len = cap) + `top`, with growth
                          (`checkSize / resize / forceResize`), `SetTop / Push / Pop / Get / Set / CopyRange`
    LState (stack part) : `indexToReg`, `currentLocalBase`, `GetTop / SetTop / Get / Replace / Push / Pop /
                          Insert / Remove`, the host-function return of vm.go `callGFunction`, and the result
                          adjustment of `callR / Call / PCall`.
  Every function is a transcription of the Go function of the same name (same case splits, same
  arithmetic).  A slot of the slice is either a Go `nil` interface (`.goNil`: never written, or cleared by
  SetTop/CopyRange/forceResize) or an LValue (`.val none` = LNil).  Every slice index / slice expression
  that can be out of range is an explicit `.goPanic`.  Registry indices are Go `int`s, hence `Int` where the
  code can produce a negative one.  The pseudo-indices (`idx <= RegistryIndex`) of Get/Replace do not
  touch the registry: in `get`/`replace` they are an explicit error branch (excluded by guard in the list theorems);
  their own branches are `getPseudo`/`replacePseudo` at the end of this file.
-/
import GLua.Basic
import GLua.Generated.Consts
import GLua.Spec.StackSpec   -- only for the syntax of histories (`StackOp`)

namespace GLua.ApiStack
open GLua

inductive Slot where
  | goNil
  | val (v : OVal)
deriving DecidableEq, Repr, Inhabited

def Slot.show : Slot → String
  | .goNil => "G"
  | .val v => OVal.show v

/-- what a caller of `LState.Get` sees: an LValue; a Go nil interface is not one. -/
def Slot.toOVal : Slot → OVal
  | .goNil => none
  | .val v => v

structure Reg where
  array   : List Slot          -- len(array) = cap(array): always made by make([]LValue, n)
  top     : Nat
  growBy  : Nat
  maxSize : Nat
deriving DecidableEq, Repr, Inhabited

def overflow : Err := .luaError "registry overflow"

/-- `newSlice := make([]LValue, newSize); copy(newSlice, rg.array[:rg.top])` -/
def forceResize (r : Reg) (newSize : Nat) : Except Err Reg :=
  if r.top > r.array.length then .error (.goPanic "forceResize: rg.array[:rg.top]")
  else
    .ok { r with array := r.array.take (min r.top newSize) ++
                          List.replicate (newSize - (r.array.take (min r.top newSize)).length) .goNil }

/-- `newSize := requiredSize + rg.growBy; if newSize > rg.maxSize { newSize = rg.maxSize }` -/
def resizeTarget (r : Reg) (requiredSize : Nat) : Nat :=
  if requiredSize + r.growBy > r.maxSize then r.maxSize else requiredSize + r.growBy

def resize (r : Reg) (requiredSize : Nat) : Except Err Reg :=
  if resizeTarget r requiredSize < requiredSize then .error overflow   -- handler.registryOverflow() raises, never returns
  else forceResize r (resizeTarget r requiredSize)

def checkSize (r : Reg) (requiredSize : Int) : Except Err Reg :=
  if requiredSize > r.array.length then resize r requiredSize.toNat else .ok r

/-- set the slots `lo ≤ i < hi` to `x` (a Go `for` over an index range that is known to be in bounds). -/
def fillRange (l : List Slot) (lo hi : Nat) (x : Slot) : List Slot :=
  l.mapIdx fun i s => if lo ≤ i ∧ i < hi then x else s

def regSetTop (r : Reg) (topi : Int) : Except Err Reg := do
  let r ← checkSize r topi
  if topi < 0 then .error (.goPanic "registry.SetTop: negative top")
  else if topi.toNat > r.array.length then .error (.goPanic "registry.SetTop: index out of range")
  else
    let oldtop := r.top
    let t := topi.toNat
    -- for i := oldtop; i < top; i++ { array[i] = LNil };  if top < oldtop { array[top:oldtop] = nil… }
    .ok { r with top := t, array := fillRange (fillRange r.array oldtop t (.val none)) t oldtop .goNil }

def regPush (r : Reg) (v : OVal) : Except Err Reg := do
  let r ← checkSize r (r.top + 1)
  if r.top ≥ r.array.length then .error (.goPanic "registry.Push: index out of range")
  else .ok { r with array := r.array.set r.top (.val v), top := r.top + 1 }

def regGet (r : Reg) (reg : Int) : Except Err Slot :=
  if reg < 0 ∨ reg ≥ r.array.length then .error (.goPanic "registry.Get: index out of range")
  else .ok (r.array.getD reg.toNat .goNil)

def regPop (r : Reg) : Except Err (Slot × Reg) :=
  if r.top = 0 ∨ r.top - 1 ≥ r.array.length then .error (.goPanic "registry.Pop: index out of range")
  else .ok (r.array.getD (r.top - 1) .goNil,
            { r with array := r.array.set (r.top - 1) (.val none), top := r.top - 1 })

def regSet (r : Reg) (regi : Int) (v : Slot) : Except Err Reg := do
  let r ← checkSize r (regi + 1)
  if regi < 0 ∨ regi ≥ r.array.length then .error (.goPanic "registry.Set: index out of range")
  else
    let i := regi.toNat
    .ok { r with array := r.array.set i v, top := if i ≥ r.top then i + 1 else r.top }

/-- `CopyRange(regv, start, limit, n)`; the `for` loop, `i` counting up. -/
def copyLoop (a : List Slot) (regv start limit : Int) : (n i : Nat) → Except Err (List Slot)
  | 0, _ => .ok a
  | n + 1, i =>
    let srcIdx := start + i
    let dst := regv + i
    if dst < 0 ∨ dst ≥ a.length then .error (.goPanic "CopyRange: index out of range")
    else if srcIdx ≥ limit ∨ srcIdx < 0 then copyLoop (a.set dst.toNat (.val none)) regv start limit n (i + 1)
    else if srcIdx ≥ a.length then .error (.goPanic "CopyRange: index out of range")
    else copyLoop (a.set dst.toNat (a.getD srcIdx.toNat .goNil)) regv start limit n (i + 1)

def regCopyRange (r : Reg) (regv start limit n : Int) : Except Err Reg := do
  let r ← checkSize r (regv + n)
  let limit := if limit = -1 ∨ limit > r.top then (r.top : Int) else limit
  let a ← copyLoop r.array regv start limit n.toNat 0
  let newTop := regv + n
  if newTop < 0 then .error (.goPanic "CopyRange: negative top")
  else
    let oldtop := r.top
    .ok { r with array := fillRange a newTop.toNat oldtop .goNil, top := newTop.toNat }

/-- the part of an `LState` the stack API touches: the registry and `currentFrame.LocalBase`
    (0 when there is no current frame, `currentLocalBase`). -/
structure St where
  reg  : Reg
  base : Nat
deriving DecidableEq, Repr, Inhabited

def currentLocalBase (s : St) : Int := s.base

/-- Go's `int` has 64 bits and `+` / `-` wrap around silently (two's complement): `indexToReg` (SetTop / Insert / Remove). -/
def maxInt : Int := 9223372036854775807

def wrapInt (x : Int) : Int := (x + 9223372036854775808) % 18446744073709551616 - 9223372036854775808

def indexToReg (s : St) (idx : Int) : Int :=
  let base := currentLocalBase s
  if idx > 0 then wrapInt (base + idx - 1)
  else if idx = 0 then -1
  else
    let tidx := (s.reg.top : Int) + idx
    if tidx < base then -1 else tidx

def getTop (s : St) : Int := (s.reg.top : Int) - currentLocalBase s

def setTop (s : St) (idx : Int) : Except Err St := do
  let base := currentLocalBase s
  let newtop := indexToReg s idx + 1
  let r ← if newtop < base then regSetTop s.reg base else regSetTop s.reg newtop
  .ok { s with reg := r }

def pseudo : Err := .luaError "pseudo-index: not modelled"

/-- `Replace` — the positive branch compares BEFORE adding (`if idx <= ls.reg.Top()-base { reg.Set(base+idx-1, v) }`):
    `Top()-base` and, under the test, `base+idx-1 < Top()` are in the range of a Go `int`, nothing wraps
    (repair of C10-index-int-overflow; the code before the repair is `replaceOld`). -/
def replace (s : St) (idx : Int) (value : OVal) : Except Err St :=
  let base := currentLocalBase s
  if idx > 0 then
    if idx ≤ (s.reg.top : Int) - base then do
      let r ← regSet s.reg (base + idx - 1) (.val value); .ok { s with reg := r }
    else .ok s
  else if idx = 0 then .ok s
  else if idx > Generated.RegistryIndex then
    let tidx := (s.reg.top : Int) + idx
    if tidx ≥ base then do let r ← regSet s.reg tidx (.val value); .ok { s with reg := r }
    else .ok s
  else .error pseudo

/-- `Get` — same comparison before the addition (`if idx <= ls.reg.Top()-base { return reg.Get(base+idx-1) }`). -/
def get (s : St) (idx : Int) : Except Err Slot :=
  let base := currentLocalBase s
  if idx > 0 then
    if idx ≤ (s.reg.top : Int) - base then regGet s.reg (base + idx - 1) else .ok (.val none)
  else if idx = 0 then .ok (.val none)
  else if idx > Generated.RegistryIndex then
    let tidx := (s.reg.top : Int) + idx
    if tidx < base then .ok (.val none) else regGet s.reg tidx
  else .error pseudo

/-- `Replace` / `Get` as they were BEFORE the repair of C10-index-int-overflow: `reg := base + idx - 1` on Go ints
    (wrapping), then `if reg < ls.reg.Top()`.  Kept so that the negation of the full statement stays machine-checked
    (Props/C10 `get_never_panics_before_fix_fails`). -/
def replaceOld (s : St) (idx : Int) (value : OVal) : Except Err St :=
  let base := currentLocalBase s
  if idx > 0 then
    let reg := wrapInt (base + idx - 1)      -- `reg := base + idx - 1` on Go ints
    if reg < s.reg.top then do let r ← regSet s.reg reg (.val value); .ok { s with reg := r }
    else .ok s
  else if idx = 0 then .ok s
  else if idx > Generated.RegistryIndex then
    let tidx := (s.reg.top : Int) + idx
    if tidx ≥ base then do let r ← regSet s.reg tidx (.val value); .ok { s with reg := r }
    else .ok s
  else .error pseudo

def getOld (s : St) (idx : Int) : Except Err Slot :=
  let base := currentLocalBase s
  if idx > 0 then
    let reg := wrapInt (base + idx - 1)      -- `reg := base + idx - 1` on Go ints
    if reg < s.reg.top then regGet s.reg reg else .ok (.val none)
  else if idx = 0 then .ok (.val none)
  else if idx > Generated.RegistryIndex then
    let tidx := (s.reg.top : Int) + idx
    if tidx < base then .ok (.val none) else regGet s.reg tidx
  else .error pseudo

def push (s : St) (v : OVal) : Except Err St := do
  let r ← regPush s.reg v
  .ok { s with reg := r }

def underflow : Err := .luaError "register underflow"

def pop (s : St) : (n : Nat) → Except Err St
  | 0 => .ok s
  | n + 1 =>
    if getTop s = 0 then .error underflow
    else do
      let (_, r) ← regPop s.reg
      pop { s with reg := r } n

/-- `for ; top >= reg; top-- { reg.Set(top+1, reg.Get(top)) }` with `k` iterations left, `top = reg+k-1`. -/
def insertLoop (r : Reg) (reg : Nat) : (k : Nat) → Except Err Reg
  | 0 => .ok r
  | k + 1 => do
    let v ← regGet r ((reg + k : Nat) : Int)
    let r ← regSet r ((reg + k + 1 : Nat) : Int) v
    insertLoop r reg k

/-- `Insert` — in the `reg >= top` branch `ls.reg.SetTop(reg)` first (the skipped slots top..reg-1 become LNil; a no-op
    for reg = top), then `ls.reg.Set(reg, value)` (repair of C10-insert-beyond-top-gap; before: `insertOld`). -/
def insert (s : St) (value : OVal) (index : Int) : Except Err St := do
  let reg := indexToReg s index
  let top := s.reg.top
  if reg ≥ top then
    let r ← regSetTop s.reg reg
    let r ← regSet r reg (.val value)
    .ok { s with reg := r }
  else
    let reg := if reg ≤ currentLocalBase s then currentLocalBase s else reg
    let r ← insertLoop s.reg reg.toNat (top - reg.toNat)
    let r ← regSet r reg (.val value)
    .ok { s with reg := r }

/-- `Insert` as it was BEFORE the repair of C10-insert-beyond-top-gap: `if reg >= top { ls.reg.Set(reg, value); return }`
    (Props/C10 `insert_keeps_wf_before_fix_fails`). -/
def insertOld (s : St) (value : OVal) (index : Int) : Except Err St := do
  let reg := indexToReg s index
  let top := s.reg.top
  if reg ≥ top then
    let r ← regSet s.reg reg (.val value)
    .ok { s with reg := r }
  else
    let reg := if reg ≤ currentLocalBase s then currentLocalBase s else reg
    let r ← insertLoop s.reg reg.toNat (top - reg.toNat)
    let r ← regSet r reg (.val value)
    .ok { s with reg := r }

/-- `for i := reg; i < top-1; i++ { reg.Set(i, reg.Get(i+1)) }` with `k` iterations left. -/
def removeLoop (r : Reg) : (i k : Nat) → Except Err Reg
  | _, 0 => .ok r
  | i, k + 1 => do
    let v ← regGet r ((i + 1 : Nat) : Int)
    let r ← regSet r (i : Int) v
    removeLoop r (i + 1) k

def remove (s : St) (index : Int) : Except Err St :=
  let reg := indexToReg s index
  let top : Int := s.reg.top
  if reg ≥ top then .ok s
  else if reg < currentLocalBase s then .ok s
  else if reg = top - 1 then pop s 1
  else do
    let r ← removeLoop s.reg reg.toNat (s.reg.top - 1 - reg.toNat)
    let r ← regSetTop r (top - 1)
    .ok { s with reg := r }

/-! ### call / return contract -/

/-- vm.go `callGFunction` (no tail call, not a coroutine boundary): the host function returned `gfnret`;
    `CopyRange(ReturnBase, Top()-gfnret, -1, wantret)`, then the frame is popped — the caller's base is
    `callerBase`. -/
def callGFunctionRet (s : St) (returnBase : Int) (nRet : Int) (gfnret : Int) (callerBase : Nat) : Except Err St := do
  let wantret := if nRet = Generated.MultRet then gfnret else nRet
  let r ← regCopyRange s.reg returnBase ((s.reg.top : Int) - gfnret) (-1) wantret
  .ok { reg := r, base := callerBase }

/-! #### the composed call: state.go `callR(nargs, nret, -1)` as used by `Call / PCall / CallByParam`

  `callR` = `base := Top()-nargs-1; lv := reg.Get(base); fn, meta := metaCall(lv); pushCallFrame(…, lv, meta);
  mainLoop; if nret != MultRet { reg.SetTop(rbase+nret) }` with `rbase = base`.
  What `metaCall` finds is a parameter (`Callee`: callable selection is C04's subject); the body of a host callee is a
  parameter too (`GFunction`: any Go code driving the API on the callee's activation and returning a count);
  the run of a Lua callee is abstracted as the registry its OP_RETURN leaves (`callRLua`, C02's mechanism). -/

/-- one stack operation of the public API, as a host function performs it (syntax shared with the Spec). -/
abbrev StackOp := StackSpec.StackOp

def applyOp (s : St) : StackOp → Except Err St
  | .push v => push s v
  | .pop n => pop s n
  | .setTop i => setTop s i
  | .insert v i => insert s v i
  | .remove i => remove s i
  | .replace i v => replace s i v

def run (s : St) : List StackOp → Except Err St
  | [] => .ok s
  | o :: r => applyOp s o >>= fun s' => run s' r

/-- `registry.Insert(value, reg)`: `if reg >= top { Set(reg, value); return }; top--;
    for ; top >= reg; top-- { Set(top+1, Get(top)) }; Set(reg, value)`. -/
def regInsert (r : Reg) (value : Slot) (reg : Int) : Except Err Reg :=
  if reg ≥ r.top then regSet r reg value
  else if reg < 0 then .error (.goPanic "registry.Insert: Get(-1)")   -- the loop runs down to top = -1
  else do
    let r1 ← insertLoop r reg.toNat (r.top - reg.toNat)
    regSet r1 reg value

/-- what `metaCall(lv)` found: `lv` is a function / `lv` has a function `__call` (meta = true) / neither (fn = nil). -/
inductive Callee where
  | fn | viaCall | none
deriving DecidableEq, Repr

/-- `Fn.GFunction(L)`: arbitrary Go code working on the callee's activation; it returns the number of results. -/
abbrev GFunction := St → Except Err (St × Int)

def notCallable : Err := .luaError "attempt to call a non-function object"

/-- `if nret != MultRet { ls.reg.SetTop(rbase + nret) }` -/
def callRTail (s' : St) (rbase nret : Int) : Except Err St :=
  if nret ≠ Generated.MultRet then do
    let r ← regSetTop s'.reg (rbase + nret)
    .ok { s' with reg := r }
  else .ok s'

/-- `pushCallFrame(cf, lv, meta)` — `if meta { cf.NArgs++; ls.reg.Insert(lv, cf.LocalBase) }`,
    `if cf.Fn == nil { RaiseError }` (a full call-frame stack is C12's subject) — followed by `initCallFrame` for a host
    function (`Fn.IsG`): `ls.reg.SetTop(cf.LocalBase + cf.NArgs)`.  Result: the callee's activation, `LocalBase = base+1`. -/
def pushCallFrameG (s : St) (nargs : Int) (kind : Callee) (lv : Slot) : Except Err St :=
  let base := (s.reg.top : Int) - nargs - 1
  match kind with
  | .none => .error notCallable
  | .fn => do
    let r ← regSetTop s.reg (base + 1 + nargs)
    .ok { reg := r, base := (base + 1).toNat }
  | .viaCall => do
    let r ← regInsert s.reg lv (base + 1)
    let r ← regSetTop r (base + 1 + (nargs + 1))
    .ok { reg := r, base := (base + 1).toNat }

/-- `callR` with a host-function callee: frame pushed, `mainLoop` → `callGFunction`: the body runs on the callee's
    activation and returns `gfnret`, then `CopyRange(ReturnBase = base, Top()-gfnret, -1, wantret)`, the frame is popped
    (the base is the caller's again), and finally `if nret != MultRet { SetTop(rbase+nret) }`. -/
def callRHost (s : St) (nargs nret : Int) (kind : Callee) (body : GFunction) : Except Err St := do
  let base := (s.reg.top : Int) - nargs - 1
  let lv ← regGet s.reg base                -- lv := ls.reg.Get(base)
  match lv with
  | .goNil => .error (.goPanic "metaCall: lvalue is a nil interface")
  | .val _ => do
    let c ← pushCallFrameG s nargs kind lv
    let (callee, gfnret) ← body c
    if gfnret < 0 then .error (.luaError "yield: not modelled")   -- switchToParentThread: C06
    else do
      let s' ← callGFunctionRet callee base nret gfnret s.base
      callRTail s' base nret

/-- `callR` with a Lua callee: `mainLoop` returns when the callee's OP_RETURN has run; `afterLoop` is the registry it
    left (the frame is popped: the base is the caller's again). -/
def callRLua (s : St) (nargs nret : Int) (afterLoop : Reg) : Except Err St :=
  callRTail { reg := afterLoop, base := s.base } ((s.reg.top : Int) - nargs - 1) nret

/-- a host function that performs `ops` through the public API and returns `n`. -/
def opsBody (ops : List StackOp) (n : Int) : GFunction := fun c => do
  let c' ← run c ops
  .ok (c', n)

/-- the callee used by the plain `call` request: pushes `junk`, then `produced`, returns `len(produced)`. -/
def callR (s : St) (nargs nret : Int) (junk produced : List OVal) : Except Err St :=
  callRHost s nargs nret .fn (opsBody ((junk ++ produced).map .push) produced.length)

/-! #### the object-level entries that are not single delegations: their stack traffic

  `ObjLen`, `ToStringMeta` (one argument) and vm.go `stringConcat` (two arguments) call a handler with
  `Push(fn); Push(arg)…; Call(len(args), 1); ret := reg.Pop()`; `Concat` brackets `stringConcat` with
  `top := reg.Top(); reg.Push(value)…; …; reg.SetTop(top)`.  (Call texts regenerated: Generated/ApiBodies.lean.) -/

/-- `Push(fn); Push(a)…; Call(len(args), 1); ret := reg.Pop()`: the state afterwards and the popped slot. -/
def callHandler (s : St) (fn : OVal) (args : List OVal) (kind : Callee) (body : GFunction) : Except Err (St × Slot) := do
  let s ← run s ((fn :: args).map .push)
  let s ← callRHost s args.length 1 kind body
  let (x, r) ← regPop s.reg
  .ok ({ s with reg := r }, x)

/-- `Concat(values...)`: `if len(values) == 0 { return "" }` (the registry is not touched: repair of
    C10-concat-no-operand); otherwise `top := reg.Top()`, the pushes, whatever `stringConcat` does (`inner`: reads and
    handler calls), `reg.SetTop(top)`. -/
def concatFrame (s : St) (values : List OVal) (inner : St → Except Err St) : Except Err St :=
  if values.isEmpty then .ok s
  else do
    let top := s.reg.top
    let s1 ← run s (values.map .push)
    let s2 ← inner s1
    let r ← regSetTop s2.reg top
    .ok { s2 with reg := r }

/-- the recovery path of `PCall`: whatever the failed callee left in the registry above `base`,
    `ls.reg.SetTop(base)` with `base := Top()-nargs-1` computed before the call. -/
def pcallRecover (s : St) (nargs : Int) (atFailure : Reg) : Except Err St := do
  let base := (s.reg.top : Int) - nargs - 1
  let r ← regSetTop atFailure base
  .ok { s with reg := r }

/-- the way the deferred function of `PCall` is left once the callee has failed. -/
inductive RecoverPath where
  | noHandler        -- `errfunc == nil`: only the stack trace is filled in
  | handlerReturned  -- `Push(errfunc); Push(obj); Call(1, 1)` came back; `err = Get(-1)`; then the common tail
  | handlerFailed    -- the handler call itself failed (Lua error, Go value, overflow while pushing): inner deferred recover
  deriving DecidableEq, Repr

/-- `PCall`'s deferred function as a whole, by exit path.  `atExit` is the thread at the moment the path reaches its
    `stack.SetSp(sp); currentFrame = stack.Last(); closeUpvalues(base); reg.SetTop(base)`: `atExit.reg` is whatever
    callee and handler left, `atExit.base` the LocalBase of whatever frame was current then (a dead callee or handler
    frame).  Each of the three paths has its own copy of those four statements in state.go; each restores the frame of
    the function that made the protected call (`s.base`: `stack.Last()` after `SetSp(sp)`) and cuts the registry at
    `base := Top()-nargs-1`, computed before the call. -/
def pcallDeferred (s : St) (nargs : Int) (path : RecoverPath) (atExit : St) : Except Err St := do
  let base := (s.reg.top : Int) - nargs - 1
  match path with
  | .noHandler => do
    let r ← regSetTop atExit.reg base
    .ok { reg := r, base := s.base }
  | .handlerReturned => do
    let r ← regSetTop atExit.reg base
    .ok { reg := r, base := s.base }
  | .handlerFailed => do
    let r ← regSetTop atExit.reg base
    .ok { reg := r, base := s.base }

/-! #### a protected call that fails somewhere inside, composed

  `PCall(nargs, nret, errfunc)`: `base := Top()-nargs-1`, `Call(nargs, nret)` under `defer`.  The callee is entered
  (`pushCallFrameG`), pushes values and calls on, to any depth (`descend`: each level pushes junk / partial results / a
  function and its arguments and enters the next activation); the innermost activation pushes partial results and
  raises (`raiseError`: `Push(message)`, panic); an error handler, if there is one, runs in a frame above everything and
  leaves whatever it leaves (`hjunk`), returning or failing; the deferred function takes one of its exit paths. -/

/-- one activation on the way down: what it pushes (the last `nargs + 1` values are the function and the arguments of
    the call it then makes) and how `metaCall` resolves the called value. -/
structure Level where
  pushed : List OVal
  nargs  : Nat
  kind   : Callee
deriving DecidableEq, Repr

def descend : St → List Level → Except Err St
  | c, [] => .ok c
  | c, lv :: rest => do
    let c1 ← run c (lv.pushed.map .push)
    let f ← regGet c1.reg ((c1.reg.top : Int) - lv.nargs - 1)
    let c2 ← pushCallFrameG c1 lv.nargs lv.kind f
    descend c2 rest

def pcallFailAt (s : St) (nargs : Nat) (kind : Callee) (levels : List Level) (last : List OVal) (msg : OVal)
    (hjunk : List OVal) (path : RecoverPath) : Except Err St := do
  let lv ← regGet s.reg ((s.reg.top : Int) - nargs - 1)
  let c ← pushCallFrameG s nargs kind lv
  let ci ← descend c levels                                          -- nested activations; the innermost is current
  let cf ← run ci (last.map .push)                                   -- its partial results
  let ce ← push cf msg                                               -- raiseError: ls.Push(message); ls.Panic(ls)
  let ch ← run { ce with base := ce.reg.top } (hjunk.map .push)      -- what a handler's frame leaves above all that
  pcallDeferred s nargs path ch

/-- `ObjLen` (state.go) as a function of the operand class and of what the `__len` handler returned.
    `lenRes`: result of the handler when there is one; `tblLen`: `LTable.Len()` for tables. -/
inductive LenOperand where
  | str (n : Nat)                       -- a string of n bytes
  | handler (ret : OVal)                   -- `__len` is a function; it returned `ret`
  | tbl (n : Nat)                       -- a table without `__len`
  | other                               -- anything else without `__len` (userdata, numbers, …)

/-- Go's `int(LNumber)` on an integral value; non-integral results are truncated by the harness-side
    canonicalisation (the wire form `f…` is mapped to `none` here: trusted, see notes). -/
def objLen : LenOperand → Option Int
  | .str n => some n
  | .handler (some (.int i)) => some i
  | .handler (some (.flt _)) => none        -- `int(float)` truncation: compared in Go
  | .handler _ => some 0
  | .tbl n => some n
  | .other => some 0

/-! ## pseudo-indices (`idx <= RegistryIndex`) of `Get` / `Replace`
  The `else` branches of the two functions.  They do not address the value stack at all (the registry is not even
  an argument here): registry table, environment of the running function, globals table, upvalues of the running
  host function.  `isTable` is the outcome of the type assertion `value.(*LTable)`. -/

/-- `ls.currentFrame.Fn`: its `Env` and the values held by its `Upvalues`. -/
structure FnCells where
  env : OVal
  ups : List OVal
deriving DecidableEq, Repr

structure PSt where
  registry  : OVal              -- ls.G.Registry
  globals   : OVal              -- ls.G.Global
  threadEnv : OVal              -- ls.Env
  frame     : Option FnCells    -- ls.currentFrame (nil at top level)
deriving DecidableEq, Repr

def getPseudo (p : PSt) (idx : Int) : Except Err OVal :=
  if idx = Generated.RegistryIndex then .ok p.registry
  else if idx = Generated.EnvironIndex then
    match p.frame with
    | none => .ok p.threadEnv
    | some f => .ok f.env
  else if idx = Generated.GlobalsIndex then .ok p.globals
  else
    match p.frame with
    | none => .error (.goPanic "Get: ls.currentFrame.Fn with currentFrame == nil")
    | some f =>
      let index := Generated.GlobalsIndex - idx - 1
      if index < f.ups.length then
        if index < 0 then .error (.goPanic "Get: fn.Upvalues[index]") else .ok (f.ups.getD index.toNat none)
      else .ok none

def replacePseudo (p : PSt) (idx : Int) (value : OVal) (isTable : Bool) : Except Err PSt :=
  if idx = Generated.RegistryIndex then
    if isTable then .ok { p with registry := value } else .error (.luaError "registry must be a table")
  else if idx = Generated.EnvironIndex then
    match p.frame with
    | none => .error (.luaError "no calling environment")
    | some f =>
      if isTable then .ok { p with frame := some { f with env := value } }
      else .error (.luaError "environment must be a table")
  else if idx = Generated.GlobalsIndex then
    if isTable then .ok { p with globals := value } else .error (.luaError "_G must be a table")
  else
    match p.frame with
    | none => .error (.goPanic "Replace: ls.currentFrame.Fn with currentFrame == nil")
    | some f =>
      let index := Generated.GlobalsIndex - idx - 1
      if index < f.ups.length then
        if index < 0 then .error (.goPanic "Replace: fn.Upvalues[index]")
        else .ok { p with frame := some { f with ups := f.ups.set index.toNat value } }
      else .ok p

/-! ## `Get` / `Replace` as a whole: all four branches of the `if idx > 0 … else if idx == 0 … else if idx > RegistryIndex …
  else switch idx` chain.  The first three are `get` / `replace` above (they end in the marker error `pseudo` exactly when
  the fourth is taken); the fourth is `getPseudo` / `replacePseudo`. -/

/-- the part of an `LState` that `Get` / `Replace` can reach. -/
structure LSt where
  st : St        -- registry + current LocalBase
  p  : PSt       -- G.Registry, G.Global, ls.Env, currentFrame.Fn (Env, Upvalues)
deriving DecidableEq, Repr

def lget (l : LSt) (idx : Int) : Except Err Slot :=
  if idx > 0 ∨ idx = 0 ∨ idx > Generated.RegistryIndex then get l.st idx
  else (getPseudo l.p idx).map Slot.val

/-- `Get` as a whole before the repair of C10-index-int-overflow. -/
def lgetOld (l : LSt) (idx : Int) : Except Err Slot :=
  if idx > 0 ∨ idx = 0 ∨ idx > Generated.RegistryIndex then getOld l.st idx
  else (getPseudo l.p idx).map Slot.val

def lreplace (l : LSt) (idx : Int) (value : OVal) (isTable : Bool) : Except Err LSt :=
  if idx > 0 ∨ idx = 0 ∨ idx > Generated.RegistryIndex then do
    let st ← replace l.st idx value
    .ok { l with st := st }
  else do
    let p ← replacePseudo l.p idx value isTable
    .ok { l with p := p }

end GLua.ApiStack
