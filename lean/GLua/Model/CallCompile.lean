/-
  C02 — Model of the COMPILE-TIME half of calls: what /repo/compile.go emits for call shapes, and a machine that
  executes the emitted instructions with the run-time Model (Model/CallFrame.lean) as the semantics of
  OP_CALL / OP_TAILCALL / OP_RETURN / OP_VARARG / OP_SETLIST / OP_SELF.

  PART 1 (compiler).  Transcribed function by function (same names, same case splits, same arithmetic):

      savereg, shouldmove, ecnone, isVarArgReturnExpr (= `Ex.isMulti`), funcContext.ConstIndex, loadRk,
      codeStore.PropagateKMV / PropagateMV (`propagate`), compileExprWithPropagation,
      compileExpr            (constants, nil/true/false, local and global names, `...` = Comma3Expr, calls, constructors),
      compileFuncCallExpr    (function and arguments in consecutive registers, B = argc+1 / 0, C = varargopt+2,
                              OP_SELF for `obj:m(…)`, the "too many arguments or results" check, the MOVE to a local),
      compileTableExpr       (NEWTABLE, the field loop with its SETLIST flush decisions incl. the extra word for
                              batch numbers > 511, keyed fields through PropagateKMV, int2Fb size hints),
      compileReturnStmt      (`return local`, `return f(…)` → TAILCALL, `return (f(…))`, the general list, B operand),
      compileRegAssignment / compileLocalAssignStmt   (ecLocal / ecVararg contexts, LOADNIL padding, surplus expressions),
      compileAssignStmtLeft / Right / compileAssignStmt  (targets: global and local names),
      compileStmt (FuncCallStmt: varargopt = -1), compileChunk, compileFunctionExpr's final `RETURN 0 1`,
      the bulk-move rewriting of patchCode (`patchMoven`: runs of MOVE → MOVEN) and its register count (`numUsedRegs`).

  Representation.  Each compile function RETURNS the instructions it appends to the code store (`code`), so the
  store itself is not threaded; `Last()`/`Pop()`/`SetOpCode(LastPC())`/`SetB(tablepc)` act on the instructions of
  the sub-expression just compiled (every `compileExpr` emits at least one instruction, so that is what the Go
  code touches).  Operands are kept UNMASKED (`AddABC` truncates A to 8 and B/C to 9 bits): `Instr.mask` is the
  truncation, `Fits` says that it changes nothing.  A compile error (`raiseCompileError`, a Go panic that aborts
  the compilation) is the sticky field `CState.err`: the first message is kept, the code produced after it is
  meaningless.  An OP_SETLIST with C = 0 and the data word behind it are ONE `Instr.setlist … (some word)`.
  A local variable is identified with its register (`Atom.loc r`; unique names declared in order).

  PART 2 (machine).  `step` executes one instruction on `MS` = interpreter state of Model/CallFrame (`St`: registry
  and call-frame stack) + world + table heap.  A call is `opCall` (frame set-up by `initCallFrame`), then the callee's
  body — abstract: the result list is `sem` of what the frame set-up left in the parameter registers and in the
  `...` area, and an ORACLE (`luaBody`/`goBody`) says in which registers of its own frame the callee leaves them —,
  then `opReturn` / `gReturn`.  Registers never written hold Go nil; where the real code would pass a Go nil on as
  a value (argument, table store, global store) the machine stops with an explicit error instead.
-/
import GLua.Model.CallFrame
import GLua.Spec.CallShapes

namespace GLua.CallCompile
open GLua GLua.CallFrame GLua.CallShapes

/-! ## PART 1: the compiler -/

inductive Konst where
  | num (n : Int)
  | str (s : String)
deriving DecidableEq, Repr, Inhabited

def Konst.val : Konst → OVal
  | .num n => some (.int n)
  | .str s => some (.str s)

inductive Instr where
  | loadk (a bx : Nat)
  | loadnil (a b : Nat)
  | loadbool (a b c : Nat)
  | move (a b : Nat)
  | moven (a b c : Nat)             -- only produced by `patchMoven`
  | getglobal (a bx : Nat)
  | setglobal (a bx : Nat)
  | call (a b c : Nat)
  | tailcall (a b c : Nat)
  | ret (a b : Nat)
  | vararg (a b : Nat)
  | self (a b c : Nat)
  | newtable (a b c : Nat)
  | setlist (a b c : Nat) (extra : Option Nat)    -- `extra` = the data word that follows when C = 0
  | settable (a b c : Nat)
  | settableks (a b c : Nat)
deriving DecidableEq, Repr, Inhabited

def opMaxArgsA : Nat := Generated.opMaxArgsA
def opMaxArgsB : Nat := Generated.opMaxArgsB
def opMaxArgsC : Nat := Generated.opMaxArgsC
def opMaxArgBx : Nat := Generated.opMaxArgBx
def opMaxIndexRk : Nat := Generated.opMaxIndexRk
def opBitRk : Nat := Generated.opBitRk
def fieldsPerFlush : Nat := Generated.FieldsPerFlush
def regNotDefined : Nat := Generated.regNotDefined
def ecGlobal : Nat := Generated.ecGlobal
def ecLocal : Nat := Generated.ecLocal
def ecVararg : Nat := Generated.ecVararg
def ecNone : Nat := Generated.ecNone
def maxRegisters : Nat := Generated.maxRegisters

/-- `opSetArgA/B/C/Bx`: the truncation `AddABC`/`AddABx`/`SetB`/`SetC` apply to their operands. -/
def Instr.mask : Instr → Instr
  | .loadk a bx => .loadk (a % (opMaxArgsA + 1)) (bx % (opMaxArgBx + 1))
  | .loadnil a b => .loadnil (a % (opMaxArgsA + 1)) (b % (opMaxArgsB + 1))
  | .loadbool a b c => .loadbool (a % (opMaxArgsA + 1)) (b % (opMaxArgsB + 1)) (c % (opMaxArgsC + 1))
  | .move a b => .move (a % (opMaxArgsA + 1)) (b % (opMaxArgsB + 1))
  | .moven a b c => .moven (a % (opMaxArgsA + 1)) (b % (opMaxArgsB + 1)) (c % (opMaxArgsC + 1))
  | .getglobal a bx => .getglobal (a % (opMaxArgsA + 1)) (bx % (opMaxArgBx + 1))
  | .setglobal a bx => .setglobal (a % (opMaxArgsA + 1)) (bx % (opMaxArgBx + 1))
  | .call a b c => .call (a % (opMaxArgsA + 1)) (b % (opMaxArgsB + 1)) (c % (opMaxArgsC + 1))
  | .tailcall a b c => .tailcall (a % (opMaxArgsA + 1)) (b % (opMaxArgsB + 1)) (c % (opMaxArgsC + 1))
  | .ret a b => .ret (a % (opMaxArgsA + 1)) (b % (opMaxArgsB + 1))
  | .vararg a b => .vararg (a % (opMaxArgsA + 1)) (b % (opMaxArgsB + 1))
  | .self a b c => .self (a % (opMaxArgsA + 1)) (b % (opMaxArgsB + 1)) (c % (opMaxArgsC + 1))
  | .newtable a b c => .newtable (a % (opMaxArgsA + 1)) (b % (opMaxArgsB + 1)) (c % (opMaxArgsC + 1))
  | .setlist a b c e => .setlist (a % (opMaxArgsA + 1)) (b % (opMaxArgsB + 1)) (c % (opMaxArgsC + 1)) (e.map (· % 4294967296))
  | .settable a b c => .settable (a % (opMaxArgsA + 1)) (b % (opMaxArgsB + 1)) (c % (opMaxArgsC + 1))
  | .settableks a b c => .settableks (a % (opMaxArgsA + 1)) (b % (opMaxArgsB + 1)) (c % (opMaxArgsC + 1))

/-- no operand was truncated when the instruction was encoded. -/
def Instr.fits (i : Instr) : Bool := i.mask = i

def Fits (code : List Instr) : Prop := ∀ i ∈ code, i.fits = true

instance (code : List Instr) : Decidable (Fits code) := by unfold Fits; infer_instance

/-- compile state: `Proto.Constants`, `Proto.IsVarArg`, and the first compile error raised (sticky). -/
structure CState where
  consts : List Konst := []
  isVarArg : Nat := Generated.VarArgHasArg + Generated.VarArgNeedsArg + Generated.VarArgIsVarArg
  err : Option String := none
deriving Repr, Inhabited

def CState.fail (cs : CState) (msg : String) : CState :=
  { cs with err := match cs.err with | some e => some e | none => some msg }

structure ExpCtx where
  ctype : Nat
  reg : Nat
  varargopt : Int
deriving Repr, DecidableEq

/-- `ecnone(varargopt)` -/
def ecnone (v : Int) : ExpCtx := ⟨ecNone, regNotDefined, v⟩

def savereg (ec : ExpCtx) (reg : Nat) : Nat :=
  if ec.ctype ≠ ecLocal ∨ ec.reg = regNotDefined then reg else ec.reg

def shouldmove (ec : ExpCtx) (reg : Nat) : Bool :=
  ec.ctype = ecLocal && ec.reg ≠ regNotDefined && ec.reg ≠ reg

def findIdx (cs : List Konst) (k : Konst) : Option Nat :=
  match cs with
  | [] => none
  | c :: r => if c = k then some 0 else (findIdx r k).map (· + 1)

/-- `funcContext.ConstIndex(value)`: the first equal constant of the same type, else append (the constants of this
    fragment are integers and strings: the ±0 / NaN clauses of the Go function do not arise). -/
def constIndex (cs : CState) (k : Konst) : CState × Nat :=
  match findIdx cs.consts k with
  | some i => (cs, i)
  | none =>
    let cs' := { cs with consts := cs.consts ++ [k] }
    (if cs.consts.length > opMaxArgBx then cs'.fail "too many constants" else cs', cs.consts.length)

/-- result of `compileExpr`: appended instructions, state, and the returned register increment. -/
structure Res where
  code : List Instr
  cs : CState
  inc : Nat
deriving Repr, Inhabited

def Atom.konst? : Atom → Option Konst
  | .num n => some (.num n)
  | .str s => some (.str s)
  | _ => none

/-- the leaf cases of `compileExpr` (StringExpr, NumberExpr, NilExpr, FalseExpr, TrueExpr, IdentExpr). -/
def compAtom (a : Atom) (sreg : Nat) (cs : CState) : List Instr × CState :=
  match a with
  | .num n => let p := constIndex cs (.num n); ([.loadk sreg p.2], p.1)
  | .str s => let p := constIndex cs (.str s); ([.loadk sreg p.2], p.1)
  | .nil => ([.loadnil sreg sreg], cs)
  | .fls => ([.loadbool sreg 0 0], cs)
  | .tru => ([.loadbool sreg 1 0], cs)
  | .glob g => let p := constIndex cs (.str g); ([.getglobal sreg p.2], p.1)
  | .loc b => ([.move sreg b], cs)

/-- the leaf cases of `compileExpr` with its prologue (`sreg`, `sused`). -/
def compAtomRes (a : Atom) (reg : Nat) (ec : ExpCtx) (cs : CState) : Res :=
  let sreg := savereg ec reg
  let sused := if sreg < reg then 0 else 1
  let p := compAtom a sreg cs
  ⟨p.1, p.2, sused⟩

/-- the Comma3Expr case of `compileExpr`. -/
def compDots (rt reg : Nat) (ec : ExpCtx) (cs : CState) : Res :=
  let sreg := savereg ec reg
  let cs := if cs.isVarArg = 0 then cs.fail "cannot use '...' outside a vararg function" else cs
  let cs := { cs with isVarArg := if cs.isVarArg / Generated.VarArgNeedsArg % 2 = 1 then cs.isVarArg - Generated.VarArgNeedsArg
                                  else cs.isVarArg }          -- IsVarArg &= ^VarArgNeedsArg
  if sreg < reg then ⟨[.vararg reg 2, .move sreg reg], cs, 0⟩
  else
    let cs := if 2 + ec.varargopt > (opMaxArgsB : Int) then cs.fail "too many results of '...'" else cs
    let code := [Instr.vararg sreg (2 + ec.varargopt).toNat]
    if (rt : Int) > (sreg : Int) + 2 + ec.varargopt ∨ ec.varargopt < -1 then ⟨code, cs, 0⟩
    else ⟨code, cs, ((sreg : Int) + 1 + ec.varargopt - (reg : Int)).toNat⟩

/-- `codeStore.PropagateKMV` (kmv) / `PropagateMV` on the code of the sub-expression just compiled:
    (code, save, reg). -/
def propagate (kmv : Bool) (top : Nat) (code : List Instr) (reg inc : Nat) : List Instr × Nat × Nat :=
  match code.getLast? with
  | some (.loadk a bx) =>
    if a ≥ top ∧ kmv ∧ bx ≤ opMaxIndexRk then (code.dropLast, bx + opBitRk, reg) else (code, reg, reg + inc)
  | some (.move a b) =>
    if a ≥ top then (code.dropLast, b, reg) else (code, reg, reg + inc)
  | _ => (code, reg, reg + inc)

/-- `loadRk(context, &reg, expr, cnst)`: (appended code, state, rk operand, reg). -/
def loadRk (cs : CState) (reg : Nat) (k : Konst) : List Instr × CState × Nat × Nat :=
  let p := constIndex cs k
  if p.2 ≤ opMaxIndexRk then ([], p.1, p.2 + opBitRk, reg)
  else ([.loadk reg p.2], p.1, reg, reg + 1)

/-- the tail of `compileFuncCallExpr`: operand B, the operand check, OP_CALL, the MOVE to a local, the increment. -/
def finishCall (rt funcreg argc : Nat) (islastvararg : Bool) (ec : ExpCtx) (code : List Instr) (cs : CState) : Res :=
  let b := if islastvararg then 0 else argc + 1
  let cs := if b > opMaxArgsB ∨ ec.varargopt + 2 > (opMaxArgsC : Int) then
              cs.fail "too many arguments or results in function call" else cs
  let code := code ++ [.call funcreg b (ec.varargopt + 2).toNat]
  if ec.varargopt = 0 ∧ shouldmove ec funcreg then ⟨code ++ [.move ec.reg funcreg], cs, 1⟩
  else if (rt : Int) > (funcreg : Int) + 2 + ec.varargopt ∨ ec.varargopt < -1 then ⟨code, cs, 0⟩
  else ⟨code, cs, (ec.varargopt + 1).toNat⟩

/-- `int2Fb` (utils.go): the "floating byte" size hint of OP_NEWTABLE; `fuel` bounds the halving loop. -/
def int2FbLoop : Nat → Nat → Nat → Nat × Nat
  | 0, x, e => (x, e)
  | fuel + 1, x, e => if x ≥ 16 then int2FbLoop fuel ((x + 1) / 2) (e + 1) else (x, e)

def int2Fb (val : Nat) : Nat :=
  let p := int2FbLoop val val 0
  if p.1 < 8 then p.1 else (p.2 + 1) * 8 + (p.1 - 8)     -- ((e+1) << 3) | (x-8), x-8 < 8

/-- the SETLIST (and data word) `compileTableExpr` emits when it flushes. -/
def flushInstr (tablereg arraycount : Nat) (lastvararg : Bool) : Instr :=
  let flush := arraycount % fieldsPerFlush
  let num := if flush = 0 then fieldsPerFlush else flush
  let c := if lastvararg then arraycount / fieldsPerFlush + 1 else (arraycount - 1) / fieldsPerFlush + 1
  let b := if lastvararg then 0 else num
  if c > 511 then .setlist tablereg b 0 (some c) else .setlist tablereg b c none

/-- result of an expression-list loop: appended code, state, the register after the loop, "the last expression
    was compiled open-ended". -/
structure LRes where
  code : List Instr
  cs : CState
  reg : Nat
  lastMulti : Bool
deriving Repr, Inhabited

/-- result of the field loop of `compileTableExpr`. -/
structure FRes where
  code : List Instr
  cs : CState
  arraycount : Nat
deriving Repr, Inhabited

mutual
/-- `compileExpr(context, reg, expr, ec)`; `rt` = `context.RegTop()`. -/
def compExpr (rt : Nat) : Ex → Nat → ExpCtx → CState → Res
  | .atom a, reg, ec, cs => compAtomRes a reg ec cs
  | .dots _, reg, ec, cs => compDots rt reg ec cs
  | .call _ f args, reg, ec, cs =>
    -- compileFuncCallExpr, `expr.Func != nil`
    let r1 := compExpr rt f reg (ecnone 0) cs
    let r2 := compList rt args (reg + r1.inc) r1.cs
    finishCall rt reg args.length r2.lastMulti ec (r1.code ++ r2.code) r2.cs
  | .mcall _ recv m args, reg, ec, cs =>
    -- compileFuncCallExpr, `hoge:method()`
    let r1 := compExpr rt recv reg (ecnone 0) cs
    let p := propagate false rt r1.code reg r1.inc            -- compileExprWithMVPropagation(Receiver, &reg, &b)
    let b := p.2.1
    let lk := loadRk r1.cs p.2.2 (.str m)
    let c := lk.2.2.1
    let reg1 := b + 1
    let reg2 := reg + 2
    let reg' := if reg2 > reg1 then reg2 else reg1
    let r2 := compList rt args reg' lk.2.1
    finishCall rt reg (args.length + 1) r2.lastMulti ec (p.1 ++ lk.1 ++ [.self reg b c] ++ r2.code) r2.cs
  | .tbl keys vals, reg, ec, cs =>
    -- compileTableExpr
    let tablereg := reg
    let r := compFields rt tablereg (reg + 1) keys vals (reg + 1) 0 cs
    let code := [Instr.newtable tablereg (int2Fb r.arraycount) (int2Fb (vals.length - r.arraycount))] ++ r.code
    ⟨if shouldmove ec tablereg then code ++ [.move ec.reg tablereg] else code, r.cs, 1⟩
/-- the argument loop of `compileFuncCallExpr` = the expression loop of `compileReturnStmt` (the same text):
    every expression but an open-ended last one into the next register with `ecnone(0)`. -/
def compList (rt : Nat) : List Ex → Nat → CState → LRes
  | [], reg, cs => ⟨[], cs, reg, false⟩
  | e :: es, reg, cs =>
    if es.isEmpty && e.isMulti then
      let r := compExpr rt e reg (ecnone (-2)) cs
      ⟨r.code, r.cs, reg, true⟩
    else
      let r := compExpr rt e reg (ecnone 0) cs
      let rs := compList rt es (reg + r.inc) r.cs
      ⟨r.code ++ rs.code, rs.cs, rs.reg, rs.lastMulti⟩
/-- the field loop of `compileTableExpr`. -/
def compFields (rt tablereg regbase : Nat) : List (Option Key) → List Ex → Nat → Nat → CState → FRes
  | _, [], _, ac, cs => ⟨[], cs, ac⟩
  | keys, e :: es, reg, ac, cs =>
    let islast := es.isEmpty
    match keys.headD none with
    | none =>
      if islast && e.isMulti then
        -- lastvararg: the open-ended values follow the pending items of the current batch
        let r := compExpr rt e reg (ecnone (-2)) cs
        let rest := compFields rt tablereg regbase keys.tail es regbase ac r.cs
        ⟨r.code ++ [flushInstr tablereg ac true] ++ rest.code, rest.cs, rest.arraycount⟩
      else
        let r := compExpr rt e reg (ecnone 0) cs
        let reg1 := reg + r.inc
        let ac1 := ac + 1
        let flush := ac1 % fieldsPerFlush
        if flush = 0 ∨ (islast ∧ flush ≠ 0) then
          let rest := compFields rt tablereg regbase keys.tail es regbase ac1 r.cs
          ⟨r.code ++ [flushInstr tablereg ac1 false] ++ rest.code, rest.cs, rest.arraycount⟩
        else
          let rest := compFields rt tablereg regbase keys.tail es reg1 ac1 r.cs
          ⟨r.code ++ rest.code, rest.cs, rest.arraycount⟩
    | some k =>
      let rk := compAtomRes k.atom reg (ecnone 0) cs                -- compileExpr on the key (a constant)
      let pk := propagate true rt rk.code reg rk.inc           -- compileExprWithKMVPropagation(field.Key, &reg, &b)
      let rv := compExpr rt e pk.2.2 (ecnone 0) rk.cs
      let pv := propagate true rt rv.code pk.2.2 rv.inc        -- compileExprWithKMVPropagation(field.Value, &reg, &c)
      let st : Instr := if k.isStr then .settableks tablereg pk.2.1 pv.2.1 else .settable tablereg pk.2.1 pv.2.1
      let flush := ac % fieldsPerFlush
      if islast ∧ flush ≠ 0 then
        let rest := compFields rt tablereg regbase keys.tail es regbase ac rv.cs
        ⟨pk.1 ++ pv.1 ++ [st, flushInstr tablereg ac false] ++ rest.code, rest.cs, rest.arraycount⟩
      else
        let rest := compFields rt tablereg regbase keys.tail es reg ac rv.cs     -- reg = regorg
        ⟨pk.1 ++ pv.1 ++ [st] ++ rest.code, rest.cs, rest.arraycount⟩
end

/-- `code.SetOpCode(code.LastPC(), OP_TAILCALL)` on the code of the call just compiled (its last instruction is
    the OP_CALL; anything else is outside this fragment and flagged). -/
def setLastTail (code : List Instr) (cs : CState) : List Instr × CState :=
  match code.getLast? with
  | some (.call a b c) => (code.dropLast ++ [.tailcall a b c], cs)
  | _ => (code, cs.fail "model: SetOpCode(LastPC, OP_TAILCALL) on a non-CALL")

/-- `compileReturnStmt` -/
def compReturn (rt : Nat) (es : List Ex) (cs : CState) : List Instr × CState :=
  let a := rt
  match es with
  | [.atom (.loc idx)] => ([Instr.ret idx 2], cs)
  | [e] =>
    if e.isCall then
      if e.paren then        -- return (func())
        let r := compExpr rt e rt (ecnone 0) cs
        (r.code ++ [Instr.ret a 0], r.cs)
      else
        let r := compExpr rt e rt (ecnone (-2)) cs
        let t := setLastTail r.code r.cs
        (t.1 ++ [Instr.ret a 0], t.2)
    else
      let r := compList rt es rt cs
      (r.code ++ [Instr.ret a (if r.lastMulti then 0 else r.reg - a + 1)], r.cs)
  | _ =>
    let r := compList rt es rt cs
    (r.code ++ [Instr.ret a (if r.lastMulti then 0 else r.reg - a + 1)], r.cs)

/-- the first loop of `compileRegAssignment`: (code, state, namesassigned, reg, expressions not yet compiled). -/
def regAssignLoop (rt lennames nvars : Nat) : List Ex → Nat → Nat → CState → List Instr × CState × Nat × Nat × List Ex
  | [], na, reg, cs => ([], cs, na, reg, [])
  | e :: es, na, reg, cs =>
    if na < lennames then
      if e.isMulti && es.isEmpty then
        let varargopt := nvars - na
        let r := compExpr rt e reg ⟨ecVararg, reg, (varargopt : Int) - 1⟩ cs
        (r.code, r.cs, lennames, reg + varargopt, [])
      else
        let r := compExpr rt e reg ⟨ecLocal, reg, 0⟩ cs
        let l := regAssignLoop rt lennames nvars es (na + 1) (reg + 1) r.cs
        (r.code ++ l.1, l.2)
    else ([], cs, na, reg, e :: es)

/-- "extra right exprs": all evaluated, the last one with `varargopt = -1`, the others with 0. -/
def extraLoop (rt : Nat) : List Ex → Nat → CState → List Instr × CState
  | [], _, cs => ([], cs)
  | e :: es, reg, cs =>
    let r := compExpr rt e reg ⟨ecNone, reg, if es.isEmpty then -1 else 0⟩ cs
    let l := extraLoop rt es (reg + r.inc) r.cs
    (r.code ++ l.1, l.2)

/-- `compileRegAssignment(context, names, exprs, reg, nvars, line)` -/
def compRegAssignment (rt lennames : Nat) (exprs : List Ex) (reg nvars : Nat) (cs : CState) : List Instr × CState :=
  let l := regAssignLoop rt lennames nvars exprs 0 reg cs
  let na := l.2.2.1
  let reg1 := l.2.2.2.1
  -- extra left names
  let pad : List Instr := if lennames > na then [.loadnil reg1 (reg1 + (lennames - na - 1))] else []
  let reg2 := if lennames > na then reg1 + (lennames - na - 1) else reg1
  let x := extraLoop rt l.2.2.2.2 reg2 l.2.1
  (l.1 ++ pad ++ x.1, x.2)

/-- `compileLocalAssignStmt` (no function-expression right-hand sides in this fragment): code, state, new RegTop. -/
def compLocal (rt n : Nat) (es : List Ex) (cs : CState) : List Instr × CState × Nat :=
  let p := compRegAssignment rt n es rt n cs
  -- RegisterLocalVar × n: SetRegTop raises above maxRegisters
  let cs := if rt + n > maxRegisters then p.2.fail "too many local variables" else p.2
  (p.1, cs, rt + n)

structure AssignCtx where
  ec : ExpCtx
  needmove : Bool := false
deriving Repr

/-- `compileAssignStmtLeft` (targets are names): interns the global names, decides the direct store to the last local. -/
def compAssignLeft (nrhs : Nat) : List Target → Nat → CState → CState × List AssignCtx
  | [], _, cs => (cs, [])
  | t :: ts, nlhs, cs =>
    match t with
    | .glob g =>
      let p := compAssignLeft nrhs ts nlhs (constIndex cs (.str g)).1
      (p.1, ⟨⟨ecGlobal, regNotDefined, 0⟩, false⟩ :: p.2)
    | .loc r =>
      let p := compAssignLeft nrhs ts nlhs cs
      (p.1, ⟨⟨ecLocal, if ts.isEmpty ∧ nrhs ≤ nlhs then r else regNotDefined, 0⟩, false⟩ :: p.2)

def setNeedmove (acs : List AssignCtx) (n : Nat) : List AssignCtx :=
  match acs, n with
  | [], _ => []
  | acs, 0 => acs
  | ac :: r, k + 1 => { ac with needmove := true } :: setNeedmove r k

/-- the main loop of `compileAssignStmtRight` over the remaining targets `acs` and expressions:
    (code, state, reg, updated contexts, expressions not yet compiled). -/
def assignRightLoop (rt : Nat) : List AssignCtx → List Ex → Nat → CState →
    List Instr × CState × Nat × List AssignCtx × List Ex
  | [], es, reg, cs => ([], cs, reg, [], es)
  | ac :: acs, [], reg, cs =>
    -- namesassigned >= lenexprs: a NilExpr
    let r := compAtomRes .nil reg ac.ec cs
    let l := assignRightLoop rt acs [] (reg + r.inc) r.cs
    (r.code ++ l.1, l.2.1, l.2.2.1, { ac with needmove := r.inc ≠ 0 } :: l.2.2.2.1, l.2.2.2.2)
  | ac :: acs, e :: es, reg, cs =>
    if e.isMulti && es.isEmpty then
      let varargopt : Nat := acs.length           -- lennames - namesassigned - 1
      let r := compExpr rt e reg (ecnone varargopt) cs
      (r.code, r.cs, reg + r.inc, setNeedmove (ac :: acs) r.inc, [])
    else
      let r := compExpr rt e reg ac.ec cs
      let l := assignRightLoop rt acs es (reg + r.inc) r.cs
      (r.code ++ l.1, l.2.1, l.2.2.1, { ac with needmove := r.inc ≠ 0 } :: l.2.2.2.1, l.2.2.2.2)

/-- "extra right exprs" of `compileAssignStmtRight` (`ecnone(varargopt)`). -/
def assignExtraLoop (rt : Nat) : List Ex → Nat → CState → List Instr × CState
  | [], _, cs => ([], cs)
  | e :: es, reg, cs =>
    let r := compExpr rt e reg (ecnone (if es.isEmpty then -1 else 0)) cs
    let l := assignExtraLoop rt es (reg + r.inc) r.cs
    (r.code ++ l.1, l.2)

/-- the store loop of `compileAssignStmt`, last target first; `reg` = register of the value of the current target. -/
def assignStores : List (Target × AssignCtx) → Nat → CState → List Instr × CState
  | [], _, cs => ([], cs)
  | (t, ac) :: rest, reg, cs =>
    match t with
    | .loc r =>
      if ac.needmove then
        let l := assignStores rest (reg - 1) cs
        (.move r reg :: l.1, l.2)
      else assignStores rest reg cs
    | .glob g =>
      let p := constIndex cs (.str g)
      let l := assignStores rest (reg - 1) p.1
      (.setglobal reg p.2 :: l.1, l.2)

/-- `compileAssignStmt` -/
def compAssign (rt : Nat) (ts : List Target) (es : List Ex) (cs : CState) : List Instr × CState :=
  let l := compAssignLeft es.length ts ts.length cs
  let r := assignRightLoop rt l.2 es rt l.1
  let rightreg := r.2.2.1 - 1
  let x := assignExtraLoop rt r.2.2.2.2 r.2.2.1 r.2.1
  let s := assignStores (ts.zip r.2.2.2.1).reverse rightreg x.2
  (r.1 ++ x.1 ++ s.1, s.2)

/-- `compileStmt`: code, state, new RegTop. -/
def compStmt (rt : Nat) (s : Stmt) (cs : CState) : List Instr × CState × Nat :=
  match s with
  | .callst e => let r := compExpr rt e rt (ecnone (-1)) cs; (r.code, r.cs, rt)
  | .ret es => let p := compReturn rt es cs; (p.1, p.2, rt)
  | .localDecl n es => compLocal rt n es cs
  | .assign ts es => let p := compAssign rt ts es cs; (p.1, p.2, rt)

def compChunk : List Stmt → Nat → CState → List Instr × CState × Nat
  | [], rt, cs => ([], cs, rt)
  | s :: rest, rt, cs =>
    let p := compStmt rt s cs
    let q := compChunk rest p.2.2 p.2.1
    (p.1 ++ q.1, q.2)

/-- `compileFunctionExpr` for the main chunk (`Compile`): no parameters, vararg, the final `RETURN 0 1`. -/
def compMain (chunk : List Stmt) : List Instr × CState :=
  let p := compChunk chunk 0 {}
  (p.1 ++ [Instr.ret 0 1], p.2.1)

/-! ### patchCode: bulk moves and the register count -/

def setMoven (code : List Instr) (pc c : Nat) : List Instr :=
  match code[pc]? with
  | some (.move a b) => code.set pc (.moven a b c)
  | _ => code

/-- the `moven` bookkeeping of `patchCode`: `pc`, the length of the MOVE run ending before `pc`, the patched code. -/
def patchMovenLoop : List Instr → Nat → Nat → List Instr → List Instr
  | [], _, _, acc => acc
  | i :: rest, pc, moven, acc =>
    match i with
    | .move _ _ => patchMovenLoop rest (pc + 1) (moven + 1) acc
    | .setlist _ _ 0 _ => patchMovenLoop rest (pc + 1) 0 acc          -- `pc++; moven = 0; continue`
    | _ =>
      let acc := if moven > 1 then setMoven acc (pc - moven) (min (moven - 1) opMaxArgsC) else acc
      patchMovenLoop rest (pc + 1) 0 acc

def patchMoven (code : List Instr) : List Instr := patchMovenLoop code 0 0 code

/-- the register an instruction contributes to `maxreg` in `patchCode` (masked operands, as the Go code reads them). -/
def maxregOf (i : Instr) : Option Nat :=
  match i.mask with
  | .setglobal _ _ | .tailcall _ _ _ | .ret _ _ | .setlist _ _ _ _ => none
  | .call a _ c => some (a + c - 2)
  | .vararg a b => some (a + b - 1)
  | .self a _ _ => some (a + 1)
  | .loadnil _ b => some b
  | .loadk a _ | .loadbool a _ _ | .move a _ | .moven a _ _ | .getglobal a _ | .newtable a _ _
  | .settable a _ _ | .settableks a _ _ => some a

/-- `Proto.NumUsedRegisters` as `patchCode` computes it (`maxreg` starts at 1 for a function without parameters). -/
def numUsedRegs (code : List Instr) : Nat :=
  code.foldl (fun m i => match maxregOf i with | some r => if r > m then r else m | none => m) 1 + 1

/-! ## PART 2: the machine -/

variable {W : Type}

/-- the abstract surroundings at machine level: what the Spec sees (`SEnv`) is derived from it (`toSEnv`). -/
structure MEnv (W : Type) where
  getGlobal : W → String → OVal
  setGlobal : W → String → OVal → W
  index : OVal → String → W → OVal                       -- `getFieldString(selfobj, name)`
  info : OVal → FnInfo                                   -- what the call machinery reads of the function object
  sem : OVal → List OVal → List OVal → W → List OVal × W
  /-- the body of a Lua callee: from the state `initCallFrame` left and the results it computes to the state just
      before its OP_RETURN and that instruction's operands A, B. -/
  luaBody : St → List OVal → St × Nat × Nat
  /-- the body of a host callee: the state when the Go function returns (its results pushed). -/
  goBody : St → List OVal → St

def MEnv.toSEnv (env : MEnv W) (varargs : List OVal) : SEnv W :=
  { varargs := varargs, getGlobal := env.getGlobal, setGlobal := env.setGlobal, index := env.index,
    np := fun fv => if (env.info fv).isG then 0 else (env.info fv).np,
    va := fun fv => (env.info fv).isG || (env.info fv).varArg,
    sem := env.sem }

structure MS (W : Type) where
  st : St
  w : W
  heap : List TLog
  done : Bool := false      -- the function has returned (OP_RETURN / OP_TAILCALL executed)

/-- a window of registers as Lua values; `none` if one of them is a Go nil. -/
def slotsVals : List Slot → Option (List OVal)
  | [] => some []
  | none :: _ => none
  | some v :: r => (slotsVals r).map (v :: ·)

/-- what a callee sees after `initCallFrame`: (parameters, extra arguments). -/
def calleeView (s1 : St) (cf1 : Frame) : Option (List OVal × List OVal) :=
  if cf1.fn.isG then (slotsVals (s1.reg.window cf1.localBase cf1.nargs)).map (fun a => ([], a))
  else if cf1.fn.varArg then
    match slotsVals (s1.reg.window cf1.localBase cf1.fn.np),
          slotsVals (s1.reg.window (cf1.base + cf1.fn.np + 1) (cf1.nargs - cf1.fn.np)) with
    | some p, some x => some (p, x)
    | _, _ => none
  else (slotsVals (s1.reg.window cf1.localBase cf1.fn.np)).map (fun p => (p, []))

/-- the callee runs and returns: `sem` on its view, the body oracle, then OP_RETURN / callGFunction's result copy. -/
def runCallee (env : MEnv W) (fv : OVal) (s1 : St) (w : W) (tail : Bool) : Except Err (St × W) :=
  match s1.stack with
  | [] => .error (.goPanic "currentFrame nil")
  | cf1 :: _ =>
    match calleeView s1 cf1 with
    | none => .error (.goPanic "a never-written register (Go nil) is passed as an argument")
    | some (params, extra) =>
      let r := env.sem fv params extra w
      if cf1.fn.isG then
        (gReturn (env.goBody s1 r.1) r.1.length tail).map (fun s2 => (s2, r.2))
      else
        let b := env.luaBody s1 r.1
        (opReturn b.1 b.2.1 b.2.2).map (fun s2 => (s2, r.2))

/-- OP_CALL with its callee run to completion. -/
def execCall (env : MEnv W) (s : MS W) (A B C : Nat) : Except Err (MS W) :=
  match s.st.stack with
  | [] => .error (.goPanic "currentFrame nil")
  | cf :: _ =>
    match s.st.reg.get (cf.localBase + A) with
    | none => .error (.goPanic "OP_CALL: the function register was never written (Go nil)")
    | some fv =>
      opCall s.st A B C (env.info fv) false false 0 >>= fun p =>
      (runCallee env fv p.1 s.w false).map (fun q => { s with st := q.1, w := q.2 })

/-- OP_TAILCALL with its callee run to completion: afterwards the running function is gone. -/
def execTailCall (env : MEnv W) (s : MS W) (A B : Nat) : Except Err (MS W) :=
  match s.st.stack with
  | [] => .error (.goPanic "currentFrame nil")
  | cf :: _ =>
    match s.st.reg.get (cf.localBase + A) with
    | none => .error (.goPanic "OP_TAILCALL: the function register was never written (Go nil)")
    | some fv =>
      if (env.info fv).isG then
        opTailCallG s.st A B (env.info fv) false >>= fun s1 =>
        (runCallee env fv s1 s.w true).map (fun q => { s with st := q.1, w := q.2, done := true })
      else
        opTailCallLua s.st A B (env.info fv) false 0 >>= fun p =>
        (runCallee env fv p.1 s.w false).map (fun q => { s with st := q.1, w := q.2, done := true })

/-- `for i := RA; i <= lbase+B; i++ { reg.Set(i, LNil) }`, `n` iterations from `i`. -/
def setNils (r : Reg) (i : Nat) : Nat → Reg
  | 0 => r
  | n + 1 => setNils (r.set i lnil) (i + 1) n

/-- `rkValue(idx)` -/
def rkValue (K : List Konst) (r : Reg) (lb x : Nat) : Except Err OVal :=
  if x ≥ opBitRk then
    match K[x - opBitRk]? with
    | some k => .ok k.val
    | none => .error (.goPanic "rkValue: constant index out of range")
  else
    match r.get (lb + x) with
    | some v => .ok v
    | none => .error (.goPanic "rkValue: a never-written register (Go nil) is used as a value")

/-- `rkString(idx)`: `Proto.stringConstants[idx]` is "" for a non-string constant; a register must hold an LString. -/
def rkString (K : List Konst) (r : Reg) (lb x : Nat) : Except Err String :=
  if x ≥ opBitRk then
    match K[x - opBitRk]? with
    | some (.str s) => .ok s
    | some (.num _) => .ok ""
    | none => .error (.goPanic "rkString: constant index out of range")
  else
    match r.get (lb + x) with
    | some (some (.str s)) => .ok s
    | _ => .error (.goPanic "rkString: register is not an LString")

def allVals : List (Int × Slot) → Option (List (Int × OVal))
  | [] => some []
  | (_, none) :: _ => none
  | (i, some v) :: r => (allVals r).map ((i, v) :: ·)

/-- one instruction (vm.go), on the top frame. -/
def step (env : MEnv W) (K : List Konst) (i : Instr) (s : MS W) : Except Err (MS W) :=
  match s.st.stack with
  | [] => .error (.goPanic "currentFrame nil")
  | cf :: _ =>
    let lb := cf.localBase
    let setR (a : Nat) (v : Slot) : MS W := { s with st := { s.st with reg := s.st.reg.set (lb + a) v } }
    match i with
    | .loadk a bx =>
      match K[bx]? with
      | some k => .ok (setR a (some k.val))
      | none => .error (.goPanic "OP_LOADK: constant index out of range")
    | .loadnil a b => .ok { s with st := { s.st with reg := setNils s.st.reg (lb + a) (b + 1 - a) } }
    | .loadbool a b c =>
      if c ≠ 0 then .error (.goPanic "model: LOADBOOL with C ≠ 0 is outside this fragment")
      else .ok (setR a (some (some (.bool (b ≠ 0)))))
    | .move a b => .ok (setR a (s.st.reg.get (lb + b)))
    | .moven _ _ _ => .error (.goPanic "model: MOVEN is produced by patchCode only")
    | .getglobal a bx =>
      match K[bx]? with
      | some (.str g) => .ok (setR a (some (env.getGlobal s.w g)))
      | _ => .error (.goPanic "OP_GETGLOBAL: constant is not a string")
    | .setglobal a bx =>
      match K[bx]?, s.st.reg.get (lb + a) with
      | some (.str g), some v => .ok { s with w := env.setGlobal s.w g v }
      | _, _ => .error (.goPanic "OP_SETGLOBAL: constant is not a string / the register was never written")
    | .call a b c => execCall env s a b c
    | .tailcall a b _ => execTailCall env s a b
    | .ret a b => (opReturn s.st a b).map (fun st' => { s with st := st', done := true })
    | .vararg a b => (opVararg s.st a b).map (fun st' => { s with st := st' })
    | .self a b c =>
      match s.st.reg.get (lb + b) with
      | none => .error (.goPanic "OP_SELF: the receiver register was never written (Go nil)")
      | some recv =>
        rkString K s.st.reg lb c >>= fun name =>
        (opSelf s.st a b (some (env.index recv name s.w))).map (fun st' => { s with st := st' })
    | .newtable a _ _ =>
      .ok { s with st := { s.st with reg := s.st.reg.set (lb + a) (some (some (.ref s.heap.length))) },
                   heap := s.heap ++ [{}] }
    | .setlist a b c extra =>
      if c = 0 ∧ extra.isNone then .error (.goPanic "model: SETLIST C = 0 without its data word")
      else
        opSetList s.st a b c (extra.getD 0) >>= fun stores =>
        match s.st.reg.get (lb + a), allVals stores with
        | some (some (.ref tid)), some vs =>
          .ok { s with heap := modifyAt s.heap tid (fun t => { t with arr := t.arr ++ vs }) }
        | _, _ => .error (.goPanic "OP_SETLIST: a never-written register (Go nil) is stored")
    | .settable a b c | .settableks a b c =>
      match s.st.reg.get (lb + a) with
      | some (some (.ref tid)) =>
        rkValue K s.st.reg lb b >>= fun k =>
        rkValue K s.st.reg lb c >>= fun v =>
        .ok { s with heap := modifyAt s.heap tid (fun t => { t with keyed := t.keyed ++ [(k, v)] }) }
      | _ => .error (.goPanic "model: SETTABLE on a non-table is outside this fragment")

/-- straight-line execution; nothing is executed once the function has returned. -/
def exec (env : MEnv W) (K : List Konst) : List Instr → MS W → Except Err (MS W)
  | [], s => .ok s
  | i :: rest, s => if s.done then .ok s else step env K i s >>= exec env K rest

end GLua.CallCompile
