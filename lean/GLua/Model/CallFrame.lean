/-
  C02 (mechanism) — Model of gopher-lua's call machinery:
    * `registry` (/repo/state.go): slot contents and `top`.  A slot is `none` = Go `nil` (no LValue; what the
      code leaves above `top`), `some none` = `LNil`, `some (some v)` = any other Lua value.
      ASSUMPTION (stated once): the backing array is large enough — `checkSize/resize/forceResize` (growth,
      overflow) are modelled by the C12 builder; here `arr` is total over `Nat`.  With sufficient capacity the
      only Go panics left are negative indices, which are explicit `.goPanic` branches.
    * frame set-up `initCallFrame` / `pushCallFrame` / `callR`, result delivery `copyReturnValues` / `OP_RETURN` /
      `callGFunction`, operand decoding of `OP_CALL/TAILCALL/VARARG/SETLIST/SELF/TFORLOOP` (/repo/vm.go),
      `RemoveCallerFrame`, `baseSelect` / `baseUnpack` index arithmetic (/repo/baselib.go),
      the SETLIST flush plan of `compileTableExpr` (/repo/compile.go).
  Every function is a transcription of the Go function of the same name (same case splits, same arithmetic,
  loops as recursion in iteration order so that in-place overlap behaves as in Go).  Not modelled here
  (other properties): upvalue closing (C03), coroutine switches inside RETURN/callGFunction (C06), errors
  raised by callees (C05), registry growth and the auto-growing call stack (C12).
  `NRet`/`C-1`/`B-1` "MultRet = -1" is `Option Nat` (`none` = MultRet).
-/
import GLua.Basic
import GLua.Generated.Consts

namespace GLua.CallFrame
open GLua

/-! ## registry -/

abbrev Slot := Option OVal
def goNil : Slot := none
def lnil : Slot := some none

structure Reg where
  arr : Nat → Slot
  top : Nat

def upd (a : Nat → Slot) (i : Nat) (v : Slot) : Nat → Slot := fun j => if j = i then v else a j

namespace Reg

def empty : Reg := { arr := fun _ => goNil, top := 0 }

/-- `registry.Get` -/
def get (r : Reg) (i : Nat) : Slot := r.arr i

/-- `registry.Set`: store, and `if regi >= rg.top { rg.top = regi + 1 }` (slots between the old top and `regi`
    keep whatever they held — possibly Go nil). -/
def set (r : Reg) (i : Nat) (v : Slot) : Reg :=
  { arr := upd r.arr i v, top := if i ≥ r.top then i + 1 else r.top }

/-- `registry.SetTop`: growing fills `[oldtop, top)` with LNil, shrinking clears `[top, oldtop)` to Go nil. -/
def setTop (r : Reg) (t : Nat) : Reg :=
  { arr := fun j => if r.top ≤ j ∧ j < t then lnil else if t ≤ j ∧ j < r.top then goNil else r.arr j,
    top := t }

/-- `registry.Push` -/
def push (r : Reg) (v : Slot) : Reg := { arr := upd r.arr r.top v, top := r.top + 1 }

/-- `registry.Pop`: `v := array[top-1]; array[top-1] = LNil; top--` (LNil, not Go nil, is left behind). -/
def pop (r : Reg) : Except Err (Reg × Slot) :=
  if r.top = 0 then .error (.goPanic "registry.Pop: index -1")
  else .ok ({ arr := upd r.arr (r.top - 1) lnil, top := r.top - 1 }, r.arr (r.top - 1))

/-- `registry.FillNil(regm, n)` -/
def fillNil (r : Reg) (regm n : Nat) : Reg :=
  { arr := fun j => if regm ≤ j ∧ j < regm + n then lnil
                    else if regm + n ≤ j ∧ j < r.top then goNil else r.arr j,
    top := regm + n }

/-- `limit == -1 || limit > rg.top → limit = rg.top` -/
def effLimit (r : Reg) (limit : Int) : Int := if limit = -1 ∨ limit > (r.top : Int) then (r.top : Int) else limit

/-- the copy loop of `CopyRange`, iterations `0 … k-1` in order, in place (an overlapping forward copy smears
    exactly as the Go loop does).  (`top` is not touched by the loop.) -/
def copyLoop (regv : Nat) (start lim : Int) : Nat → Reg → Reg
  | 0, r => r
  | k + 1, r =>
    let r' := copyLoop regv start lim k r
    let src : Int := start + (k : Int)
    let v : Slot := if src ≥ lim ∨ src < 0 then lnil else r'.arr src.toNat
    { r' with arr := upd r'.arr (regv + k) v }

/-- `registry.CopyRange(regv, start, limit, n)` (really "move range"): afterwards `top = regv + n` and the
    slots `[regv+n, oldtop)` are Go nil. -/
def copyRange (r : Reg) (regv : Nat) (start limit : Int) (n : Nat) : Reg :=
  let r' := copyLoop regv start (r.effLimit limit) n r
  { arr := fun j => if regv + n ≤ j ∧ j < r.top then goNil else r'.arr j, top := regv + n }

/-- the shifting loop of `registry.Insert`: `for ; top >= reg; top-- { Set(top+1, Get(top)) }`;
    `k` = number of slots still to move, the highest one first. -/
def insertLoop (reg : Nat) : Nat → Reg → Reg
  | 0, r => r
  | k + 1, r => insertLoop reg k (r.set (reg + k + 1) (r.arr (reg + k)))

/-- `registry.Insert(value, reg)` -/
def insert (r : Reg) (value : Slot) (reg : Nat) : Reg :=
  if reg ≥ r.top then r.set reg value
  else (insertLoop reg (r.top - reg) r).set reg value

/-- the slots `[a, a+n)` as a list -/
def window (r : Reg) (a n : Nat) : List Slot := (List.range n).map (fun i => r.arr (a + i))

end Reg

/-! ## call frames -/

/-- what the call machinery reads of an `*LFunction` / its `FunctionProto`. -/
structure FnInfo where
  id : Nat := 0            -- identity of the function object (wire only)
  isG : Bool := false
  np : Nat := 0            -- Proto.NumParameters
  isVarArg : Nat := 0      -- Proto.IsVarArg (flag byte)
  nur : Nat := 2           -- Proto.NumUsedRegisters
deriving DecidableEq, Repr, Inhabited

def FnInfo.varArg (f : FnInfo) : Bool := f.isVarArg / Generated.VarArgIsVarArg % 2 = 1     -- IsVarArg & VarArgIsVarArg ≠ 0
def FnInfo.needsArg (f : FnInfo) : Bool := f.isVarArg / Generated.VarArgNeedsArg % 2 = 1   -- IsVarArg & VarArgNeedsArg ≠ 0

structure Frame where
  fn : FnInfo := {}
  base : Nat := 0
  localBase : Nat := 0
  returnBase : Nat := 0
  nargs : Nat := 0
  nret : Option Nat := none       -- none = MultRet
  tailCall : Nat := 0
deriving DecidableEq, Repr, Inhabited

/-- the compat `arg` table created by `initCallFrame`: object id, positional content, field `n`. -/
structure ArgTbl where
  id : Nat
  items : List Slot
  n : Nat

/-- `config.go: CompatVarArg` (a package variable, default true; the correspondence run asserts it). -/
def compatVarArg : Bool := true

/-- the parameter relocation loop of `initCallFrame`:
    `for i < np { array[lb+nargs+i] = array[lb+i]; array[lb+i] = LNil }`, in order. -/
def moveParams (lb nargs : Nat) : Nat → Reg → Reg
  | 0, r => r
  | k + 1, r =>
    let r' := moveParams lb nargs k r
    let v : Slot := r'.arr (lb + k)
    { r' with arr := upd (upd r'.arr (lb + nargs + k) v) (lb + k) lnil }

/-- first block of `initCallFrame`: "default any missing arguments to nil" (direct array writes, `top` assigned
    directly); returns the registry and the local variable `nargs`. -/
def padMissing (r : Reg) (lb nargs np : Nat) : Reg × Nat :=
  if nargs < np then
    ({ arr := fun j => if lb + nargs ≤ j ∧ j < lb + np then lnil else r.arr j, top := lb + np }, np)
  else (r, nargs)

/-- fixed-arity branch: registers from the first non-parameter up to `max(nargs, NumUsedRegisters)` become LNil,
    `top = LocalBase + NumUsedRegisters` (assigned directly). -/
def initFixed (r1 : Reg) (lb np nargs nur : Nat) : Reg :=
  let nargs' := if nargs < nur then nur else nargs
  { arr := fun j => if lb + np ≤ j ∧ j < lb + nargs' then lnil else r1.arr j, top := lb + nur }

/-- the value stored behind the relocated parameters: with `VarArgNeedsArg` a fresh table holding the extra
    arguments (`RawSetInt(i+1, reg.Get(LocalBase+np+i))`, `n = nvarargs`), otherwise LNil. -/
def argValue (cf : Frame) (r : Reg) (nvarargs argId : Nat) : Slot × Option ArgTbl :=
  if cf.fn.needsArg then
    (some (some (.ref argId)),
     some { id := argId, items := (List.range nvarargs).map (fun i => r.get (cf.localBase + cf.fn.np + i)), n := nvarargs })
  else (lnil, none)

/-- vararg branch: the fixed parameters are relocated above the arguments, the original slots nil-ed, the compat
    `arg` table (or LNil) placed behind the parameters, `LocalBase` advanced past the arguments. -/
def initVararg (r1 : Reg) (cf : Frame) (nargs argId : Nat) : Reg × Frame × Option ArgTbl :=
  let np := cf.fn.np
  let lb := cf.localBase
  let nvarargs := nargs - np           -- `if nvarargs < 0 { nvarargs = 0 }` (dead: nargs ≥ np here)
  let r2 := r1.setTop (lb + nargs + np)
  let r3 : Reg := moveParams lb nargs np r2
  let (r4, atb) : Reg × Option ArgTbl :=
    if compatVarArg then
      let r3' := r3.setTop (lb + nargs + np + 1)
      let av := argValue cf r3' nvarargs argId
      ({ r3' with arr := upd r3'.arr (lb + nargs + np) av.1 }, av.2)
    else (r3, none)
  let cf' := { cf with localBase := lb + nargs }
  (r4.setTop (cf'.localBase + cf.fn.nur), cf', atb)

/-- `LState.initCallFrame` (the inlined copies in pushCallFrame and OP_TAILCALL are the same text).
    `argId` names the table object allocated for `arg` (allocation oracle). -/
def initCallFrame (r : Reg) (cf : Frame) (argId : Nat) : Reg × Frame × Option ArgTbl :=
  if cf.fn.isG then (r.setTop (cf.localBase + cf.nargs), cf, none)
  else
    let p := padMissing r cf.localBase cf.nargs cf.fn.np
    if !cf.fn.varArg then (initFixed p.1 cf.localBase cf.fn.np p.2 cf.fn.nur, cf, none)
    else initVararg p.1 cf p.2 argId

/-- interpreter bookkeeping the call opcodes touch: registry, the (fixed-size) call-frame stack — head = `stack.Last()`,
    `Sp = stack.length` — and its capacity (`fixedCallFrameStack.IsFull`: `sp == len(array)`). -/
structure St where
  reg : Reg
  stack : List Frame
  maxSp : Nat := Generated.CallStackSize

def St.sp (s : St) : Nat := s.stack.length

/-- `LState.pushCallFrame(cf, fn, isMeta)`; `fnNil` ⇔ `cf.Fn == nil` (not callable, no `__call`). -/
def pushCallFrame (s : St) (cf : Frame) (fnv : Slot) (isMeta fnNil : Bool) (argId : Nat) :
    Except Err (St × Option ArgTbl) :=
  let (cf, reg) := if isMeta then ({ cf with nargs := cf.nargs + 1 }, s.reg.insert fnv cf.localBase) else (cf, s.reg)
  if fnNil then .error (.luaError "attempt to call a non-function object")
  else if s.stack.length = s.maxSp then .error (.luaError "stack overflow")
  else
    let (reg', cf', atb) := initCallFrame reg cf argId
    .ok ({ s with reg := reg', stack := cf' :: s.stack }, atb)

/-- `B-1`, or "up to top" for `B == 0` (`nargs = reg.Top() - (RA + 1)`). -/
def decodeNArgs (top RA B : Nat) : Nat := if B = 0 then top - (RA + 1) else B - 1

/-- `nret := C - 1` (`C == 0` ⇒ MultRet) -/
def decodeNRet (C : Nat) : Option Nat := if C = 0 then none else some (C - 1)

/-- OP_CALL up to and including `pushCallFrame` (for a Lua callee that is the whole instruction; for a host
    callee `gReturn` follows once the Go function has run). -/
def opCall (s : St) (A B C : Nat) (callee : FnInfo) (isMeta fnNil : Bool) (argId : Nat) :
    Except Err (St × Option ArgTbl) :=
  match s.stack with
  | [] => .error (.goPanic "currentFrame nil")
  | cf :: _ =>
    let RA := cf.localBase + A
    let nargs := decodeNArgs s.reg.top RA B
    let lv := s.reg.get RA
    pushCallFrame s { fn := callee, base := RA, localBase := RA + 1, returnBase := RA, nargs := nargs,
                      nret := decodeNRet C, tailCall := 0 } lv isMeta fnNil argId

/-- `LState.RemoveCallerFrame`: the frame below the top one is overwritten by the top one, then `Pop`. -/
def removeCallerFrame (stack : List Frame) : Except Err (List Frame) :=
  match stack with
  | cur :: _parent :: rest => .ok (cur :: rest)
  | _ => .error (.goPanic "RemoveCallerFrame: At(sp-2) out of range")

/-- `callGFunction` after the Go function returned `gfnret ≥ 0` values (yield, `gfnret < 0`, is C06's):
    the top-most `gfnret` values move to `frame.ReturnBase`, adjusted to `frame.NRet`; the frame is popped
    (for a tail call the Lua caller's frame was removed first). -/
def gReturn (s : St) (gfnret : Nat) (tailcall : Bool) : Except Err St :=
  match s.stack with
  | [] => .error (.goPanic "currentFrame nil")
  | frame :: _ =>
    (if tailcall then removeCallerFrame s.stack else .ok s.stack) >>= fun stack =>
    let wantret := frame.nret.getD gfnret
    let reg := s.reg.copyRange frame.returnBase ((s.reg.top : Int) - (gfnret : Int)) (-1) wantret
    .ok { s with reg := reg, stack := stack.tail }

/-- `copyReturnValues(L, regv, start, n, b)` -/
def copyReturnValues (r : Reg) (regv start n b : Nat) : Reg :=
  if b = 1 then r.fillNil regv n
  else
    let r1 := r.copyRange regv (start : Int) (-1) n
    if b > 1 ∧ n > b - 1 then r1.fillNil (regv + b - 1) (n - (b - 1)) else r1

/-- number of values an OP_RETURN delivers: `B-1`, or `reg.Top() - RA` for `B == 0`. -/
def decodeNRetVals (top RA B : Nat) : Nat := if B = 0 then top - RA else B - 1

/-- OP_RETURN (not the last frame of a coroutine): pop the frame, adjust the values to `cf.NRet` at `cf.ReturnBase`. -/
def opReturn (s : St) (A B : Nat) : Except Err St :=
  match s.stack with
  | [] => .error (.goPanic "currentFrame nil")
  | cf :: rest =>
    let RA := cf.localBase + A
    let nret := decodeNRetVals s.reg.top RA B
    let n := cf.nret.getD nret
    .ok { s with reg := copyReturnValues s.reg cf.returnBase RA n B, stack := rest }

/-- OP_TAILCALL to a Lua function: the caller's frame is reused; the callee's window is set up at `RA+1` as for
    a call and then moved down onto the caller's `Base`.  `dropLast = true` is the tree before the repair
    `fixes/C02-tailcall-last-register.diff` (`CopyRange(base, RA, -1, reg.Top()-RA-1)`: one value short). -/
def opTailCallLuaGen (dropLast : Bool) (s : St) (A B : Nat) (callee : FnInfo) (isMeta : Bool) (argId : Nat) :
    Except Err (St × Option ArgTbl) :=
  match s.stack with
  | [] => .error (.goPanic "currentFrame nil")
  | cf :: rest =>
    let RA := cf.localBase + A
    let nargs := decodeNArgs s.reg.top RA B
    let lv := s.reg.get RA
    let base := cf.base
    let cf1 : Frame := { cf with fn := callee, base := RA, localBase := RA + 1, nargs := nargs, tailCall := cf.tailCall + 1 }
    let lbase := cf1.localBase
    let (cf2, reg1) := if isMeta then ({ cf1 with nargs := cf1.nargs + 1 }, s.reg.insert lv cf1.localBase) else (cf1, s.reg)
    let (reg2, cf3, atb) := initCallFrame reg1 cf2 argId
    let reg3 := reg2.copyRange base (RA : Int) (-1) (if dropLast then reg2.top - RA - 1 else reg2.top - RA)
    let cf4 := { cf3 with base := base, localBase := base + (cf3.localBase - lbase + 1) }
    .ok ({ s with reg := reg3, stack := cf4 :: rest }, atb)

def opTailCallLua := opTailCallLuaGen false

/-- OP_TAILCALL to a host function, up to the point where the Go function starts (then `gReturn … true`). -/
def opTailCallG (s : St) (A B : Nat) (callee : FnInfo) (isMeta : Bool) : Except Err St :=
  match s.stack with
  | [] => .error (.goPanic "currentFrame nil")
  | cf :: _ =>
    let RA := cf.localBase + A
    let nargs := decodeNArgs s.reg.top RA B
    let lv := s.reg.get RA
    (pushCallFrame s { fn := callee, base := RA, localBase := RA + 1, returnBase := cf.returnBase, nargs := nargs,
                       nret := cf.nret, tailCall := 0 } lv isMeta false 0).map (·.1)

/-- OP_VARARG: `CopyRange(RA, cf.Base+nparams+1, cf.LocalBase, nwant)` -/
def opVararg (s : St) (A B : Nat) : Except Err St :=
  match s.stack with
  | [] => .error (.goPanic "currentFrame nil")
  | cf :: _ =>
    let RA := cf.localBase + A
    let nparams := cf.fn.np
    let nvarargs := cf.nargs - nparams          -- `if nvarargs < 0 { nvarargs = 0 }`
    let nwant := if B = 0 then nvarargs else B - 1
    .ok { s with reg := s.reg.copyRange RA ((cf.base + nparams + 1 : Nat) : Int) ((cf.localBase : Nat) : Int) nwant }

/-- OP_SETLIST: the list of `RawSetInt(offset+i, reg.Get(RA+i))` stores, in order.  `extra` is the code word
    following the instruction (read when `C == 0`). -/
def opSetList (s : St) (A B C extra : Nat) : Except Err (List (Int × Slot)) :=
  match s.stack with
  | [] => .error (.goPanic "currentFrame nil")
  | cf :: _ =>
    let RA := cf.localBase + A
    let C' := if C = 0 then extra else C
    let offset : Int := ((C' : Int) - 1) * (Generated.FieldsPerFlush : Int)
    match s.reg.get RA with
    | some (some (.ref _)) =>
      let nelem := if B = 0 then s.reg.top - RA - 1 else B
      .ok ((List.range nelem).map (fun i => (offset + ((i + 1 : Nat) : Int), s.reg.get (RA + (i + 1)))))
    | _ => .error (.goPanic "OP_SETLIST: reg.Get(RA).(*LTable)")

/-- OP_SELF: `R[A] := method; R[A+1] := R[B]` (`method` = result of `getFieldString`, an input here). -/
def opSelf (s : St) (A B : Nat) (method : Slot) : Except Err St :=
  match s.stack with
  | [] => .error (.goPanic "currentFrame nil")
  | cf :: _ =>
    let RA := cf.localBase + A
    let selfobj := s.reg.get (cf.localBase + B)
    .ok { s with reg := (s.reg.set RA method).set (RA + 1) selfobj }

/-- `LState.callR(nargs, nret, rbase)` up to `pushCallFrame` (`rbase = none` ⇔ `-1`). -/
def callR (s : St) (nargs : Nat) (nret : Option Nat) (rbase : Option Nat) (callee : FnInfo) (isMeta fnNil : Bool)
    (argId : Nat) : Except Err (St × Option ArgTbl) :=
  if s.reg.top < nargs + 1 then .error (.goPanic "callR: reg.Get(negative)")
  else
    let base := s.reg.top - nargs - 1
    let rb := rbase.getD base
    pushCallFrame s { fn := callee, base := base, localBase := base + 1, returnBase := rb, nargs := nargs,
                      nret := nret, tailCall := 0 } (s.reg.get base) isMeta fnNil argId

/-- the tail of `callR` after the callee's frame is gone: `if nret != MultRet { SetTop(rbase + nret) }` -/
def callRFinish (r : Reg) (rbase : Nat) (nret : Option Nat) : Reg :=
  match nret with
  | none => r
  | some n => r.setTop (rbase + n)

/-- OP_TFORLOOP before the iterator runs: copy `f, s, ctl` to `RA+3…RA+5`; the call is `callR(2, C, RA+3)`. -/
def opTForPrep (s : St) (A : Nat) : Except Err St :=
  match s.stack with
  | [] => .error (.goPanic "currentFrame nil")
  | cf :: _ =>
    let RA := cf.localBase + A
    let r0 := s.reg.setTop (RA + 3 + 2)
    let r1 := r0.set (RA + 3 + 2) (r0.get (RA + 2))
    let r2 := r1.set (RA + 3 + 1) (r1.get (RA + 1))
    let r3 := r2.set (RA + 3) (r2.get RA)
    .ok { s with reg := r3 }

/-- OP_TFORLOOP after `callR` returned: `if R[A+3] != LNil { R[A+2] = R[A+3]; jump }`; result: registry, jump taken. -/
def opTForFinish (s : St) (A : Nat) : Except Err (St × Bool) :=
  match s.stack with
  | [] => .error (.goPanic "currentFrame nil")
  | cf :: _ =>
    let RA := cf.localBase + A
    let value := s.reg.get (RA + 3)
    if value ≠ lnil then .ok ({ s with reg := s.reg.set (RA + 2) value }, true) else .ok (s, false)

/-! ## `select` / `unpack` (baselib.go) -/

/-- `baseSelect` with a number index: `num = L.GetTop()` (the index argument included); result = how many of the
    top-most stack values are returned. -/
def baseSelectNum (idx : Int) (num : Nat) : Except Err Nat :=
  let idx' : Int := if idx < 0 then (num : Int) + idx else if idx > (num : Int) then (num : Int) else idx
  if 1 > idx' then .error (.luaError "bad argument #1 to select (index out of range)")
  else .ok ((num : Int) - idx').toNat

/-- `baseSelect` with `'#'`: pushes `GetTop() - 1`, returns 1. -/
def baseSelectCount (num : Nat) : Int := (num : Int) - 1

/-- the push loop of `baseUnpack`: `for i := start; i <= end; i++ { Push(tb.RawGetInt(i)) }`, `fuel` iterations. -/
def unpackLoop (t : Int → OVal) (i : Int) : Nat → List OVal
  | 0 => []
  | k + 1 => t i :: unpackLoop t (i + 1) k

/-- `baseUnpack`: values pushed and the returned count (`ret < 0 → 0`).  Go `int` overflow is not modelled
    (`|start|, |end| < 2^62`). -/
def baseUnpack (t : Int → OVal) (start end_ : Int) : List OVal × Nat :=
  (unpackLoop t start (end_ - start + 1).toNat, if end_ - start + 1 < 0 then 0 else (end_ - start + 1).toNat)

/-- what a host function's caller receives (`gReturn` seen from the value stack): the top-most `gfnret` values of
    the callee's stack, adjusted to `nret`. -/
def gResults (stack : List OVal) (gfnret : Nat) : List OVal := stack.drop (stack.length - gfnret)

/-! ## SETLIST flush plan of `compileTableExpr` (compile.go) -/

/-- kinds of constructor fields as `compileTableExpr` distinguishes them. -/
inductive Field where
  | item    -- positional, single value (includes a call / `...` that is not the last field)
  | keyed   -- `[k] = v` / `name = v`
  | multi   -- positional call / `...` in the last position (`isVarArgReturnExpr`)
deriving DecidableEq, Repr, Inhabited

/-- an emitted OP_SETLIST: operands B, C and the extra code word written when C = 0. -/
structure SetList where
  b : Nat
  c : Nat
  extra : Option Nat
deriving DecidableEq, Repr, Inhabited

def mkSetList (b block : Nat) : SetList :=
  if block > 511 then { b := b, c := 0, extra := some block } else { b := b, c := block, extra := none }

/-- one iteration of the field loop (after the repair `fixes/C02-tableexpr-setlist.diff`):
    new `arraycount` and the SETLIST emitted after this field, if any. -/
def flushStep (arraycount : Nat) (islast : Bool) (f : Field) : Nat × Option SetList :=
  let fpf := Generated.FieldsPerFlush
  let lastvararg := islast && f = .multi
  let isitem := (f = .item) || (f = .multi && !islast)
  let arraycount := if isitem then arraycount + 1 else arraycount
  let flush := arraycount % fpf
  if (isitem && flush = 0) || (islast && flush ≠ 0) || lastvararg then
    let num := if flush = 0 then fpf else flush
    let c := (arraycount - 1) / fpf + 1
    if lastvararg then (arraycount, some (mkSetList 0 (arraycount / fpf + 1)))
    else (arraycount, some (mkSetList num c))
  else (arraycount, none)

/-- the same iteration as in the tree before the repair (kept to state the defects as theorems):
    `if (arraycount != 0 && (flush == 0 || islast)) || lastvararg`, `b = 0` whenever the last field's *value* is a
    call / `...` (also for keyed fields: `valMulti`), extra word always 0. -/
def flushStepOld (arraycount : Nat) (islast : Bool) (f : Field) (valMulti : Bool) : Nat × Option SetList :=
  let fpf := Generated.FieldsPerFlush
  let lastvararg := islast && f = .multi
  let isitem := (f = .item) || (f = .multi && !islast)
  let arraycount := if isitem then arraycount + 1 else arraycount
  let flush := arraycount % fpf
  if (arraycount ≠ 0 && (flush = 0 || islast)) || lastvararg then
    let num := if flush = 0 then fpf else flush
    let c := if arraycount = 0 then 1 else (arraycount - 1) / fpf + 1     -- Go: (0-1)/50 = 0
    let b := if islast && valMulti then 0 else num
    (arraycount, some (if c > 511 then { b := b, c := 0, extra := some 0 } else { b := b, c := c, extra := none }))
  else (arraycount, none)

/-- the whole plan: per field, the SETLIST emitted after it. -/
def flushPlanAux : Nat → List Field → List (Option SetList)
  | _, [] => []
  | ac, f :: rest =>
    let (ac', sl) := flushStep ac rest.isEmpty f
    sl :: flushPlanAux ac' rest

def flushPlan (fields : List Field) : List (Option SetList) := flushPlanAux 0 fields

end GLua.CallFrame
