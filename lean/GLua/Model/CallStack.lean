/-
  Model of the two call-frame stacks of /repo/state.go (`fixedCallFrameStack`, `autoGrowingCallFrameStack`),
  function by function.  A Go slice / array is a pair (length, index → element); every index expression is a
  checked access whose failure is an explicit `.goPanic`.  `uint16` (`segIdx`) conversions are explicit (`u16`).

  What is abstracted: a frame is (`tag`, `idx`) — `tag` stands for every field the caller supplies, `idx` is the
  field `Push` assigns.  `segmentPool` is abstracted to "a segment whose eight slots hold unknown frames"
  (`none` slots); the Model never relies on the content of a slot it has not written since the segment was
  obtained.  Pointers returned by `Pop/Last/At` are observed at once (aliasing with later pushes is not modelled).
  Arguments of `SetSp`/`At` are naturals (callers pass `Sp()` values and frame indices).

  The Model describes the tree WITH fixes/C12-autostack-isfull-setsp.diff applied (`isFull`, `setSp`);
  the unrepaired functions are kept as `isFullOrig` / `setSpOrig` for the negation witnesses in Props/C12.
-/
import GLua.Basic
import GLua.Generated.Consts
import GLua.Spec.LimitsSpec

namespace GLua.CallStack
open GLua GLua.LimitsSpec

abbrev FPS : Nat := Generated.FramesPerSegment

def zeroFrame : Frame := ⟨0, 0⟩

def upd {α} (f : Nat → α) (i : Nat) (x : α) : Nat → α := fun j => if j = i then x else f j

/-! ## fixedCallFrameStack -/

structure Fixed where
  len   : Nat               -- len(cs.array)
  array : Nat → Frame       -- cs.array[i], meaningful for i < len
  sp    : Nat

namespace Fixed

/-- `newFixedCallFrameStack(size)`: `make([]callFrame, size)` is zeroed. -/
def new (size : Nat) : Fixed := ⟨size, fun _ => zeroFrame, 0⟩

def isEmpty (s : Fixed) : Bool := s.sp == 0
def isFull (s : Fixed) : Bool := s.sp == s.len

def push (s : Fixed) (tag : Int) : Except Err Fixed :=
  if s.sp < s.len then .ok { s with array := upd s.array s.sp ⟨tag, s.sp⟩, sp := s.sp + 1 }
  else .error (.goPanic "fixedCallFrameStack.Push: index out of range")

def getSp (s : Fixed) : Nat := s.sp
def setSp (s : Fixed) (n : Nat) : Fixed := { s with sp := n }

def last (s : Fixed) : Except Err Obs :=
  if s.sp = 0 then .ok .nil
  else if s.sp - 1 < s.len then .ok (.frame (s.array (s.sp - 1)))
  else .error (.goPanic "fixedCallFrameStack.Last: index out of range")

def atSp (s : Fixed) (i : Nat) : Except Err Obs :=
  if i < s.len then .ok (.frame (s.array i)) else .error (.goPanic "fixedCallFrameStack.At: index out of range")

def pop (s : Fixed) : Except Err (Fixed × Obs) :=
  if s.sp = 0 then .error (.goPanic "fixedCallFrameStack.Pop: index out of range [-1]")
  else if s.sp - 1 < s.len then .ok ({ s with sp := s.sp - 1 }, .frame (s.array (s.sp - 1)))
  else .error (.goPanic "fixedCallFrameStack.Pop: index out of range")

def step (s : Fixed) : Op → Except Err (Fixed × Obs)
  | .push tag => (s.push tag).map (fun s' => (s', .unit))
  | .pop => s.pop
  | .last => s.last.map (fun o => (s, o))
  | .at i => (s.atSp i).map (fun o => (s, o))
  | .setSp n => .ok (s.setSp n, .unit)
  | .sp => .ok (s, .nat s.getSp)
  | .isFull => .ok (s, .bool s.isFull)
  | .isEmpty => .ok (s, .bool s.isEmpty)

end Fixed

/-! ## autoGrowingCallFrameStack -/

/-- `callFrameStackSegment.array`; `none` = a frame left in the segment by whoever used it before. -/
abbrev Seg := Nat → Option Frame

/-- a segment from `newCallFrameStackSegment()` (pool or fresh): content unknown. -/
def poolSeg : Seg := fun _ => none

structure Auto where
  nseg   : Nat                  -- len(cs.segments)
  segs   : Nat → Option Seg     -- cs.segments[i]; none = nil pointer
  segIdx : Nat                  -- uint16
  segSp  : Nat                  -- uint8

def u16 (n : Nat) : Nat := n % 65536

namespace Auto

/-- `newAutoGrowingCallFrameStack(maxSize)`; `cs.segments[0] = …` panics when the slice is empty. -/
def new (maxSize : Nat) : Except Err Auto :=
  let nseg := (maxSize + (FPS - 1)) / FPS
  if 0 < nseg then .ok ⟨nseg, upd (fun _ => none) 0 (some poolSeg), 0, 0⟩
  else .error (.goPanic "newAutoGrowingCallFrameStack: index out of range [0] with length 0")

/-- `segIdx(len(cs.segments)-1)` in `Push` loses bits: the stack cannot reach its last segments
    (known finding C12-autostack-segidx-uint16; excluded from the theorems by `size ≤ 8·65536`). -/
def segIdxTruncates (maxSize : Nat) : Bool :=
  let nseg := (maxSize + (FPS - 1)) / FPS
  u16 (nseg - 1) != nseg - 1

def isEmpty (s : Auto) : Bool := s.segIdx == 0 && s.segSp == 0

/-- repaired: `int(cs.segIdx) == len(cs.segments)-1 && cs.segSp >= FramesPerSegment`. -/
def isFull (s : Auto) : Bool := ((s.segIdx : Int) == (s.nseg : Int) - 1) && decide (s.segSp ≥ FPS)

/-- the unrepaired tree: `int(cs.segIdx) == len(cs.segments) && cs.segSp >= FramesPerSegment`. -/
def isFullOrig (s : Auto) : Bool := (s.segIdx == s.nseg) && decide (s.segSp ≥ FPS)

/-- read `cs.segments[i].array[j]` (j < FramesPerSegment by construction of the callers). -/
def read (s : Auto) (i j : Nat) : Except Err Obs :=
  if i < s.nseg then
    match s.segs i with
    | none => .error (.goPanic "autoGrowingCallFrameStack: nil segment dereference")
    | some seg => if j < FPS then
        match seg j with
        | some f => .ok (.frame f)
        | none => .ok .stale
      else .error (.goPanic "autoGrowingCallFrameStack: frame index out of range")
  else .error (.goPanic "autoGrowingCallFrameStack: segment index out of range")

def push (s : Auto) (tag : Int) : Except Err Auto :=
  -- curSeg := cs.segments[cs.segIdx]
  if s.segIdx < s.nseg then
    if s.segSp ≥ FPS then
      -- segment full, push new segment if allowed
      if s.segIdx < u16 (s.nseg - 1) then
        let i' := u16 (s.segIdx + 1)
        if i' < s.nseg then
          .ok { s with segs := upd s.segs i' (some (upd poolSeg 0 (some ⟨tag, 0 + FPS * i'⟩))), segIdx := i', segSp := 1 }
        else .error (.goPanic "autoGrowingCallFrameStack.Push: segment index out of range")
      else .error (.goPanic "lua callstack overflow")
    else
      match s.segs s.segIdx with
      | none => .error (.goPanic "autoGrowingCallFrameStack.Push: nil segment dereference")
      | some seg =>
        .ok { s with segs := upd s.segs s.segIdx (some (upd seg s.segSp (some ⟨tag, s.segSp + FPS * s.segIdx⟩))),
                     segSp := s.segSp + 1 }
  else .error (.goPanic "autoGrowingCallFrameStack.Push: segment index out of range")

def getSp (s : Auto) : Nat := s.segSp + s.segIdx * FPS

/-- the loop of `SetSp`: free segments while `segIdx > desiredSegIdx`. Returns the segments and the final `segIdx`. -/
def unwind (nseg : Nat) (d : Nat) : (Nat → Option Seg) → Nat → Except Err ((Nat → Option Seg) × Nat)
  | segs, 0 => .ok (segs, 0)
  | segs, k + 1 =>
    if k + 1 ≤ d then .ok (segs, k + 1)
    else if k + 1 < nseg then unwind nseg d (upd segs (k + 1) none) k
    else .error (.goPanic "autoGrowingCallFrameStack.SetSp: segment index out of range")

/-- the unrepaired `SetSp`. -/
def setSpOrig (s : Auto) (sp : Nat) : Except Err Auto :=
  let desiredSegIdx := u16 (sp / FPS)
  let desiredFramesInLastSeg := sp % FPS
  match unwind s.nseg desiredSegIdx s.segs s.segIdx with
  | .error e => .error e
  | .ok (segs, i) => .ok { s with segs := segs, segIdx := i, segSp := desiredFramesInLastSeg }

/-- repaired: `if sp >= cs.Sp() { return }` first (nothing to unwind; a full last segment is
    `(segIdx, FramesPerSegment)`, not `(segIdx+1, 0)`). -/
def setSp (s : Auto) (sp : Nat) : Except Err Auto :=
  if sp ≥ s.getSp then .ok s else s.setSpOrig sp

def last (s : Auto) : Except Err Obs :=
  if s.segIdx < s.nseg then
    if s.segSp = 0 then
      if s.segIdx = 0 then .ok .nil
      else s.read (s.segIdx - 1) (FPS - 1)
    else s.read s.segIdx (s.segSp - 1)
  else .error (.goPanic "autoGrowingCallFrameStack.Last: segment index out of range")

def atSp (s : Auto) (sp : Nat) : Except Err Obs := s.read (u16 (sp / FPS)) (sp % FPS)

def pop (s : Auto) : Except Err (Auto × Obs) :=
  if s.segIdx < s.nseg then
    if s.segSp = 0 then
      if s.segIdx = 0 then .ok (s, .nil)     -- stack empty: returns nil
      else
        let s' := { s with segs := upd s.segs s.segIdx none, segIdx := s.segIdx - 1, segSp := FPS - 1 }
        (s'.read (s.segIdx - 1) (FPS - 1)).map (fun o => (s', o))
    else
      let s' := { s with segSp := s.segSp - 1 }
      (s'.read s.segIdx (s.segSp - 1)).map (fun o => (s', o))
  else .error (.goPanic "autoGrowingCallFrameStack.Pop: segment index out of range")

def step (s : Auto) : Op → Except Err (Auto × Obs)
  | .push tag => (s.push tag).map (fun s' => (s', .unit))
  | .pop => s.pop
  | .last => s.last.map (fun o => (s, o))
  | .at i => (s.atSp i).map (fun o => (s, o))
  | .setSp n => (s.setSp n).map (fun s' => (s', .unit))
  | .sp => .ok (s, .nat s.getSp)
  | .isFull => .ok (s, .bool s.isFull)
  | .isEmpty => .ok (s, .bool s.isEmpty)

/-- the unrepaired tree's step (only `IsFull` and `SetSp` differ). -/
def stepOrig (s : Auto) : Op → Except Err (Auto × Obs)
  | .setSp n => (s.setSpOrig n).map (fun s' => (s', .unit))
  | .isFull => .ok (s, .bool s.isFullOrig)
  | op => s.step op

end Auto

/-! ## runs -/

def runFixed : Fixed → List Op → Except Err (Fixed × List Obs)
  | s, [] => .ok (s, [])
  | s, op :: r => match s.step op with
    | .error e => .error e
    | .ok (s', o) => match runFixed s' r with
      | .error e => .error e
      | .ok (s'', os) => .ok (s'', o :: os)

def runAuto (stp : Auto → Op → Except Err (Auto × Obs)) : Auto → List Op → Except Err (Auto × List Obs)
  | s, [] => .ok (s, [])
  | s, op :: r => match stp s op with
    | .error e => .error e
    | .ok (s', o) => match runAuto stp s' r with
      | .error e => .error e
      | .ok (s'', os) => .ok (s'', o :: os)

end GLua.CallStack
