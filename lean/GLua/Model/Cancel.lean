/-
  Model of gopher-lua's cancellation MECHANISM (property C11, mechanism part).

  Transcribed from /repo:
    vm.go        mainLoop / mainLoopWithContext   → `pollIter`, `step`
    state.go     SetContext / RemoveContext / NewThread / LState.kill / PCall (recover, error handler)
                                                  → `setContext`, `removeContext`, `newThread`, `killTh`, `settle`
    vm.go        threadRun (recover; wrapped coroutines re-panic in the parent)      → `settle` (.trun)
    channellib.go channelReceive / channelSelect / channelSend (select with ctx.Done()) → `blockingOp`

  The PROGRAM is not modelled: it is an arbitrary list of `Action`s (an oracle answering "what does the
  instruction dispatched now do to the nest of activations?"), so non-terminating programs are covered.
  The Go call stack is modelled as a `List Frame` (innermost first): activations of the main loop, the
  protected-call boundaries `LState.PCall` (with the state of its deferred recover) and `threadRun`.

  Core Lean only.  Go panics are explicit (`Err.goPanic`, `PollRes.nilDeref`), never totalised away.
-/
namespace GLua.Cancel

/-- A context is identified by its path in the context tree: `context.WithCancel(parent)` extends the path.
    Cancelling a context cancels every context that has it as a prefix (its descendants). -/
abbrev Ctx := List Nat

/-- `ctx.Done()` is closed iff the context or one of its ancestors was cancelled. -/
def isDone (cancelled : List Ctx) (c : Ctx) : Bool := cancelled.any (fun p => p.isPrefixOf c)

/-- which loop function an `LState` (or a running activation) uses: `mainLoop` / `mainLoopWithContext`. -/
inductive Loop where
  | plain | withCtx
deriving DecidableEq, Repr, Inhabited

/-- error handler of a protected call: none (`pcall`, `DoString`), a Lua function, a Go function. -/
inductive Handler where
  | none | lua | go
deriving DecidableEq, Repr, Inhabited

/-- the context-related fields of an `LState`. -/
structure Thread where
  loop : Loop := .plain              -- ls.mainLoop
  ctx : Option Ctx := none           -- ls.ctx
  cancelFn : Option Ctx := none      -- ls.ctxCancelFn (cancels exactly this context)
  dead : Bool := false               -- ls.Dead
  wrapped : Bool := false            -- ls.wrapped
  shared : Bool := false             -- ls.ctxShared: NewThread derived a child context from ls.ctx
deriving DecidableEq, Repr, Inhabited

/-- state.go `SetContext`. -/
def setContext (t : Thread) (c : Ctx) : Thread := { t with loop := .withCtx, ctx := some c }
/-- state.go `RemoveContext`. -/
def removeContext (t : Thread) : Thread := { t with loop := .plain, ctx := none }
/-- state.go `NewThread`: child context + `mainLoopWithContext` iff the creator has a context *now*. -/
def newThread (parent : Thread) (fresh : Nat) (wrapped : Bool) : Thread :=
  match parent.ctx with
  | some c => { loop := .withCtx, ctx := some (c ++ [fresh]), cancelFn := some (c ++ [fresh]), wrapped := wrapped }
  | none => { wrapped := wrapped }

/-- one frame of the Go call stack that matters for cancellation. -/
inductive Frame where
  /-- an activation of `ls.mainLoop` on thread `th`; `loop` = the function that was started (fixed for the
      lifetime of the activation); `isG` = the early branch `if L.currentFrame.Fn.IsG { callGFunction; return }`
      (a Go function body: never polls). -/
  | act (th : Nat) (loop : Loop) (isG : Bool)
  /-- `LState.PCall` on thread `th` with its error handler kind (deferred recover armed). -/
  | pcall (th : Nat) (h : Handler)
  /-- `LState.PCall` whose deferred function is running the (Lua) error handler: a second error is caught
      by the inner recover and becomes the result. -/
  | handling (th : Nat)
  /-- `threadRun(th)` (coroutine.resume / wrap / LState.Resume); `wrapped`: errors are re-raised in the parent. -/
  | trun (th : Nat) (wrapped : Bool)
deriving DecidableEq, Repr, Inhabited

inductive Err where
  | cancelled      -- `L.RaiseError(L.ctx.Err().Error())`
  | lua            -- any other Lua error value (incl. the value returned by a Go error handler)
  | goPanic        -- Go run-time panic (nil interface call …), converted to ApiErrorPanic by the recover
deriving DecidableEq, Repr, Inhabited

inductive Event where
  | poll (th : Nat) (sawDone : Bool)   -- `select { case <-L.ctx.Done(): … default: … }` executed
  | dispatch (th : Nat)                -- `jumpTable[op](L, inst, baseframe)` started
  | host (th : Nat)                    -- a host (Go) function called by the dispatched instruction ran
  | handlerGo (th : Nat)               -- a Go error handler ran inside PCall's recover (no instruction)
  | nilDeref (th : Nat)                -- `L.ctx.Done()` on a nil context (RemoveContext under a running loop)
  | killed (th : Nat)
  | blocked (th : Nat)
  | woke (th : Nat)
  | returned (e : Option Err)          -- the outermost DoString/PCall/Resume returned to the host
deriving DecidableEq, Repr, Inhabited

structure Sys where
  threads : List Thread := []
  cancelled : List Ctx := []
deriving DecidableEq, Repr, Inhabited

def Sys.thread (sys : Sys) (th : Nat) : Thread := sys.threads.getD th {}
def Sys.loopOf (sys : Sys) (th : Nat) : Loop := (sys.thread th).loop
def Sys.ctxOf (sys : Sys) (th : Nat) : Option Ctx := (sys.thread th).ctx
def Sys.setThread (sys : Sys) (th : Nat) (t : Thread) : Sys := { sys with threads := sys.threads.set th t }

/-- state.go `LState.kill`: mark dead; release (cancel) the thread's own child context unless threads created
    from it still live under it (`ctxShared`, fix C11-coroutine-outlives-creator). -/
def killTh (sys : Sys) (th : Nat) : Sys :=
  let t := sys.thread th
  { threads := sys.threads.set th { t with dead := true },
    cancelled := match t.cancelFn with
      | some c => if t.shared then sys.cancelled else c :: sys.cancelled
      | none => sys.cancelled }

/-- vm.go: one loop iteration up to the decision "dispatch or raise". -/
inductive PollRes where
  | dispatch (polled : Bool)
  | raise
  | nilDeref
deriving DecidableEq, Repr

def pollIter (loop : Loop) (ctx : Option Ctx) (cancelled : List Ctx) : PollRes :=
  match loop with
  | .plain => .dispatch false                       -- mainLoop: no select
  | .withCtx =>
    match ctx with
    | none => .nilDeref                             -- `L.ctx.Done()` with L.ctx == nil
    | some c => if isDone cancelled c then .raise else .dispatch true

/-- what is travelling down the Go stack. -/
inductive Mode where
  | raising (e : Err)          -- a panic(*ApiError) unwinds
  | retG (v : Option Err)      -- a Go function (basePCall, coResume, PCall itself) returns into the frame below
  | retN                       -- an activation returned normally into its boundary
deriving DecidableEq, Repr

structure Settled where
  sys : Sys
  stack : List Frame
  result : Option (Option Err) := none
  events : List Event := []
deriving Repr

def Settled.pre (ev : Event) (o : Settled) : Settled := { o with events := ev :: o.events }

/-- Unwinding / returning through the Go stack until a Lua activation continues its loop, an error handler
    activation is started, or the outermost call returns to the host (state.go PCall's deferred function,
    vm.go threadRun's deferred function, callGFunction's return path).

    Assumption (stated in notes): a Go function that is in flight returns once its nested call returned
    (true of basePCall, baseXPCall, coResume, wrapaux; a Go library function that keeps calling a *catching*
    Go callback, e.g. `table.foreach(t, pcall)`, is a long-running Go call and not modelled). -/
def settle (sys : Sys) : Mode → List Frame → Settled
  | .raising e, [] => { sys, stack := [], result := some (some e), events := [.returned (some e)] }
  | .raising e, .act _ _ _ :: r => settle sys (.raising e) r
  | .raising e, .pcall _ .none :: r => settle sys (.retG (some e)) r
  | .raising _, .pcall th .go :: r => (settle sys (.retG (some .lua)) r).pre (.handlerGo th)
  | .raising _, .pcall th .lua :: r =>
      { sys, stack := .act th (sys.loopOf th) false :: .handling th :: r }
  | .raising e, .handling _ :: r => settle sys (.retG (some e)) r
  | .raising e, .trun th false :: r => (settle (killTh sys th) (.retG (some e)) r).pre (.killed th)
  -- wrapped coroutine (fix c3249b5): the thread is killed, then the error is re-raised in the resumer
  | .raising e, .trun th true :: r => (settle (killTh sys th) (.raising e) r).pre (.killed th)
  | .retG v, [] => { sys, stack := [], result := some v, events := [.returned v] }
  | .retG _, .act th l false :: r => { sys, stack := .act th l false :: r }
  | .retG _, .act _ _ true :: r => settle sys .retN r
  | .retG _, .pcall _ _ :: r => settle sys (.retG none) r
  | .retG _, .handling _ :: r => settle sys (.retG (some .lua)) r
  | .retG _, .trun th _ :: r => (settle (killTh sys th) (.retG none) r).pre (.killed th)
  | .retN, [] => { sys, stack := [], result := some none, events := [.returned none] }
  | .retN, .act th l false :: r => { sys, stack := .act th l false :: r }
  | .retN, .act _ _ true :: r => settle sys .retN r
  | .retN, .pcall _ _ :: r => settle sys (.retG none) r
  | .retN, .handling _ :: r => settle sys (.retG (some .lua)) r
  | .retN, .trun th _ :: r => (settle (killTh sys th) (.retG none) r).pre (.killed th)

/-- nested call started by one instruction (through a Go function or a metamethod). -/
inductive Layer where
  | pcall (h : Handler)     -- pcall / xpcall / L.PCall
  | ucall                   -- unprotected `L.Call` (metamethod, sort comparator, gsub callback, …)
  | resume (th : Nat)       -- coroutine.resume / wrap call: `threadRun(th)`
deriving DecidableEq, Repr

inductive BlockKind where
  | recv | select | send
deriving DecidableEq, Repr

inductive HostOp where
  | emit                                  -- a host function without effect on the mechanism
  | setContext (c : Ctx)                  -- L.SetContext(c)
  | removeContext                         -- L.RemoveContext()
  | cancel (c : Ctx)                      -- the host function cancels context c
  | newThread (wrapped : Bool)            -- coroutine.create / wrap / L.NewThread
  | block (k : BlockKind) (ready : Bool)  -- channel operation; `ready` = the channel side can proceed now
deriving DecidableEq, Repr

/-- what the oracle (the program) lets the dispatched instruction do. -/
inductive Action where
  | instr                        -- stays in the activation (arithmetic, jumps, Lua-to-Lua call/return/tail call, goto)
  | host (op : HostOp)
  | enter (layers : List Layer)  -- nested activations; all but the innermost run Go functions
  | ret                          -- OP_RETURN reaching the base frame of the activation
  | err                          -- the instruction raises a Lua error
  | yield                        -- coroutine.yield reaching threadRun directly
  | extCancel (c : Ctx)          -- NOT an instruction: another goroutine / a timer cancels c between two iterations
deriving DecidableEq, Repr

structure St where
  sys : Sys := {}
  stack : List Frame := []
  result : Option (Option Err) := none
  blockedOn : Option (Nat × Option Ctx) := none   -- thread blocked in a channel operation, and the ctx it selects on
deriving Repr, Inhabited

def pushLayers (sys : Sys) : Nat → List Layer → List Frame → List Frame
  | _, [], st => st
  | cur, .pcall h :: ls, st =>
      pushLayers sys cur ls (.act cur (sys.loopOf cur) (!ls.isEmpty) :: .pcall cur h :: st)
  | cur, .ucall :: ls, st =>
      pushLayers sys cur ls (.act cur (sys.loopOf cur) (!ls.isEmpty) :: st)
  | _, .resume t :: ls, st =>
      pushLayers sys t ls (.act t (sys.loopOf t) (!ls.isEmpty) :: .trun t (sys.thread t).wrapped :: st)

/-- a coroutine that does not exist cannot be resumed (the instruction then stays in its activation). -/
def layersValid (sys : Sys) (ls : List Layer) : Bool :=
  ls.all fun l => match l with
    | .resume t => decide (t < sys.threads.length)
    | _ => true

/-- channellib.go: every blocking operation is a select that includes `L.ctx.Done()` when the state has a
    context (channelSend after fix C11-channel-send-ctx).  Returns true when the operation returns now. -/
def blockingReturns (ctx : Option Ctx) (cancelled : List Ctx) (ready : Bool) : Bool :=
  match ctx with
  | none => ready
  | some c => ready || isDone cancelled c

def applyHost (s : St) (th : Nat) : HostOp → St
  | .emit => s
  | .setContext c => { s with sys := s.sys.setThread th (setContext (s.sys.thread th) c) }
  | .removeContext => { s with sys := s.sys.setThread th (removeContext (s.sys.thread th)) }
  | .cancel c => { s with sys := { s.sys with cancelled := c :: s.sys.cancelled } }
  | .newThread w =>
      let creator := s.sys.thread th
      let creator' : Thread := if creator.ctx.isSome then { creator with shared := true } else creator
      { s with sys := { s.sys with threads := s.sys.threads.set th creator' ++ [newThread creator s.sys.threads.length w] } }
  | .block _ ready =>
      if blockingReturns (s.sys.ctxOf th) s.sys.cancelled ready then s
      else { s with blockedOn := some (th, s.sys.ctxOf th) }

def ofSettled (o : Settled) : St := { sys := o.sys, stack := o.stack, result := o.result }

/-- the instruction dispatched by the activation `act th loop false` on top of `r` performs `a`. -/
def dispatchStep (a : Action) (s : St) (th : Nat) (_loop : Loop) (r : List Frame) : St × List Event :=
  match a with
  | .instr => (s, [])
  | .extCancel _ => (s, [])
  | .host op =>
      let s' := applyHost s th op
      (s', .host th :: (if s'.blockedOn.isSome then [.blocked th] else []))
  | .enter ls =>
      if layersValid s.sys ls then ({ s with stack := pushLayers s.sys th ls s.stack }, []) else (s, [])
  | .ret => let o := settle s.sys .retN r; (ofSettled o, o.events)
  | .err => let o := settle s.sys (.raising .lua) r; (ofSettled o, o.events)
  | .yield =>
      match r with
      | .trun t _ :: r' => if t = th then let o := settle s.sys (.retG none) r'; (ofSettled o, o.events)
                           else let o := settle s.sys (.raising .lua) r; (ofSettled o, o.events)
      | _ => let o := settle s.sys (.raising .lua) r; (ofSettled o, o.events)

/-- One iteration of `for { … select { case <-L.ctx.Done(): raise; default: dispatch } }` (vm.go) of the
    activation `act th loop false` running on top of `r`. -/
def iter (a : Action) (s : St) (th : Nat) (loop : Loop) (r : List Frame) : St × List Event :=
  match pollIter loop (s.sys.ctxOf th) s.sys.cancelled with
  | .raise =>
      (ofSettled (settle s.sys (.raising .cancelled) r),
       .poll th true :: (settle s.sys (.raising .cancelled) r).events)
  | .nilDeref =>
      (ofSettled (settle s.sys (.raising .goPanic) r),
       .nilDeref th :: (settle s.sys (.raising .goPanic) r).events)
  | .dispatch polled =>
      ((dispatchStep a s th loop r).1,
       (if polled then [.poll th false] else []) ++ .dispatch th :: (dispatchStep a s th loop r).2)

/-- One step of the machine: an external cancellation, or one iteration of the running loop. -/
def step (a : Action) (s : St) : St × List Event :=
  if s.result.isSome then (s, []) else
  match a, s.blockedOn with
  | .extCancel c, none => ({ s with sys := { s.sys with cancelled := c :: s.sys.cancelled } }, [])
  | .extCancel c, some (th, bc) =>
      if blockingReturns bc (c :: s.sys.cancelled) false then
        ({ s with sys := { s.sys with cancelled := c :: s.sys.cancelled }, blockedOn := none }, [.woke th])
      else ({ s with sys := { s.sys with cancelled := c :: s.sys.cancelled } }, [])
  | _, some _ => (s, [])      -- the goroutine is blocked in a channel operation
  | _, none =>
    match s.stack with
    | .act th loop false :: r => iter a s th loop r
    | _ => (s, [])            -- not a running configuration

def run : List Action → St → St × List Event
  | [], s => (s, [])
  | a :: as, s =>
    let (s1, e1) := step a s
    let (s2, e2) := run as s1
    (s2, e1 ++ e2)

/-! ### measures -/

def isPoll : Event → Bool
  | .poll _ _ => true
  | _ => false

def isInstr : Event → Bool
  | .dispatch _ => true
  | .host _ => true
  | _ => false

def countPolls (es : List Event) : Nat := (es.filter isPoll).length

/-- number of enclosing protected calls / coroutine boundaries: the `d` of the property. -/
def depth : List Frame → Nat
  | [] => 0
  | .act _ _ _ :: r => depth r
  | _ :: r => depth r + 1

/-- exact potential: a Lua error handler costs one more dispatch attempt. -/
def phi : List Frame → Nat
  | [] => 0
  | .act _ _ _ :: r => phi r
  | .pcall _ .lua :: r => phi r + 2
  | _ :: r => phi r + 1

/-- the initial configuration of `DoString` on a state whose context `a` was attached with SetContext. -/
def initSt (a : Ctx) : St :=
  { sys := { threads := [setContext {} a] }, stack := [.act 0 .withCtx false, .pcall 0 .none] }

/-- the same without a context. -/
def initPlain : St :=
  { sys := { threads := [{}] }, stack := [.act 0 .plain false, .pcall 0 .none] }

end GLua.Cancel
