/-
  Model for C13 — Go channels as a labelled transition system, and gopher-lua's channel library
  (/repo/channellib.go, /repo/utils.go isGoroutineSafe) as maps onto it.  Core Lean only.

  Two layers, kept apart on purpose:

  * `Ch`, `Case`, `Out`, `Ev`, `Cfg`, `step`, `obsOf` — the *Go* semantics of `chan T`, `close`, and `select`
    (buffered FIFO with capacity, rendezvous for capacity 0, close, panics on closed channels, `default` only when no
    other case can proceed).  This is a PARAMETER of the verification (trusted: Go language specification, sections
    "Channel types", "Send statements", "Receive operator", "Close", "Select statements"); it is not gopher-lua code.
  * `LV`, `isGoroutineSafe`, `channelSend`, `channelReceive`, `channelClose`, `selectCase`, `channelSelect`,
    `selectReturn` — transcriptions of the gopher-lua wrappers: which LTS operation each performs, what it checks first,
    and how the LTS outcome is turned into Lua return values.  These are tied to the real code by the correspondence run.
-/
import GLua.Basic

namespace GLua.Chan

abbrev Gid := Nat   -- goroutine (= one LState running in it)
abbrev Cid := Nat   -- channel object

/-! ## Go channel LTS (parameter) -/

/-- state of one `chan T`: capacity, queued values (head = oldest), closed flag -/
structure Ch (α : Type) where
  cap : Nat := 0
  buf : List α := []
  closed : Bool := false
deriving Repr

/-- one case of a `select` (a plain send / receive statement is a select with exactly one case) -/
inductive Case (α : Type) where
  | send (c : Cid) (v : α)
  | recv (c : Cid)
  | dflt
deriving Repr, DecidableEq

def Case.isDflt {α} : Case α → Bool
  | .dflt => true
  | _ => false

/-- what a completed operation hands back to its goroutine -/
inductive Out (α : Type) where
  | sent                 -- a send case completed
  | got (v : α)          -- a receive case completed with (v, ok = true)
  | closedEmpty          -- a receive case completed with (zero value, ok = false)
  | dflt                 -- the default case was taken
  | panic                -- "send on closed channel"
deriving Repr, DecidableEq

/-- configuration: all channels, and the goroutines currently blocked in a send/receive/select together
    with the cases they offer -/
structure Cfg (α : Type) where
  ch : Cid → Ch α
  pend : List (Gid × List (Case α)) := []

def Cfg.init {α} (caps : Cid → Nat) : Cfg α := { ch := fun c => { cap := caps c } }

def setCh {α} (f : Cid → Ch α) (c : Cid) (x : Ch α) : Cid → Ch α := fun c' => if c' = c then x else f c'

def pendOf {α} (p : List (Gid × List (Case α))) (g : Gid) : Option (List (Case α)) :=
  match p with
  | [] => none
  | (g', cs) :: r => if g' = g then some cs else pendOf r g

def unpend {α} (p : List (Gid × List (Case α))) (g : Gid) : List (Gid × List (Case α)) :=
  p.filter (fun e => e.1 ≠ g)

/-- can this case proceed on its own (through the buffer / the closed flag), and with which outcome? -/
def soloOut {α} (ch : Cid → Ch α) : Case α → Option (Out α)
  | .send c _ =>
    if (ch c).closed then some .panic
    else if (ch c).buf.length < (ch c).cap then some .sent
    else none
  | .recv c =>
    match (ch c).buf with
    | v :: _ => some (.got v)
    | [] => if (ch c).closed then some .closedEmpty else none
  | .dflt => none

/-- effect on the channels of a case proceeding on its own -/
def soloApply {α} (ch : Cid → Ch α) : Case α → (Cid → Ch α)
  | .send c v =>
    if (ch c).closed then ch else setCh ch c { ch c with buf := (ch c).buf ++ [v] }
  | .recv c =>
    match (ch c).buf with
    | _ :: r => setCh ch c { ch c with buf := r }
    | [] => ch
  | .dflt => ch

/-- a blocked goroutine `g' ≠ g` offers the complementary case on the same open unbuffered channel -/
def partnerOffers {α} (σ : Cfg α) (g : Gid) : Case α → Bool
  | .send c _ => !(σ.ch c).closed && (σ.ch c).cap == 0 &&
      σ.pend.any (fun e => e.1 != g && e.2.any (fun cs => match cs with | .recv c' => c' == c | _ => false))
  | .recv c => !(σ.ch c).closed && (σ.ch c).cap == 0 &&
      σ.pend.any (fun e => e.1 != g && e.2.any (fun cs => match cs with | .send c' _ => c' == c | _ => false))
  | .dflt => false

/-- Go: a communication case is *ready* when it can proceed (alone or with a waiting partner) -/
def ready {α} (σ : Cfg α) (g : Gid) (cs : Case α) : Bool :=
  (soloOut σ.ch cs).isSome || partnerOffers σ g cs

/-- no communication case of this select is ready (the condition under which Go runs `default`) -/
def noneReady {α} (σ : Cfg α) (g : Gid) (cases : List (Case α)) : Bool :=
  cases.all (fun c => c.isDflt || !ready σ g c)

/-- transition labels -/
inductive Ev (α : Type) where
  | call (g : Gid) (cases : List (Case α))        -- g starts a send / receive / select offering `cases`
  | fire (g : Gid) (i : Nat) (o : Out α)          -- g's operation completes through its case i, on its own
  | sync (gs : Gid) (i : Nat) (gr : Gid) (j : Nat) -- rendezvous: case i of gs (a send) with case j of gr (a receive)
  | close (g : Gid) (c : Cid)                     -- close(c) of an open channel
  | closePanic (g : Gid) (c : Cid)                -- close(c) of a closed channel: "close of closed channel"
deriving Repr

/-- the labelled transition function: `none` = the label is not enabled in `σ`. -/
def step {α} [DecidableEq α] (σ : Cfg α) : Ev α → Option (Cfg α)
  | .call g cases =>
    match pendOf σ.pend g with
    | some _ => none
    | none => some { σ with pend := (g, cases) :: σ.pend }
  | .fire g i o =>
    match pendOf σ.pend g with
    | none => none
    | some cases =>
      match cases[i]? with
      | none => none
      | some cs =>
        if cs.isDflt then
          -- `default` runs only if no communication case of this select is ready
          if o = .dflt ∧ noneReady σ g cases = true then some { σ with pend := unpend σ.pend g }
          else none
        else if soloOut σ.ch cs = some o then some { ch := soloApply σ.ch cs, pend := unpend σ.pend g }
        else none
  | .sync gs i gr j =>
    match pendOf σ.pend gs, pendOf σ.pend gr with
    | some cs1, some cs2 =>
      match cs1[i]?, cs2[j]? with
      | some (.send c _), some (.recv c') =>
        if gs ≠ gr ∧ c = c' ∧ (σ.ch c).closed = false ∧ (σ.ch c).cap = 0 then
          some { σ with pend := unpend (unpend σ.pend gs) gr }
        else none
      | _, _ => none
    | _, _ => none
  | .close g c =>
    match pendOf σ.pend g with
    | some _ => none
    | none => if (σ.ch c).closed then none else some { σ with ch := setCh σ.ch c { σ.ch c with closed := true } }
  | .closePanic g c =>
    match pendOf σ.pend g with
    | some _ => none
    | none => if (σ.ch c).closed then some σ else none

/-- what an outside observer records when a label fires (the ghost history the property speaks about) -/
inductive Obs (α : Type) where
  | sent (g : Gid) (c : Cid) (v : α)      -- a send of v on c by g completed
  | rcvd (g : Gid) (c : Cid) (v : α)      -- a receive on c by g completed with (v, true)
  | rclosed (g : Gid) (c : Cid)           -- a receive on c by g completed with (zero, false)
  | closed (g : Gid) (c : Cid)            -- c was closed by g
  | panicked (g : Gid) (c : Cid)          -- send on / close of a closed channel
  | dflt (g : Gid)
deriving Repr, DecidableEq

def caseAt {α} (σ : Cfg α) (g : Gid) (i : Nat) : Option (Case α) :=
  match pendOf σ.pend g with
  | none => none
  | some cases => cases[i]?

/-- observations produced by label `ev` fired in configuration `σ` (meaningful when `step σ ev` is `some _`) -/
def obsOf {α} (σ : Cfg α) : Ev α → List (Obs α)
  | .call _ _ => []
  | .fire g i o =>
    match caseAt σ g i, o with
    | some (.send c v), .sent => [.sent g c v]
    | some (.send c _), .panic => [.panicked g c]
    | some (.recv c), .got v => [.rcvd g c v]
    | some (.recv c), .closedEmpty => [.rclosed g c]
    | some .dflt, .dflt => [.dflt g]
    | _, _ => []
  | .sync gs i gr _ =>
    match caseAt σ gs i with
    | some (.send c v) => [.sent gs c v, .rcvd gr c v]
    | _ => []
  | .close g c => [.closed g c]
  | .closePanic g c => [.panicked g c]

/-- reachable configurations together with the history observed so far -/
inductive Reach {α} [DecidableEq α] (caps : Cid → Nat) : Cfg α → List (Obs α) → Prop where
  | init : Reach caps (Cfg.init caps) []
  | step {σ σ' obs} (ev : Ev α) : Reach caps σ obs → step σ ev = some σ' → Reach caps σ' (obs ++ obsOf σ ev)

/-- values whose send on `c` completed, in completion order -/
def sentVals {α} (c : Cid) : List (Obs α) → List α
  | [] => []
  | .sent _ c' v :: r => if c' = c then v :: sentVals c r else sentVals c r
  | _ :: r => sentVals c r

/-- values received from `c` (ok = true), in completion order -/
def rcvdVals {α} (c : Cid) : List (Obs α) → List α
  | [] => []
  | .rcvd _ c' v :: r => if c' = c then v :: rcvdVals c r else rcvdVals c r
  | _ :: r => rcvdVals c r

/-- … and who received them -/
def rcvdBy {α} (c : Cid) : List (Obs α) → List (Gid × α)
  | [] => []
  | .rcvd g c' v :: r => if c' = c then (g, v) :: rcvdBy c r else rcvdBy c r
  | _ :: r => rcvdBy c r

def wasClosed {α} (c : Cid) : List (Obs α) → Bool
  | [] => false
  | .closed _ c' :: r => if c' = c then true else wasClosed c r
  | _ :: r => wasClosed c r

/-! ## gopher-lua: values as far as the channel library tells them apart -/

inductive LV where
  | nil
  | bool (b : Bool)
  | num (i : Int)               -- LNumber (integral payloads suffice: the library never inspects the number)
  | str (hex : String)          -- LString (bytes, hex)
  | func (id : Nat)             -- *LFunction
  | udata (id : Nat)            -- *LUserData
  | thread (id : Nat)           -- *LState
  | table (id : Nat) (hasMeta : Bool)   -- *LTable; hasMeta ⇔ v.Metatable != LNil
  | chan (id : Cid)             -- LChannel
deriving DecidableEq, Repr, Inhabited

/-- utils.go isGoroutineSafe: `case *LFunction, *LUserData, *LState: false; case *LTable: v.Metatable == LNil; default: true` -/
def isGoroutineSafe : LV → Bool
  | .func _ | .udata _ | .thread _ => false
  | .table _ hasMeta => !hasMeta
  | _ => true

/-- errors the wrappers raise before touching the channel (all are catchable Lua errors) -/
inductive WErr where
  | notChannel          -- L.CheckChannel(1) failed
  | noValue             -- L.CheckAny(2): no argument at all
  | unsafePayload       -- "can not send a function, userdata, thread or table that has a metatable"
  | notTable            -- select: L.CheckTable(i)
  | invalidCase         -- select: "invalid select case"
  | invalidDirection    -- select: "invalid channel direction:"
deriving DecidableEq, Repr

def WErr.show : WErr → String
  | .notChannel => "notchannel" | .noValue => "novalue" | .unsafePayload => "unsafe"
  | .notTable => "nottable" | .invalidCase => "invalidcase" | .invalidDirection => "invaliddir"

/-- channelSend: checkChannel(L,1); checkGoroutineSafe(L,2); rch.Send(v)  — the guard runs BEFORE the send -/
def channelSend (self : LV) (arg : Option LV) : Except WErr (List (Case LV)) :=
  match self with
  | .chan c =>
    match arg with
    | none => .error .noValue
    | some v => if isGoroutineSafe v then .ok [.send c v] else .error .unsafePayload
  | _ => .error .notChannel

/-- channelReceive: checkChannel(L,1); rch.Recv() (or a select with ctx.Done() when the state has a context) -/
def channelReceive (self : LV) : Except WErr (List (Case LV)) :=
  match self with
  | .chan c => .ok [.recv c]
  | _ => .error .notChannel

/-- Lua results of channelReceive for an LTS outcome: `ok, v` -/
def receiveReturn : Out LV → List LV
  | .got v => [.bool true, v]
  | _ => [.bool false, .nil]

/-- channelClose: checkChannel(L,1); rch.Close() -/
def channelClose (self : LV) : Except WErr Cid :=
  match self with
  | .chan c => .ok c
  | _ => .error .notChannel

/-- `tbl.RawGetInt(k)` on a case table given as its array part t[1..n] -/
def rawGetInt (t : List LV) (k : Nat) : LV := if k = 0 then .nil else t.getD (k - 1) .nil

def dirSend : String := "3c2d7c"      -- "<-|"
def dirRecv : String := "7c3c2d"      -- "|<-"
def dirDefault : String := "64656661756c74"  -- "default"

/-- one argument of channel.select: `none` = not a table (CheckTable fails) -/
def selectCase (arg : Option (List LV)) : Except WErr (Case LV) :=
  match arg with
  | none => .error .notTable
  | some t =>
    match rawGetInt t 1 with
    | .str d =>
      if d = dirSend then
        match rawGetInt t 2 with
        | .chan c => if isGoroutineSafe (rawGetInt t 3) then .ok (.send c (rawGetInt t 3)) else .error .unsafePayload
        | _ => .error .invalidCase
      else if d = dirRecv then
        match rawGetInt t 2 with
        | .chan c => .ok (.recv c)
        | _ => .error .invalidCase
      else if d = dirDefault then .ok .dflt
      else .error .invalidDirection
    | _ => .error .invalidCase

/-- channelSelect, argument phase: cases are translated left to right, the first bad one raises
    `ArgError(i+1, …)` (1-based position returned with the error); position i of the Go select = Lua argument i+1. -/
def channelSelectFrom (i : Nat) : List (Option (List LV)) → Except (Nat × WErr) (List (Case LV))
  | [] => .ok []
  | a :: r =>
    match selectCase a with
    | .error e => .error (i + 1, e)
    | .ok cs => match channelSelectFrom (i + 1) r with
      | .error e => .error e
      | .ok l => .ok (cs :: l)

def channelSelect (args : List (Option (List LV))) : Except (Nat × WErr) (List (Case LV)) :=
  channelSelectFrom 0 args

/-- channelSelect, result phase: Lua results `pos+1, value, ok` for Go's `(pos, recv, recvOK)` -/
def selectReturn (pos : Nat) : Out LV → List LV
  | .got v => [.num (pos + 1), v, .bool true]
  | _ => [.num (pos + 1), .nil, .bool false]

/-- handler call of channelSelect: if the last array element of the chosen case table is a function it is called
    with `(ok, value)` for a receive, `(value sent)` for a send, `()` for default. -/
def selectHandler (t : List LV) (o : Out LV) : Option (LV × List LV) :=
  match rawGetInt t t.length with
  | .func f =>
    match o with
    | .got v => some (.func f, [.bool true, v])
    | .closedEmpty => some (.func f, [.bool false, .nil])
    | .sent => some (.func f, [rawGetInt t 3])
    | .dflt => some (.func f, [])
    | .panic => none
  | _ => none

end GLua.Chan
