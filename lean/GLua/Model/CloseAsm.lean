/-
  From the item list of Model/CloseCompile.lean to what is left of it in the real prototype: the sequence of
  the scoping-relevant instructions (CLOSE with its operand, every jump with its destination, FORPREP/FORLOOP/
  TFORLOOP, RETURN, CLOSURE with its capture list, NOP, and the two marker globals `use` / `poke`), after the
  jump part of `patchCode` (compile.go): label ids become distances, a JMP whose target instruction is a JMP is
  threaded (at most five hops, through the unpatched code), a JMP to the next instruction becomes a NOP.

  Destinations are given as the index of the first instruction OF THIS SEQUENCE at or behind the target.
-/
import GLua.Model.CloseMachine

namespace GLua.CloseC
open GLua

inductive Tok where
  | close (a : Nat)
  | jmp (l : Nat)                 -- destination: label id before resolution, sequence index afterwards
  | forprep (l : Nat)
  | forloop (a l : Nat)
  | tforloop (a c : Nat)
  | ret
  | closure (rs : List Nat)
  | nop
  | glob (name : String)
deriving DecidableEq, Repr, Inhabited

/-- the instructions of one item that belong to the sequence -/
def itemToks : Item → List Tok
  | .declare _ _ => []
  | .write _ _ => []
  | .use _ => [.glob "use"]
  | .poke _ => [.glob "poke"]
  | .capture rs => [.closure rs]
  | .close a => [.close a]
  | .nop => [.nop]
  | .other => []
  | .jmp l => [.jmp l]
  | .cjmp l => [.jmp l]
  | .forprep l => [.forprep l]
  | .forloop a l => [.forloop a l]
  | .tforloop a c l => [.tforloop a c, .jmp l]
  | .lbl _ => []
  | .ret => [.ret]
  | .hole _ => [.nop]
  | .gjmp _ => []

/-- sequence index of the first instruction behind the marker of label l -/
def labelIndex (code : List Item) (l : Nat) : Option Nat :=
  (findLbl code l).map fun p => ((code.take p).flatMap itemToks).length

/-- the label a JMP instruction standing exactly at the marker of l would carry: the first item behind the
    marker (markers skipped) is a single unconditional JMP -/
def jmpAt (code : List Item) (l : Nat) : Option Nat :=
  match findLbl code l with
  | none => none
  | some p =>
    match (code.drop (p + 1)).dropWhile (fun it => match it with | .lbl _ => true | _ => false) with
    | .jmp l2 :: _ => some l2
    | _ => none

/-- the threading loop of patchCode for a JMP with label l: the label finally used (`count < 5`) -/
def thread (code : List Item) : Nat → Nat → Nat
  | 0, l => l
  | n + 1, l =>
    match jmpAt code l with
    | some l2 => thread code n l2
    | none => l

/-- is the marker of label l directly behind item position p (only markers in between): distance 0 -/
def isNext (code : List Item) (p l : Nat) : Bool :=
  match findLbl code l with
  | none => false
  | some q => p < q && ((code.drop (p + 1)).take (q - (p + 1))).all (fun it => match it with | .lbl _ => true | _ => false)

/-- a patched JMP: NOP when the threaded destination is the next instruction -/
def patchJmp (code : List Item) (p l : Nat) : Tok :=
  let l' := thread code 4 l
  if isNext code p l' then .nop else
  match labelIndex code l' with
  | some i => .jmp i
  | none => .jmp 1000000

def patchItem (code : List Item) (p : Nat) : Item → List Tok
  | .jmp l => [patchJmp code p l]
  | .cjmp l => [patchJmp code p l]
  | .tforloop a c l =>
    -- the word behind TFORLOOP stays a JMP also at distance 0
    [.tforloop a c, match labelIndex code (thread code 4 l) with | some i => .jmp i | none => .jmp 1000000]
  | .forprep l => [match labelIndex code l with | some i => .forprep i | none => .forprep 1000000]
  | .forloop a l => [match labelIndex code l with | some i => .forloop a i | none => .forloop a 1000000]
  | it => itemToks it

def assembleAux (code : List Item) : Nat → List Item → List Tok
  | _, [] => []
  | p, it :: rest => patchItem code p it ++ assembleAux code (p + 1) rest

/-- the scoping skeleton of the final prototype -/
def assemble (code : List Item) : List Tok := assembleAux code 0 code

def Tok.show : Tok → String
  | .close a => "C" ++ toString a
  | .jmp l => "J" ++ toString l
  | .forprep l => "P" ++ toString l
  | .forloop a l => "L" ++ toString a ++ ":" ++ toString l
  | .tforloop a c => "T" ++ toString a ++ ":" ++ toString c
  | .ret => "R"
  | .closure rs => "K" ++ String.join (rs.map fun r => ".m" ++ toString r)
  | .nop => "N"
  | .glob n => "G" ++ n

def showToks (ts : List Tok) : String := ",".intercalate (ts.map Tok.show)

end GLua.CloseC
