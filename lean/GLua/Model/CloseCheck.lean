/-
  `closeDiscipline`: the checker of the close discipline of a compiled function (DESIGN §5 C03, P2).

  Input: the code of Model/CloseCompile.lean with its certificate — a type for every label (registers that hold a
  live variable there; registers whose current instance may be captured and not yet closed) and the scan state
  recorded at every goto.  One linear pass (`scan`): every instruction is checked against the state that reaches
  it by falling through, every jump against the type of its label.  A declaration into a register that may still
  hold a captured, unclosed instance is rejected; so is an access to a register that is not known to be live.
  Sound against the machine (Proofs/CloseCheck.lean `closeDiscipline_sound`): every path of accepted code emits a
  trace on which the cell semantics is defined, i.e. the Discipline of `upvalue_refines_cells`.
-/
import GLua.Model.CloseMachine

namespace GLua.CloseC
open GLua

/-- a goto is fine when the state behind its (patched) placeholder may enter its label -/
def gotoOK (Λ : List (Nat × AState)) (d : GotoDesc) : Bool :=
  !d.reach ||
  match d.target with
  | none => false
  | some l =>
    match lookupTy Λ l with
    | none => false
    | some τ => (d.st.closeBy d.close).le τ

def initState (nparams : Nat) : AState := { lv := List.range nparams, d := [] }

def closeDiscipline (nparams : Nat) (fc : FC) : Bool :=
  (scan fc.ltypes fc.gotos (some (initState nparams)) fc.code == some none) &&
  fc.gotos.all (gotoOK fc.ltypes)

end GLua.CloseC
