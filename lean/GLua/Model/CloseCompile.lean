/-
  Structural model of the part of /repo/compile.go that decides WHERE upvalues are closed (C03, compile side).

  The statement language keeps only what matters for scoping: blocks, `local` declarations (register = the
  next free one, released at block end), closure creation (which visible locals a new closure captures), uses,
  the four loops with their hidden control registers, `break`, labels and `goto`, `return`.  Everything else of
  a statement (the expressions, the opaque instructions) is dropped.

  Transcribed, function by function (same names, same case splits):
    codeBlock{LocalVars(offset,len), BreakLabel, Parent, RefUpvalue, labels, firstGotoIndex}, LocalVarsCount,
    funcContext.{NewLabel, RegisterLocalVar, FindLocalVarAndBlock (→ markRef), EnterBlock, CloseUpvalues, LeaveBlock,
    AddUnresolvedGoto, AddNamedLabel, ResolveGoto, FindLabel, ResolveCurrentBlockGotosWithParentBlock,
    ResolveForwardGoto, CheckUnresolvedGoto}, compileChunk / compileBlock (isLastStmt look-ahead, empty chunk),
    compileStmt, compileLocalAssignStmt (also the `local function` order: register first), compileReturnStmt,
    compileIfStmt, compileWhileStmt, compileRepeatStmt, compileBreakStmt, compileNumberForStmt,
    compileGenericForStmt, compileLabelStmt, compileGotoStmt, the FunctionExpr arm of compileExpr (capture list,
    `block.RefUpvalue = true`), compileFunctionExpr (final RETURN).

  Code representation.  `SetLabelPc(l, LastPC())` is the marker item `lbl l` (a jump to `l` continues with the
  item after the marker); the two words a `goto` emits (placeholder NOP that may be patched to CLOSE, JMP whose
  target is patched when the label is found) are the symbolic items `hole g` / `gjmp g`, resolved through the
  goto table at the end (`finalize`) — patching never touches anything else.  Label ids are the model's own
  (they are not observable after patchCode).  A Go nil dereference is an explicit `.goPanic`.

  GHOST fields (marked `ghost`): the abstract scan state at the current point, the type of every label and the
  scan state at every goto.  They are the certificate `closeDiscipline` (Model/CloseCheck.lean) checks; they do
  not influence the emitted code and are not compared by the correspondence.
-/
import GLua.Basic

namespace GLua.CloseC
open GLua

/-! ### the statement language -/

inductive Stmt where
  | skip
  | seq (a b : Stmt)
  | localDecl (v : Int)                        -- local x = v
  | localFn (caps : List Nat) (self : Bool)    -- local function f … end  (captures registers `caps`, and itself)
  | capture (caps : List Nat)                  -- sink(function() … end): a closure capturing the registers `caps`
  | assign (r : Nat) (v : Int)                 -- x = v
  | use                                        -- opaque statement: reads every visible named local, calls every closure
  | poke (v : Int)                             -- every closure created so far writes v to each of its variables
  | doBlock (b : Stmt)
  | ifThen (t e : Stmt)
  | whileLoop (b : Stmt)
  | repeatLoop (b : Stmt) (condCaps : List Nat)  -- `until` sees the body's locals (and may capture them)
  | numFor (b : Stmt)
  | genFor (nnames : Nat) (b : Stmt)
  | brk
  | label (name : Nat)
  | goto (name : Nat)
  | ret
deriving DecidableEq, Repr, Inhabited

/-- `len(chunk) == 0` -/
def Stmt.isEmpty : Stmt → Bool
  | .skip => true
  | .seq a b => a.isEmpty && b.isEmpty
  | _ => false

/-- every statement of the chunk is a label (`lastStmt` look-ahead of compileChunk / compileBlock) -/
def Stmt.onlyLabels : Stmt → Bool
  | .skip => true
  | .label _ => true
  | .seq a b => a.onlyLabels && b.onlyLabels
  | _ => false

/-! ### code -/

/-- ghost: abstract state of the close-discipline scan: registers known to hold a live variable instance, and
    registers whose current instance may have been captured and not closed yet -/
structure AState where
  lv : List Nat := []
  d  : List Nat := []
deriving DecidableEq, Repr, Inhabited

inductive Item where
  | declare (r : Nat) (v : OVal)      -- the store that starts a new variable instance in register r
  | write (r : Nat) (v : OVal)        -- assignment to the local in register r
  | use (rs : List Nat)               -- reads the named locals rs, then calls every closure created so far
  | poke (v : OVal)
  | capture (rs : List Nat)           -- OP_CLOSURE followed by `MOVE 0 r` for r in rs
  | close (a : Nat)                   -- OP_CLOSE A
  | nop
  | other                             -- instructions without a scoping effect (expression code of a loop header)
  | jmp (l : Nat)                     -- OP_JMP
  | cjmp (l : Nat)                    -- conditional jump (TEST/EQ/LT/LE + JMP)
  | forprep (l : Nat)                 -- OP_FORPREP: always continues at the FORLOOP
  | forloop (a : Nat) (l : Nat)       -- OP_FORLOOP A: exit, or write R(A+3) and jump
  | tforloop (a c : Nat) (l : Nat)    -- OP_TFORLOOP A C + JMP: exit, or write R(A+3..A+2+C) and jump
  | lbl (l : Nat)                     -- SetLabelPc(l, LastPC())
  | ret                               -- OP_RETURN / OP_TAILCALL: closes the frame
  | hole (g : Nat)                    -- placeholder of goto g (NOP, or CLOSE once patched)
  | gjmp (g : Nat)                    -- JMP of goto g
deriving DecidableEq, Repr, Inhabited

/-! ### compiler state -/

structure LabelDesc where
  id : Nat
  numActive : Nat
deriving DecidableEq, Repr, Inhabited

structure Block where
  base      : Nat                  -- LocalVars.offset
  nnames    : Nat                  -- len(LocalVars.names)
  hidden    : Nat := 0             -- how many of the first names are the hidden control variables of a for loop
  brk       : Option Nat := none   -- BreakLabel (none = labelNoJump)
  ref       : Bool := false        -- RefUpvalue
  labels    : List (Nat × LabelDesc) := []
  firstGoto : Nat := 0             -- firstGotoIndex
deriving DecidableEq, Repr, Inhabited

/-- `LocalVars.LastIndex()` -/
def Block.lastIndex (b : Block) : Nat := b.base + b.nnames

structure GotoDesc where
  name      : Nat
  numActive : Nat
  target    : Option Nat := none   -- label id once resolved (`SetSbx(from.Pc, to.Id)`; deleted from unresolvedGotos)
  close     : Option Nat := none   -- A operand once the placeholder has been patched to CLOSE
  st        : AState := {}         -- ghost: scan state at the goto
  reach     : Bool := false        -- ghost: the goto is reachable for the scan
deriving DecidableEq, Repr, Inhabited

structure FC where
  code    : List Item := []
  blocks  : List Block := []       -- fc.Block first, then its Parent chain
  regTop  : Nat := 0
  labelId : Nat := 1
  gotos   : List GotoDesc := []    -- gotosCount = length; unresolvedGotos = entries with target = none
  ltypes  : List (Nat × AState) := []   -- ghost: label id ↦ type
  cur     : Option AState := some {}    -- ghost: scan state here (none = unreachable)
  labelBreak : Bool := true             -- which compile.go: true = after b47a12e (a break also closes when a block it
                                        -- leaves has a label), false = before (only the RefUpvalue flags decide)
deriving Repr, Inhabited

/-! ### ghost: scan transfer (shared with the checker) -/

def lookupTy (Λ : List (Nat × AState)) (l : Nat) : Option AState :=
  match Λ with
  | [] => none
  | (k, τ) :: r => if k = l then some τ else lookupTy r l

def subList (a b : List Nat) : Bool := a.all (fun x => b.contains x)

/-- `s ≤ τ`: control may pass from a point in state s to a point typed τ -/
def AState.le (s τ : AState) : Bool := subList τ.lv s.lv && subList s.d τ.d

def AState.closeAt (s : AState) (a : Nat) : AState :=
  { lv := s.lv.filter (· < a), d := s.d.filter (· < a) }

def AState.declare (s : AState) (r : Nat) : AState := { s with lv := r :: s.lv }

/-- registers written by a taken TFORLOOP: R(A+3) … R(A+2+C) -/
def tforRegs (a c : Nat) : List Nat := (List.range c).map (fun i => a + 3 + i)

/-- abstract state after a patched / unpatched goto placeholder -/
def AState.closeBy (s : AState) : Option Nat → AState
  | none => s
  | some a => s.closeAt a

/-- one item of the scan on a reachable state: `none` = the discipline check fails here; `some none` = the next
    item is not reached by falling through. -/
def scanItem (Λ : List (Nat × AState)) (gs : List GotoDesc) (s : AState) : Item → Option (Option AState)
  | .declare r _ => if s.d.contains r then none else some (some (s.declare r))
  | .write r _ => if s.lv.contains r then some (some s) else none
  | .use rs => if subList rs s.lv then some (some s) else none
  | .poke _ => some (some s)
  | .capture rs => if subList rs s.lv then some (some { s with d := rs ++ s.d }) else none
  | .close a => some (some (s.closeAt a))
  | .nop => some (some s)
  | .other => some (some s)
  | .jmp l | .forprep l =>
    match lookupTy Λ l with
    | some τ => if s.le τ then some none else none
    | none => none
  | .cjmp l =>
    match lookupTy Λ l with
    | some τ => if s.le τ then some (some s) else none
    | none => none
  | .forloop a l =>
    match lookupTy Λ l with
    | some τ => if !s.d.contains (a + 3) && (s.declare (a + 3)).le τ then some (some s) else none
    | none => none
  | .tforloop a c l =>
    match lookupTy Λ l with
    | some τ =>
      if (tforRegs a c).all (fun r => !s.d.contains r) && ({ s with lv := tforRegs a c ++ s.lv } : AState).le τ
      then some (some s) else none
    | none => none
  | .lbl l =>
    match lookupTy Λ l with
    | some τ => if s.le τ then some (some τ) else none
    | none => none
  | .ret => some none
  | .hole g =>
    match gs[g]? with
    | some d => if d.reach && s.le d.st then some (some (d.st.closeBy d.close)) else none
    | none => none
  | .gjmp g =>
    match gs[g]? with
    | some d => if d.reach && s.le (d.st.closeBy d.close) then some none else none
    | none => none

/-- the scan on a possibly unreachable state: only a label makes the code reachable again -/
def scanStep (Λ : List (Nat × AState)) (gs : List GotoDesc) (σ : Option AState) (it : Item) : Option (Option AState) :=
  match σ with
  | some s => scanItem Λ gs s it
  | none =>
    match it with
    | .lbl l => (lookupTy Λ l).map some
    | _ => some none

def scan (Λ : List (Nat × AState)) (gs : List GotoDesc) : Option AState → List Item → Option (Option AState)
  | σ, [] => some σ
  | σ, it :: rest =>
    match scanStep Λ gs σ it with
    | none => none
    | some σ' => scan Λ gs σ' rest

inductive CErr where
  | noLoop                 -- "no loop to break"
  | intoScope              -- "<goto> jumps into the scope of local"
  | noLabel                -- "no visible label"
  | dupLabel               -- "label already defined"
  | illFormed (why : String)   -- the abstract program names a register that is not a visible named local
  | goPanic (site : String)
deriving DecidableEq, Repr, Inhabited

abbrev CM := Except CErr

/-! ### funcContext -/

/-- `Code.Add…`; ghost: the scan state moves on -/
def FC.emit (fc : FC) (it : Item) : FC :=
  { fc with code := fc.code ++ [it],
            cur := (scanStep fc.ltypes fc.gotos fc.cur it).getD none }

/-- `NewLabel()`; ghost: the type the label will have -/
def FC.newLabel (fc : FC) (τ : AState) : Nat × FC :=
  (fc.labelId, { fc with labelId := fc.labelId + 1, ltypes := fc.ltypes ++ [(fc.labelId, τ)] })

/-- `LocalVarsCount()` of a block: the names of the whole Parent chain -/
def localVarsCount : List Block → Nat
  | [] => 0
  | b :: rest => b.nnames + localVarsCount rest

/-- registers of the visible named locals (the hidden control variables of for loops have no name) -/
def namedRegs : List Block → List Nat
  | [] => []
  | b :: rest => namedRegs rest ++ (List.range (b.nnames - b.hidden)).map (fun i => b.base + b.hidden + i)

/-- `RegisterLocalVar(name)`: the next register of the current block; `SetRegTop(RegTop()+1)` -/
def FC.registerLocalVar (fc : FC) : CM (Nat × FC) :=
  match fc.blocks with
  | [] => .error (.goPanic "fc.Block == nil")
  | b :: rest => .ok (b.base + b.nnames, { fc with blocks := { b with nnames := b.nnames + 1 } :: rest, regTop := fc.regTop + 1 })

/-- `FindLocalVarAndBlock(name)` + `block.RefUpvalue = true` for the variable in register r -/
def markRef (r : Nat) : List Block → List Block
  | [] => []
  | b :: rest => if b.base ≤ r && r < b.base + b.nnames then { b with ref := true } :: rest else b :: markRef r rest

/-- `EnterBlock(blabel, pos)` -/
def FC.enterBlock (fc : FC) (blabel : Option Nat) (hidden : Nat := 0) : FC :=
  { fc with blocks := { base := fc.regTop, nnames := 0, hidden := hidden, brk := blabel, firstGoto := fc.gotos.length } :: fc.blocks }

/-- `CloseUpvalues()`: −1 is `none` -/
def FC.closeUpvalues (fc : FC) : CM (Option Nat × FC) :=
  match fc.blocks with
  | [] => .error (.goPanic "fc.Block == nil")
  | b :: rest =>
    if b.ref then
      match rest with
      | [] => .error (.goPanic "fc.Block.Parent == nil")
      | p :: _ => .ok (some p.lastIndex, fc.emit (.close p.lastIndex))
    else .ok (none, fc)

def findLabelIn (labels : List (Nat × LabelDesc)) (name : Nat) : Option LabelDesc :=
  match labels with
  | [] => none
  | (k, d) :: r => if k = name then some d else findLabelIn r name

/-- `ResolveGoto(from, to, index)` on goto entry d -/
def resolveGoto (d : GotoDesc) (to : LabelDesc) : CM GotoDesc :=
  if d.numActive < to.numActive then .error .intoScope
  else .ok { d with target := some to.id }

/-- `FindLabel(block, gotoLabel, i)` on goto entry d: the label table of ONE block -/
def findLabel (labels : List (Nat × LabelDesc)) (d : GotoDesc) : CM GotoDesc :=
  match findLabelIn labels d.name with
  | some target =>
    let d1 := if d.numActive > target.numActive then { d with close := some target.numActive } else d
    resolveGoto d1 target
  | none => .ok d

/-- the loop of `ResolveCurrentBlockGotosWithParentBlock` over the goto table from index i on -/
def resolveWithParent (blockRef : Bool) (blockActive : Nat) (parentLabels : List (Nat × LabelDesc)) (first : Nat) :
    Nat → List GotoDesc → CM (List GotoDesc)
  | _, [] => .ok []
  | i, d :: rest => do
    let d' ← (if first ≤ i && d.target.isNone then
        let d1 := if d.numActive > blockActive then
            { (if blockRef then { d with close := some blockActive } else d) with numActive := blockActive }
          else d
        findLabel parentLabels d1
      else .ok d)
    let rest' ← resolveWithParent blockRef blockActive parentLabels first (i + 1) rest
    .ok (d' :: rest')

/-- `LeaveBlock()` -/
def FC.leaveBlock (fc : FC) : CM (Option Nat × FC) := do
  let (closed, fc1) ← fc.closeUpvalues
  match fc1.blocks with
  | [] => .error (.goPanic "fc.Block == nil")
  | [_] => .error (.goPanic "LeaveBlock on the function block")
  | b :: p :: rest =>
    let gs ← resolveWithParent b.ref (localVarsCount (p :: rest)) p.labels b.firstGoto 0 fc1.gotos
    .ok (closed, { fc1 with gotos := gs, blocks := p :: rest, regTop := p.lastIndex })

/-- the loop of `ResolveForwardGoto(target)` -/
def resolveForward (name : Nat) (to : LabelDesc) (first : Nat) : Nat → List GotoDesc → CM (List GotoDesc)
  | _, [] => .ok []
  | i, d :: rest => do
    let d' ← (if first ≤ i && d.target.isNone && d.name = name then resolveGoto d to else .ok d)
    let rest' ← resolveForward name to first (i + 1) rest
    .ok (d' :: rest')

/-- is register r a visible named local -/
def isNamed (blocks : List Block) (r : Nat) : Bool := (namedRegs blocks).contains r

def checkCaps (fc : FC) (caps : List Nat) : CM Unit :=
  if caps.all (isNamed fc.blocks) then .ok () else .error (.illFormed "capture of a register that is not a visible local")

def markRefs (caps : List Nat) (blocks : List Block) : List Block := caps.foldl (fun bs r => markRef r bs) blocks

/-- the FunctionExpr arm of compileExpr: OP_CLOSURE, one `MOVE 0 localidx` per captured local, `block.RefUpvalue = true` -/
def FC.closure (fc : FC) (caps : List Nat) : CM FC := do
  checkCaps fc caps
  let fc1 := fc.emit (.capture caps)
  .ok { fc1 with blocks := markRefs caps fc1.blocks }

/-! ### ghost: which registers of the enclosing scopes a statement captures -/

/-- captured registers that belong to the current block level or to an enclosing one, and RegTop afterwards -/
def freeCaps : Nat → Stmt → List Nat × Nat
  | t, .skip => ([], t)
  | t, .seq a b =>
    let r1 := freeCaps t a
    let r2 := freeCaps r1.2 b
    (r1.1 ++ r2.1, r2.2)
  | t, .localDecl _ => ([], t + 1)
  | t, .localFn caps self => (caps ++ (if self then [t] else []), t + 1)
  | t, .capture caps => (caps, t)
  | t, .assign _ _ => ([], t)
  | t, .use => ([], t)
  | t, .poke _ => ([], t)
  | t, .doBlock b => ((freeCaps t b).1.filter (· < t), t)
  | t, .ifThen a b => (((freeCaps t a).1 ++ (freeCaps t b).1).filter (· < t), t)
  | t, .whileLoop b => ((freeCaps t b).1.filter (· < t), t)
  | t, .repeatLoop b cc => (((freeCaps t b).1 ++ cc).filter (· < t), t)
  | t, .numFor b => ((freeCaps (t + 4) b).1.filter (· < t), t)
  | t, .genFor n b => ((freeCaps (t + 3 + n) b).1.filter (· < t), t)
  | t, .brk => ([], t)
  | t, .label _ => ([], t)
  | t, .goto _ => ([], t)
  | t, .ret => ([], t)

def curD (fc : FC) : List Nat := match fc.cur with | some s => s.d | none => []

/-- ghost: type of the labels of a loop entered here (head, exit): the named locals in scope, and what may be
    captured on entry or by the loop itself among the registers that survive it -/
def FC.loopTy (fc : FC) (s : Stmt) : AState :=
  { lv := namedRegs fc.blocks, d := curD fc ++ (freeCaps fc.regTop s).1 }

/-! ### statements -/

/-- `compileBreakStmt`: walk the Parent chain up to the first block with a break label;
    `refUpvalue = refUpvalue || block.RefUpvalue || len(block.labels) > 0` (the last disjunct since b47a12e) -/
def breakWalk (labelBreak : Bool) (refUpvalue : Bool) : List Block → CM (Option Nat × Nat)
  | [] => .error .noLoop
  | b :: rest =>
    let refUpvalue := refUpvalue || b.ref || (labelBreak && !b.labels.isEmpty)
    match b.brk with
    | some label =>
      if refUpvalue then
        match rest with
        | [] => .error (.goPanic "block.Parent == nil")
        | p :: _ => .ok (some p.lastIndex, label)
      else .ok (none, label)
    | none => breakWalk labelBreak refUpvalue rest

/-- `if refUpvalue { AddABC(OP_CLOSE, …) }` -/
def FC.optClose (fc : FC) : Option Nat → FC
  | some a => fc.emit (.close a)
  | none => fc

def FC.compileBreak (fc : FC) : CM FC := do
  let (cl, label) ← breakWalk fc.labelBreak false fc.blocks
  .ok ((fc.optClose cl).emit (.jmp label))

/-- `compileLabelStmt` -/
def FC.compileLabel (fc : FC) (name : Nat) (isLastStmt : Bool) (τ : AState) : CM FC :=
  match fc.blocks with
  | [] => .error (.goPanic "fc.Block == nil")
  | b :: rest => do
    let (id, fc1) := fc.newLabel τ
    if (findLabelIn b.labels name).isSome then .error .dupLabel else
    let numActive := if isLastStmt then localVarsCount rest else localVarsCount (b :: rest)
    let desc : LabelDesc := { id := id, numActive := numActive }
    let fc2 := { fc1 with blocks := { b with labels := (name, desc) :: b.labels } :: rest }
    let fc3 := fc2.emit (.lbl id)
    let gs ← resolveForward name desc b.firstGoto 0 fc3.gotos
    .ok { fc3 with gotos := gs }

/-- `compileGotoStmt` -/
def FC.compileGoto (fc : FC) (name : Nat) : CM FC :=
  match fc.blocks with
  | [] => .error (.goPanic "fc.Block == nil")
  | b :: _ => do
    let g := fc.gotos.length
    let d : GotoDesc := { name := name, numActive := localVarsCount fc.blocks,
                          st := fc.cur.getD {}, reach := fc.cur.isSome }
    let d' ← findLabel b.labels d
    let fc1 := { fc with gotos := fc.gotos ++ [d'] }
    .ok ((fc1.emit (.hole g)).emit (.gjmp g))

/-- ghost: the type of a named label — what is in scope there and what may be captured: on arrival from above,
    from the forward gotos that are waiting for it, and (when a goto follows) by the rest of the block -/
def FC.labelTy (fc : FC) (numActive : Nat) (later : List Nat) (name : Nat) (first : Nat) : AState :=
  let fromGotos := (fc.gotos.zipIdx.filter (fun p => first ≤ p.2 && p.1.target.isNone && p.1.name = name && p.1.reach)).flatMap
    (fun p => (p.1.st.closeBy p.1.close).d)
  { lv := (namedRegs fc.blocks).filter (· < numActive),
    d := (curD fc ++ fromGotos ++ later).filter (· < fc.regTop) }

/-- `fc.Block.RefUpvalue` -/
def FC.headRef (fc : FC) : Bool := match fc.blocks with | b :: _ => b.ref | [] => false

/-- the tail of compileRepeatStmt: `if n > -1 { JMP label; elselabel: CLOSE n; JMP initlabel; label: }` -/
def FC.repeatTail (fc : FC) (initlabel elselabel outlabel : Nat) : Option Nat → FC
  | none => fc
  | some n => ((((fc.emit (.jmp outlabel)).emit (.lbl elselabel)).emit (.close n)).emit (.jmp initlabel)).emit (.lbl outlabel)

/-- does a `goto name` occur in the statement (at any depth) -/
def hasGoto (name : Nat) : Stmt → Bool
  | .seq a b => hasGoto name a || hasGoto name b
  | .doBlock b => hasGoto name b
  | .ifThen a b => hasGoto name a || hasGoto name b
  | .whileLoop b => hasGoto name b
  | .repeatLoop b _ => hasGoto name b
  | .numFor b => hasGoto name b
  | .genFor _ b => hasGoto name b
  | .goto n => n = name
  | _ => false

/-- `compileBlock(context, chunk)`: nothing for an empty chunk; `k` compiles the chunk -/
def blockWith (fc : FC) (empty : Bool) (k : FC → CM FC) : CM FC :=
  if empty then .ok fc else do
    let fc1 := fc.enterBlock none
    let fc2 ← k fc1
    let (_, fc3) ← fc2.leaveBlock
    .ok fc3

def registerN : Nat → FC → CM FC
  | 0, fc => .ok fc
  | n + 1, fc => do
    let (_, fc1) ← fc.registerLocalVar
    registerN n fc1

/-- `compileChunk(context, chunk, untilFollows)`: `tail` = only labels follow in the chunk and no `until`;
    ghost: `rest` = the statements of the block that follow -/
def compileChunk (fc : FC) : Stmt → (tail : Bool) → (rest : Stmt) → CM FC
  | .skip, _, _ => .ok fc
  | .seq a b, tail, rest => do
    let fc1 ← compileChunk fc a (tail && b.onlyLabels) (.seq b rest)
    compileChunk fc1 b tail rest
  | .localDecl v, _, _ => do
    -- compileRegAssignment stores into RegTop, then RegisterLocalVar
    let (r, fc1) ← fc.registerLocalVar
    .ok (fc1.emit (.declare r (some (.int v))))
  | .localFn caps self, _, _ => do
    -- `local function`: RegisterLocalVar first, then the closure into that register
    let (r, fc1) ← fc.registerLocalVar
    let fc2 := fc1.emit (.declare r (some (.ref 0)))
    fc2.closure (caps ++ (if self then [r] else []))
  | .capture caps, _, _ => fc.closure caps
  | .assign r v, _, _ =>
    if isNamed fc.blocks r then .ok (fc.emit (.write r (some (.int v))))
    else .error (.illFormed "assignment to a register that is not a visible local")
  | .use, _, _ => .ok (fc.emit (.use (namedRegs fc.blocks)))
  | .poke v, _, _ => .ok (fc.emit (.poke (some (.int v))))
  | .doBlock b, _, _ => do
    let fc1 := fc.enterBlock none
    let fc2 ← compileChunk fc1 b true .skip
    let (_, fc3) ← fc2.leaveBlock
    .ok fc3
  | .ifThen t e, _, _ => do
    let τelse : AState := fc.loopTy (.ifThen t .skip)
    let τend : AState := fc.loopTy (.ifThen t e)
    let (elselabel, fc) := fc.newLabel τelse
    let (endlabel, fc) := fc.newLabel τend
    let fc := fc.emit (.cjmp elselabel)
    let fc ← blockWith fc t.isEmpty (fun fc => compileChunk fc t true .skip)
    let fc := if e.isEmpty then fc else fc.emit (.jmp endlabel)
    let fc := fc.emit (.lbl elselabel)
    if e.isEmpty then .ok fc else do
      let fc ← blockWith fc false (fun fc => compileChunk fc e true .skip)
      .ok (fc.emit (.lbl endlabel))
  | .whileLoop b, _, _ => do
    let τ : AState := fc.loopTy (.whileLoop b)
    let (elselabel, fc) := fc.newLabel τ
    let (condlabel, fc) := fc.newLabel τ
    let fc := fc.emit (.lbl condlabel)
    let fc := fc.emit (.cjmp elselabel)
    let fc := fc.enterBlock (some elselabel)
    let fc ← compileChunk fc b true .skip
    let (_, fc) ← fc.closeUpvalues
    let fc := fc.emit (.jmp condlabel)
    let (_, fc) ← fc.leaveBlock
    .ok (fc.emit (.lbl elselabel))
  | .repeatLoop b cc, _, _ => do
    let τ : AState := fc.loopTy (.repeatLoop b cc)
    -- ghost: at `thenlabel` (break target, condition true) the body's own captured locals are not closed yet
    let τthen : AState := { lv := namedRegs fc.blocks, d := curD fc ++ (freeCaps fc.regTop b).1 ++ cc }
    let (initlabel, fc) := fc.newLabel τ
    let (thenlabel, fc) := fc.newLabel τthen
    let (elselabel, fc) := fc.newLabel τthen
    let (outlabel, fc) := fc.newLabel τ
    let fc := fc.emit (.lbl initlabel)
    let fc := fc.enterBlock (some thenlabel)
    let fc ← compileChunk fc b false .skip
    let fc ← (if cc.isEmpty then .ok fc else fc.closure cc)
    -- SetLabelPc(elselabel, …) is done twice in compile.go; the later one wins when the block has captured locals
    let fc := fc.emit (.cjmp (if fc.headRef then elselabel else initlabel))
    let fc := fc.emit (.lbl thenlabel)
    let (n, fc) ← fc.leaveBlock
    .ok (fc.repeatTail initlabel elselabel outlabel n)
  | .numFor b, _, _ => do
    let τ : AState := fc.loopTy (.numFor b)
    let (endlabel, fc) := fc.newLabel τ
    let fc := fc.enterBlock (some endlabel) 3
    let (rindex, fc) ← fc.registerLocalVar
    let (_, fc) ← fc.registerLocalVar
    let (_, fc) ← fc.registerLocalVar
    -- ghost labels for the two direct distances of FORPREP / FORLOOP
    let (fllabel, fc) := fc.newLabel τ
    let (bodylabel, fc) := fc.newLabel { τ with lv := (rindex + 3) :: τ.lv }
    let fc := fc.emit .other            -- init, limit, step
    let fc := fc.emit (.forprep fllabel)
    let (_, fc) ← fc.registerLocalVar
    let fc := fc.emit (.lbl bodylabel)
    let fc ← compileChunk fc b true .skip
    let (_, fc) ← fc.leaveBlock
    let fc := fc.emit (.lbl fllabel)
    let fc := fc.emit (.forloop rindex bodylabel)
    .ok (fc.emit (.lbl endlabel))
  | .genFor nnames b, _, _ => do
    let τ : AState := fc.loopTy (.genFor nnames b)
    let (endlabel, fc) := fc.newLabel τ
    let (fllabel, fc) := fc.newLabel τ
    let fc := fc.enterBlock (some endlabel) 3
    let (rgen, fc) ← fc.registerLocalVar
    let (_, fc) ← fc.registerLocalVar
    let (_, fc) ← fc.registerLocalVar
    let (bodylabel, fc) := fc.newLabel { τ with lv := tforRegs rgen nnames ++ τ.lv }
    let fc := fc.emit .other            -- the explist
    let fc := fc.emit (.jmp fllabel)
    let fc ← registerN nnames fc
    let fc := fc.emit (.lbl bodylabel)
    let fc ← compileChunk fc b true .skip
    let (_, fc) ← fc.leaveBlock
    let fc := fc.emit (.lbl fllabel)
    let fc := fc.emit (.tforloop rgen nnames bodylabel)
    .ok (fc.emit (.lbl endlabel))
  | .brk, _, _ => fc.compileBreak
  | .label name, tail, rest =>
    let numActive := if tail then localVarsCount (fc.blocks.drop 1) else localVarsCount fc.blocks
    let later := if hasGoto name rest then (freeCaps fc.regTop rest).1 else []
    let first := match fc.blocks with | b :: _ => b.firstGoto | [] => 0
    fc.compileLabel name tail (fc.labelTy numActive later name first)
  | .goto name, _, _ => fc.compileGoto name
  | .ret, _, _ => .ok (fc.emit .ret)


/-- `compileFunctionExpr` for a function with `nparams` parameters: the chunk, the final RETURN, CheckUnresolvedGoto -/
def FC.init (nparams : Nat) (labelBreak : Bool := true) : FC :=
  { blocks := [{ base := 0, nnames := nparams }], regTop := nparams,
    cur := some { lv := List.range nparams, d := [] }, labelBreak := labelBreak }

/-- `labelBreak = false`: compileBreakStmt as it was before b47a12e -/
def compileFunctionWith (labelBreak : Bool) (nparams : Nat) (s : Stmt) : CM FC := do
  let fc ← compileChunk (FC.init nparams labelBreak) s true .skip
  let fc := fc.emit .ret
  if fc.gotos.all (fun d => d.target.isSome) then .ok fc else .error .noLabel

/-- the compiler of the tree under test -/
def compileFunction (nparams : Nat) (s : Stmt) : CM FC := compileFunctionWith true nparams s

end GLua.CloseC
