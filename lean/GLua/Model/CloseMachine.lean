/-
  The abstract machine that runs the code of Model/CloseCompile.lean (one activation of the compiled function,
  LocalBase 0) and emits, for every instruction, the requests of the trace alphabet of Spec/Cells — the alphabet
  `upvalue_refines_cells` is stated over, and whose run-time realisation (register stores, findUpvalue,
  closeUpvalues, Upvalue.Value/SetValue) is Model/UpvalueOps.lean `mstep`:

      declare r v            a store that begins a new variable instance (LOADK/LOADNIL/CLOSURE into a fresh local,
                             the loop-variable writes of FORLOOP / TFORLOOP)
      write r v / read r     access through the name
      capture r              OP_CLOSURE's `MOVE 0 r`
      close a                OP_CLOSE A; OP_RETURN / OP_TAILCALL and error unwinding are `close 0` (LocalBase)
      uvread i / uvwrite i v a closure created earlier runs and reads / writes its i-th captured variable

  Every conditional jump is a choice: a path is a list of Booleans, one per executed instruction (ignored by
  unconditional instructions), so "every execution path" is "every list of choices".
-/
import GLua.Model.CloseCompile
import GLua.Spec.Cells

namespace GLua.CloseC
open GLua GLua.Cells

/-- the patched code: goto placeholders become NOP / CLOSE A, goto jumps get their label -/
def finalizeItem (gs : List GotoDesc) : Item → Item
  | .hole g =>
    match gs[g]? with
    | some d => (match d.close with | some a => .close a | none => .nop)
    | none => .nop
  | .gjmp g =>
    match gs[g]? with
    | some d => (match d.target with | some l => .jmp l | none => .gjmp g)
    | none => .gjmp g
  | it => it

def finalize (fc : FC) : List Item := fc.code.map (finalizeItem fc.gotos)

structure MSt where
  pc    : Nat := 0
  ncaps : Nat := 0     -- captures made so far (the i-th capture is named i)
deriving DecidableEq, Repr, Inhabited

inductive StepRes where
  | next (m : MSt) (tr : List Op)
  | halt (tr : List Op)          -- the activation ended
  | stuck (why : String)         -- no such instruction / label
deriving Repr, Inhabited

def isLbl (l : Nat) : Item → Bool
  | .lbl k => k = l
  | _ => false

/-- position of the marker of label l -/
def findLbl (code : List Item) (l : Nat) : Option Nat :=
  let i := code.findIdx (isLbl l)
  if i < code.length then some i else none

def jumpTo (code : List Item) (m : MSt) (l : Nat) (tr : List Op) : StepRes :=
  match findLbl code l with
  | some p => .next { m with pc := p + 1 } tr
  | none => .stuck "label not placed"

def step (code : List Item) (m : MSt) (choice : Bool) : StepRes :=
  let fall (tr : List Op) : StepRes := .next { m with pc := m.pc + 1 } tr
  match code[m.pc]? with
  | none => .stuck "pc outside the code"
  | some it =>
    match it with
    | .declare r v => fall [.declare r v]
    | .write r v => fall [.write r v]
    | .use rs => fall (rs.map .read ++ (List.range m.ncaps).map .uvread)
    | .poke v => fall ((List.range m.ncaps).map (fun i => .uvwrite i v))
    | .capture rs => .next { pc := m.pc + 1, ncaps := m.ncaps + rs.length } (rs.map .capture)
    | .close a => fall [.close a]
    | .nop => fall []
    | .other => fall []
    | .lbl _ => fall []
    | .jmp l => jumpTo code m l []
    | .forprep l => jumpTo code m l []
    | .cjmp l => if choice then jumpTo code m l [] else fall []
    | .forloop a l => if choice then jumpTo code m l [.declare (a + 3) none] else fall []
    | .tforloop a c l => if choice then jumpTo code m l ((tforRegs a c).map (fun r => .declare r none)) else fall []
    | .ret => .halt [.close 0]
    | .hole _ => .stuck "unresolved goto"
    | .gjmp _ => .stuck "unresolved goto"

inductive Status where
  | running | returned | stuck
deriving DecidableEq, Repr, Inhabited

/-- run along a path: the trace emitted and how the path ended -/
def runPath (code : List Item) : MSt → List Bool → List Op × Status
  | _, [] => ([], .running)
  | m, c :: cs =>
    match step code m c with
    | .next m' tr => let r := runPath code m' cs; (tr ++ r.1, r.2)
    | .halt tr => (tr, .returned)
    | .stuck _ => ([], .stuck)

/-- the call stores the arguments into the parameter registers -/
def paramDecls (nparams : Nat) : List Op := (List.range nparams).map (fun r => .declare r none)

/-- the Cells trace of one activation of the compiled function along a path -/
def traceOf (nparams : Nat) (fc : FC) (path : List Bool) : List Op :=
  paramDecls nparams ++ (runPath (finalize fc) {} path).1

end GLua.CloseC
