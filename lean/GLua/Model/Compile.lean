/-
  Model of the part of /repo/compile.go that lowers EXPRESSIONS — conditions, logical operators, relational operators,
  arithmetic (with constant folding), unary minus, length, concatenation — and assignments to locals, with its label
  table and `patchCode`.

  Transcribed function by function (same names, same case splits, same order of side effects on the code
  store, the label counter, the label table and the constant pool):

      savereg, ecnone, codeStore.{Add, Last, LastPC, Pop, SetA, PropagateKMV, PropagateMV},
      funcContext.{NewLabel, SetLabelPc, GetLabelPc, ConstIndex, RegisterLocalVar/SetRegTop},
      compileExpr (constants, locals, globals = EVAL atoms, not, and/or, relational, arithmetic, unary minus, #, ..),
      compileExprWithPropagation / …KMV… / …MV…, compileUnaryOpExpr (not, unary minus, #),
      compileArithmeticOpExpr (constFold first — `lnum` —, operands through PropagateKMV = `binOperands`),
      compileStringConcatOpExpr (crange = `1 + spine`, the CONCAT-popping loop = `popConcats`),
      compileRelationalOpExprAux, compileRelationalOpExpr, compileLogicalOpExpr, compileLogicalOpExprAux,
      compileBranchCondition, compileIfStmt, compileWhileStmt, compileRepeatStmt, compileReturnStmt (number / local),
      compileLocalAssignStmt/compileRegAssignment (one name, one expression),
      compileAssignStmtLeft / Right / compileAssignStmt (targets: locals and globals), compileChunk,
      compileFunctionExpr (main chunk: `local l0,…,l(n-1) = ...` prologue, final RETURN), patchCode.

  Everything is parametric in the NUMBER STRUCTURE (`[NumStruct]`, Spec/CondAst.lean): the operations with which
  `constFold` computes are uninterpreted; constants of the pool are compared the way `ConstIndex` does (the same
  number, and never a NaN).  `loadRk` (method names of `obj:m()` calls) is outside this expression language.

  The code as modelled is /repo HEAD (which contains the repairs of notes/C01.md).

  `comp` is ONE structurally recursive function over the expression tree with a mode argument
  (`expr` = compileExpr, `aux` = compileLogicalOpExprAux, `bc` = compileBranchCondition); the Go functions
  are the named wrappers below it.  Explicit state passing (`CState`), no monad.
-/
import GLua.Model.MiniVM

namespace GLua.Compile
open GLua.MiniVM

variable [NumStruct]

/-! ### the compile state -/

structure CState where
  code    : List Instr := []              -- codeStore.List()  (codes[:pc]), oldest first
  labelId : Nat := 1                      -- funcContext.labelId
  labelPc : List (Nat × Int) := []        -- funcContext.labelPc (newest binding first; a missing key reads 0)
  consts  : List Konst := []              -- Proto.Constants
  regTop  : Nat := 0                      -- funcContext.regTop

def regNotDefined : Nat := Generated.regNotDefined      -- opMaxArgsA + 1
def ecLocal : Nat := Generated.ecLocal
def ecNone : Nat := Generated.ecNone
def ecGlobal : Nat := Generated.ecGlobal

structure ExpCtx where
  ctype : Nat
  reg : Nat
deriving Repr, DecidableEq

def ecnone0 : ExpCtx := ⟨ecNone, regNotDefined⟩

def savereg (ec : ExpCtx) (reg : Nat) : Nat :=
  if ec.ctype ≠ ecLocal ∨ ec.reg = regNotDefined then reg else ec.reg

/-- `codeStore.Add` -/
def emit (st : CState) (i : Instr) : CState := { st with code := st.code ++ [i] }
/-- `codeStore.LastPC()` = pc - 1 -/
def lastPC (st : CState) : Int := (st.code.length : Int) - 1
/-- `codeStore.Last()` (`none` = opInvalidInstruction when the store is empty) -/
def last (st : CState) : Option Instr := st.code.getLast?
/-- `codeStore.Pop()` -/
def pop (st : CState) : CState := { st with code := st.code.dropLast }
/-- `funcContext.NewLabel()` -/
def newLabel (st : CState) : CState × Nat := ({ st with labelId := st.labelId + 1 }, st.labelId)
/-- `funcContext.SetLabelPc(label, pc)` -/
def setLabelPc (st : CState) (label : Nat) (pc : Int) : CState := { st with labelPc := (label, pc) :: st.labelPc }
/-- `context.SetLabelPc(label, context.Code.LastPC())` — the only way labels are bound. -/
def setLabelHere (st : CState) (label : Nat) : CState := setLabelPc st label (lastPC st)

def lookupLabel : List (Nat × Int) → Nat → Int
  | [], _ => 0
  | (l, pc) :: r, k => if l = k then pc else lookupLabel r k
/-- `funcContext.GetLabelPc(label)` (Go map: missing key → 0) -/
def getLabelPc (st : CState) (label : Nat) : Int := lookupLabel st.labelPc label

def findIdx (cs : List Konst) (k : Konst) : Option Nat :=
  match cs with
  | [] => none
  | c :: r => if c = k then some 0 else (findIdx r k).map (· + 1)

/-- a NaN number constant (`lv == value` is false for it in Go, whatever the pool holds). -/
def _root_.GLua.MiniVM.Konst.isNaN : Konst → Bool
  | .num x => NumStruct.isNaN x
  | .str _ => false

/-- `funcContext.ConstIndex(value)`: first equal constant (Go `==` on the same type and the same sign bit, i.e.
    the same number unless it is NaN, which equals nothing), else append.  ("too many constants" is out of reach.) -/
def constIndex (st : CState) (k : Konst) : CState × Nat :=
  match (if k.isNaN then none else findIdx st.consts k) with
  | some i => (st, i)
  | none => ({ st with consts := st.consts ++ [k] }, st.consts.length)

/-- the global that stands for the opaque atom `id`. -/
def gname (id : Nat) : Konst := .str ("g" ++ toString id)

/-- `codeStore.PropagateKMV` (kmv = true) / `PropagateMV` (kmv = false):
    returns (store, save, reg). -/
def propagate (kmv : Bool) (st : CState) (top reg inc : Nat) : CState × Nat × Nat :=
  match last st with
  | some (.loadk a bx) =>
    if a ≥ top ∧ kmv ∧ bx ≤ Generated.opMaxIndexRk then (pop st, bx + Generated.opBitRk, reg)   -- opRkAsk(cindex)
    else (st, reg, reg + inc)
  | some (.move a b) =>
    if a ≥ top then (pop st, b, reg) else (st, reg, reg + inc)
  | _ => (st, reg, reg + inc)

structure LbLabels where
  t : Nat
  f : Nat
  e : Nat
deriving Repr

inductive Mode where
  | expr (reg : Nat) (ec : ExpCtx)
  | aux (reg : Nat) (ec : ExpCtx) (thenl elsel : Nat) (hasnext : Bool) (lb : LbLabels) (b : Bool)
  | bc (reg : Nat) (thenl elsel : Nat) (hasnext : Bool)

/-- result: store, register increment (compileExpr's return value), `lb.b` afterwards. -/
structure Res where
  st : CState
  inc : Nat := 0
  b : Bool := false

def flipOf (hasnext : Bool) : Nat := if hasnext then 1 else 0

/-- the comparison instruction of `compileRelationalOpExprAux` (`0^flip` = flip, `1^flip` = 1 - flip). -/
def relInstr (op : RelOp) (flip b c : Nat) : Instr :=
  match op with
  | .lt => .lt flip b c
  | .gt => .lt flip c b
  | .le => .le flip b c
  | .ge => .le flip c b
  | .eq => .eq flip b c
  | .ne => .eq (1 - flip) b c

/-- `compileExprWithPropagation` given the result of `compileExpr(context, *reg, expr, ecnone(0))`. -/
def withPropagation (kmv : Bool) (isLogical : Bool) (r : Res) (reg : Nat) : CState × Nat × Nat :=
  if isLogical then (r.st, reg, reg + r.inc)
  else propagate kmv r.st r.st.regTop reg r.inc

/-- the two operands of a binary operator, each through `compileExprWithKMVPropagation`
    (`b := reg; …(Lhs, &reg, &b); c := reg; …(Rhs, &reg, &c)`): returns (store, b, c). -/
def binOperands (cl cr : CState → Nat → Res) (ll rl : Bool) (st : CState) (reg : Nat) : CState × Nat × Nat :=
  let w1 := withPropagation true ll (cl st reg) reg
  let w2 := withPropagation true rl (cr w1.1 w1.2.2) w1.2.2
  (w2.1, w1.2.1, w2.2.1)

/-- `compileRelationalOpExprAux` given the compile functions of the two operands. -/
def relAux (cl cr : CState → Nat → Res) (ll rl : Bool) (st : CState) (reg : Nat) (op : RelOp) (flip label : Nat) : CState :=
  let o := binOperands cl cr ll rl st reg
  emit (emit o.1 (relInstr op flip o.2.1 o.2.2)) (.jmp label)

/-- `if lb.b { SetLabelPc(lb.f); LOADBOOL a 0 1; SetLabelPc(lb.t); LOADBOOL a 1 0 }` -/
def tailBools (st : CState) (a : Nat) (lb : LbLabels) (b : Bool) : CState :=
  if b then
    let st := setLabelHere st lb.f
    let st := emit st (.loadbool a 0 1)
    let st := setLabelHere st lb.t
    emit st (.loadbool a 1 0)
  else st

/-- `if last is JMP endlabel { code.Pop() }` -/
def tailPop (st : CState) (e : Nat) : CState :=
  match last st with
  | some (.jmp sbx) => if sbx = (e : Int) then pop st else st
  | _ => st

/-- tail of `compileLogicalOpExpr` after the two operands: the lb.f/lb.t LOADBOOL pair, the removal of a
    final `JMP endlabel`, the binding of endlabel. -/
def logicalTail (st : CState) (a : Nat) (lb : LbLabels) (b : Bool) : CState :=
  setLabelHere (tailPop (tailBools st a lb b) lb.e) lb.e

/-- `code.AddABx(OP_LOADK, sreg, context.ConstIndex(value)); return sused` — the arm of `compileExpr` for
    StringExpr / NumberExpr / constLValueExpr. -/
def loadK (k : Konst) (reg : Nat) (ec : ExpCtx) (st : CState) : Res :=
  let sreg := savereg ec reg
  let ci := constIndex st k
  { st := emit ci.1 (.loadk sreg ci.2), inc := if sreg < reg then 0 else 1 }

/-- `compileExpr` on the leaves (constants, locals, opaque atoms); not recursive. -/
def leafExpr (e : Cond) (reg : Nat) (ec : ExpCtx) (st : CState) : Res :=
  let sreg := savereg ec reg
  let inc := if sreg < reg then 0 else 1          -- sused
  match e with
  | .tru => { st := emit st (.loadbool sreg 1 0), inc := inc }
  | .fls => { st := emit st (.loadbool sreg 0 0), inc := inc }
  | .nil => { st := emit st (.loadnil sreg sreg), inc := inc }
  | .num n => loadK (.num (NumStruct.lit n)) reg ec st
  | .str s => loadK (.str s) reg ec st
  | .loc r => { st := emit st (.move sreg r), inc := inc }
  | .ev id =>
    let (st, _) := constIndex st (gname id)
    { st := emit st (.eval sreg id), inc := inc }
  | _ => { st := st, inc := inc }                 -- not a leaf (never used)

/-- `compileUnaryOpExpr` for `not c`, given `sub` = compileExpr(context, reg, c, ecnone(0)). -/
def notExpr (c : Cond) (sub : CState → Res) (reg : Nat) (ec : ExpCtx) (st : CState) : Res :=
  let sreg := savereg ec reg
  let inc := if sreg < reg then 0 else 1
  match c with
  | .tru => { st := emit st (.loadbool sreg 0 0), inc := inc }
  | .fls => { st := emit st (.loadbool sreg 1 0), inc := inc }
  | .nil => { st := emit st (.loadbool sreg 1 0), inc := inc }
  | _ =>
    let (st1, b, _) := withPropagation false c.isLogical (sub st) reg
    { st := emit st1 (.not sreg b), inc := inc }

/-! ### constant folding (`constFold` + `lnumberValue` on this expression language)

    `lnum e = some x` iff `constFold(e)` returns a `constLValueExpr{x}` (or `e` is a numeral with value x): both
    operands of an arithmetic node / the operand of a unary minus fold to constants.  `constFold` also rewrites
    the child of a unary minus IN PLACE by its folded form; since folding the rewritten tree again gives the same
    constants (`Proofs/ConstFold.lean`: `constFold_again`, `lnum_eq_constFold`) the test the compiler makes is a
    function of the ORIGINAL tree, which is what this definition computes. -/
def lnum : Cond → Option NumStruct.N
  | .num n => some (NumStruct.lit n)
  | .arith op l r =>
    match lnum l, lnum r with
    | some a, some b => some (NumStruct.apply op a b)
    | _, _ => none
  | .unm c =>
    match lnum c with
    | some a => some (NumStruct.neg a)
    | none => none
  | _ => none

/-- `compileArithmeticOpExpr`, given `folded` = the constant `constFold` produced (if any) and the compile
    functions of the two operands. -/
def arithExpr (folded : Option NumStruct.N) (op : ArithOp) (cl cr : CState → Nat → Res) (ll rl : Bool)
    (reg : Nat) (ec : ExpCtx) (st : CState) : Res :=
  match folded with
  | some x => loadK (.num x) reg ec st            -- exp.(*constLValueExpr): compileExpr(context, reg, ex, ec)
  | none =>
    let a := savereg ec reg
    let o := binOperands cl cr ll rl st reg
    { st := emit o.1 (.arith op a o.2.1 o.2.2), inc := if a < reg then 0 else 1 }

/-- tail of `compileUnaryOpExpr`: `a := savereg(ec, reg); b := reg; compileExprWithMVPropagation(operand, &reg, &b);
    code.AddABC(opcode, a, b, 0)`, given `sub` = compileExpr(context, reg, operand, ecnone(0)). -/
def unopExpr (mk : Nat → Nat → Instr) (isLog : Bool) (sub : CState → Res) (reg : Nat) (ec : ExpCtx) (st : CState) : Res :=
  let sreg := savereg ec reg
  let w := withPropagation false isLog (sub st) reg
  { st := emit w.1 (mk sreg w.2.1), inc := if sreg < reg then 0 else 1 }

/-- `compileUnaryOpExpr` for `-c`: constant folding first. -/
def unmExpr (folded : Option NumStruct.N) (isLog : Bool) (sub : CState → Res) (reg : Nat) (ec : ExpCtx) (st : CState) : Res :=
  match folded with
  | some x => loadK (.num x) reg ec st
  | none => unopExpr .unm isLog sub reg ec st

/-- length of the chain of concatenations hanging off the right operand
    (`for current := expr.Rhs; …; { if StringConcatOpExpr { crange += 1; current = ex.Rhs } }`). -/
def spine : Cond → Nat
  | .concat _ r => spine r + 1
  | _ => 0

/-- `for pc := code.LastPC(); pc != 0 && opGetOpCode(code.At(pc)) == OP_CONCAT; pc-- { code.Pop() }` -/
def dropConcats : Nat → List Instr → List Instr
  | 0, c => c
  | n + 1, c =>
    match c.getLast? with
    | some (.concat _ _ _) => if c.length = 1 then c else dropConcats n c.dropLast
    | _ => c

def popConcats (st : CState) : CState := { st with code := dropConcats st.code.length st.code }

/-- `compileStringConcatOpExpr`, given the results of compiling the two operands
    (`reg += compileExpr(Lhs, ecnone(0)); reg += compileExpr(Rhs, ecnone(0))`). -/
def concatExpr (crange : Nat) (cl cr : CState → Nat → Res) (reg : Nat) (ec : ExpCtx) (st : CState) : Res :=
  let a := savereg ec reg
  let r1 := cl st reg
  let r2 := cr r1.st (reg + r1.inc)
  let st := popConcats r2.st
  { st := emit st (.concat a reg (reg + crange)), inc := if a < reg then 0 else 1 }

/-- `last := Last(); if last is MOVE a _ { SetA(LastPC, sreg) } else { AddABC(OP_MOVE, sreg, a, 0) }` -/
def moveTo (s : CState) (sreg a : Nat) : CState :=
  match last s with
  | some (.move a' b') => if a' = a then emit (pop s) (.move sreg b') else emit s (.move sreg a)
  | _ => emit s (.move sreg a)

/-- the two general arms of `compileLogicalOpExprAux`'s default case (operand is not a local that is
    stored/tested in place), given `sub ec' st` = compileExpr(context, reg, expr, ec'). -/
def auxDefault (sub : ExpCtx → CState → Res) (reg : Nat) (ec : ExpCtx) (thenl elsel : Nat) (hasnext : Bool)
    (lb : LbLabels) (b : Bool) (st : CState) : Res :=
  let flip := flipOf hasnext
  let jumplabel := if hasnext then thenl else elsel
  let a := reg
  let sreg := savereg ec a
  if hasnext = false ∧ thenl = elsel then
    -- compileExpr with ec{ctype, max(a, sreg)}, then retarget a trailing `MOVE a _` (SetA) or append `MOVE sreg a`
    let r1 := sub ⟨ec.ctype, max a sreg⟩ st
    { st := emit (moveTo r1.st sreg a) (.jmp jumplabel), b := b }
  else
    let r1 := sub ecnone0 st
    -- today's fix: TESTSET iff the jump leaves the expression (jumplabel == lb.e) and the destination differs
    let st := if jumplabel = lb.e ∧ sreg ≠ a then emit r1.st (.testset sreg a flip) else emit r1.st (.test a 0 flip)
    { st := emit st (.jmp jumplabel), b := b }

/-- default case of `compileBranchCondition`, given `r` = compileExpr(context, reg, expr, ecnone(0)). -/
def bcDefault (r : Res) (reg flip jumplabel : Nat) : Res :=
  let (st1, a, _) := withPropagation false false r reg
  { st := emit (emit st1 (.test a 0 flip)) (.jmp jumplabel) }

/-- compileExpr / compileLogicalOpExprAux / compileBranchCondition. -/
def comp : Cond → Mode → CState → Res
  -- ───────────── compileExpr: leaves ─────────────
  | .tru, .expr reg ec, st => leafExpr .tru reg ec st
  | .fls, .expr reg ec, st => leafExpr .fls reg ec st
  | .nil, .expr reg ec, st => leafExpr .nil reg ec st
  | .num n, .expr reg ec, st => leafExpr (.num n) reg ec st
  | .str s, .expr reg ec, st => leafExpr (.str s) reg ec st
  | .loc r, .expr reg ec, st => leafExpr (.loc r) reg ec st
  | .ev id, .expr reg ec, st => leafExpr (.ev id) reg ec st
  -- ───────────── not (compileUnaryOpExpr) ─────────────
  | .not c, .expr reg ec, st => notExpr c (fun s => comp c (.expr reg ecnone0) s) reg ec st
  -- ───────────── arithmetic, unary minus, length, concatenation ─────────────
  | .arith op l r, .expr reg ec, st =>
    arithExpr (lnum (.arith op l r)) op (fun s g => comp l (.expr g ecnone0) s) (fun s g => comp r (.expr g ecnone0) s)
      l.isLogical r.isLogical reg ec st
  | .unm c, .expr reg ec, st =>
    unmExpr (lnum (.unm c)) c.isLogical (fun s => comp c (.expr reg ecnone0) s) reg ec st
  | .len c, .expr reg ec, st =>
    unopExpr .len c.isLogical (fun s => comp c (.expr reg ecnone0) s) reg ec st
  | .concat l r, .expr reg ec, st =>
    concatExpr (1 + spine r) (fun s g => comp l (.expr g ecnone0) s) (fun s g => comp r (.expr g ecnone0) s) reg ec st
  -- ───────────── relational (compileRelationalOpExpr) ─────────────
  | .rel op l r, .expr reg ec, st =>
    let a := savereg ec reg
    let (st, jumplabel) := newLabel st
    let st := relAux (fun s g => comp l (.expr g ecnone0) s) (fun s g => comp r (.expr g ecnone0) s)
                l.isLogical r.isLogical st reg op 1 jumplabel
    let st := emit st (.loadbool a 0 1)
    let st := setLabelHere st jumplabel
    { st := emit st (.loadbool a 1 0), inc := if a < reg then 0 else 1 }
  -- ───────────── and / or in value context (compileLogicalOpExpr) ─────────────
  | .and l r, .expr reg ec, st =>
    let a := savereg ec reg
    let (st, endlabel) := newLabel st
    let (st, lt) := newLabel st
    let (st, lf) := newLabel st
    let lb : LbLabels := ⟨lt, lf, endlabel⟩
    let (st, nextcondlabel) := newLabel st
    let r1 := comp l (.aux reg ec nextcondlabel endlabel false lb false) st
    let st := setLabelHere r1.st nextcondlabel
    let r2 := comp r (.aux reg ec endlabel endlabel false lb r1.b) st
    { st := logicalTail r2.st a lb r2.b, inc := if a < reg then 0 else 1 }
  | .or l r, .expr reg ec, st =>
    let a := savereg ec reg
    let (st, endlabel) := newLabel st
    let (st, lt) := newLabel st
    let (st, lf) := newLabel st
    let lb : LbLabels := ⟨lt, lf, endlabel⟩
    let (st, nextcondlabel) := newLabel st
    let r1 := comp l (.aux reg ec endlabel nextcondlabel true lb false) st
    let st := setLabelHere r1.st nextcondlabel
    let r2 := comp r (.aux reg ec endlabel endlabel false lb r1.b) st
    { st := logicalTail r2.st a lb r2.b, inc := if a < reg then 0 else 1 }
  -- ═════════════ compileLogicalOpExprAux ═════════════
  | .fls, .aux _ _ _ elsel _ lb b, st =>
    if elsel = lb.e then { st := emit st (.jmp lb.f), b := true }
    else { st := emit st (.jmp elsel), b := b }
  | .nil, .aux reg ec _ elsel _ lb b, st =>
    if elsel = lb.e then { st := emit (leafExpr .nil reg ec st).st (.jmp lb.e), b := b }
    else { st := emit st (.jmp elsel), b := b }
  | .tru, .aux _ _ thenl _ _ lb b, st =>
    if thenl = lb.e then { st := emit st (.jmp lb.t), b := true }
    else { st := emit st (.jmp thenl), b := b }
  | .num n, .aux reg ec thenl _ _ lb b, st =>
    if thenl = lb.e then { st := emit (leafExpr (.num n) reg ec st).st (.jmp lb.e), b := b }
    else { st := emit st (.jmp thenl), b := b }
  | .str s, .aux reg ec thenl _ _ lb b, st =>
    if thenl = lb.e then { st := emit (leafExpr (.str s) reg ec st).st (.jmp lb.e), b := b }
    else { st := emit st (.jmp thenl), b := b }
  | .and l r, .aux reg ec thenl elsel hasnext lb b, st =>
    let (st, nextcondlabel) := newLabel st
    let r1 := comp l (.aux reg ec nextcondlabel elsel false lb b) st
    let st := setLabelHere r1.st nextcondlabel
    comp r (.aux reg ec thenl elsel hasnext lb r1.b) st
  | .or l r, .aux reg ec thenl elsel hasnext lb b, st =>
    let (st, nextcondlabel) := newLabel st
    let r1 := comp l (.aux reg ec thenl nextcondlabel true lb b) st
    let st := setLabelHere r1.st nextcondlabel
    comp r (.aux reg ec thenl elsel hasnext lb r1.b) st
  | .rel op l r, .aux reg _ thenl elsel hasnext lb b, st =>
    let flip := flipOf hasnext
    let jumplabel := if hasnext then thenl else elsel
    let (flip, jumplabel, b) :=
      if thenl = elsel then (1 - flip, lb.t, true)          -- flip ^= 1
      else if thenl = lb.e then (flip, lb.t, true)
      else if elsel = lb.e then (flip, lb.f, true)
      else (flip, jumplabel, b)
    { st := relAux (fun s g => comp l (.expr g ecnone0) s) (fun s g => comp r (.expr g ecnone0) s)
              l.isLogical r.isLogical st reg op flip jumplabel, b := b }
  | .loc r, .aux reg ec thenl elsel hasnext lb b, st =>
    let sreg := savereg ec reg
    let isLastAnd := elsel = lb.e ∧ thenl ≠ elsel
    let isLastOr := thenl = lb.e ∧ hasnext = true
    if isLastAnd ∨ isLastOr then
      -- a local operand is tested (and stored) in place: TEST when it already is the destination
      let st := if sreg = r then emit st (.test sreg r (flipOf hasnext)) else emit st (.testset sreg r (flipOf hasnext))
      { st := emit st (.jmp (if hasnext then thenl else elsel)), b := b }
    else auxDefault (fun ec' s => leafExpr (.loc r) reg ec' s) reg ec thenl elsel hasnext lb b st
  | .ev id, .aux reg ec thenl elsel hasnext lb b, st =>
    auxDefault (fun ec' s => leafExpr (.ev id) reg ec' s) reg ec thenl elsel hasnext lb b st
  | .not c, .aux reg ec thenl elsel hasnext lb b, st =>
    auxDefault (fun ec' s => notExpr c (fun s' => comp c (.expr reg ecnone0) s') reg ec' s) reg ec thenl elsel hasnext lb b st
  | .arith op l r, .aux reg ec thenl elsel hasnext lb b, st =>
    auxDefault (fun ec' s => arithExpr (lnum (.arith op l r)) op (fun s' g => comp l (.expr g ecnone0) s')
        (fun s' g => comp r (.expr g ecnone0) s') l.isLogical r.isLogical reg ec' s) reg ec thenl elsel hasnext lb b st
  | .unm c, .aux reg ec thenl elsel hasnext lb b, st =>
    auxDefault (fun ec' s => unmExpr (lnum (.unm c)) c.isLogical (fun s' => comp c (.expr reg ecnone0) s') reg ec' s)
      reg ec thenl elsel hasnext lb b st
  | .len c, .aux reg ec thenl elsel hasnext lb b, st =>
    auxDefault (fun ec' s => unopExpr .len c.isLogical (fun s' => comp c (.expr reg ecnone0) s') reg ec' s)
      reg ec thenl elsel hasnext lb b st
  | .concat l r, .aux reg ec thenl elsel hasnext lb b, st =>
    auxDefault (fun ec' s => concatExpr (1 + spine r) (fun s' g => comp l (.expr g ecnone0) s')
        (fun s' g => comp r (.expr g ecnone0) s') reg ec' s) reg ec thenl elsel hasnext lb b st
  -- ═════════════ compileBranchCondition ═════════════
  | .not c, .bc reg thenl elsel hasnext, st => comp c (.bc reg elsel thenl (!hasnext)) st
  | .and l r, .bc reg thenl elsel hasnext, st =>
    let (st, nextcondlabel) := newLabel st
    let r1 := comp l (.bc reg nextcondlabel elsel false) st
    let st := setLabelHere r1.st nextcondlabel
    comp r (.bc reg thenl elsel hasnext) st
  | .or l r, .bc reg thenl elsel hasnext, st =>
    let (st, nextcondlabel) := newLabel st
    let r1 := comp l (.bc reg thenl nextcondlabel true) st
    let st := setLabelHere r1.st nextcondlabel
    comp r (.bc reg thenl elsel hasnext) st
  | .rel op l r, .bc reg thenl elsel hasnext, st =>
    { st := relAux (fun s g => comp l (.expr g ecnone0) s) (fun s g => comp r (.expr g ecnone0) s)
              l.isLogical r.isLogical st reg op (flipOf hasnext) (if hasnext then thenl else elsel) }
  | .fls, .bc reg thenl elsel hasnext, st =>
    if hasnext = false then { st := emit st (.jmp elsel) }
    else bcDefault (leafExpr .fls reg ecnone0 st) reg 1 thenl
  | .nil, .bc reg thenl elsel hasnext, st =>
    if hasnext = false then { st := emit st (.jmp elsel) }
    else bcDefault (leafExpr .nil reg ecnone0 st) reg 1 thenl
  | .tru, .bc reg thenl _ hasnext, st =>
    if hasnext = false then { st := st }
    else bcDefault (leafExpr .tru reg ecnone0 st) reg 1 thenl
  | .num n, .bc reg thenl _ hasnext, st =>
    if hasnext = false then { st := st }
    else bcDefault (leafExpr (.num n) reg ecnone0 st) reg 1 thenl
  | .str s, .bc reg thenl _ hasnext, st =>
    if hasnext = false then { st := st }
    else bcDefault (leafExpr (.str s) reg ecnone0 st) reg 1 thenl
  | .loc r, .bc reg thenl elsel hasnext, st =>
    bcDefault (leafExpr (.loc r) reg ecnone0 st) reg (flipOf hasnext) (if hasnext then thenl else elsel)
  | .ev id, .bc reg thenl elsel hasnext, st =>
    bcDefault (leafExpr (.ev id) reg ecnone0 st) reg (flipOf hasnext) (if hasnext then thenl else elsel)
  | .arith op l r, .bc reg thenl elsel hasnext, st =>
    bcDefault (arithExpr (lnum (.arith op l r)) op (fun s g => comp l (.expr g ecnone0) s)
        (fun s g => comp r (.expr g ecnone0) s) l.isLogical r.isLogical reg ecnone0 st)
      reg (flipOf hasnext) (if hasnext then thenl else elsel)
  | .unm c, .bc reg thenl elsel hasnext, st =>
    bcDefault (unmExpr (lnum (.unm c)) c.isLogical (fun s => comp c (.expr reg ecnone0) s) reg ecnone0 st)
      reg (flipOf hasnext) (if hasnext then thenl else elsel)
  | .len c, .bc reg thenl elsel hasnext, st =>
    bcDefault (unopExpr .len c.isLogical (fun s => comp c (.expr reg ecnone0) s) reg ecnone0 st)
      reg (flipOf hasnext) (if hasnext then thenl else elsel)
  | .concat l r, .bc reg thenl elsel hasnext, st =>
    bcDefault (concatExpr (1 + spine r) (fun s g => comp l (.expr g ecnone0) s)
        (fun s g => comp r (.expr g ecnone0) s) reg ecnone0 st)
      reg (flipOf hasnext) (if hasnext then thenl else elsel)

/-! ### the Go functions by name -/

def compileExpr (st : CState) (reg : Nat) (e : Cond) (ec : ExpCtx) : CState × Nat :=
  let r := comp e (.expr reg ec) st
  (r.st, r.inc)

def compileBranchCondition (st : CState) (reg : Nat) (e : Cond) (thenlabel elselabel : Nat) (hasnextcond : Bool) : CState :=
  (comp e (.bc reg thenlabel elselabel hasnextcond) st).st

def compileLogicalOpExprAux (st : CState) (reg : Nat) (e : Cond) (ec : ExpCtx) (thenlabel elselabel : Nat)
    (hasnextcond : Bool) (lb : LbLabels) (b : Bool) : CState × Bool :=
  let r := comp e (.aux reg ec thenlabel elselabel hasnextcond lb b) st
  (r.st, r.b)

end GLua.Compile
