/-
  C17 — the LINE LAYER of the compile model: `FunctionProto.DbgSourcePositions`.

  Model/Compile.lean + Model/CompileStmt.lean transcribe WHAT the fragment of /repo/compile.go emits; this file
  transcribes, on top of them and without changing them, WHICH `line` ARGUMENT every `Add` / `AddABC` / `AddABx` /
  `AddASbx` call passes, and what `Pop` / `SetA` / `patchCode` do to the line table:

      codeStore{codes, lines, pc}:  Add(inst, line) writes codes[pc] AND lines[pc] (append or overwrite), pc++;
                                    Pop() is pc--;  PosList() = lines[:pc];  SetA/SetOpCode/SetSbx touch codes only;
                                    compileFunctionExpr stores PosList() BEFORE patchCode, and patchCode rewrites
                                    words in place (JMP→NOP, MOVE→MOVEN, distances): positions are untouched.

  So the table is: one entry per `Add`, the last `n` entries dropped by `n` Pops (`cut`), nothing else.  An instruction
  that reuses a popped slot gets its OWN line (Add overwrites lines[pc]); the only instruction that keeps a line it
  was not emitted with is the `MOVE` retargeted by `SetA` in compileLogicalOpExprAux (`moveToL`), and that line is its own.

  Part 1 — the AST as compile.go sees it (`ACond`, `AStmt`): every node with its `Line()`, compound statements with
           `LastLine()` (`none` = 0 = never set; token lines are ≥ 1).  Generic in the type `α` of positions: the
           compile functions never compute with a position, they only copy it (theorem `compL_natural`).
  Part 2 — compile.go with positions: `compL` mirrors `comp` clause by clause (same names + `L`), `compStmtL` /
           `compChunkL` / `compBlockL` / `compMainL` mirror CompileStmt.lean.  Every function returns the store of the
           existing model together with the line table (`LState`); `Proofs/LinesSim.lean` proves that the store IS
           the existing model's (erasure) and that the table has one entry per instruction.
  Part 3 — parse/parser.go.y: which token's line each node gets (`toA`), from the token-annotated source of
           Spec/LineAst.lean; `compLines` = the table of a program; `Compile`'s line of the final RETURN.

  Tie: harness/c17_linetab.go renders generated programs in multi-line layouts, compiles them with the REAL compiler
  and sends `C17L linetab <tprog> => <DbgSourcePositions>`; Engines/LineTabEng.lean compares entry by entry.
-/
import GLua.Model.CompileStmt
import GLua.Spec.LineAst

namespace GLua.Compile
open GLua.MiniVM

variable [NumStruct]

/-! ## Part 1 — the positioned AST -/

/-- `ast.Expr` of the fragment: every node with its `Line()`. -/
inductive ACond (α : Type) where
  | tru (ln : α) | fls (ln : α) | nil (ln : α)
  | num (ln : α) (n : Int)
  | str (ln : α) (s : String)
  | loc (ln : α) (r : Nat)
  | ev (ln : α) (id : Nat)
  | not (ln : α) (c : ACond α)
  | and (ln : α) (l r : ACond α)
  | or (ln : α) (l r : ACond α)
  | rel (ln : α) (op : RelOp) (l r : ACond α)
  | arith (ln : α) (op : ArithOp) (l r : ACond α)
  | unm (ln : α) (c : ACond α)
  | len (ln : α) (c : ACond α)
  | concat (ln : α) (l r : ACond α)
deriving Repr

variable {α β : Type}

/-- `sline(expr)` = `expr.Line()` -/
def ACond.ln : ACond α → α
  | .tru t | .fls t | .nil t | .num t _ | .str t _ | .loc t _ | .ev t _ | .not t _ | .and t _ _ | .or t _ _
  | .rel t _ _ _ | .arith t _ _ _ | .unm t _ | .len t _ | .concat t _ _ => t

/-- `expr.SetLine(t)` -/
def ACond.setLn (t : α) : ACond α → ACond α
  | .tru _ => .tru t | .fls _ => .fls t | .nil _ => .nil t
  | .num _ n => .num t n | .str _ s => .str t s | .loc _ r => .loc t r | .ev _ id => .ev t id
  | .not _ c => .not t c | .and _ l r => .and t l r | .or _ l r => .or t l r
  | .rel _ op l r => .rel t op l r | .arith _ op l r => .arith t op l r
  | .unm _ c => .unm t c | .len _ c => .len t c | .concat _ l r => .concat t l r

def ACond.erase : ACond α → Cond
  | .tru _ => .tru | .fls _ => .fls | .nil _ => .nil
  | .num _ n => .num n | .str _ s => .str s | .loc _ r => .loc r | .ev _ id => .ev id
  | .not _ c => .not c.erase
  | .and _ l r => .and l.erase r.erase | .or _ l r => .or l.erase r.erase
  | .rel _ op l r => .rel op l.erase r.erase
  | .arith _ op l r => .arith op l.erase r.erase
  | .unm _ c => .unm c.erase | .len _ c => .len c.erase
  | .concat _ l r => .concat l.erase r.erase

def ACond.map (f : α → β) : ACond α → ACond β
  | .tru t => .tru (f t) | .fls t => .fls (f t) | .nil t => .nil (f t)
  | .num t n => .num (f t) n | .str t s => .str (f t) s | .loc t r => .loc (f t) r | .ev t id => .ev (f t) id
  | .not t c => .not (f t) (c.map f)
  | .and t l r => .and (f t) (l.map f) (r.map f) | .or t l r => .or (f t) (l.map f) (r.map f)
  | .rel t op l r => .rel (f t) op (l.map f) (r.map f)
  | .arith t op l r => .arith (f t) op (l.map f) (r.map f)
  | .unm t c => .unm (f t) (c.map f) | .len t c => .len (f t) (c.map f)
  | .concat t l r => .concat (f t) (l.map f) (r.map f)

/-- every position stored in the tree. -/
def ACond.tags : ACond α → List α
  | .tru t | .fls t | .nil t | .num t _ | .str t _ | .loc t _ | .ev t _ => [t]
  | .not t c | .unm t c | .len t c => t :: c.tags
  | .and t l r | .or t l r | .rel t _ l r | .arith t _ l r | .concat t l r => t :: (l.tags ++ r.tags)

mutual
/-- `ast.Stmt` of the fragment: `Line()`, and `LastLine()` where the parser sets it. -/
inductive AStmt (α : Type) where
  | ifS (ln : α) (last : Option α) (c : ACond α) (thn els : ABlock α)
  | whileS (ln : α) (last : Option α) (c : ACond α) (body : ABlock α)
  | repeatS (ln : α) (last : Option α) (body : ABlock α) (c : ACond α)
  | ret (ln : α) (cs : List (ACond α))
  | localDef (ln : α) (c : ACond α)
  | assign (ln : α) (targets : List (α × Target)) (rhs : List (ACond α))   -- each `IdentExpr` target with its line
inductive ABlock (α : Type) where
  | nil
  | cons (s : AStmt α) (rest : ABlock α)
end

def ABlock.isEmpty : ABlock α → Bool
  | .nil => true
  | _ => false

/-- `sline(stmt)` -/
def AStmt.ln : AStmt α → α
  | .ifS t _ _ _ _ | .whileS t _ _ _ | .repeatS t _ _ _ | .ret t _ | .localDef t _ | .assign t _ _ => t

/-- `eline(stmt)`: `LastLine()`, or `Line()` when that is 0. -/
def AStmt.eline : AStmt α → α
  | .ifS t last _ _ _ | .whileS t last _ _ | .repeatS t last _ _ => last.getD t
  | .ret t _ | .localDef t _ | .assign t _ _ => t

mutual
def AStmt.erase : AStmt α → Stmt
  | .ifS _ _ c thn els => .ifS c.erase thn.erase els.erase
  | .whileS _ _ c body => .whileS c.erase body.erase
  | .repeatS _ _ body c => .repeatS body.erase c.erase
  | .ret _ cs => .ret (cs.map ACond.erase)
  | .localDef _ c => .localDef c.erase
  | .assign _ targets rhs => .assign (targets.map Prod.snd) (rhs.map ACond.erase)
def ABlock.erase : ABlock α → Block
  | .nil => .nil
  | .cons s rest => .cons s.erase rest.erase
end

mutual
def AStmt.map (f : α → β) : AStmt α → AStmt β
  | .ifS t last c thn els => .ifS (f t) (last.map f) (c.map f) (thn.map f) (els.map f)
  | .whileS t last c body => .whileS (f t) (last.map f) (c.map f) (body.map f)
  | .repeatS t last body c => .repeatS (f t) (last.map f) (body.map f) (c.map f)
  | .ret t cs => .ret (f t) (cs.map (ACond.map f))
  | .localDef t c => .localDef (f t) (c.map f)
  | .assign t targets rhs => .assign (f t) (targets.map fun p => (f p.1, p.2)) (rhs.map (ACond.map f))
def ABlock.map (f : α → β) : ABlock α → ABlock β
  | .nil => .nil
  | .cons s rest => .cons (s.map f) (rest.map f)
end

mutual
def AStmt.tags : AStmt α → List α
  | .ifS t last c thn els => t :: (last.toList ++ (c.tags ++ (thn.tags ++ els.tags)))
  | .whileS t last c body => t :: (last.toList ++ (c.tags ++ body.tags))
  | .repeatS t last body c => t :: (last.toList ++ (body.tags ++ c.tags))
  | .ret t cs => t :: cs.flatMap ACond.tags
  | .localDef t c => t :: c.tags
  | .assign t targets rhs => t :: (targets.map Prod.fst ++ rhs.flatMap ACond.tags)
def ABlock.tags : ABlock α → List α
  | .nil => []
  | .cons s rest => s.tags ++ rest.tags
end

/-- the last statement of a chunk. -/
def ABlock.last? : ABlock α → Option (AStmt α)
  | .nil => none
  | .cons s .nil => some s
  | .cons _ rest => rest.last?

/-! ## Part 2 — compile.go with positions -/

/-- the compile state of the existing model + `codeStore.lines[:pc]`. -/
structure LState (α : Type) where
  st : CState
  lines : List α

/-- `codeStore.Add(inst, line)` -/
def emitL (S : LState α) (i : Instr) (t : α) : LState α := { st := emit S.st i, lines := S.lines ++ [t] }

/-- after a function that only `Pop`s: the store is `st'`, `pc` went back to `len(st'.code)`, `PosList()` is `lines[:pc]`
    (the entries above pc are overwritten by the next `Add`s). -/
def cut (S : LState α) (st' : CState) : LState α := { st := st', lines := S.lines.take st'.code.length }

/-- after a function that does not touch the code store (labels, constants, register top). -/
def lift (S : LState α) (st' : CState) : LState α := { st := st', lines := S.lines }

def newLabelL (S : LState α) : LState α × Nat := (lift S (newLabel S.st).1, (newLabel S.st).2)
def setLabelHereL (S : LState α) (label : Nat) : LState α := lift S (setLabelHere S.st label)

/-- result of a compile function: store + table, register increment, `lb.b`. -/
structure LRes (α : Type) where
  S : LState α
  inc : Nat := 0
  b : Bool := false

/-- what the existing model returns. -/
def LRes.res (r : LRes α) : Res := { st := r.S.st, inc := r.inc, b := r.b }

/-- `compileExprWithPropagation`: PropagateKMV / PropagateMV only `Pop`. -/
def withPropagationL (kmv : Bool) (isLogical : Bool) (r : LRes α) (reg : Nat) : LState α × Nat × Nat :=
  let w := withPropagation kmv isLogical r.res reg
  (cut r.S w.1, w.2.1, w.2.2)

def binOperandsL (cl cr : LState α → Nat → LRes α) (ll rl : Bool) (S : LState α) (reg : Nat) : LState α × Nat × Nat :=
  let w1 := withPropagationL true ll (cl S reg) reg
  let w2 := withPropagationL true rl (cr w1.1 w1.2.2) w1.2.2
  (w2.1, w1.2.1, w2.2.1)

/-- `compileRelationalOpExprAux`: both instructions `sline(expr)`. -/
def relAuxL (t : α) (cl cr : LState α → Nat → LRes α) (ll rl : Bool) (S : LState α) (reg : Nat) (op : RelOp)
    (flip label : Nat) : LState α :=
  let o := binOperandsL cl cr ll rl S reg
  emitL (emitL o.1 (relInstr op flip o.2.1 o.2.2) t) (.jmp label) t

/-- the LOADBOOL pair of `compileLogicalOpExpr`: `sline(expr)`. -/
def tailBoolsL (t : α) (S : LState α) (a : Nat) (lb : LbLabels) (b : Bool) : LState α :=
  if b then
    let S := setLabelHereL S lb.f
    let S := emitL S (.loadbool a 0 1) t
    let S := setLabelHereL S lb.t
    emitL S (.loadbool a 1 0) t
  else S

/-- `if last is JMP endlabel { code.Pop() }` -/
def tailPopL (S : LState α) (e : Nat) : LState α := cut S (tailPop S.st e)

def logicalTailL (t : α) (S : LState α) (a : Nat) (lb : LbLabels) (b : Bool) : LState α :=
  setLabelHereL (tailPopL (tailBoolsL t S a lb b) lb.e) lb.e

/-- `code.AddABx(OP_LOADK, sreg, context.ConstIndex(value), sline(ex))` -/
def loadKL (t : α) (k : Konst) (reg : Nat) (ec : ExpCtx) (S : LState α) : LRes α :=
  let sreg := savereg ec reg
  let ci := constIndex S.st k
  { S := emitL (lift S ci.1) (.loadk sreg ci.2) t, inc := if sreg < reg then 0 else 1 }

/-- `compileExpr` on the leaves: one instruction, `sline(ex)`. -/
def leafExprL (t : α) (e : Cond) (reg : Nat) (ec : ExpCtx) (S : LState α) : LRes α :=
  let sreg := savereg ec reg
  let inc := if sreg < reg then 0 else 1
  match e with
  | .tru => { S := emitL S (.loadbool sreg 1 0) t, inc := inc }
  | .fls => { S := emitL S (.loadbool sreg 0 0) t, inc := inc }
  | .nil => { S := emitL S (.loadnil sreg sreg) t, inc := inc }
  | .num n => loadKL t (.num (NumStruct.lit n)) reg ec S
  | .str s => loadKL t (.str s) reg ec S
  | .loc r => { S := emitL S (.move sreg r) t, inc := inc }
  | .ev id => { S := emitL (lift S (constIndex S.st (gname id)).1) (.eval sreg id) t, inc := inc }
  | _ => { S := S, inc := inc }

/-- `compileUnaryOpExpr` for `not c`: `sline(expr)` (the line of the `not` node, not of the operand). -/
def notExprL (t : α) (c : Cond) (sub : LState α → LRes α) (reg : Nat) (ec : ExpCtx) (S : LState α) : LRes α :=
  let sreg := savereg ec reg
  let inc := if sreg < reg then 0 else 1
  match c with
  | .tru => { S := emitL S (.loadbool sreg 0 0) t, inc := inc }
  | .fls => { S := emitL S (.loadbool sreg 1 0) t, inc := inc }
  | .nil => { S := emitL S (.loadbool sreg 1 0) t, inc := inc }
  | _ =>
    let w := withPropagationL false c.isLogical (sub S) reg
    { S := emitL w.1 (.not sreg w.2.1) t, inc := inc }

/-- `compileArithmeticOpExpr`: a folded constant gets `exp.SetLine(sline(expr))`, the operator instruction `sline(expr)`. -/
def arithExprL (t : α) (folded : Option NumStruct.N) (op : ArithOp) (cl cr : LState α → Nat → LRes α) (ll rl : Bool)
    (reg : Nat) (ec : ExpCtx) (S : LState α) : LRes α :=
  match folded with
  | some x => loadKL t (.num x) reg ec S
  | none =>
    let a := savereg ec reg
    let o := binOperandsL cl cr ll rl S reg
    { S := emitL o.1 (.arith op a o.2.1 o.2.2) t, inc := if a < reg then 0 else 1 }

def unopExprL (t : α) (mk : Nat → Nat → Instr) (isLog : Bool) (sub : LState α → LRes α) (reg : Nat) (ec : ExpCtx)
    (S : LState α) : LRes α :=
  let sreg := savereg ec reg
  let w := withPropagationL false isLog (sub S) reg
  { S := emitL w.1 (mk sreg w.2.1) t, inc := if sreg < reg then 0 else 1 }

def unmExprL (t : α) (folded : Option NumStruct.N) (isLog : Bool) (sub : LState α → LRes α) (reg : Nat) (ec : ExpCtx)
    (S : LState α) : LRes α :=
  match folded with
  | some x => loadKL t (.num x) reg ec S
  | none => unopExprL t .unm isLog sub reg ec S

/-- the CONCAT-popping loop only `Pop`s. -/
def popConcatsL (S : LState α) : LState α := cut S (popConcats S.st)

def concatExprL (t : α) (crange : Nat) (cl cr : LState α → Nat → LRes α) (reg : Nat) (ec : ExpCtx) (S : LState α) : LRes α :=
  let a := savereg ec reg
  let r1 := cl S reg
  let r2 := cr r1.S (reg + r1.inc)
  let S := popConcatsL r2.S
  { S := emitL S (.concat a reg (reg + crange)) t, inc := if a < reg then 0 else 1 }

/-- `if last is MOVE a _ { SetA(LastPC, sreg) } else { AddABC(OP_MOVE, sreg, a, 0, sline(expr)) }`:
    `SetA` rewrites the word in place — its line stays. -/
def moveToL (t : α) (S : LState α) (sreg a : Nat) : LState α :=
  match last S.st with
  | some (.move a' _) => if a' = a then lift S (moveTo S.st sreg a) else emitL S (.move sreg a) t
  | _ => emitL S (.move sreg a) t

def auxDefaultL (t : α) (sub : ExpCtx → LState α → LRes α) (reg : Nat) (ec : ExpCtx) (thenl elsel : Nat) (hasnext : Bool)
    (lb : LbLabels) (b : Bool) (S : LState α) : LRes α :=
  let flip := flipOf hasnext
  let jumplabel := if hasnext then thenl else elsel
  let a := reg
  let sreg := savereg ec a
  if hasnext = false ∧ thenl = elsel then
    let r1 := sub ⟨ec.ctype, max a sreg⟩ S
    { S := emitL (moveToL t r1.S sreg a) (.jmp jumplabel) t, b := b }
  else
    let r1 := sub ecnone0 S
    let S' := if jumplabel = lb.e ∧ sreg ≠ a then emitL r1.S (.testset sreg a flip) t else emitL r1.S (.test a 0 flip) t
    { S := emitL S' (.jmp jumplabel) t, b := b }

def bcDefaultL (t : α) (r : LRes α) (reg flip jumplabel : Nat) : LRes α :=
  let w := withPropagationL false false r reg
  { S := emitL (emitL w.1 (.test w.2.1 0 flip) t) (.jmp jumplabel) t }

/-- compileExpr / compileLogicalOpExprAux / compileBranchCondition with positions: clause by clause `comp`
    (Model/Compile.lean); `t` is `sline(expr)` of the node being compiled. -/
def compL : ACond α → Mode → LState α → LRes α
  -- ───────────── compileExpr: leaves ─────────────
  | .tru t, .expr reg ec, S => leafExprL t .tru reg ec S
  | .fls t, .expr reg ec, S => leafExprL t .fls reg ec S
  | .nil t, .expr reg ec, S => leafExprL t .nil reg ec S
  | .num t n, .expr reg ec, S => leafExprL t (.num n) reg ec S
  | .str t s, .expr reg ec, S => leafExprL t (.str s) reg ec S
  | .loc t r, .expr reg ec, S => leafExprL t (.loc r) reg ec S
  | .ev t id, .expr reg ec, S => leafExprL t (.ev id) reg ec S
  | .not t c, .expr reg ec, S => notExprL t c.erase (fun s => compL c (.expr reg ecnone0) s) reg ec S
  | .arith t op l r, .expr reg ec, S =>
    arithExprL t (lnum (.arith op l.erase r.erase)) op (fun s g => compL l (.expr g ecnone0) s)
      (fun s g => compL r (.expr g ecnone0) s) l.erase.isLogical r.erase.isLogical reg ec S
  | .unm t c, .expr reg ec, S =>
    unmExprL t (lnum (.unm c.erase)) c.erase.isLogical (fun s => compL c (.expr reg ecnone0) s) reg ec S
  | .len t c, .expr reg ec, S =>
    unopExprL t .len c.erase.isLogical (fun s => compL c (.expr reg ecnone0) s) reg ec S
  | .concat t l r, .expr reg ec, S =>
    concatExprL t (1 + spine r.erase) (fun s g => compL l (.expr g ecnone0) s) (fun s g => compL r (.expr g ecnone0) s) reg ec S
  | .rel t op l r, .expr reg ec, S =>
    let a := savereg ec reg
    let (S, jumplabel) := newLabelL S
    let S := relAuxL t (fun s g => compL l (.expr g ecnone0) s) (fun s g => compL r (.expr g ecnone0) s)
                l.erase.isLogical r.erase.isLogical S reg op 1 jumplabel
    let S := emitL S (.loadbool a 0 1) t
    let S := setLabelHereL S jumplabel
    { S := emitL S (.loadbool a 1 0) t, inc := if a < reg then 0 else 1 }
  | .and t l r, .expr reg ec, S =>
    let a := savereg ec reg
    let (S, endlabel) := newLabelL S
    let (S, lt) := newLabelL S
    let (S, lf) := newLabelL S
    let lb : LbLabels := ⟨lt, lf, endlabel⟩
    let (S, nextcondlabel) := newLabelL S
    let r1 := compL l (.aux reg ec nextcondlabel endlabel false lb false) S
    let S := setLabelHereL r1.S nextcondlabel
    let r2 := compL r (.aux reg ec endlabel endlabel false lb r1.b) S
    { S := logicalTailL t r2.S a lb r2.b, inc := if a < reg then 0 else 1 }
  | .or t l r, .expr reg ec, S =>
    let a := savereg ec reg
    let (S, endlabel) := newLabelL S
    let (S, lt) := newLabelL S
    let (S, lf) := newLabelL S
    let lb : LbLabels := ⟨lt, lf, endlabel⟩
    let (S, nextcondlabel) := newLabelL S
    let r1 := compL l (.aux reg ec endlabel nextcondlabel true lb false) S
    let S := setLabelHereL r1.S nextcondlabel
    let r2 := compL r (.aux reg ec endlabel endlabel false lb r1.b) S
    { S := logicalTailL t r2.S a lb r2.b, inc := if a < reg then 0 else 1 }
  -- ═════════════ compileLogicalOpExprAux ═════════════
  | .fls t, .aux _ _ _ elsel _ lb b, S =>
    if elsel = lb.e then { S := emitL S (.jmp lb.f) t, b := true }
    else { S := emitL S (.jmp elsel) t, b := b }
  | .nil t, .aux reg ec _ elsel _ lb b, S =>
    if elsel = lb.e then { S := emitL (leafExprL t .nil reg ec S).S (.jmp lb.e) t, b := b }
    else { S := emitL S (.jmp elsel) t, b := b }
  | .tru t, .aux _ _ thenl _ _ lb b, S =>
    if thenl = lb.e then { S := emitL S (.jmp lb.t) t, b := true }
    else { S := emitL S (.jmp thenl) t, b := b }
  | .num t n, .aux reg ec thenl _ _ lb b, S =>
    if thenl = lb.e then { S := emitL (leafExprL t (.num n) reg ec S).S (.jmp lb.e) t, b := b }
    else { S := emitL S (.jmp thenl) t, b := b }
  | .str t s, .aux reg ec thenl _ _ lb b, S =>
    if thenl = lb.e then { S := emitL (leafExprL t (.str s) reg ec S).S (.jmp lb.e) t, b := b }
    else { S := emitL S (.jmp thenl) t, b := b }
  | .and _ l r, .aux reg ec thenl elsel hasnext lb b, S =>
    let (S, nextcondlabel) := newLabelL S
    let r1 := compL l (.aux reg ec nextcondlabel elsel false lb b) S
    let S := setLabelHereL r1.S nextcondlabel
    compL r (.aux reg ec thenl elsel hasnext lb r1.b) S
  | .or _ l r, .aux reg ec thenl elsel hasnext lb b, S =>
    let (S, nextcondlabel) := newLabelL S
    let r1 := compL l (.aux reg ec thenl nextcondlabel true lb b) S
    let S := setLabelHereL r1.S nextcondlabel
    compL r (.aux reg ec thenl elsel hasnext lb r1.b) S
  | .rel t op l r, .aux reg _ thenl elsel hasnext lb b, S =>
    let flip := flipOf hasnext
    let jumplabel := if hasnext then thenl else elsel
    let (flip, jumplabel, b) :=
      if thenl = elsel then (1 - flip, lb.t, true)
      else if thenl = lb.e then (flip, lb.t, true)
      else if elsel = lb.e then (flip, lb.f, true)
      else (flip, jumplabel, b)
    { S := relAuxL t (fun s g => compL l (.expr g ecnone0) s) (fun s g => compL r (.expr g ecnone0) s)
              l.erase.isLogical r.erase.isLogical S reg op flip jumplabel, b := b }
  | .loc t r, .aux reg ec thenl elsel hasnext lb b, S =>
    let sreg := savereg ec reg
    let isLastAnd := elsel = lb.e ∧ thenl ≠ elsel
    let isLastOr := thenl = lb.e ∧ hasnext = true
    if isLastAnd ∨ isLastOr then
      let S := if sreg = r then emitL S (.test sreg r (flipOf hasnext)) t else emitL S (.testset sreg r (flipOf hasnext)) t
      { S := emitL S (.jmp (if hasnext then thenl else elsel)) t, b := b }
    else auxDefaultL t (fun ec' s => leafExprL t (.loc r) reg ec' s) reg ec thenl elsel hasnext lb b S
  | .ev t id, .aux reg ec thenl elsel hasnext lb b, S =>
    auxDefaultL t (fun ec' s => leafExprL t (.ev id) reg ec' s) reg ec thenl elsel hasnext lb b S
  | .not t c, .aux reg ec thenl elsel hasnext lb b, S =>
    auxDefaultL t (fun ec' s => notExprL t c.erase (fun s' => compL c (.expr reg ecnone0) s') reg ec' s) reg ec thenl elsel hasnext lb b S
  | .arith t op l r, .aux reg ec thenl elsel hasnext lb b, S =>
    auxDefaultL t (fun ec' s => arithExprL t (lnum (.arith op l.erase r.erase)) op (fun s' g => compL l (.expr g ecnone0) s')
        (fun s' g => compL r (.expr g ecnone0) s') l.erase.isLogical r.erase.isLogical reg ec' s) reg ec thenl elsel hasnext lb b S
  | .unm t c, .aux reg ec thenl elsel hasnext lb b, S =>
    auxDefaultL t (fun ec' s => unmExprL t (lnum (.unm c.erase)) c.erase.isLogical (fun s' => compL c (.expr reg ecnone0) s') reg ec' s)
      reg ec thenl elsel hasnext lb b S
  | .len t c, .aux reg ec thenl elsel hasnext lb b, S =>
    auxDefaultL t (fun ec' s => unopExprL t .len c.erase.isLogical (fun s' => compL c (.expr reg ecnone0) s') reg ec' s)
      reg ec thenl elsel hasnext lb b S
  | .concat t l r, .aux reg ec thenl elsel hasnext lb b, S =>
    auxDefaultL t (fun ec' s => concatExprL t (1 + spine r.erase) (fun s' g => compL l (.expr g ecnone0) s')
        (fun s' g => compL r (.expr g ecnone0) s') reg ec' s) reg ec thenl elsel hasnext lb b S
  -- ═════════════ compileBranchCondition ═════════════
  | .not _ c, .bc reg thenl elsel hasnext, S => compL c (.bc reg elsel thenl (!hasnext)) S
  | .and _ l r, .bc reg thenl elsel hasnext, S =>
    let (S, nextcondlabel) := newLabelL S
    let r1 := compL l (.bc reg nextcondlabel elsel false) S
    let S := setLabelHereL r1.S nextcondlabel
    compL r (.bc reg thenl elsel hasnext) S
  | .or _ l r, .bc reg thenl elsel hasnext, S =>
    let (S, nextcondlabel) := newLabelL S
    let r1 := compL l (.bc reg thenl nextcondlabel true) S
    let S := setLabelHereL r1.S nextcondlabel
    compL r (.bc reg thenl elsel hasnext) S
  | .rel t op l r, .bc reg thenl elsel hasnext, S =>
    { S := relAuxL t (fun s g => compL l (.expr g ecnone0) s) (fun s g => compL r (.expr g ecnone0) s)
              l.erase.isLogical r.erase.isLogical S reg op (flipOf hasnext) (if hasnext then thenl else elsel) }
  | .fls t, .bc reg thenl elsel hasnext, S =>
    if hasnext = false then { S := emitL S (.jmp elsel) t }
    else bcDefaultL t (leafExprL t .fls reg ecnone0 S) reg 1 thenl
  | .nil t, .bc reg thenl elsel hasnext, S =>
    if hasnext = false then { S := emitL S (.jmp elsel) t }
    else bcDefaultL t (leafExprL t .nil reg ecnone0 S) reg 1 thenl
  | .tru t, .bc reg thenl _ hasnext, S =>
    if hasnext = false then { S := S }
    else bcDefaultL t (leafExprL t .tru reg ecnone0 S) reg 1 thenl
  | .num t n, .bc reg thenl _ hasnext, S =>
    if hasnext = false then { S := S }
    else bcDefaultL t (leafExprL t (.num n) reg ecnone0 S) reg 1 thenl
  | .str t s, .bc reg thenl _ hasnext, S =>
    if hasnext = false then { S := S }
    else bcDefaultL t (leafExprL t (.str s) reg ecnone0 S) reg 1 thenl
  | .loc t r, .bc reg thenl elsel hasnext, S =>
    bcDefaultL t (leafExprL t (.loc r) reg ecnone0 S) reg (flipOf hasnext) (if hasnext then thenl else elsel)
  | .ev t id, .bc reg thenl elsel hasnext, S =>
    bcDefaultL t (leafExprL t (.ev id) reg ecnone0 S) reg (flipOf hasnext) (if hasnext then thenl else elsel)
  | .arith t op l r, .bc reg thenl elsel hasnext, S =>
    bcDefaultL t (arithExprL t (lnum (.arith op l.erase r.erase)) op (fun s g => compL l (.expr g ecnone0) s)
        (fun s g => compL r (.expr g ecnone0) s) l.erase.isLogical r.erase.isLogical reg ecnone0 S)
      reg (flipOf hasnext) (if hasnext then thenl else elsel)
  | .unm t c, .bc reg thenl elsel hasnext, S =>
    bcDefaultL t (unmExprL t (lnum (.unm c.erase)) c.erase.isLogical (fun s => compL c (.expr reg ecnone0) s) reg ecnone0 S)
      reg (flipOf hasnext) (if hasnext then thenl else elsel)
  | .len t c, .bc reg thenl elsel hasnext, S =>
    bcDefaultL t (unopExprL t .len c.erase.isLogical (fun s => compL c (.expr reg ecnone0) s) reg ecnone0 S)
      reg (flipOf hasnext) (if hasnext then thenl else elsel)
  | .concat t l r, .bc reg thenl elsel hasnext, S =>
    bcDefaultL t (concatExprL t (1 + spine r.erase) (fun s g => compL l (.expr g ecnone0) s)
        (fun s g => compL r (.expr g ecnone0) s) reg ecnone0 S)
      reg (flipOf hasnext) (if hasnext then thenl else elsel)

def compileBranchConditionL (S : LState α) (reg : Nat) (e : ACond α) (thenlabel elselabel : Nat) (hasnextcond : Bool) : LState α :=
  (compL e (.bc reg thenlabel elselabel hasnextcond) S).S

/-! ### assignment -/

/-- `compileAssignStmtLeft` (emits nothing): each context with `sline(stmt.Lhs[i])`. -/
def compileAssignStmtLeftL (S : LState α) (lhs : List (α × Target)) (nrhs : Nat) : LState α × List (α × AssignCtx) :=
  let r := compileAssignStmtLeft S.st (lhs.map Prod.snd) nrhs
  (lift S r.1, (lhs.map Prod.fst).zip r.2)

/-- the loop over the names of `compileAssignStmtRight`; a missing right-hand side is a `NilExpr` with the line of
    the target (`expr.SetLine(sline(stmt.Lhs[namesassigned]))`). -/
def assignNamedL (S : LState α) (reg : Nat) :
    List (α × AssignCtx) → List (ACond α) → LState α × Nat × List (α × AssignCtx) × List (ACond α)
  | [], rhs => (S, reg, [], rhs)
  | (t, ac) :: acs, rhs =>
    let expr := rhs.headD (.nil t)
    let r := compL expr (.expr reg ac.ec) S
    let (S', reg', acs', rest) := assignNamedL r.S (reg + r.inc) acs rhs.tail
    (S', reg', (t, { ac with needmove := r.inc ≠ 0 }) :: acs', rest)

/-- surplus right-hand expressions. -/
def assignSurplusL (S : LState α) (reg : Nat) : List (ACond α) → LState α
  | [] => S
  | e :: rest =>
    let r := compL e (.expr reg ecnone0) S
    assignSurplusL r.S (reg + r.inc) rest

def compileAssignStmtRightL (S : LState α) (reg : Nat) (acs : List (α × AssignCtx)) (rhs : List (ACond α)) :
    LState α × Nat × List (α × AssignCtx) :=
  let (S, reg, acs, extra) := assignNamedL S reg acs rhs
  (assignSurplusL S reg extra, reg, acs)

/-- the store loop of `compileAssignStmt`: `sline(ex)` of the target. -/
def assignStoresL (S : LState α) (reg : Nat) : List (Target × α × AssignCtx) → LState α
  | [] => S
  | (.loc r, t, ac) :: rest =>
    if ac.needmove then assignStoresL (emitL S (.move r (reg - 1)) t) (reg - 1) rest
    else assignStoresL S reg rest
  | (.glob id, t, _) :: rest =>
    assignStoresL (emitL (lift S (constIndex S.st (gname id)).1) (.setg (reg - 1) id) t) (reg - 1) rest

def compileAssignStmtL (S : LState α) (lhs : List (α × Target)) (rhs : List (ACond α)) : LState α :=
  let (S, acs) := compileAssignStmtLeftL S lhs rhs.length
  let (S, reg, acs) := compileAssignStmtRightL S S.st.regTop acs rhs
  assignStoresL S reg ((lhs.map Prod.snd).zip acs).reverse

/-- the expression loop of `compileReturnStmt`. -/
def retGoL (S : LState α) (reg : Nat) : List (ACond α) → LState α × Nat
  | [] => (S, reg)
  | e :: rest =>
    let r := compL e (.expr reg ecnone0) S
    retGoL r.S (reg + r.inc) rest

/-! ### statements -/

mutual
def compStmtL : AStmt α → LState α → LState α
  | .ifS t _ c thn els, S =>
    let (S, thenlabel) := newLabelL S
    let (S, elselabel) := newLabelL S
    let (S, endlabel) := newLabelL S
    let S := compileBranchConditionL S S.st.regTop c thenlabel elselabel false
    let S := setLabelHereL S thenlabel
    let S := compBlockL thn S
    let S := if els.isEmpty then S else emitL S (.jmp endlabel) t                 -- sline(stmt)
    let S := setLabelHereL S elselabel
    if els.isEmpty then S else setLabelHereL (compBlockL els S) endlabel
  | .whileS t last c body, S =>
    let (S, thenlabel) := newLabelL S
    let (S, elselabel) := newLabelL S
    let (S, condlabel) := newLabelL S
    let S := setLabelHereL S condlabel
    let S := compileBranchConditionL S S.st.regTop c thenlabel elselabel false
    let S := setLabelHereL S thenlabel
    let top := S.st.regTop
    let S := compChunkL body S
    let S := emitL S (.jmp condlabel) (last.getD t)                               -- eline(stmt)
    let S := lift S { S.st with regTop := top }
    setLabelHereL S elselabel
  | .repeatS _ _ body c, S =>
    let (S, initlabel) := newLabelL S
    let (S, thenlabel) := newLabelL S
    let (S, elselabel) := newLabelL S
    let S := setLabelHereL S initlabel
    let S := setLabelHereL S elselabel
    let top := S.st.regTop
    let S := compChunkL body S
    let S := compileBranchConditionL S S.st.regTop c thenlabel elselabel false
    let S := setLabelHereL S thenlabel
    lift S { S.st with regTop := top }
  | .ret t cs, S =>
    match cs.map ACond.erase with
    | [.loc r] => emitL S (.ret r 2) t                                             -- sline(stmt)
    | _ =>
      let a := S.st.regTop
      let p := retGoL S a cs
      emitL p.1 (.ret a (p.2 - a + 1)) t                                           -- sline(stmt)
  | .localDef _ c, S =>
    let reg := S.st.regTop
    let r := compL c (.expr reg ⟨ecLocal, reg⟩) S
    lift r.S { r.S.st with regTop := r.S.st.regTop + 1 }
  | .assign _ lhs rhs, S => compileAssignStmtL S lhs rhs
def compChunkL : ABlock α → LState α → LState α
  | .nil, S => S
  | .cons s rest, S => compChunkL rest (compStmtL s S)
def compBlockL : ABlock α → LState α → LState α
  | .nil, S => S
  | .cons s rest, S =>
    let top := S.st.regTop
    let S := compChunkL rest (compStmtL s S)
    lift S { S.st with regTop := top }
end

/-- main chunk without its final RETURN: the prologue's VARARG has the line of the `...` token (`sline(ex)` of the
    Comma3Expr), then the statements. -/
def compBodyL (nlocals : Nat) (dots : α) (body : ABlock α) : LState α :=
  let S : LState α := { st := {}, lines := [] }
  let S := if nlocals = 0 then S
    else
      let S1 := emitL S (.abc Generated.OP_VARARG 0 (nlocals + 1) 0) dots
      lift S1 { S1.st with regTop := nlocals }
  compChunkL body S

/-- main chunk: the final RETURN has `eline(funcexpr)` (`fin`, computed by `Compile`, see `finalLine`). -/
def compMainL (nlocals : Nat) (dots fin : α) (body : ABlock α) : LState α :=
  emitL (compBodyL nlocals dots body) (.ret 0 1) fin

/-! ## Part 3 — parse/parser.go.y: the line of every node -/

open GLua.Lines

/-- expressions: a leaf has the line of its token; a binary operator node `$1.Line()` (its LEFT operand's line); a unary
    operator node `$2.Line()` (the line of its OPERAND, not of the operator token); `'(' expr ')'` returns the inner node
    with `SetLine($1.Pos.Line)` (the line of the opening parenthesis). -/
def toA : TCond → ACond Nat
  | .tru ln => .tru ln | .fls ln => .fls ln | .nil ln => .nil ln
  | .num ln n => .num ln n | .str ln s => .str ln s | .loc ln r => .loc ln r | .ev ln id => .ev ln id
  | .not _ c => .not (toA c).ln (toA c)
  | .unm _ c => .unm (toA c).ln (toA c)
  | .len _ c => .len (toA c).ln (toA c)
  | .and l r => .and (toA l).ln (toA l) (toA r)
  | .or l r => .or (toA l).ln (toA l) (toA r)
  | .rel op l r => .rel (toA l).ln op (toA l) (toA r)
  | .arith op l r => .arith (toA l).ln op (toA l) (toA r)
  | .concat l r => .concat (toA l).ln (toA l) (toA r)
  | .paren op _ c => (toA c).setLn op

mutual
/-- statements: `Line()` = the first keyword (`$1.Pos.Line`), for an assignment `$1[0].Line()`; `LastLine()` = the line
    of `end` for if / while, `$4.Line()` (the LINE OF THE CONDITION NODE) for repeat, not set otherwise. -/
def toAStmt : TStmt → AStmt Nat
  | .ifS ifLn c _ thn _ els endLn => .ifS ifLn (some endLn) (toA c) (toABlock thn) (toABlock els)
  | .whileS whileLn c _ body endLn => .whileS whileLn (some endLn) (toA c) (toABlock body)
  | .repeatS repeatLn body _ c => .repeatS repeatLn (some (toA c).ln) (toABlock body) (toA c)
  | .ret retLn cs => .ret retLn (cs.map toA)
  | .localDef localLn c => .localDef localLn (toA c)
  | .assign t0 targets rhs => .assign t0.1 (t0 :: targets) (rhs.map toA)
def toABlock : TBlock → ABlock Nat
  | .nil => .nil
  | .cons s rest => .cons (toAStmt s) (toABlock rest)
end

/-- `eline` of the last statement of the chunk the real compiler sees (the prologue `local … = ...` is its first
    statement: a LocalAssignStmt, `Line()` = the line of `local`, `LastLine()` not set). -/
def lastEline (p : TProg) : Option Nat :=
  match (toABlock p.body).last? with
  | some s => some s.eline
  | none => if p.nlocals = 0 then none else some p.localLn

/-- `Compile`: `funcexpr.SetLastLine(eline(chunk[len(chunk)-1]) + 1)` when the chunk is not empty; the final RETURN has
    `eline(funcexpr)` = that, or `Line()` = 0 for an empty chunk. -/
def finalLine (p : TProg) : Nat :=
  match lastEline p with
  | some l => l + 1
  | none => 0

/-- the entries of the statements (everything but the final RETURN). -/
def stmtLines (p : TProg) : List Nat := (compBodyL p.nlocals p.dotsLn (toABlock p.body)).lines

/-- `DbgSourcePositions` of the main chunk (= `stmtLines p ++ [finalLine p]`). -/
def compLines (p : TProg) : List Nat :=
  (compMainL p.nlocals p.dotsLn (finalLine p) (toABlock p.body)).lines

/-! ## Part 4 — provenance: which statement wrote the instruction at pc

    The same compile functions run on the program whose every node carries, beside its line, the SPAN of the
    innermost statement it belongs to (Spec/LineAst.lean: [line of the statement's first token, line of its last
    token]).  Since the compile functions only copy positions (`compL_natural`), the first components are `compLines`
    and the second components say, for every pc, which statement's compilation issued the `Add` that wrote slot pc. -/

abbrev Span := Nat × Nat

/-- a line together with the span of the innermost statement the node belongs to. -/
abbrev LTag := Nat × Span

mutual
def annotStmt : TStmt → AStmt LTag
  | .ifS ifLn c thenLn thn elseLn els endLn =>
    let sp := (TStmt.ifS ifLn c thenLn thn elseLn els endLn).span
    .ifS (ifLn, sp) (some (endLn, sp)) ((toA c).map fun l => (l, sp)) (annotBlock thn) (annotBlock els)
  | .whileS whileLn c doLn body endLn =>
    let sp := (TStmt.whileS whileLn c doLn body endLn).span
    .whileS (whileLn, sp) (some (endLn, sp)) ((toA c).map fun l => (l, sp)) (annotBlock body)
  | .repeatS repeatLn body untilLn c =>
    let sp := (TStmt.repeatS repeatLn body untilLn c).span
    .repeatS (repeatLn, sp) (some ((toA c).ln, sp)) (annotBlock body) ((toA c).map fun l => (l, sp))
  | .ret retLn cs =>
    let sp := (TStmt.ret retLn cs).span
    .ret (retLn, sp) (cs.map fun c => (toA c).map fun l => (l, sp))
  | .localDef localLn c =>
    let sp := (TStmt.localDef localLn c).span
    .localDef (localLn, sp) ((toA c).map fun l => (l, sp))
  | .assign t0 targets rhs =>
    let sp := (TStmt.assign t0 targets rhs).span
    .assign (t0.1, sp) ((t0 :: targets).map fun p => ((p.1, sp), p.2))
      (rhs.map fun c => (toA c).map fun l => (l, sp))
def annotBlock : TBlock → ABlock LTag
  | .nil => .nil
  | .cons s rest => .cons (annotStmt s) (annotBlock rest)
end

/-- the statements' entries as (line, span of the statement that wrote the entry); the prologue `local … = ...` is a
    statement with the span [line of `local`, line of `...`]. -/
def bodyTagged (p : TProg) : List LTag :=
  (compBodyL p.nlocals (p.dotsLn, (p.localLn, p.dotsLn)) (annotBlock p.body)).lines

/-- per pc (all but the final RETURN): the span of the innermost statement whose compilation wrote the instruction. -/
def stmtSpans (p : TProg) : List Span := (bodyTagged p).map Prod.snd

end GLua.Compile
