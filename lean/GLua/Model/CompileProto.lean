/-
  Bridge between the compile model (Model/Compile.lean, Model/CompileStmt.lean: the fragment of /repo/compile.go that
  is modelled function by function and tied word for word to the real compiler by harness/c01_mech.go) and the
  bytecode verifier (Model/Verifier.lean).

  Everything is parametric in the number structure (`[NumStruct]`, Spec/CondAst.lean), like the compile model itself: the
  prototype only records WHICH constants are numbers.  The driver engine instantiates it with IEEE doubles (the instance
  of Engines/C01MEng.lean), the kernel-evaluated examples of Props/C07.lean with an integer structure.

  `toProto`    : the `FunctionProto` the real `compileFunctionExpr`/`Compile` assembles for the main chunk from what the
                 model computes: Code = the patched instructions encoded, Constants / stringConstants from the constant
                 pool, NumUsedRegisters from patchCode.  The header fields the fragment cannot influence are the ones
                 the real front-end produces for a main chunk (no upvalues, no parameters, vararg flag, no nested
                 prototypes); `len(DbgSourcePositions)` is `len(Code)` because `codeStore` keeps one line per word (the
                 model has no line table: this field is TIED by the harness, not modelled).
  `fragProto`  : compileMain → patchCode → toProto (compile errors are kept as errors).
  `scopeOK`    : every local a program mentions is in scope (its register is below the register top the model
                 has at that point) — what name resolution guarantees for every program that comes out of the parser.
  `FragOK`     : the explicit, decidable guards of the well-formedness theorem (Props/C07.lean `compile_fragment_wf`).
  Tie: harness/c07_frag.go sends `C07 frag <prog> => <real proto>`; Engines/ProtoEng.lean compares `fragProto` field by
  field with the real prototype and evaluates `FragOK`, `wf` on both.
-/
import GLua.Model.CompileStmt
import GLua.Model.Verifier
import GLua.Spec.Num

namespace GLua.Compile
open GLua.MiniVM GLua.Verifier

variable [NumStruct]

/-- `Constants[i]` as the verifier sees it: `some hex` for an LString, `none` for an LNumber. -/
def konstKind : Konst → Option String
  | .num _ => none
  | .str s => some (Sem.hexOfAscii s)

/-- `stringConstants[i]`: the string, or "" for a number (compile.go: `sv := ""; if slv, ok := clv.(LString); ok { sv = string(slv) }`). -/
def konstStr : Konst → String
  | .num _ => ""
  | .str s => Sem.hexOfAscii s

/-- IsVarArg of the main chunk: compile.go Compile passes `ParList{HasVargs: true}` (VarArgHasArg | VarArgIsVarArg |
    VarArgNeedsArg = 7); compiling a `...` expression clears VarArgNeedsArg (→ 3).  In the fragment `...` occurs
    exactly in the prologue `local l0,… = ...`, i.e. iff there are chunk locals.  Not constrained by `wf`; tied by
    the harness. -/
def mainIsVarArg (nlocals : Nat) : Nat := if nlocals = 0 then 7 else 3

def toProto (nlocals : Nat) (consts : List Konst) (code : List Instr) (nregs : Nat) : Proto :=
  { code := (code.map (encode consts)).toArray
    consts := (consts.map konstKind).toArray
    strConsts := (consts.map konstStr).toArray
    protoNups := #[]
    numUpvalues := 0
    nDbgUpvalues := 0
    numParams := 0
    isVarArg := mainIsVarArg nlocals
    numRegs := nregs
    nLines := code.length }

/-- the model compiler, end to end: main chunk → patchCode → prototype. -/
def fragProto (nlocals : Nat) (body : Block) : Except String Proto :=
  let st := compileMain nlocals body
  match patchCode st with
  | .error e => .error e
  | .ok (code, nregs) => .ok (toProto nlocals st.consts code nregs)

/-! ### scoping -/

/-- every local mentioned lives in a register below `n` (Bool version of `Lowering.LocalsBelow`). -/
def condScoped (n : Nat) : Cond → Bool
  | .loc r => decide (r < n)
  | .not c => condScoped n c
  | .and l r => condScoped n l && condScoped n r
  | .or l r => condScoped n l && condScoped n r
  | .rel _ l r => condScoped n l && condScoped n r
  | .arith _ l r => condScoped n l && condScoped n r
  | .unm c => condScoped n c
  | .len c => condScoped n c
  | .concat l r => condScoped n l && condScoped n r
  | _ => true

def targetScoped (n : Nat) : Target → Bool
  | .loc r => decide (r < n)
  | .glob _ => true

mutual
/-- `some top'` = the statement is well scoped under register top `top` and leaves the top at `top'`
    (mirrors RegisterLocalVar / EnterBlock / LeaveBlock of the compile model). -/
def scopeStmt : Stmt → Nat → Option Nat
  | .ifS c thn els, top =>
    if condScoped top c then
      match scopeChunk thn top, scopeChunk els top with
      | some _, some _ => some top
      | _, _ => none
    else none
  | .whileS c body, top =>
    if condScoped top c then
      match scopeChunk body top with
      | some _ => some top
      | none => none
    else none
  | .repeatS body c, top =>
    match scopeChunk body top with
    | some top' => if condScoped top' c then some top else none      -- the condition sees the body's locals
    | none => none
  | .ret cs, top => if cs.all (condScoped top) then some top else none
  | .localDef c, top => if condScoped top c then some (top + 1) else none
  | .assign lhs rhs, top => if lhs.all (targetScoped top) && rhs.all (condScoped top) then some top else none
def scopeChunk : Block → Nat → Option Nat
  | .nil, top => some top
  | .cons s rest, top =>
    match scopeStmt s top with
    | some top' => scopeChunk rest top'
    | none => none
end

def scopeOK (nlocals : Nat) (body : Block) : Bool := (scopeChunk body nlocals).isSome

/-! ### the guards of `compile_fragment_wf` -/

/-- well scoped, accepted by the (model) compiler — patchCode raises neither "too long to jump." (its two range checks
    guarantee that every patched distance fits sBx) nor "register overflow" —, and at most 2^18 constants (every LOADK /
    GETGLOBAL / SETGLOBAL index fits Bx; the model's ConstIndex has no "too many constants"). -/
def FragOK (nlocals : Nat) (body : Block) : Bool :=
  scopeOK nlocals body &&
  match fragProto nlocals body with
  | .ok p => decide (p.consts.size ≤ Generated.opMaxArgBx + 1)
  | .error _ => false

end GLua.Compile
