/-
  Statement contexts of the condition/assignment lowering, `patchCode`, and the instruction encoder.

  Transcribed from /repo/compile.go: compileIfStmt, compileWhileStmt, compileRepeatStmt, compileReturnStmt
  (one expression), compileLocalAssignStmt/compileRegAssignment (one name, one expression),
  compileAssignStmtLeft/Right/compileAssignStmt (targets: locals and globals; right-hand sides: condition
  trees), compileBlock/EnterBlock/LeaveBlock (register top only: nothing here captures upvalues, so no CLOSE),
  compileFunctionExpr for the main chunk with the prologue `local l0,…,l(n-1) = ...`, and patchCode
  (label resolution, jump threading ≤ 5 hops with both range checks and the stop at the end of the code, the
  JMP-after-TFORLOOP exception of JMP → NOP, MOVEN merging, register high-water mark).

  As in Compile.lean the model is HEAD + fixes/C01-extra-rhs-after-direct-store.diff +
  fixes/C01-jump-threading-patched-target.diff.
-/
import GLua.Model.Compile

namespace GLua.Compile
open GLua.MiniVM

variable [NumStruct]

/-! ### assignment -/

structure AssignCtx where
  ec : ExpCtx
  needmove : Bool := false

/-- `compileAssignStmtLeft` (locals and globals only: no register is consumed on the left). -/
def compileAssignStmtLeft (st : CState) (lhs : List Target) (nrhs : Nat) : CState × List AssignCtx :=
  let n := lhs.length
  let rec go (st : CState) (i : Nat) : List Target → CState × List AssignCtx
    | [] => (st, [])
    | .loc r :: rest =>
      let islast := i + 1 = n
      -- only the last target may be stored to directly, and only when no surplus right-hand expression follows
      let ec : ExpCtx := if islast ∧ nrhs ≤ n then ⟨ecLocal, r⟩ else ⟨ecLocal, regNotDefined⟩
      let (st', acs) := go st (i + 1) rest
      (st', { ec := ec } :: acs)
    | .glob id :: rest =>
      let (st, _) := constIndex st (gname id)
      let (st', acs) := go st (i + 1) rest
      (st', { ec := ⟨ecGlobal, regNotDefined⟩ } :: acs)
  go st 0 lhs

/-- the pre-fix `compileAssignStmtLeft` (snapshot f14c8c8): EVERY local target is stored to directly. -/
def compileAssignStmtLeftPreFix (st : CState) (lhs : List Target) : CState × List AssignCtx :=
  let rec go (st : CState) : List Target → CState × List AssignCtx
    | [] => (st, [])
    | .loc r :: rest =>
      let (st', acs) := go st rest
      (st', { ec := ⟨ecLocal, r⟩ } :: acs)
    | .glob id :: rest =>
      let (st, _) := constIndex st (gname id)
      let (st', acs) := go st rest
      (st', { ec := ⟨ecGlobal, regNotDefined⟩ } :: acs)
  go st lhs

/-- `compileAssignStmtRight`: returns (store, rightreg + 1, contexts with needmove). -/
def compileAssignStmtRight (st : CState) (reg : Nat) (acs : List AssignCtx) (rhs : List Cond) : CState × Nat × List AssignCtx :=
  let rec named (st : CState) (reg : Nat) : List AssignCtx → List Cond → CState × Nat × List AssignCtx × List Cond
    | [], rhs => (st, reg, [], rhs)
    | ac :: acs, rhs =>
      let expr := rhs.headD .nil                  -- namesassigned >= lenexprs → NilExpr
      let r := comp expr (.expr reg ac.ec) st
      let (st', reg', acs', rest) := named r.st (reg + r.inc) acs rhs.tail
      (st', reg', { ac with needmove := r.inc ≠ 0 } :: acs', rest)
  let (st, reg, acs, extra) := named st reg acs rhs
  -- rightreg := reg - 1; surplus right-hand expressions are evaluated into further temporaries
  let rec surplus (st : CState) (reg : Nat) : List Cond → CState
    | [] => st
    | e :: rest =>
      let r := comp e (.expr reg ecnone0) st
      surplus r.st (reg + r.inc) rest
  (surplus st reg extra, reg, acs)

/-- the store loop of `compileAssignStmt` (last target first); `reg` is rightreg + 1. -/
def assignStores (st : CState) (reg : Nat) : List (Target × AssignCtx) → CState
  | [] => st
  | (.loc r, ac) :: rest =>
    if ac.needmove then assignStores (emit st (.move r (reg - 1))) (reg - 1) rest
    else assignStores st reg rest
  | (.glob id, _) :: rest =>
    let (st, _) := constIndex st (gname id)
    assignStores (emit st (.setg (reg - 1) id)) (reg - 1) rest

def compileAssignStmt (st : CState) (lhs : List Target) (rhs : List Cond) : CState :=
  let (st, acs) := compileAssignStmtLeft st lhs rhs.length
  let (st, reg, acs) := compileAssignStmtRight st st.regTop acs rhs
  assignStores st reg (lhs.zip acs).reverse

def compileAssignStmtPreFix (st : CState) (lhs : List Target) (rhs : List Cond) : CState :=
  let (st, acs) := compileAssignStmtLeftPreFix st lhs
  let (st, reg, acs) := compileAssignStmtRight st st.regTop acs rhs
  assignStores st reg (lhs.zip acs).reverse

/-! ### statements -/

mutual
def compileStmt : Stmt → CState → CState
  | .ifS c thn els, st =>
    let (st, thenlabel) := newLabel st
    let (st, elselabel) := newLabel st
    let (st, endlabel) := newLabel st
    let st := compileBranchCondition st st.regTop c thenlabel elselabel false
    let st := setLabelHere st thenlabel
    let st := compileBlock thn st
    let st := if els.isEmpty then st else emit st (.jmp endlabel)
    let st := setLabelHere st elselabel
    if els.isEmpty then st else setLabelHere (compileBlock els st) endlabel
  | .whileS c body, st =>
    let (st, thenlabel) := newLabel st
    let (st, elselabel) := newLabel st
    let (st, condlabel) := newLabel st
    let st := setLabelHere st condlabel
    let st := compileBranchCondition st st.regTop c thenlabel elselabel false
    let st := setLabelHere st thenlabel
    let top := st.regTop                                -- EnterBlock
    let st := compileChunk body st
    let st := emit st (.jmp condlabel)
    let st := { st with regTop := top }                 -- LeaveBlock
    setLabelHere st elselabel
  | .repeatS body c, st =>
    let (st, initlabel) := newLabel st
    let (st, thenlabel) := newLabel st
    let (st, elselabel) := newLabel st
    let st := setLabelHere st initlabel
    let st := setLabelHere st elselabel
    let top := st.regTop                                -- EnterBlock
    let st := compileChunk body st
    let st := compileBranchCondition st st.regTop c thenlabel elselabel false
    let st := setLabelHere st thenlabel
    { st with regTop := top }                           -- LeaveBlock (no upvalues: n = -1)
  | .ret cs, st =>
    match cs with
    | [.loc r] => emit st (.ret r 2)                    -- `return <local>`: RETURN idx 2 0
    | _ =>
      let a := st.regTop
      let rec go (st : CState) (reg : Nat) : List Cond → CState × Nat
        | [] => (st, reg)
        | e :: rest =>
          let r := comp e (.expr reg ecnone0) st
          go r.st (reg + r.inc) rest
      let (st, reg) := go st a cs
      emit st (.ret a (reg - a + 1))
  | .localDef c, st =>
    let reg := st.regTop
    let r := comp c (.expr reg ⟨ecLocal, reg⟩) st
    { r.st with regTop := r.st.regTop + 1 }             -- RegisterLocalVar
  | .assign lhs rhs, st => compileAssignStmt st lhs rhs
/-- `compileChunk` (no block of its own). -/
def compileChunk : Block → CState → CState
  | .nil, st => st
  | .cons s rest, st => compileChunk rest (compileStmt s st)
/-- `compileBlock`: EnterBlock / compile / LeaveBlock (restores the register top). -/
def compileBlock : Block → CState → CState
  | .nil, st => st
  | .cons s rest, st =>
    let top := st.regTop
    let st := compileChunk rest (compileStmt s st)
    { st with regTop := top }
end

/-- main chunk: `local l0,…,l(n-1) = ...` (VARARG 0 n+1 0), the statements, the final RETURN 0 1 0. -/
def compileMain (nlocals : Nat) (body : Block) : CState :=
  let st : CState := {}
  let st := if nlocals = 0 then st
    else { emit st (.abc Generated.OP_VARARG 0 (nlocals + 1) 0) with regTop := nlocals }
  let st := compileChunk body st
  emit st (.ret 0 1)

/-! ### patchCode -/

/-- the jump-to-jump loop: follows at most 5 JMPs, reading targets from the UNPATCHED code.
    `d > opMaxArgSbx || d < -opMaxArgSbx`: "too long to jump." when it is the jump's own distance, otherwise stop at the
    last distance that fits; `next < 0 || next >= len(orig)`: `break` (the target is the end of the code, nothing to
    thread through) with the distance just computed. -/
def threadJmp (orig : List Instr) (labelPc : List (Nat × Int)) (pc : Nat) : Nat → Instr → Int → Except String Int
  | 0, _, distance => .ok distance                       -- count reached 5
  | fuel + 1, jmp, distance =>
    match jmp with
    | .jmp sbx =>
      let d := lookupLabel labelPc sbx.toNat - (pc : Int)
      if d > (Generated.opMaxArgSbx : Int) ∨ d < -(Generated.opMaxArgSbx : Int) then
        if distance = 0 then .error "too long to jump." else .ok distance
      else
        let t : Int := (pc : Int) + d + 1
        if t < 0 ∨ t ≥ (orig.length : Int) then .ok d else
        match orig[t.toNat]? with
        | none => .ok d
        | some next => threadJmp orig labelPc pc fuel next d
    | _ => .ok distance

structure PatchState where
  code : List Instr
  maxreg : Nat
  moven : Nat

def setAt (l : List Instr) (i : Nat) (x : Instr) : List Instr := l.set i x

/-- `pc > 0 && opGetOpCode(code[pc-1]) == OP_TFORLOOP`: the word after TFORLOOP is read by TFORLOOP itself as a
    distance and must stay a patched JMP even when the distance is 0.  (No function of this model emits TFORLOOP: the
    test is transcribed for faithfulness of `patchCode` on arbitrary stores.) -/
def afterTForLoop (code : List Instr) (pc : Nat) : Bool :=
  decide (pc > 0) && (match code[pc - 1]? with
    | some (.abc op _ _ _) => op == Generated.OP_TFORLOOP
    | _ => false)

/-- register high-water mark contribution of one instruction (`patchCode`'s switch). -/
def maxregOf (i : Instr) (maxreg : Nat) : Nat :=
  match i with
  | .setg _ _ | .eq _ _ _ | .lt _ _ _ | .le _ _ _ | .test _ _ _ | .ret _ _ | .jmp _ | .nop _ => maxreg
  | .loadnil _ b => max maxreg b
  | .abc op a b c =>
    if op = Generated.OP_VARARG then max maxreg (a + b - 1)
    else if op = Generated.OP_CALL then max maxreg (a + c - 2)
    else max maxreg a
  | i => max maxreg i.argA

def patchLoop (orig : List Instr) (labelPc : List (Nat × Int)) : Nat → Nat → PatchState → Except String PatchState
  | 0, _, ps => .ok ps
  | fuel + 1, pc, ps =>
    match orig[pc]? with
    | none => .ok ps
    | some inst => do
      let code ← match inst with
        | .jmp sbx => do
          let distance ← threadJmp orig labelPc pc 5 inst 0
          pure (if distance = 0 ∧ afterTForLoop ps.code pc = false then setAt ps.code pc (.nop sbx)
                else setAt ps.code pc (.jmp distance))
        | _ => pure ps.code
      let maxreg := maxregOf inst ps.maxreg
      -- bulk move optimisation
      if inst.isMove then patchLoop orig labelPc fuel (pc + 1) { code := code, maxreg := maxreg, moven := ps.moven + 1 }
      else
        let code := if ps.moven > 1 then
            match code[pc - ps.moven]? with
            | some (.move a b) => setAt code (pc - ps.moven) (.moven a b (min (ps.moven - 1) Generated.opMaxArgsC))
            | _ => code
          else code
        patchLoop orig labelPc fuel (pc + 1) { code := code, maxreg := maxreg, moven := 0 }

/-- `patchCode`: (patched code, NumUsedRegisters). -/
def patchCode (st : CState) : Except String (List Instr × Nat) := do
  let ps ← patchLoop st.code st.labelPc st.code.length 0 { code := st.code, maxreg := 1, moven := 0 }
  if ps.maxreg + 1 > Generated.maxRegisters then .error "register overflow(too many local variables)"
  else pure (ps.code, ps.maxreg + 1)

/-- label resolution alone (no threading, no MOVEN): every `JMP label` becomes `JMP (labelPc - pc)`.
    Reference point for the theorems; `patchCode` refines it (`patch_simulates`). -/
def resolveLabels (code : List Instr) (labelPc : List (Nat × Int)) : List Instr :=
  let rec go (pc : Nat) : List Instr → List Instr
    | [] => []
    | .jmp sbx :: r => .jmp (lookupLabel labelPc sbx.toNat - (pc : Int)) :: go (pc + 1) r
    | i :: r => i :: go (pc + 1) r
  go 0 code

/-! ### encoder (opcode.go: opCreateABC / opCreateABx / opCreateASbx) -/

def wordABC (op a b c : Nat) : Nat :=
  op * 2 ^ 26 + (a % 2 ^ Generated.opSizeA) * 2 ^ 18 + (c % 2 ^ Generated.opSizeC) * 2 ^ 9 + b % 2 ^ Generated.opSizeB
def wordABx (op a bx : Nat) : Nat :=
  op * 2 ^ 26 + (a % 2 ^ Generated.opSizeA) * 2 ^ 18 + bx % 2 ^ Generated.opSizeBx
def wordASbx (op a : Nat) (sbx : Int) : Nat :=
  wordABx op a ((sbx + (Generated.opMaxArgSbx : Int)) % (2 ^ Generated.opSizeBx : Int)).toNat

def encode (consts : List Konst) : Instr → Nat
  | .move a b => wordABC Generated.OP_MOVE a b 0
  | .moven a b c => wordABC Generated.OP_MOVEN a b c
  | .loadk a bx => wordABx Generated.OP_LOADK a bx
  | .loadbool a b c => wordABC Generated.OP_LOADBOOL a b c
  | .loadnil a b => wordABC Generated.OP_LOADNIL a b 0
  | .not a b => wordABC Generated.OP_NOT a b 0
  | .test a b c => wordABC Generated.OP_TEST a b c
  | .testset a b c => wordABC Generated.OP_TESTSET a b c
  | .eq a b c => wordABC Generated.OP_EQ a b c
  | .lt a b c => wordABC Generated.OP_LT a b c
  | .le a b c => wordABC Generated.OP_LE a b c
  | .jmp sbx => wordASbx Generated.OP_JMP 0 sbx
  | .nop sbx => wordASbx Generated.OP_NOP 0 sbx
  | .eval a id => wordABx Generated.OP_GETGLOBAL a ((findIdx consts (gname id)).getD 0)
  | .setg a id => wordABx Generated.OP_SETGLOBAL a ((findIdx consts (gname id)).getD 0)
  | .ret a b => wordABC Generated.OP_RETURN a b 0
  | .arith op a b c =>
    wordABC (match op with
      | .add => Generated.OP_ADD | .sub => Generated.OP_SUB | .mul => Generated.OP_MUL
      | .div => Generated.OP_DIV | .mod => Generated.OP_MOD | .pow => Generated.OP_POW) a b c
  | .unm a b => wordABC Generated.OP_UNM a b 0
  | .len a b => wordABC Generated.OP_LEN a b 0
  | .concat a b c => wordABC Generated.OP_CONCAT a b c
  | .abc op a b c => wordABC op a b c

end GLua.Compile
