/-
  Model of `constFold` / `lnumberValue` of /repo/compile.go, over an ARBITRARY number structure
  (`NumOps N`: the six binary operations, negation, NaN and the numeral reader are fields; `Float` is opaque
  to the kernel, so nothing here mentions it).

  Go (compile.go):

      func constFold(exp ast.Expr) ast.Expr {
        switch expr := exp.(type) {
        case *ast.ArithmeticOpExpr:
          lvalue, lisconst := lnumberValue(constFold(expr.Lhs))
          rvalue, risconst := lnumberValue(constFold(expr.Rhs))
          if lisconst && risconst { switch expr.Operator { case "+": return &constLValueExpr{Value: lvalue + rvalue} … } }
          else { return expr }                                  -- the ORIGINAL node
        case *ast.UnaryMinusOpExpr:
          expr.Expr = constFold(expr.Expr)                      -- rewrites its child IN PLACE
          if value, ok := lnumberValue(expr.Expr); ok { return &constLValueExpr{Value: LNumber(-value)} }
          return expr
        default: return exp } }

  Because of the in-place rewrite the model returns a PAIR: the folded result and the original node as it
  looks after the call (what the parent keeps pointing to when it "returns expr").
-/
import GLua.Spec.CondAst

namespace GLua.ConstFold
open GLua.Compile (ArithOp)

/-- the number structure: run-time arithmetic (`numberArith`, `luaModulo`, `math.Pow`, unary minus),
    `math.NaN()` and `parseNumber` (`none` = it returned an error). -/
structure NumOps (N : Type) where
  add : N → N → N
  sub : N → N → N
  mul : N → N → N
  div : N → N → N
  mod : N → N → N
  pow : N → N → N
  neg : N → N
  nan : N
  parse : String → Option N

def NumOps.apply {N} (ops : NumOps N) : ArithOp → N → N → N
  | .add => ops.add | .sub => ops.sub | .mul => ops.mul
  | .div => ops.div | .mod => ops.mod | .pow => ops.pow

/-- the part of `ast.Expr` that `constFold` distinguishes. -/
inductive Expr (N : Type) where
  | number (text : String)                    -- *ast.NumberExpr (the numeral as written)
  | const (v : N)                             -- *constLValueExpr
  | other (id : Nat)                          -- any other expression kind (opaque to constFold)
  | arith (op : ArithOp) (l r : Expr N)       -- *ast.ArithmeticOpExpr
  | unm (e : Expr N)                          -- *ast.UnaryMinusOpExpr
deriving Repr, DecidableEq

/-- `lnumberValue`: recognises only NumberExpr (through parseNumber; failure → NaN, still "constant")
    and constLValueExpr. -/
def lnumberValue {N} (ops : NumOps N) : Expr N → Option N
  | .number t => some ((ops.parse t).getD ops.nan)
  | .const v => some v
  | _ => none

/-- `constFold e = (value returned, the node `e` after the call)`. -/
def constFold {N} (ops : NumOps N) : Expr N → Expr N × Expr N
  | .arith op l r =>
    let lf := constFold ops l
    let rf := constFold ops r
    let orig := Expr.arith op lf.2 rf.2
    match lnumberValue ops lf.1, lnumberValue ops rf.1 with
    | some a, some b => (.const (ops.apply op a b), orig)
    | _, _ => (orig, orig)
  | .unm e =>
    let ef := constFold ops e
    let orig := Expr.unm ef.1            -- expr.Expr = constFold(expr.Expr)
    match lnumberValue ops ef.1 with
    | some v => (.const (ops.neg v), orig)
    | none => (orig, orig)
  | e => (e, e)

/-- run-time meaning of an arithmetic expression whose leaves are numbers: what the VM computes
    (`OP_ADD…OP_POW` → `numberArith`, `OP_UNM` → `-v`, NumberExpr → LOADK of `parseNumber` or NaN). -/
def eval {N} (ops : NumOps N) (ρ : Nat → N) : Expr N → N
  | .number t => (ops.parse t).getD ops.nan
  | .const v => v
  | .other id => ρ id
  | .arith op l r => ops.apply op (eval ops ρ l) (eval ops ρ r)
  | .unm e => ops.neg (eval ops ρ e)

/-- the value returned is a constant node (what `compileArithmeticOpExpr` tests with `exp.(*constLValueExpr)`). -/
def isConst {N} : Expr N → Bool
  | .const _ => true
  | _ => false

/-! ### `luaModulo` over the integers

    Go: `v := math.Mod(flhs, frhs); if frhs > 0 && v < 0 || frhs < 0 && v > 0 { v += frhs }; return v`.
    On integers `math.Mod` is the truncated remainder `Int.tmod`. -/
def luaModuloInt (a b : Int) : Int :=
  let v := Int.tmod a b
  if (b > 0 ∧ v < 0) ∨ (b < 0 ∧ v > 0) then v + b else v

/-- the text of `luaModulo`'s body this model was written against (pinned by `luaModulo_body_is_modelled`). -/
def luaModuloBodyModelled : String :=
  "{ flhs := float64(lhs) frhs := float64(rhs) v := math.Mod(flhs, frhs) if frhs > 0 && v < 0 || frhs < 0 && v > 0 { v += frhs } return LNumber(v) }"

end GLua.ConstFold
