/-
  Model of gopher-lua's coroutine mechanism — a transcription of
    /repo/coroutinelib.go  coCreate, coResume, wrapaux/coWrap, coStatus, coRunning
    /repo/state.go         Resume, Yield, XMoveTo, Status, kill, isStarted, adjustResumedValues,
                           GetTop/SetTop/Push/Get (the part the switch uses), initCallFrame, PCall's recovery (abstract)
    /repo/vm.go            switchToParentThread (the LocalBase − ReturnBase offset), callGFunction (negative return =
                           yield; the coroutine branch), OP_RETURN's coroutine branch, threadRun's recover
  as a state machine over threads
      { reg : registry [0, top) as a list, frames : call stack (innermost first), cur : currentFrame != nil,
        parent, dead, wrapped, yieldNRet }   and   G.CurrentThread.
  Same names, same case splits, same arithmetic; every Go operation that can panic is an explicit `.goPanic`.

  The Lua code running *inside* the threads is not gopher-lua's business here: it is a script (`CoScript`)
  interpreted by `step` below, which performs exactly the register traffic the VM performs around the modelled
  functions (arguments placed at RA+1.., results read from RA.., `a` = RA − LocalBase a free layout parameter).

  `Cfg` says which repairs the modelled tree contains.  `Cfg.fixed` (all true) is the tree the check runs against:
  /repo HEAD (4525290: adjustResumedValues) + the four proposed fixes fixes/C06-*.diff.  The `false` settings
  reproduce the code before each repair; they exist so that the defects are machine-checked facts (Props/C06).
-/
import GLua.Spec.CoScript

namespace GLua.Co
open GLua GLua.CoScript

structure Cfg where
  adjustFix : Bool := true   -- 4525290  resume adjusts the values to yieldNRet
  tailFix   : Bool := true   -- fixes/C06-tailcall-yield: a tail-called yield keeps the calling frame
  wrapKill  : Bool := true   -- fixes/C06-wrap-error-kills: threadRun's wrapped branch restores CurrentThread/Parent, kills
  normalFix : Bool := true   -- fixes/C06-normal-status-resume: Status/coResume/Resume look at th.Parent
  gbodyFix  : Bool := true   -- fixes/C06-gfunction-body: callGFunction's coroutine branch without `tailcall &&`
deriving Repr, Inhabited, DecidableEq

def Cfg.fixed : Cfg := {}

/-- the Go function a G frame is executing (or blocked in). -/
inductive GK
  | none | yield | resume (savedTop : Nat) | pcall | host
deriving Repr, Inhabited, DecidableEq

/-- how the Lua code that made a pending call consumes the results (`ra` = register of the first result). -/
inductive Recv
  | none
  | emit (lbl : String) (want : Want) (ra : Nat)
  | tailret (ra : Nat)
  | forin (lbl : String) (j nvars : Nat) (ra : Nat)
deriving Repr, Inhabited

structure Frame where
  isG        : Bool := false
  base       : Nat := 0
  localBase  : Nat := 1
  returnBase : Nat := 0
  nargs      : Nat := 0
  nret       : Want := none       -- none = MultRet
  gk         : GK := .none
  -- what the Lua function of this frame does next (interpreter part, not gopher-lua state)
  fid        : Nat := 0
  idx        : Nat := 0
  code       : List Act := []
  recv       : Recv := .none
deriving Repr, Inhabited

structure Thread where
  reg       : List OVal := []      -- registry slots [0, top); LNil = none
  frames    : List Frame := []     -- call-frame stack, innermost first (head = stack.Last())
  cur       : Bool := false        -- currentFrame != nil (then it is the head of `frames`)
  parent    : Option Nat := none
  dead      : Bool := false
  wrapped   : Bool := false
  yieldNRet : Want := some 0       -- Go zero value
  seen      : Bool := false        -- interpreter: the script knows the thread object (plain: always)
deriving Repr, Inhabited

structure World where
  threads : List Thread := []      -- index = thread id; 0 = G.MainThread
  current : Nat := 0               -- G.CurrentThread
  trace   : Trace := {}
deriving Repr, Inhabited

def World.th (w : World) (t : Nat) : Thread := w.threads.getD t {}
def World.setTh (w : World) (t : Nat) (x : Thread) : World := { w with threads := w.threads.set t x }

/-! ### registry (state.go: registry.SetTop / Push / CopyRange) -/

/-- `registry.SetTop`: growing fills LNil, shrinking drops (the slots above top become Go nil). -/
def regSetTop (r : List OVal) (n : Nat) : List OVal := r.take n ++ List.replicate (n - r.length) none

/-- `registry.CopyRange regv start -1 n` (limit = top): n slots from `start`, LNil past the old top; top = regv+n. -/
def copyRange (r : List OVal) (regv start n : Nat) : List OVal :=
  regSetTop r regv ++ (List.range n).map fun i => if start + i ≥ r.length then none else r.getD (start + i) none

/-- `copyReturnValues L regv start n b`. -/
def copyReturnValues (r : List OVal) (regv start n b : Nat) : List OVal :=
  if b = 1 then regSetTop r regv ++ List.replicate n none      -- FillNil regv n
  else copyRange r regv start n                                -- (the extra FillNil writes LNil where CopyRange already did)

/-- read `k` result registers from `ra`; a slot at or above top holds Go nil: using it is a nil-pointer panic. -/
def readRegs (r : List OVal) (ra k : Nat) : Except Err (List OVal) :=
  if ra + k ≤ r.length then .ok ((r.drop ra).take k) else .error (.goPanic "register above top is Go nil")

/-! ### LState stack API -/

def Thread.curFrame (t : Thread) : Option Frame := if t.cur then t.frames.head? else none

/-- `currentLocalBase` -/
def Thread.lbase (t : Thread) : Nat :=
  match t.curFrame with
  | some f => f.localBase
  | none => 0

/-- `GetTop` = reg.Top() − currentLocalBase()  (never negative on reachable states: `lbase ≤ top`) -/
def Thread.getTop (t : Thread) : Nat := t.reg.length - t.lbase

/-- `SetTop(idx)` for idx ≥ 0: newtop = base + idx (idx = 0 gives base by the `newtop < base` branch). -/
def Thread.setTop (t : Thread) (idx : Nat) : Thread := { t with reg := regSetTop t.reg (t.lbase + idx) }

def Thread.push (t : Thread) (v : OVal) : Thread := { t with reg := t.reg ++ [v] }
def Thread.pushAll (t : Thread) (vs : List OVal) : Thread := { t with reg := t.reg ++ vs }

/-- `Get(idx)` for idx > 0: the register base+idx−1 if below top, else LNil. -/
def Thread.get (t : Thread) (idx : Nat) : OVal :=
  let r := t.lbase + idx - 1
  if r < t.reg.length then t.reg.getD r none else none

/-- the values `XMoveTo` pushes on the other thread, in the order of the loop `for i := n; i > 0; i--`. -/
def xMoveVals (s : Thread) (n : Nat) : List OVal :=
  let top := s.getTop
  let n := min n top
  (List.range n).map fun k => s.get (top - (n - k) + 1)

/-- `ls.XMoveTo(other, n)` -/
def xMoveTo (w : World) (src dst n : Nat) : World :=
  if src = dst then w else
  let s := w.th src
  let top := s.getTop
  let n' := min n top
  let w := w.setTh dst ((w.th dst).pushAll (xMoveVals s n))
  w.setTh src (s.setTop (top - n'))

/-- `adjustResumedValues(n)` (4525290) -/
def adjustResumedValues (cfg : Cfg) (t : Thread) (n : Nat) : Thread :=
  if !cfg.adjustFix then t else
  match t.yieldNRet with
  | none => t
  | some k => { t with reg := regSetTop t.reg (t.reg.length - n + k) }

/-- `initCallFrame` for a Lua function (np parameters, vararg flag, NumUsedRegisters); the arguments are the
    `f.nargs` slots below top.  Returns the registry and the frame (vararg functions move LocalBase). -/
def initCallFrameLua (r : List OVal) (f : Frame) (np : Nat) (vararg : Bool) (nused : Nat) : List OVal × Frame :=
  let lb := f.localBase
  let r := if f.nargs < np then regSetTop r (lb + np) else r
  let nargs := max f.nargs np
  if !vararg then
    (regSetTop (r.take (lb + np)) (lb + nused), f)
  else
    let params := (r.drop lb).take np
    let extras := (r.drop (lb + np)).take (nargs - np)
    let r := r.take lb ++ List.replicate np none ++ extras ++ params ++ [none]   -- the compat `arg` slot
    (regSetTop r (lb + nargs + nused), { f with localBase := lb + nargs })

/-- what `OP_VARARG` (B = 0) copies: CopyRange RA cf.Base+np+1 cf.LocalBase nvarargs. -/
def varargVals (r : List OVal) (f : Frame) (np : Nat) : List OVal :=
  (List.range (f.nargs - np)).map fun i =>
    let src := f.base + np + 1 + i
    if src ≥ f.localBase ∨ src ≥ r.length then none else r.getD src none

/-! ### status (state.go: Status; coroutinelib.go: coRunning) -/

def status (cfg : Cfg) (w : World) (l th : Nat) : String :=
  let t := w.th th
  if t.dead then "dead"
  else if w.current = th then "running"
  else if (if cfg.normalFix then t.parent.isSome else (w.th l).parent = some th) then "normal"
  else "suspended"

def coRunning (w : World) (l : Nat) : OVal := if l = 0 then none else some (.int w.current)

/-! ### switching (vm.go) -/

/-- `switchToParentThread(L, nargs, haserror, kill)`; `.luaError` = the RaiseError when there is no parent. -/
def switchToParentThread (w : World) (l nargs : Nat) (haserror kill : Bool) : Except Err World :=
  let L := w.th l
  match L.parent with
  | none => .error (.luaError "outside")
  | some p =>
    let w := { w with current := p }
    let w := w.setTh l { L with parent := none }
    let w := if !L.wrapped then w.setTh p ((w.th p).push (some (.bool !haserror))) else w
    let w := xMoveTo w l p nargs
    let L := w.th l
    match L.curFrame with
    | none => .error (.goPanic "switchToParentThread: currentFrame is nil")
    | some cf =>
      let frames := L.frames.tail                                   -- L.stack.Pop()
      let offset := cf.localBase - cf.returnBase
      if L.reg.length < offset then .error (.goPanic "switchToParentThread: negative top") else
      let L := { L with yieldNRet := cf.nret, frames := frames, cur := !frames.isEmpty,
                        reg := regSetTop L.reg (L.reg.length - offset), dead := L.dead || kill }
      .ok (w.setTh l L)

/-- decision part of `coResume` (also `Resume`): which threads may be resumed. -/
inductive Refusal | running | dead | normal
deriving Repr, DecidableEq

def Refusal.name : Refusal → String
  | .running => "running" | .dead => "dead" | .normal => "normal"

def resumeCheck (cfg : Cfg) (w : World) (th : Nat) : Option Refusal :=
  let t := w.th th
  if w.current = th then some .running
  else if t.dead then some .dead
  else if cfg.normalFix ∧ t.parent.isSome then some .normal
  else none

/-- `coResume` after the checks, up to the call of threadRun: L's current frame holds [th, args…].
    Returns the world and `top` (the value coResume remembers).  `np/vararg/nused` describe the body (first resume). -/
def coResumeEnter (cfg : Cfg) (w : World) (l th : Nat) (body : Option (Nat × Bool × Nat)) : Except Err (World × Nat) :=
  let w := w.setTh th { w.th th with parent := some l }
  let w := { w with current := th }
  let nargs := (w.th l).getTop - 1
  if !(w.th th).cur then
    -- not started: cf := th.stack.Last(); th.currentFrame = cf; th.SetTop(0); XMoveTo; cf.NArgs = nargs; initCallFrame
    match (w.th th).frames with
    | [] => .error (.goPanic "coResume: th.stack.Last() is nil")
    | cf :: rest =>
      let w := w.setTh th ({ w.th th with cur := true }.setTop 0)
      let w := xMoveTo w l th nargs
      let T := w.th th
      let cf := { cf with nargs := nargs }
      let (reg, cf) := match body with
        | some (np, va, nused) => initCallFrameLua T.reg cf np va nused
        | none => (regSetTop T.reg (cf.localBase + cf.nargs), cf)      -- IsG: SetTop(LocalBase + NArgs)
      let w := w.setTh th { T with reg := reg, frames := cf :: rest }
      .ok (w, (w.th l).getTop)
  else
    let w := xMoveTo w l th nargs
    let w := w.setTh th (adjustResumedValues cfg (w.th th) nargs)
    .ok (w, (w.th l).getTop)

/-- `coCreate` / `coWrap`: a new thread whose stack holds the body's frame (Base 0, LocalBase 1, ReturnBase 0, MultRet). -/
def newThread (wrapped isG : Bool) (fid : Nat) (code : List Act) : Thread :=
  { frames := [{ isG := isG, gk := if isG then .host else .none, fid := fid, code := code }], wrapped := wrapped,
    seen := !wrapped }

/-! ### the interpreter: what the VM does between the modelled functions -/

inductive Ctl
  | run (t : Nat)                 -- mainLoop of thread t goes on with its innermost (Lua) frame
  | gret (t : Nat) (n : Nat)      -- the Go function of t's innermost (G) frame returned n ≥ 0
  | raise (t : Nat) (v : OVal)    -- an ApiError with object v unwinds the Go stack in thread t
  | fin (tok : String)
deriving Repr, Inhabited

def lbl (fid idx : Nat) : String := "L" ++ toString fid ++ "." ++ toString idx

def World.emit (w : World) (l : String) (vs : List OVal) : World := { w with trace := w.trace.emit l vs }

/-- push the frame of a Go function called at register `ra` with `args` (OP_CALL + initCallFrame IsG). -/
def pushG (t : Thread) (ra : Nat) (args : List OVal) (nret : Want) (gk : GK) : Thread :=
  { t with reg := regSetTop t.reg ra ++ [none] ++ args, cur := true,
           frames := { isG := true, base := ra, localBase := ra + 1, returnBase := ra, nargs := args.length,
                       nret := nret, gk := gk } :: t.frames }

/-- control is back in `coResume` on thread p after threadRun returned: `return L.GetTop() - top`. -/
def afterThreadRun (w : World) (p : Nat) : World × Ctl :=
  match (w.th p).curFrame with
  | some f =>
    match f.gk with
    | .resume savedTop => (w, .gret p ((w.th p).getTop - savedTop))
    | _ => (w, .fin "STUCK:not-in-resume")
  | none => (w, .fin "API")          -- the resumer is Go code outside any frame (LState.Resume from the host)

/-- enter the Lua function of t's innermost frame: emit its parameters as the registers hold them. -/
def enterLua (p : Prog) (w : World) (t : Nat) : World × Ctl :=
  let T := w.th t
  match T.frames with
  | [] => (w, .fin "STUCK:no-frame")
  | f :: _ =>
    let d := p.fn f.fid
    match readRegs T.reg f.localBase d.np with
    | .error e => (w, .fin e.show)
    | .ok ps =>
      let va := varargVals T.reg f d.np
      let vs := if d.vararg then ps ++ [some (.int va.length)] ++ va else ps
      (w.emit ("P" ++ toString f.fid) vs, .run t)

/-- `coResume` as called with L's innermost frame holding [th, args…]; then threadRun. -/
def doResume (cfg : Cfg) (p : Prog) (w : World) (l j : Nat) : World × Ctl :=
  match resumeCheck cfg w j with
  | some r =>
    let msg := sym r.name
    if (w.th j).wrapped then (w, .raise l msg)
    else (w.setTh l (((w.th l).push (some (.bool false))).push msg), .gret l 2)
  | none =>
    let d := p.co j
    let body := d.body.map fun f => ((p.fn f).np, (p.fn f).vararg, (p.fn f).nused)
    let first := !(w.th j).cur
    match coResumeEnter cfg w l j body with
    | .error e => (w, .fin e.show)
    | .ok (w, top) =>
      -- remember `top` in the resume frame (a Go local of coResume)
      let L := w.th l
      let w := match L.frames with
        | f :: r => if L.cur then w.setTh l { L with frames := { f with gk := .resume top } :: r } else w
        | [] => w
      let w := w.setTh j { w.th j with seen := true }
      -- threadRun(th): `if L.stack.IsEmpty() return`; mainLoop: G body → callGFunction, Lua → instructions
      match (w.th j).frames with
      | [] => afterThreadRun w l
      | f :: _ =>
        if f.isG then (w, .gret j (w.th j).getTop)      -- the host body returns all its arguments
        else if first then enterLua p w j else (w, .run j)

/-- `OP_RETURN` of t's innermost Lua frame: values are the registers [ra, top) (B = 0) or `b−1` registers. -/
def opReturn (w : World) (t ra b : Nat) : World × Ctl :=
  let T := w.th t
  match T.frames with
  | [] => (w, .fin "STUCK:return-without-frame")
  | cf :: rest =>
    let nret := if b = 0 then T.reg.length - ra else b - 1
    let n := cf.nret.getD nret
    if T.parent.isSome ∧ T.frames.length = 1 then
      let w := w.setTh t { T with reg := copyReturnValues T.reg T.reg.length ra n b }
      match switchToParentThread w t n false true with
      | .error e => (w, .fin e.show)
      | .ok w => afterThreadRun w (T.parent.getD 0)
    else
      let T := { T with frames := rest, reg := copyReturnValues T.reg cf.returnBase ra n b, cur := !rest.isEmpty }
      let w := w.setTh t T
      match rest with
      | [] => (w, .fin ("R:" ++ showVals (T.reg.drop cf.returnBase)))      -- the chunk returned (main thread)
      | h :: _ => if h.isG then (w, .fin "STUCK:lua-called-from-go") else (w, .run t)

/-- `callGFunction` after the Go function returned `n ≥ 0` (never a tail call in the scripts). -/
def gReturn (cfg : Cfg) (w : World) (t n : Nat) : World × Ctl :=
  let T := w.th t
  match T.frames with
  | [] => (w, .fin "API")
  | g :: rest =>
    let wantret := g.nret.getD n
    if cfg.gbodyFix ∧ T.parent.isSome ∧ T.frames.length = 1 then
      match switchToParentThread w t wantret false true with
      | .error e => (w, .fin e.show)
      | .ok w => afterThreadRun w (T.parent.getD 0)
    else
      let T := { T with reg := copyRange T.reg g.returnBase (T.reg.length - n) wantret, frames := rest,
                        cur := !rest.isEmpty }
      let w := w.setTh t T
      match rest with
      | [] =>
        -- a Go function was the whole body and the coroutine branch was not taken: mainLoop and threadRun just return
        match T.parent with
        | some p => afterThreadRun w p
        | none => (w, .fin "API")
      | h :: _ =>
        if h.isG then
          match h.gk with
          | .pcall =>       -- back in basePCall after L.PCall returned nil: L.Insert(LTrue, 1); return L.GetTop()
            let T := { T with reg := T.reg.take h.localBase ++ [some (.bool true)] ++ T.reg.drop h.localBase }
            (w.setTh t T, .gret t T.getTop)
          | _ => (w, .fin "STUCK:go-called-go")
        else (w, .run t)

/-- an error object unwinds thread t: nearest `pcall` (PCall's recovery), else threadRun's recover. -/
def doRaise (cfg : Cfg) (w : World) (t : Nat) (v : OVal) : World × Ctl :=
  let T := w.th t
  let above := T.frames.takeWhile (fun f => f.gk ≠ .pcall)
  match T.frames.drop above.length with
  | h :: rest =>
    -- PCall: stack.SetSp(sp); currentFrame = Last(); reg.SetTop(base); then basePCall pushes false, err and returns 2
    let T := { T with frames := h :: rest, cur := true, reg := regSetTop T.reg h.localBase ++ [some (.bool false), v] }
    (w.setTh t T, .gret t 2)
  | [] =>
    match T.parent with
    | none => if t = 0 then (w, .fin ("X:" ++ OVal.show v)) else (w, .fin "REPANIC")
    | some p =>
      if T.wrapped then
        let T := T.push v
        let T := if cfg.wrapKill then { T with parent := none, dead := true } else T
        let w := w.setTh t T
        let w := if cfg.wrapKill then { w with current := p } else w
        (w, .raise p v)                                   -- parent.Panic(L)
      else
        let w := w.setTh t ((T.setTop 0).push v)
        match switchToParentThread w t 1 true true with
        | .error e => (w, .fin e.show)
        | .ok w => afterThreadRun w p

/-- place a call in t's innermost Lua frame at RA = LocalBase + a and set how its results are consumed. -/
def advance (T : Thread) (f : Frame) (rest : List Act) (r : Recv) (ks : List Frame) : Thread :=
  { T with frames := { f with idx := f.idx + 1, code := rest, recv := r } :: ks }

/-- set up the frames for `coroutine.resume(co_j, vals)` / `f_j(vals)` (optionally under pcall) at register ra. -/
def setupResume (T : Thread) (j : Nat) (wrappedJ prot : Bool) (ra : Nat) (vals : List OVal) (want : Want) : Thread :=
  let thv : OVal := some (.ref j)
  if prot then
    -- pcall's frame [callee, …]; PCall → callR: the callee's frame at base ra+1, MultRet
    let T := pushG T ra (if wrappedJ then none :: vals else none :: thv :: vals) want .pcall
    let inner : Frame := { isG := true, base := ra + 1, localBase := ra + 2, returnBase := ra + 1,
                           nargs := (if wrappedJ then vals.length else vals.length + 1), nret := none, gk := .resume 0 }
    let T := { T with frames := inner :: T.frames }
    -- wrapaux: L.Insert(thread, 1)
    if wrappedJ then { T with reg := T.reg.take (ra + 2) ++ [thv] ++ T.reg.drop (ra + 2) } else T
  else
    let T := pushG T ra (if wrappedJ then vals else thv :: vals) want (.resume 0)
    if wrappedJ then { T with reg := T.reg.take (ra + 1) ++ [thv] ++ T.reg.drop (ra + 1) } else T

def step (cfg : Cfg) (p : Prog) (w : World) : Ctl → World × Ctl
  | .fin t => (w, .fin t)
  | .gret t n => gReturn cfg w t n
  | .raise t v => doRaise cfg w t v
  | .run t =>
    let T := w.th t
    match T.frames with
    | [] => (w, .fin "STUCK:run-without-frame")
    | f :: ks =>
      if f.isG then (w, .fin "STUCK:run-on-go-frame") else
      let clr (T : Thread) : Thread := { T with frames := { f with recv := .none } :: ks }
      match f.recv with
      | .emit l want ra =>
        let vs : Except Err (List OVal) := match want with
          | none => .ok (T.reg.drop ra)
          | some k => readRegs T.reg ra k
        match vs with
        | .error e => (w, .fin e.show)
        | .ok vs => ((w.setTh t (clr T)).emit l vs, .run t)
      | .tailret ra => opReturn (w.setTh t (clr T)) t ra 0
      | .forin l j nvars ra =>
        -- callR's `SetTop(rbase + nret)`, then the loop test on R(A+3)
        let T := { T with reg := regSetTop T.reg (ra + nvars) }
        match T.reg.getD ra none with
        | none => (w.setTh t (clr T), .run t)
        | some x =>
          match readRegs T.reg ra nvars with
          | .error e => (w, .fin e.show)
          | .ok vs =>
            let w := w.emit l vs
            -- next iteration: R(A+3..A+5) = f, s, control; callR(2, nvars, RA+3)
            let T := pushG T ra [none, some x] (some nvars) (.resume 0)
            let T := { T with reg := T.reg.take (ra + 1) ++ [some (.ref j)] ++ T.reg.drop (ra + 1) }
            doResume cfg p (w.setTh t T) t j
      | .none =>
        match f.code with
        | [] => opReturn w t f.localBase 1
        | a :: rest =>
          let l := lbl f.fid f.idx
          match a with
          | .yield tail a vals want =>
            let ra := f.localBase + a
            if tail then
              -- OP_TAILCALL of a Go function: frame with the caller's ReturnBase/NRet; callGFunction(L, true)
              let T := advance T f rest (.tailret ra) ks
              let T := pushG T ra vals f.nret .yield
              let T := match T.frames with
                | g :: r =>
                  if cfg.tailFix then { T with frames := { g with returnBase := g.base, nret := none } :: r }
                  else { T with frames := { g with returnBase := f.returnBase } :: r.tail }    -- RemoveCallerFrame
                | [] => T
              let w := w.setTh t T
              match switchToParentThread w t T.getTop false false with
              | .error (.luaError m) => (w, .raise t (sym m))
              | .error e => (w, .fin e.show)
              | .ok w => afterThreadRun w (T.parent.getD 0)
            else
              let T := advance T f rest (.emit l want ra) ks
              let T := pushG T ra vals want .yield
              let w := w.setTh t T
              match switchToParentThread w t T.getTop false false with
              | .error (.luaError m) => (w, .raise t (sym m))
              | .error e => (w, .fin e.show)
              | .ok w => afterThreadRun w (T.parent.getD 0)
          | .hyield a hargs vals want =>
            -- the host function: L.Yield(vals…) = SetTop(0); Push…; return -1
            let ra := f.localBase + a
            let T := advance T f rest (.emit l want ra) ks
            let T := pushG T ra hargs want .yield
            let T := (T.setTop 0).pushAll vals
            let w := w.setTh t T
            match switchToParentThread w t T.getTop false false with
            | .error (.luaError m) => (w, .raise t (sym m))
            | .error e => (w, .fin e.show)
            | .ok w => afterThreadRun w (T.parent.getD 0)
          | .resume j prot a vals want =>
            let ra := f.localBase + a
            let T := advance T f rest (.emit l want ra) ks
            let T := setupResume T j (p.co j).wrapped prot ra vals want
            doResume cfg p (w.setTh t T) t j
          | .ret a vals =>
            let ra := f.localBase + a
            let T := advance T f rest .none ks
            let T := { T with reg := regSetTop T.reg ra ++ vals }
            opReturn (w.setTh t T) t ra (vals.length + 1)
          | .err v => (w.setTh t (advance T f rest .none ks), .raise t v)
          | .status j =>
            let v := if (w.th j).seen then sym (status cfg w t j) else none
            ((w.setTh t (advance T f rest .none ks)).emit l [v], .run t)
          | .running => ((w.setTh t (advance T f rest .none ks)).emit l [coRunning w t], .run t)
          | .call g a vals want =>
            let ra := f.localBase + a
            let d := p.fn g
            let T := advance T f rest (.emit l want ra) ks
            let T := { T with reg := regSetTop T.reg ra ++ [none] ++ vals }
            let cf : Frame := { base := ra, localBase := ra + 1, returnBase := ra, nargs := vals.length, nret := want,
                                fid := g, code := d.acts }
            let (reg, cf) := initCallFrameLua T.reg cf d.np d.vararg d.nused
            enterLua p (w.setTh t { T with reg := reg, frames := cf :: T.frames }) t
          | .forin j nvars =>
            if (p.co j).wrapped then
              -- R(A) = f_j, R(A+1) = R(A+2) = nil; TFORLOOP copies them to R(A+3..A+5) and calls
              let ra := f.localBase + (p.fn f.fid).np + 3
              let T := advance T f rest (.forin l j nvars ra) ks
              let T := pushG T ra [none, none] (some nvars) (.resume 0)
              let T := { T with reg := T.reg.take (ra + 1) ++ [some (.ref j)] ++ T.reg.drop (ra + 1) }
              doResume cfg p (w.setTh t T) t j
            else (w.setTh t (advance T f rest .none ks), .run t)

def run (cfg : Cfg) (p : Prog) : Nat → World → Ctl → World × Ctl
  | 0, w, c => (w, c)
  | n + 1, w, c =>
    match c with
    | .fin _ => (w, c)
    | _ => let (w', c') := step cfg p w c; run cfg p n w' c'

/-! ### the Go API: LState.Resume called by host code on the main state (no frame: currentLocalBase = 0) -/

/-- the world of a host program that made `maxCo` threads with `L.NewThread()` (empty stacks). -/
def apiWorld (p : Prog) : World :=
  { threads := ({ seen := true } : Thread) :: (List.range p.maxCo).map fun _ => ({ seen := true } : Thread) }

/-- `ls.Resume(th, fn, args…)` with `ls` = main state 0 and `fn` = script function `fid`.
    Returns the world and the observation: `refused <why>` | `err v` | `ok v…` | `yield v…`. -/
def goResume (cfg : Cfg) (p : Prog) (fuel : Nat) (w : World) (th fid : Nat) (args : List OVal) : World × String :=
  let d := p.fn fid
  let isstarted := (w.th th).cur
  -- if !isstarted { th.stack.Push(callFrame{Fn: fn, Base 0, LocalBase 1, ReturnBase 0, NRet MultRet}) }
  let w := if !isstarted then w.setTh th { w.th th with frames := { fid := fid, code := d.acts } :: (w.th th).frames } else w
  match resumeCheck cfg w th with
  | some r => (w, "refused " ++ r.name)
  | none =>
    let w := w.setTh th { w.th th with parent := some 0 }
    let w := { w with current := th }
    let T := w.th th
    let w := if !isstarted then
        match T.frames with
        | [] => w
        | cf :: rest =>
          let T := ({ T with cur := true }.setTop 0).pushAll args
          let cf := { cf with nargs := args.length }
          let (reg, cf) := initCallFrameLua T.reg cf d.np d.vararg d.nused
          w.setTh th { T with reg := reg, frames := cf :: rest }
      else w.setTh th (adjustResumedValues cfg (T.pushAll args) args.length)
    let top := (w.th 0).getTop
    let (w, c) := if !isstarted then enterLua p w th else (w, Ctl.run th)
    match run cfg p fuel w c with
    | (w, .fin "API") =>
      let M := w.th 0
      let haserror := M.get (top + 1) = some (.bool false) ∨ M.get (top + 1) = none     -- LVIsFalse
      let ret := M.reg.drop (top + 1)
      let ret := if ret.isEmpty then [none] else ret
      let w := w.setTh 0 (M.setTop top)
      if haserror then (w, "err " ++ OVal.show (ret.headD none))
      else if (w.th th).frames.isEmpty then (w, "ok " ++ " ".intercalate (ret.map OVal.show))
      else (w, "yield " ++ " ".intercalate (ret.map OVal.show))
    | (w, .fin t) => (w, "fin " ++ t)
    | (w, _) => (w, "FUEL")

/-- the main thread runs the chunk (function 0) in a frame at Base 0; coroutines 1..maxCo are created up front. -/
def initWorld (p : Prog) : World :=
  let main : Thread := { reg := regSetTop [] (1 + (p.fn 0).nused), cur := true, seen := true,
                         frames := [{ fid := 0, code := (p.fn 0).acts }] }
  let cos := (List.range p.maxCo).map fun i =>
    let d := p.co (i + 1)
    match d.body with
    | some f => newThread d.wrapped false f (p.fn f).acts
    | none => newThread d.wrapped true 0 []
  { threads := main :: cos, trace := ({} : Trace).emit "P0" [] }

def runProg (cfg : Cfg) (p : Prog) (fuel : Nat) : List String :=
  match run cfg p fuel (initWorld p) (.run 0) with
  | (w, .fin t) => w.trace.toks t
  | (w, _) => w.trace.toks "FUEL"

end GLua.Co
