/-
  Model of /repo/iolib.go `lFile` (regular files) and of the read helpers of /repo/utils.go, function by
  function:

      lFile  =  one OS descriptor (disk bytes, offset, O_APPEND, access mode)
              + `reader *bufio.Reader` : `rbuf` = its unread buffered bytes (the read-ahead; a SNAPSHOT of
                 what was on disk when it was read, not a view), buffer size `R` (= fileDefaultReadBuffer,
                 a parameter of every function so that theorems hold for every buffer size)
              + `writer io.Writer`     : nil | the descriptor itself | a `bufio.Writer` (size, pending bytes)
              + `closed`

  The code modelled is iolib.go WITH the proposed fixes fixes/C19-*.diff applied (BUILDER.md: "the Model
  describes the code as it will be").  `Unfixed.*` at the end keeps the transcription of the unchanged
  functions; Props/C19.lean proves from them that the unchanged tree violates the property.

  What is trusted (DESIGN §4.5): the OS (`read/write/lseek`, O_APPEND), `bufio.Reader` and `bufio.Writer`
  — modelled below at the granularity "which OS calls are made with which sizes, which bytes stay buffered";
  `io.ReadAll` (= everything up to end of file); `fmt.Fscanf` (`*n`, not modelled).
  The vocabulary `Op`/`Res` is shared with the Spec (GLua/Spec/File.lean); nothing else is.
-/
import GLua.Spec.File
import GLua.Generated.Consts

namespace GLua.IoFile
open GLua.FileSpec (Bytes Fmt Whence VBuf Mode Op Res Slot WOp)

inductive IOErr where
  | ebadf      -- descriptor not open for this access
  | einval     -- negative resulting offset
  | eclosed    -- os.ErrClosed ("file already closed")
deriving DecidableEq, Repr, Inhabited

/-- `file.writer` -/
inductive Writer where
  | none                                   -- nil: not writable
  | direct                                 -- the *os.File itself (unbuffered)
  | buffered (size : Nat) (pend : Bytes)   -- *bufio.Writer
deriving DecidableEq, Repr, Inhabited

structure LFile where
  disk : Bytes := []          -- content of the OS file
  off : Nat := 0              -- offset of the descriptor
  app : Bool := false         -- O_APPEND
  rd : Bool := true           -- descriptor has read access
  wr : Bool := true           -- descriptor has write access
  hasReader : Bool := true    -- file.reader != nil
  rbuf : Bytes := []          -- bufio.Reader: buffered, not yet delivered
  writer : Writer := .direct
  closed : Bool := false      -- file.closed (fp.Close() happens in the same function)
deriving DecidableEq, Repr, Inhabited

/-! ### the OS descriptor -/

/-- `fp.Read(buf)` with `len(buf) = k`: at most `k` bytes at the offset; `[]` with `k > 0` is io.EOF. -/
def osRead (f : LFile) (k : Nat) : Except IOErr (LFile × Bytes) :=
  if f.closed then .error .eclosed
  else if !f.rd then .error .ebadf
  else
    let d := (f.disk.drop f.off).take k
    .ok ({ f with off := f.off + d.length }, d)

/-- content after `pwrite(p, pos)`; a gap past the end is zero-filled by the OS. -/
def diskWrite (disk : Bytes) (pos : Nat) (p : Bytes) : Bytes :=
  disk.take pos ++ List.replicate (pos - disk.length) 0 ++ p ++ disk.drop (pos + p.length)

/-- `fp.Write(p)`: at the offset, or at the end with O_APPEND; a zero-length write does nothing. -/
def osWrite (f : LFile) (p : Bytes) : Except IOErr LFile :=
  if f.closed then .error .eclosed
  else if !f.wr then .error .ebadf
  else if p = [] then .ok f
  else
    let pos := if f.app then f.disk.length else f.off
    .ok { f with disk := diskWrite f.disk pos p, off := pos + p.length }

/-- `fp.Seek(d, whence)` -/
def osSeek (f : LFile) (w : Whence) (d : Int) : Except IOErr (LFile × Nat) :=
  if f.closed then .error .eclosed
  else
    let base : Int := match w with
      | .set => 0
      | .cur => f.off
      | .«end» => f.disk.length
    let np := base + d
    if np < 0 then .error .einval else .ok ({ f with off := np.toNat }, np.toNat)

/-! ### bufio.Reader (size `R`) over the descriptor -/

/-- outcome of `b.fill()`: bytes arrived | b.err = io.EOF | b.err = an OS error -/
inductive FillRes where
  | got | eof | err
deriving DecidableEq, Repr, Inhabited

/-- `b.fill()`: ONE read of the free space of the buffer, appended to the buffered bytes. -/
def brFill (R : Nat) (f : LFile) : LFile × FillRes :=
  match osRead f (R - f.rbuf.length) with
  | .ok (f', d) => ({ f' with rbuf := f.rbuf ++ d }, if d = [] then .eof else .got)
  | .error _ => (f, .err)

/-- result of `Reader.Read(p)`, `len(p) = k > 0`. -/
inductive RdRes where
  | data (d : Bytes)      -- n > 0, err == nil
  | eof                   -- 0, io.EOF
  | err (e : IOErr)
deriving DecidableEq, Repr, Inhabited

/-- `(*bufio.Reader).Read(p)` with `len(p) = k`, `k > 0`. -/
def brRead (R : Nat) (f : LFile) (k : Nat) : LFile × RdRes :=
  if f.rbuf = [] then
    if k ≥ R then
      -- large read, empty buffer: read directly into p
      match osRead f k with
      | .ok (f', d) => if d = [] then (f', .eof) else (f', .data d)
      | .error e => (f, .err e)
    else
      -- one read of the whole buffer
      match osRead f R with
      | .ok (f', d) =>
        if d = [] then (f', .eof)
        else ({ f' with rbuf := d.drop k }, .data (d.take k))
      | .error e => (f, .err e)
  else
    -- copy as much as we can
    ({ f with rbuf := f.rbuf.drop k }, .data (f.rbuf.take k))

/-- utils.go `readBufioSize(reader, size)`: loop `for read != size` calling `reader.Read(make([]byte, size-read))`,
    `break` on error.  Returns (result, err, iseof).  `fuel` bounds the loop (each round delivers ≥ 1 byte
    or ends it, so `size` rounds suffice; running out is reported as a Go-level hang). -/
def readBufioSizeLoop (R : Nat) : Nat → LFile → Nat → Bytes → LFile × Bytes × Option RdRes
  | 0, f, _, acc => (f, acc, some (.err .einval))      -- unreachable (see `readBufioSize_fuel`)
  | fuel + 1, f, need, acc =>
    if need = 0 then (f, acc, none)
    else
      match brRead R f need with
      | (f', .data d) => readBufioSizeLoop R fuel f' (need - d.length) (acc ++ d)
      | (f', r) => (f', acc, some r)

inductive ReadOut where
  | val (d : Bytes)     -- push a string (or, for `*n`, the number whose numeral is `d`)
  | eof                 -- push nil, normal return
  | err                 -- goto errreturn (nil, message, 1)
  | raise               -- L.ArgError: a Lua error
  | goPanic             -- a Go run-time panic (recovered by the VM's pcall and seen as a Lua error)
deriving DecidableEq, Repr, Inhabited

def readBufioSize (R : Nat) (f : LFile) (size : Nat) : LFile × ReadOut :=
  match readBufioSizeLoop R (size + 1) f size [] with
  | (f', acc, none) => (f', .val acc)
  | (f', acc, some .eof) => if acc = [] then (f', .eof) else (f', .val acc)
  | (f', acc, some (.data _)) => (f', .val acc)
  | (f', _, some (.err _)) => (f', .err)

/-- the `size == 0` prologue of fileReadAux: `ReadByte`; on EOF push nil; otherwise `UnreadByte`.
    Net effect on the reader: an empty buffer is filled, nothing is consumed. -/
def peekEOF (R : Nat) (f : LFile) : LFile × ReadOut :=
  if f.rbuf ≠ [] then (f, .val [])
  else
    match osRead f R with
    | .ok (f', d) => if d = [] then (f', .eof) else ({ f' with rbuf := d }, .val [])
    | .error _ => (f, .val [])   -- ReadByte's error is not io.EOF: falls through to readBufioSize(reader, 0) = ""

/-- index of the first `\n` -/
def nlIndex : Bytes → Option Nat
  | [] => none
  | c :: r => if c = 10 then some 0 else (nlIndex r).map (· + 1)

/-- result of `ReadSlice('\n')` -/
inductive SliceRes where
  | line (l : Bytes)          -- ends with '\n', err == nil
  | full (l : Bytes)          -- ErrBufferFull: the whole buffer, no '\n'
  | atEof (l : Bytes) (isErr : Bool)   -- pending error (io.EOF, or an OS error if `isErr`): whatever was buffered
deriving DecidableEq, Repr, Inhabited

/-- `(*bufio.Reader).ReadSlice('\n')`: search; pending error?; buffer full?; fill; again. -/
def brReadSlice (R : Nat) : Nat → LFile → LFile × SliceRes
  | 0, f => (f, .atEof [] true)    -- unreachable with fuel R + 1: every successful fill grows the buffer (Proofs: brReadSlice_spec)
  | fuel + 1, f =>
    match nlIndex f.rbuf with
    | some i => ({ f with rbuf := f.rbuf.drop (i + 1) }, .line (f.rbuf.take (i + 1)))
    | none =>
      if f.rbuf.length ≥ R then ({ f with rbuf := [] }, .full f.rbuf)
      else
        match brFill R f with
        | (f', .got) => brReadSlice R fuel f'
        | (f', .eof) => ({ f' with rbuf := [] }, .atEof f'.rbuf false)
        | (f', .err) => ({ f' with rbuf := [] }, .atEof f'.rbuf true)

/-- result of `ReadLine()`: (line, isPrefix, err) -/
inductive LineRes where
  | part (l : Bytes)     -- isPrefix = true
  | whole (l : Bytes)    -- isPrefix = false, err == nil
  | eof                  -- len(line) == 0 and err == io.EOF
  | err                  -- len(line) == 0 and another error
deriving DecidableEq, Repr, Inhabited

/-- drop the line terminator as `ReadLine` does: "\n" or "\r\n". -/
def stripEOL (l : Bytes) : Bytes :=
  if l.getLast? = some 10 then
    let l1 := l.dropLast
    if l1.getLast? = some 13 then l1.dropLast else l1
  else l

/-- `(*bufio.Reader).ReadLine()`.  In the ErrBufferFull case a trailing '\r' is put back (`b.r--`). -/
def brReadLine (R : Nat) (f : LFile) : LFile × LineRes :=
  match brReadSlice R (R + 1) f with
  | (f', .full l) =>
    if l.getLast? = some 13 then ({ f' with rbuf := [13] }, .part l.dropLast) else (f', .part l)
  | (f', .line l) => (f', .whole (stripEOL l))
  | (f', .atEof l isErr) =>
    if l = [] then (f', if isErr then .err else .eof) else (f', .whole (stripEOL l))

/-- utils.go `readBufioLine`: `for isprefix { buf, isprefix, err = reader.ReadLine(); … append }`. -/
def readBufioLineLoop (R : Nat) : Nat → LFile → Bytes → LFile × Bytes × FillRes
  | 0, f, acc => (f, acc, .err)         -- unreachable with `lineFuel` (see Proofs)
  | fuel + 1, f, acc =>
    match brReadLine R f with
    | (f', .part l) => readBufioLineLoop R fuel f' (acc ++ l)
    | (f', .whole l) => (f', acc ++ l, .got)
    | (f', .eof) => (f', acc, .eof)
    | (f', .err) => (f', acc, .err)

/-- fuel: every `part` consumes at least `R - 1 ≥ 1` bytes of what is left. -/
def lineFuel (f : LFile) : Nat := f.rbuf.length + (f.disk.length - f.off) + 2

def readBufioLine (R : Nat) (f : LFile) : LFile × ReadOut :=
  match readBufioLineLoop R (lineFuel f) f [] with
  | (f', _, .err) => (f', .err)
  | (f', acc, .eof) => if acc = [] then (f', .eof) else (f', .val acc)
  | (f', acc, .got) => (f', .val acc)

/-- `io.ReadAll(file.reader)`: everything buffered, then everything up to the end of the file. -/
def readAll (f : LFile) : LFile × ReadOut :=
  if !f.rd ∨ f.closed then (f, .err)
  else ({ f with rbuf := [], off := max f.off f.disk.length }, .val (f.rbuf ++ f.disk.drop f.off))

/-! ### `*n`: `fmt.Fscanf(file.reader, LNumberScanFormat = "%f", &v)`

  Transcribed from Go 1.23 `fmt/scan.go` (`Fscanf`, `doScanf`, `SkipSpace`, `scanOne`, `notEOF`, `floatToken`,
  `consume/accept/peek`, `convertFloat`), `bufio.Reader.ReadRune/UnreadRune`, `unicode/utf8.FullRune/DecodeRune`
  and the syntax part of `strconv.ParseFloat` (`special`, `readFloat`, `underscoreOK`) / `strconv.Atoi`.
  `file.reader` is a `*bufio.Reader`, hence an `io.RuneScanner`: `ss.rs` is the reader itself, nothing is read
  ahead beyond the one rune that `UnreadRune` puts back.  `getRune` followed by `UnreadRune` is modelled as a
  look at the next rune that does not consume it (bufio: `b.r -= b.lastRuneSize` restores exactly). -/

/-- `utf8.first[c]`: (length of the sequence, accepted range of the second byte); 1 = ASCII (`as`), 0 = invalid (`xx`). -/
def utf8First (c : UInt8) : Nat × UInt8 × UInt8 :=
  if c < 0x80 then (1, 0, 0)
  else if c < 0xC2 then (0, 0, 0)
  else if c < 0xE0 then (2, 0x80, 0xBF)
  else if c = 0xE0 then (3, 0xA0, 0xBF)
  else if c < 0xED then (3, 0x80, 0xBF)
  else if c = 0xED then (3, 0x80, 0x9F)
  else if c < 0xF0 then (3, 0x80, 0xBF)
  else if c = 0xF0 then (4, 0x90, 0xBF)
  else if c < 0xF4 then (4, 0x80, 0xBF)
  else if c = 0xF4 then (4, 0x80, 0x8F)
  else (0, 0, 0)

def contByte (c : UInt8) : Bool := 0x80 ≤ c && c ≤ 0xBF

/-- `utf8.FullRune(p)` -/
def fullRune (p : Bytes) : Bool :=
  match p with
  | [] => false
  | p0 :: t =>
    if p.length ≥ (utf8First p0).1 then true       -- ASCII, invalid or complete
    else
      match t with
      | [] => false
      | p1 :: t2 =>
        if p1 < (utf8First p0).2.1 ∨ (utf8First p0).2.2 < p1 then true
        else
          match t2 with
          | [] => false
          | p2 :: _ => !contByte p2

def runeError : Nat := 0xFFFD

/-- `utf8.DecodeRune(p)`: (rune, size) -/
def decodeRune (p : Bytes) : Nat × Nat :=
  match p with
  | [] => (runeError, 0)
  | p0 :: t =>
    let sz := (utf8First p0).1
    if sz = 1 then (p0.toNat, 1)
    else if sz = 0 then (runeError, 1)
    else if p.length < sz then (runeError, 1)
    else
      match t with
      | [] => (runeError, 1)
      | b1 :: t2 =>
        if b1 < (utf8First p0).2.1 ∨ (utf8First p0).2.2 < b1 then (runeError, 1)
        else if sz = 2 then (((p0.toNat &&& 0x1F) <<< 6) ||| (b1.toNat &&& 0x3F), 2)
        else
          match t2 with
          | [] => (runeError, 1)
          | b2 :: t3 =>
            if !contByte b2 then (runeError, 1)
            else if sz = 3 then
              (((p0.toNat &&& 0x0F) <<< 12) ||| ((b1.toNat &&& 0x3F) <<< 6) ||| (b2.toNat &&& 0x3F), 3)
            else
              match t3 with
              | [] => (runeError, 1)
              | b3 :: _ =>
                if !contByte b3 then (runeError, 1)
                else (((p0.toNat &&& 0x07) <<< 18) ||| ((b1.toNat &&& 0x3F) <<< 12) |||
                      ((b2.toNat &&& 0x3F) <<< 6) ||| (b3.toNat &&& 0x3F), 4)

/-- fmt `isSpace` (a copy of unicode.White_Space) -/
def isSpaceRune (r : Nat) : Bool :=
  (0x09 ≤ r && r ≤ 0x0d) || r == 0x20 || r == 0x85 || r == 0xa0 || r == 0x1680 || (0x2000 ≤ r && r ≤ 0x200a) ||
  r == 0x2028 || r == 0x2029 || r == 0x202f || r == 0x205f || r == 0x3000

/-- what `ReadRune` returns -/
inductive RuneRes where
  | rune (r : Nat) (size : Nat)
  | eof
  | err
deriving DecidableEq, Repr, Inhabited

def decodeBuf (f : LFile) : RuneRes :=
  if f.rbuf = [] then .eof else .rune (decodeRune f.rbuf).1 (decodeRune f.rbuf).2

/-- `(*bufio.Reader).ReadRune()` up to, not including, `b.r += size`:
    `for b.r+utf8.UTFMax > b.w && !utf8.FullRune(b.buf[b.r:b.w]) && b.err == nil && b.w-b.r < len(b.buf) { b.fill() }`,
    then end of file if nothing is buffered, else the decoded rune.  (At most four fills deliver a byte each.) -/
def brPeekRune (R : Nat) : Nat → LFile → LFile × RuneRes
  | 0, f => (f, decodeBuf f)
  | fuel + 1, f =>
    if f.rbuf.length < 4 ∧ fullRune f.rbuf = false ∧ f.rbuf.length < R then
      match brFill R f with
      | (f', .got) => brPeekRune R fuel f'
      | (f', .eof) => (f', decodeBuf f')
      | (f', .err) => (f', if f'.rbuf = [] then .err else decodeBuf f')
    else (f, decodeBuf f)

/-- fmt `ss`: the reader, the token accumulator `s.buf`, `s.atEOF`.  (`count`/`argLimit` = 2^30 runes: not modelled.) -/
structure Scan where
  f : LFile
  buf : Bytes := []
  atEOF : Bool := false
deriving DecidableEq, Repr, Inhabited

/-- `s.getRune()` (`ss.ReadRune`: nothing is read once `atEOF`), not yet consuming the rune. -/
def peekRune (R : Nat) (s : Scan) : Scan × RuneRes :=
  if s.atEOF then (s, .eof)
  else
    match brPeekRune R 4 s.f with
    | (f', .eof) => ({ s with f := f', atEOF := true }, .eof)
    | (f', r) => ({ s with f := f' }, r)

/-- the rune just looked at is consumed (`b.r += size`; no `UnreadRune` follows) -/
def Scan.advance (s : Scan) (n : Nat) : Scan := { s with f := { s.f with rbuf := s.f.rbuf.drop n } }

/-- `s.accept(ok)` = `s.consume(ok, true)`; `none` = a read error (`s.error(err)`).  The string `ok` is given as
    its membership test (`indexRune(ok, r) >= 0`); all these strings are ASCII, so the rune is one byte of token. -/
def accept (R : Nat) (ok : Nat → Bool) (s : Scan) : Scan × Option Bool :=
  match peekRune R s with
  | (s', .eof) => (s', some false)
  | (s', .err) => (s', none)
  | (s', .rune r sz) =>
    if ok r then ({ s'.advance sz with buf := s'.buf ++ [UInt8.ofNat r] }, some true)
    else (s', some false)                     -- UnreadRune

/-- `for s.accept(ok) { }` -/
def acceptMany (R : Nat) (ok : Nat → Bool) : Nat → Scan → Scan × Option Unit
  | 0, s => (s, none)                         -- unreachable with `scanFuel`
  | fuel + 1, s =>
    match accept R ok s with
    | (s', some true) => acceptMany R ok fuel s'
    | (s', some false) => (s', some ())
    | (s', none) => (s', none)

inductive SkipRes where
  | done
  | newline      -- s.errorString("unexpected newline")
  | io
deriving DecidableEq, Repr, Inhabited

/-- `s.SkipSpace()` with `nlIsSpace = false` (Fscanf). -/
def skipSpace (R : Nat) : Nat → Scan → Scan × SkipRes
  | 0, s => (s, .io)                          -- unreachable with `scanFuel`
  | fuel + 1, s =>
    match peekRune R s with
    | (s1, .eof) => (s1, .done)
    | (s1, .err) => (s1, .io)
    | (s1, .rune r sz) =>
      if r = 13 then
        -- `if r == '\r' && s.peek("\n") { continue }`; otherwise '\r' is a space: the loop continues either way
        match peekRune R (s1.advance sz) with
        | (s2, .err) => (s2, .io)
        | (s2, _) => skipSpace R fuel s2
      else if r = 10 then (s1.advance sz, .newline)
      else if isSpaceRune r then skipSpace R fuel (s1.advance sz)
      else (s1, .done)                        -- UnreadRune

def okSign (r : Nat) : Bool := r == 43 || r == 45                                   -- "+-"
def okDec (r : Nat) : Bool := (48 ≤ r && r ≤ 57) || r == 95                         -- "0123456789_"
def okHex (r : Nat) : Bool :=                                                        -- "0123456789aAbBcCdDeEfF_"
  (48 ≤ r && r ≤ 57) || (97 ≤ r && r ≤ 102) || (65 ≤ r && r ≤ 70) || r == 95
def okZero (r : Nat) : Bool := r == 48                                               -- "0"
def okX (r : Nat) : Bool := r == 120 || r == 88                                      -- "xX"
def okDot (r : Nat) : Bool := r == 46                                                -- "."
def okExp (r : Nat) : Bool := r == 101 || r == 69 || r == 112 || r == 80             -- "eEpP"
def okP (r : Nat) : Bool := r == 112 || r == 80                                      -- "pP"
def okN (r : Nat) : Bool := r == 110 || r == 78                                      -- "nN"
def okA (r : Nat) : Bool := r == 97 || r == 65                                       -- "aA"
def okI (r : Nat) : Bool := r == 105 || r == 73                                      -- "iI"
def okF (r : Nat) : Bool := r == 102 || r == 70                                      -- "fF"

/-- `accept(a) && accept(b) && accept(c)` -/
def accept3 (R : Nat) (a b c : Nat → Bool) (s : Scan) : Scan × Option Bool :=
  match accept R a s with
  | (s1, some true) =>
    match accept R b s1 with
    | (s2, some true) => accept R c s2
    | r => r
  | r => r

/-- `if s.accept("0") && s.accept("xX") { digits = hexadecimalDigits + "_"; exp = "pP" }`: is the token hexadecimal? -/
def acceptHexPrefix (R : Nat) (s : Scan) : Scan × Option Bool :=
  match accept R okZero s with
  | (s1, some true) => accept R okX s1
  | r => r

/-- `if s.accept(".") { for s.accept(digits) {} }` -/
def acceptFrac (R : Nat) (digits : Nat → Bool) (fuel : Nat) (s : Scan) : Scan × Option Unit :=
  match accept R okDot s with
  | (s1, some true) => acceptMany R digits fuel s1
  | (s1, some false) => (s1, some ())
  | (s1, none) => (s1, none)

/-- `if s.accept(exp) { s.accept(sign); for s.accept(decimalDigits + "_") {} }` -/
def acceptExp (R : Nat) (exp : Nat → Bool) (fuel : Nat) (s : Scan) : Scan × Option Unit :=
  match accept R exp s with
  | (s1, some true) =>
    match accept R okSign s1 with
    | (s2, some _) => acceptMany R okDec fuel s2
    | (s2, none) => (s2, none)
  | (s1, some false) => (s1, some ())
  | (s1, none) => (s1, none)

/-- the rest of `floatToken` after the NaN / sign / Inf prologue: `0x`?, digits, fraction, exponent. -/
def floatTokenNum (R : Nat) (fuel : Nat) (s : Scan) : Scan × Option Unit :=
  match acceptHexPrefix R s with
  | (s2, none) => (s2, none)
  | (s2, some hex) =>
    match acceptMany R (if hex then okHex else okDec) fuel s2 with
    | (s3, none) => (s3, none)
    | (s3, some ()) =>
      match acceptFrac R (if hex then okHex else okDec) fuel s3 with
      | (s5, none) => (s5, none)
      | (s5, some ()) => acceptExp R (if hex then okP else okExp) fuel s5

/-- `s.floatToken()`; the token is `s.buf` afterwards. -/
def floatToken (R : Nat) (fuel : Nat) (s : Scan) : Scan × Option Unit :=
  -- s.buf = s.buf[:0]
  -- if s.accept("nN") && s.accept("aA") && s.accept("nN") { return }
  match accept3 R okN okA okN { s with buf := [] } with
  | (s1, none) => (s1, none)
  | (s1, some true) => (s1, some ())
  | (s1, some false) =>
    match accept R okSign s1 with
    | (s2, none) => (s2, none)
    | (s2, some _) =>
      -- if s.accept("iI") && s.accept("nN") && s.accept("fF") { return }
      match accept3 R okI okN okF s2 with
      | (s3, none) => (s3, none)
      | (s3, some true) => (s3, some ())
      | (s3, some false) => floatTokenNum R fuel s3

/-! #### `strconv.ParseFloat` (syntax and range only; the value is trusted to be the correctly rounded one) -/

/-- Go `lower(c) = c | ('x' - 'X')` -/
def lowerByte (c : UInt8) : UInt8 := c ||| 0x20

def isDig (c : UInt8) : Bool := 48 ≤ c && c ≤ 57
def isHexLetter (c : UInt8) : Bool := 97 ≤ lowerByte c && lowerByte c ≤ 102
def digVal (c : UInt8) : Nat := if isDig c then c.toNat - 48 else (lowerByte c).toNat - 87

/-- strconv `special`: "nan", [sign] "inf" in any case — the only such tokens `floatToken` can deliver. -/
def isSpecialTok (s : Bytes) : Bool :=
  let l := s.map lowerByte
  l = [110, 97, 110] || l = [105, 110, 102] || l = [43 ||| 0x20, 105, 110, 102] || l = [45 ||| 0x20, 105, 110, 102]

/-- strconv `underscoreOK` -/
def underscoreOKLoop (hex : Bool) : UInt8 → Bytes → Bool      -- `saw` ∈ {'^' 94, '0' 48, '_' 95, '!' 33}
  | saw, [] => saw ≠ 95
  | saw, c :: r =>
    if isDig c || (hex && isHexLetter c) then underscoreOKLoop hex 48 r
    else if c = 95 then (if saw ≠ 48 then false else underscoreOKLoop hex 95 r)
    else if saw = 95 then false
    else underscoreOKLoop hex 33 r

def underscoreOK (s : Bytes) : Bool :=
  let s1 := match s with | c :: r => if c = 45 ∨ c = 43 then r else s | [] => s
  match s1 with
  | z :: x :: r =>
    if z = 48 ∧ (lowerByte x = 98 ∨ lowerByte x = 111 ∨ lowerByte x = 120) then underscoreOKLoop (lowerByte x = 120) 48 r
    else underscoreOKLoop false 94 s1
  | _ => underscoreOKLoop false 94 s1

/-- the literal `readFloat` recognised: value = (-1)^neg · mant · base^exp, base = 2 if `hex` else 10 -/
structure FloatLit where
  neg : Bool := false
  hex : Bool := false
  mant : Nat := 0
  exp : Int := 0
deriving DecidableEq, Repr, Inhabited

/-- the mantissa loop of `readFloat`: (mant, digits after the point, sawdot, sawdigits, underscores), rest -/
def mantLoop (hex : Bool) : Bytes → Nat → Nat → Bool → Bool → Bool → (Nat × Nat × Bool × Bool × Bool) × Bytes
  | [], m, fd, dot, dig, us => ((m, fd, dot, dig, us), [])
  | c :: r, m, fd, dot, dig, us =>
    if c = 95 then mantLoop hex r m fd dot dig true
    else if c = 46 then (if dot then ((m, fd, dot, dig, us), c :: r) else mantLoop hex r m fd true dig us)
    else if isDig c then mantLoop hex r (m * (if hex then 16 else 10) + digVal c) (if dot then fd + 1 else fd) dot true us
    else if hex && isHexLetter c then mantLoop hex r (m * 16 + digVal c) (if dot then fd + 1 else fd) dot true us
    else ((m, fd, dot, dig, us), c :: r)

/-- the exponent digits loop: `for ; i < len(s) && ('0' <= s[i] && s[i] <= '9' || s[i] == '_'); i++` (e capped) -/
def expLoop : Bytes → Nat → Bool → (Nat × Bool) × Bytes
  | [], e, us => ((e, us), [])
  | c :: r, e, us =>
    if c = 95 then expLoop r e true
    else if isDig c then expLoop r (if e < 10000 then e * 10 + digVal c else e) us
    else ((e, us), c :: r)

/-- strconv `readFloat(s)`: the literal and the number of bytes it occupies; `none` = `ok == false`. -/
def readFloat (s : Bytes) : Option (FloatLit × Nat) :=
  match s with
  | [] => none
  | c0 :: _ =>
    let neg := c0 = 45
    let s1 := if c0 = 43 ∨ c0 = 45 then s.drop 1 else s
    -- base prefix: `if i+2 < len(s) && s[i] == '0' && lower(s[i+1]) == 'x'`
    let hex := match s1 with | z :: x :: _ :: _ => z = 48 ∧ lowerByte x = 120 | _ => false
    let s2 := if hex then s1.drop 2 else s1
    match mantLoop hex s2 0 0 false false false with
    | ((m, fd, _, dig, us), r) =>
      if !dig then none
      else
        let fd' : Int := if hex then 4 * fd else fd
        let expChar : UInt8 := if hex then 112 else 101
        match r with
        | c :: r1 =>
          if lowerByte c = expChar then
            match r1 with
            | [] => none
            | _ :: _ =>
              let esign : Int := match r1 with | 45 :: _ => -1 | _ => 1
              let r2 := match r1 with | 43 :: t => t | 45 :: t => t | t => t
              match r2 with
              | [] => none
              | d :: _ =>
                if !isDig d then none
                else
                  match expLoop r2 0 us with
                  | ((e, us'), r3) =>
                    let n := s.length - r3.length
                    if us' && !underscoreOK (s.take n) then none
                    else some ({ neg := neg, hex := hex, mant := m, exp := esign * e - fd' }, n)
          else if hex then none                       -- a hexadecimal mantissa must have a 'p' exponent
          else
            let n := s.length - r.length
            if us && !underscoreOK (s.take n) then none
            else some ({ neg := neg, hex := hex, mant := m, exp := - fd' }, n)
        | [] =>
          if hex then none
          else if us && !underscoreOK s then none
          else some ({ neg := neg, hex := hex, mant := m, exp := - fd' }, s.length)

/-- does the literal round to ±Inf (ParseFloat: `ErrRange`)?  Threshold: half an ulp above the largest double. -/
def FloatLit.overflows (l : FloatLit) : Bool :=
  let T : Nat := (2 ^ 54 - 1) * 2 ^ 970
  let b : Nat := if l.hex then 2 else 10
  if l.mant = 0 then false
  else if l.exp ≥ 0 then decide (T ≤ l.mant * b ^ l.exp.toNat)
  else decide (T * b ^ (-l.exp).toNat ≤ l.mant)

inductive Conv where
  | ok            -- a float64 is delivered
  | syntax        -- strconv.ErrSyntax
  | range         -- strconv.ErrRange
deriving DecidableEq, Repr, Inhabited

/-- `strconv.ParseFloat(s, 64)`: error or not. -/
def parseFloat (s : Bytes) : Conv :=
  if isSpecialTok s then .ok
  else
    match readFloat s with
    | none => .syntax
    | some (l, n) => if n ≠ s.length then .syntax else if l.overflows then .range else .ok

/-- `strconv.Atoi(s)`: error or not (optional sign, decimal digits, fits an int64). -/
def atoiOk (s : Bytes) : Bool :=
  let neg := match s with | 45 :: _ => true | _ => false
  let d := match s with | 43 :: t => t | 45 :: t => t | t => t
  d ≠ [] && d.all isDig && decide (d.foldl (fun a c => a * 10 + digVal c) 0 < 2 ^ 63 + (if neg then 1 else 0))

/-- index of the first lowercase 'p' (`indexRune(str, 'p')`) -/
def indexP : Bytes → Option Nat
  | [] => none
  | c :: r => if c = 112 then some 0 else (indexP r).map (· + 1)

/-- fmt `(*ss).convertFloat`: the decimal-mantissa/binary-exponent mix `1.5p3` is evaluated by hand. -/
def convertFloat (tok : Bytes) : Conv :=
  match indexP tok with
  | some p =>
    if tok.any (fun c => c = 120 ∨ c = 88) then parseFloat tok           -- hasX
    else
      match parseFloat (tok.take p) with
      | .ok => if atoiOk (tok.drop (p + 1)) then .ok else .syntax
      | e => e
  | none => parseFloat tok

/-- fuel for the loops of the scanner: every round consumes at least one byte of what is left. -/
def scanFuel (f : LFile) : Nat := f.rbuf.length + (f.disk.length - f.off) + 2

/-! ### bufio.Writer -/

/-- `(*bufio.Writer).Write(p)` for a writer of `size` holding `pend`:
    `for len(p) > b.Available() { if b.Buffered() == 0 { direct write } else { copy; Flush } }; copy`. -/
def bwWrite (f : LFile) (size : Nat) (pend p : Bytes) : Except IOErr (LFile × Bytes) :=
  if p.length ≤ size - pend.length then .ok (f, pend ++ p)
  else if pend = [] then (osWrite f p).map (·, [])
  else
    let n := size - pend.length
    match osWrite f (pend ++ p.take n) with
    | .error e => .error e
    | .ok f1 =>
      let p' := p.drop n
      if p'.length > size then (osWrite f1 p').map (·, [])
      else .ok (f1, p')

/-- iolib.go `(*lFile).flushWriter` (added by fixes/C19-2): write out what a buffered writer holds. -/
def flushWriter (f : LFile) : Except IOErr LFile :=
  match f.writer with
  | .buffered size pend =>
    if pend = [] then .ok f
    else (osWrite f pend).map fun f' => { f' with writer := .buffered size [] }
  | _ => .ok f

/-- iolib.go `(*lFile).AbandonReadBuffer`: seek back by `Buffered()`, fresh reader. -/
def abandonReadBuffer (f : LFile) : Except IOErr LFile :=
  if f.hasReader then
    match osSeek f .cur (-(f.rbuf.length : Int)) with
    | .ok (f', _) => .ok { f' with rbuf := [] }
    | .error e => .error e
  else .ok f

/-- ignore the error of AbandonReadBuffer, as fileWriteAux / fileCloseAux do. -/
def abandonIgnore (f : LFile) : LFile :=
  match abandonReadBuffer f with
  | .ok f' => f'
  | .error _ => f

/-! ### the Lua-visible functions -/

/-- `fileWriteAux` (one string argument). -/
def fileWriteAux (f : LFile) (s : Bytes) : LFile × Res :=
  if f.closed then (f, .raise)                      -- errorIfFileIsClosed (first, fixes/C19-3)
  else match f.writer with
  | .none => (f, .fail)                             -- fileIsWritable
  | .direct =>
    match osWrite f s with
    | .ok f' => (abandonIgnore f', .ok)
    | .error _ => (abandonIgnore f, .fail)
  | .buffered size pend =>
    match bwWrite f size pend s with
    | .ok (f', pend') => (abandonIgnore { f' with writer := .buffered size pend' }, .ok)
    | .error _ => (abandonIgnore f, .fail)

/-- `case 'n'` of fileReadAux: `fmt.Fscanf(file.reader, "%f", &v)`.
    doScanf: `SkipSpace()`; scanOne (`*LNumber` goes through reflection, Kind Float64): `SkipSpace(); notEOF();
    convertFloat(floatToken())`.  `err == io.EOF` (only from `notEOF`) pushes nil; every other error — "unexpected
    newline", a ParseFloat error — is `goto errreturn`.  The value pushed is ParseFloat's (trusted): `val` carries
    the token. -/
def fscanNumber (R : Nat) (f : LFile) : LFile × ReadOut :=
  let fuel := scanFuel f
  match skipSpace R fuel { f := f } with
  | (s1, .newline) => (s1.f, .err)
  | (s1, .io) => (s1.f, .err)
  | (s1, .done) =>
    match skipSpace R fuel s1 with
    | (s2, .newline) => (s2.f, .err)
    | (s2, .io) => (s2.f, .err)
    | (s2, .done) =>
      match peekRune R s2 with
      | (s3, .eof) => (s3.f, .eof)
      | (s3, .err) => (s3.f, .err)
      | (s3, .rune _ _) =>
        match floatToken R fuel s3 with
        | (s4, none) => (s4.f, .err)
        | (s4, some ()) =>
          match convertFloat s4.buf with
          | .ok => (s4.f, .val s4.buf)
          | _ => (s4.f, .err)

/-- one format of `fileReadAux`.  `str s` here is what is left of a format string after `expandFmt`: a string that
    does not start with `*` or an unknown option letter (`L.ArgError`), or the empty string (`options[1:]` of ""
    panics: "slice bounds out of range [1:0]"). -/
def readOne (R : Nat) (f : LFile) : Fmt → LFile × ReadOut
  | .count 0 =>
    match peekEOF R f with
    | (f', .eof) => (f', .eof)
    | (f', _) => readBufioSize R f' 0
  | .count n => readBufioSize R f n
  | .line => readBufioLine R f
  | .all => readAll f
  | .num => fscanNumber R f
  | .str s => (f, if s = [] then .goPanic else .raise)

/-- `case LString:` of fileReadAux: `options[0] != '*'` → ArgError; then EVERY byte after the `*` is an option
    (`for _, opt := range options[1:]`): "*la" reads a line and then the rest, "*" reads nothing. -/
def optFmt (o : UInt8) : Fmt :=
  if o = 110 then .num else if o = 97 then .all else if o = 108 then .line else .str [o]

def expandFmt : Fmt → List Fmt
  | .str (c :: opts) => if c = 42 then opts.map optFmt else [.str (c :: opts)]
  | f => [f]

/-- how the format loop ended -/
inductive RStat where
  | done       -- normalreturn
  | err        -- errreturn: nil, message, 1
  | raise      -- a Lua error (ArgError, or a recovered Go panic)
deriving DecidableEq, Repr, Inhabited

/-- the format loop of `fileReadAux`: pushes values; nil ends the call; an error returns (nil, msg, 1) — whatever
    was pushed before is NOT returned (`return 3`) — modelled as `fail`. -/
def readLoop (R : Nat) (f : LFile) : List Fmt → LFile × List (Option Bytes) × RStat
  | [] => (f, [], .done)
  | fm :: fs =>
    match readOne R f fm with
    | (f', .eof) => (f', [none], .done)
    | (f', .err) => (f', [], .err)
    | (f', .raise) => (f', [], .raise)
    | (f', .goPanic) => (f', [], .raise)
    | (f', .val v) => let r := readLoop R f' fs; (r.1, some v :: r.2.1, r.2.2)

def fileReadAux (R : Nat) (f : LFile) (fs : List Fmt) : LFile × Res :=
  if f.closed then (f, .raise)
  else if !f.hasReader then (f, .fail)              -- fileIsReadable
  else match flushWriter f with                     -- fixes/C19-2
  | .error _ => (f, .fail)
  | .ok f1 =>
    let r := readLoop R f1 ((if fs = [] then [.line] else fs).flatMap expandFmt)
    match r.2.2 with
    | .done => (r.1, .vals r.2.1)
    | .err => (r.1, .fail)
    | .raise => (r.1, .raise)

/-- `fileLines` -/
def fileLines (f : LFile) : LFile × Res :=
  if f.closed then (f, .raise)                      -- fixes/C19-3
  else if !f.hasReader then (f, .nothing)
  else (f, .ok)

/-- `fileLinesIter` (fixes/C19-3: closed check, C19-2: flushWriter, C19-4: readBufioLine). -/
def fileLinesIter (R : Nat) (f : LFile) : LFile × Res :=
  if f.closed then (f, .raise)
  else
    let f1 := match flushWriter f with | .ok g => g | .error _ => f
    match readBufioLine R f1 with
    | (f2, .eof) => (f2, .vals [none])
    | (f2, .val v) => (f2, .vals [some v])
    | (f2, _) => (f2, .raise)

/-- `fileSeek` -/
def fileSeek (f : LFile) (w : Whence) (d : Int) : LFile × Res :=
  if f.closed then (f, .raise)                      -- fixes/C19-3
  else match flushWriter f with                     -- fixes/C19-2
  | .error _ => (f, .fail)
  | .ok f1 =>
    match abandonReadBuffer f1 with
    | .error _ => (f1, .fail)
    | .ok f2 =>
      match osSeek f2 w d with
      | .ok (f3, p) => (f3, .pos p)
      | .error _ => (f2, .fail)

/-- `fileFlushAux` (fixes/C19-1: AbandonReadBuffer after the flush). -/
def fileFlushAux (f : LFile) : LFile × Res :=
  if f.closed then (f, .raise)
  else match f.writer with
  | .none => (f, .fail)
  | _ =>
    match flushWriter f with
    | .error _ => (f, .fail)
    | .ok f1 =>
      match abandonReadBuffer f1 with
      | .ok f2 => (f2, .ok)
      | .error _ => (f1, .fail)

/-- bufio.NewWriterSize: `size <= 0` means the default (4096); `L.OptInt(3, fileDefaultWriteBuffer)`. -/
def writerSize (n : Nat) : Nat := if n = 0 then Generated.fileDefaultWriteBuffer else n

/-- `fileSetVBuf` -/
def fileSetVBuf (f : LFile) (m : VBuf) (size : Nat) : LFile × Res :=
  if f.closed then (f, .raise)                      -- fixes/C19-3
  else match f.writer with
  | .none => (f, .fail)
  | _ =>
    match flushWriter f with                        -- fixes/C19-2
    | .error _ => (f, .fail)
    | .ok f1 =>
      match m with
      | .no => ({ f1 with writer := .direct }, .ok)
      | .full | .line => ({ f1 with writer := .buffered (writerSize size) [] }, .ok)

/-- `fileCloseAux`: closed := true; flush a buffered writer; AbandonReadBuffer (error ignored); fp.Close(). -/
def fileCloseAux (f : LFile) : LFile × Res :=
  match flushWriter f with
  | .error _ => ({ f with closed := true }, .raise)
  | .ok f1 =>
    let f2 := abandonIgnore f1
    if f2.closed then (f2, .raise)      -- fp.Close() on a closed descriptor: os.ErrClosed → RaiseError
    else ({ f2 with closed := true }, .ok)

/-- `ioOpenFile` mode table → `os.OpenFile` flags and the reader/writer of `newFile`.
    (fixes/C19-5: mode "a" is not readable; the unchanged code left `readable = true` there, giving the handle a
    reader over a write-only descriptor — `Unfixed.ioOpenFile`.) -/
def ioOpenFile (disk : Bytes) (m : Mode) : LFile :=
  let base : LFile := { disk := disk, off := 0 }
  match m with
  | .r  => { base with wr := false, writer := .none }
  | .w  => { base with disk := [], rd := false, hasReader := false }
  | .a  => { base with rd := false, hasReader := false, app := true }
  | .rp => base
  | .wp => { base with disk := [] }
  | .ap => { base with app := true }

/-- one operation of a history on the handle. -/
def step (R : Nat) (f : LFile) : Op → LFile × Res
  | .write s => fileWriteAux f s
  | .read fs => fileReadAux R f fs
  | .lines => fileLines f
  | .iter => fileLinesIter R f
  | .seek w d => fileSeek f w d
  | .flush => fileFlushAux f
  | .setvbuf m n => fileSetVBuf f m n
  | .close => fileCloseAux f
  | .reopen m => (ioOpenFile f.disk m, .ok)

def run (R : Nat) (f : LFile) : List Op → LFile × List Res
  | [] => (f, [])
  | o :: os => let (f', r) := step R f o; let (f'', rs) := run R f' os; (f'', r :: rs)


/-! ### the `io` library functions: default files, `io.lines`, `io.type`, `tostring`

  The upvalue table of the `io` functions holds the default output and input handles (`fileDefOutIndex`,
  `fileDefInIndex`).  One file, one handle at a time: a slot holds stdin/stdout (`std`, not modelled), the
  current handle, or an earlier handle of the file (`stale`) — which is closed, so that by `closed_handle_guard`
  every function raises on it and changes nothing; its state is therefore not kept. -/

structure World where
  f : LFile := {}
  defIn : Slot := .std
  defOut : Slot := .std
deriving DecidableEq, Repr, Inhabited

def World.newHandle (w : World) (f' : LFile) (setIn setOut : Bool) : World :=
  { f := f', defIn := if setIn then .cur else w.defIn.age, defOut := if setOut then .cur else w.defOut.age }

def World.onSlot (R : Nat) (w : World) (sl : Slot) (op : Op) : World × Res :=
  match sl with
  | .cur => ({ w with f := (step R w.f op).1 }, (step R w.f op).2)
  | .stale => (w, .raise)
  | .std => (w, .nothing)

/-- `ioLinesIter`: the handle is the first argument (iterator made by `io.lines()`; `toclose = false`) or the
    second upvalue (made by `io.lines(path)`; `toclose = true`: `fileCloseAux` at the end of the file).
    (On a handle without a reader — `io.input(f)` with a write-only `f` — `readBufioLine(nil)` is a nil-pointer
    panic, recovered as a Lua error; the model's `readBufioLine` fails with EBADF there: `raise` either way.) -/
def ioLinesIter (R : Nat) (f : LFile) (toclose : Bool) : LFile × Res :=
  if f.closed then (f, .raise)
  else
    let f1 := match flushWriter f with | .ok g => g | .error _ => f
    match readBufioLine R f1 with
    | (f2, .eof) =>
      if toclose then
        match fileCloseAux f2 with
        | (f3, .raise) => (f3, .raise)
        | (f3, _) => (f3, .vals [none])
      else (f2, .vals [none])
    | (f2, .val v) => (f2, .vals [some v])
    | (f2, _) => (f2, .raise)

/-- `ioOutput(name)`: `newFile(L, nil, name, os.O_WRONLY|os.O_CREATE, 0600, true, false)` — no O_TRUNC. -/
def ioOutputFile (disk : Bytes) : LFile :=
  { disk := disk, off := 0, rd := false, hasReader := false }

def wstep (R : Nat) (w : World) : WOp → World × Res
  | .h (.reopen m) => (w.newHandle (ioOpenFile w.f.disk m) false false, .ok)
  | .h op => w.onSlot R .cur op
  | .ioInput => ({ w with defIn := .cur }, .ok)        -- ioInput(*LUserData): no closed check
  | .ioOutput => ({ w with defOut := .cur }, .ok)
  | .ioInputName => (w.newHandle (ioOpenFile w.f.disk .r) true false, .ok)
  | .ioOutputName => (w.newHandle (ioOutputFile w.f.disk) false true, .ok)
  | .ioLinesName => (w.newHandle (ioOpenFile w.f.disk .r) false false, .ok)
  | .ioRead fs => w.onSlot R w.defIn (.read fs)         -- fileReadAux(L, fileDefIn(L), 1)
  | .ioWrite d => w.onSlot R w.defOut (.write d)        -- fileWriteAux(L, fileDefOut(L), 1)
  | .ioFlush => w.onSlot R w.defOut .flush              -- fileFlushAux(L, fileDefOut(L))
  | .ioClose => w.onSlot R w.defOut .close              -- fileCloseAux(L, fileDefOut(L))
  | .ioLines =>                                         -- ioLines, no argument: (iterator, fileDefIn) — no check at all
    match w.defIn with
    | .std => (w, .nothing)
    | _ => (w, .ok)
  | .ioIter auto => ({ w with f := (ioLinesIter R w.f auto).1 }, (ioLinesIter R w.f auto).2)
  | .ioType => (w, .vals [some (if w.f.closed then FileSpec.strClosedFile else FileSpec.strFile)])
  | .toStr => (w, .vals [some (if w.f.closed then FileSpec.strFileClosed else FileSpec.strFile)])

def wrun (R : Nat) (w : World) : List WOp → World × List Res
  | [] => (w, [])
  | o :: os => let r := wstep R w o; let rs := wrun R r.1 os; (rs.1, r.2 :: rs.2)

/-- the buffer size of the real code. -/
def R0 : Nat := Generated.fileDefaultReadBuffer

/-- logical cursor of a handle: OS offset − read-ahead (+ what a buffered writer still holds). -/
def cursor (f : LFile) : Nat := f.off - f.rbuf.length

/-! ### the unchanged functions (before fixes/C19-*.diff), kept for the negation theorems -/
namespace Unfixed

/-- `fileFlushAux` of the unchanged tree: no AbandonReadBuffer. -/
def fileFlushAux (f : LFile) : LFile × Res :=
  match f.writer with
  | .none => (f, .fail)
  | _ =>
    if f.closed then (f, .raise)
    else match flushWriter f with
    | .error _ => (f, .fail)
    | .ok f1 => (f1, .ok)

/-- `fileSeek` of the unchanged tree: no closed check, the buffered writer is not flushed. -/
def fileSeek (f : LFile) (w : Whence) (d : Int) : LFile × Res :=
  match abandonReadBuffer f with
  | .error _ => (f, .fail)
  | .ok f2 =>
    match osSeek f2 w d with
    | .ok (f3, p) => (f3, .pos p)
    | .error _ => (f2, .fail)

/-- `fileSetVBuf` of the unchanged tree: no closed check, pending bytes of the old writer are dropped. -/
def fileSetVBuf (f : LFile) (m : VBuf) (size : Nat) : LFile × Res :=
  match f.writer with
  | .none => (f, .fail)
  | _ =>
    match m with
    | .no => ({ f with writer := .direct }, .ok)
    | .full => ({ f with writer := .buffered (writerSize size) [] }, .ok)
    | .line => (f, .raise)     -- "line" is missing from filebufOptions: CheckOption raises

/-- `fileReadAux` of the unchanged tree: the buffered writer is not flushed before reading. -/
def fileReadAux (R : Nat) (f : LFile) (fs : List Fmt) : LFile × Res :=
  if !f.hasReader then (f, .fail)
  else if f.closed then (f, .raise)
  else
    let r := readLoop R f ((if fs = [] then [.line] else fs).flatMap expandFmt)
    match r.2.2 with
    | .done => (r.1, .vals r.2.1)
    | .err => (r.1, .fail)
    | .raise => (r.1, .raise)

/-- `fileLinesIter` of the unchanged tree: a single `ReadLine()`, the prefix flag ignored. -/
def fileLinesIter (R : Nat) (f : LFile) : LFile × Res :=
  match brReadLine R f with
  | (f2, .eof) => (f2, .vals [none])
  | (f2, .err) => (f2, .raise)
  | (f2, .part l) => (f2, .vals [some l])
  | (f2, .whole l) => (f2, .vals [some l])

/-- `ioOpenFile` of the unchanged tree: mode "a" keeps a reader. -/
def ioOpenFile (disk : Bytes) (m : Mode) : LFile :=
  match m with
  | .a => { disk := disk, off := 0, rd := false, app := true }
  | m => IoFile.ioOpenFile disk m

/-- `fileWriteAux` of the unchanged tree: fileIsWritable is consulted before errorIfFileIsClosed. -/
def fileWriteAux (f : LFile) (s : Bytes) : LFile × Res :=
  match f.writer with
  | .none => (f, .fail)
  | _ => IoFile.fileWriteAux f s

def step (R : Nat) (f : LFile) : Op → LFile × Res
  | .write s => fileWriteAux f s
  | .read fs => fileReadAux R f fs
  | .lines => if !f.hasReader then (f, .nothing) else (f, .ok)
  | .iter => fileLinesIter R f
  | .seek w d => fileSeek f w d
  | .flush => fileFlushAux f
  | .setvbuf m n => fileSetVBuf f m n
  | .close => fileCloseAux f
  | .reopen m => (ioOpenFile f.disk m, .ok)

def run (R : Nat) (f : LFile) : List Op → LFile × List Res
  | [] => (f, [])
  | o :: os => let (f', r) := step R f o; let (f'', rs) := run R f' os; (f'', r :: rs)

end Unfixed

end GLua.IoFile
