/-
  Model of /repo/iolib.go `lFile` (regular files) and of the read helpers of /repo/utils.go, function by
  function:

      lFile  =  one OS descriptor (disk bytes, offset, O_APPEND, access mode)
              + `reader *bufio.Reader` : `rbuf` = its unread buffered bytes (the read-ahead; a SNAPSHOT of
                 what was on disk when it was read, not a view), buffer size `R` (= fileDefaultReadBuffer,
                 a parameter of every function so that theorems hold for every buffer size)
              + `writer io.Writer`     : nil | the descriptor itself | a `bufio.Writer` (size, pending bytes)
              + `closed`

  The code modelled is iolib.go WITH the proposed fixes fixes/C19-*.diff applied (BUILDER.md: "the Model
  describes the code as it will be").  `Unfixed.*` at the end keeps the transcription of the unchanged
  functions; Props/C19.lean proves from them that the unchanged tree violates the property.

  What is trusted (DESIGN §4.5): the OS (`read/write/lseek`, O_APPEND), `bufio.Reader` and `bufio.Writer`
  — modelled below at the granularity "which OS calls are made with which sizes, which bytes stay buffered";
  `io.ReadAll` (= everything up to end of file); for `*n` the VALUE `strconv.ParseFloat` returns for a Lua numeral
  (the reading itself — utils.go readBufioNumber, luaNumeralBase — is modelled; fixes/C19-6…9 are applied as well).
  The vocabulary `Op`/`Res` is shared with the Spec (GLua/Spec/File.lean); nothing else is.
-/
import GLua.Spec.File
import GLua.Generated.Consts

namespace GLua.IoFile
open GLua.FileSpec (Bytes Fmt Whence VBuf Mode Op Res Slot WOp)

inductive IOErr where
  | ebadf      -- descriptor not open for this access
  | einval     -- negative resulting offset
  | eclosed    -- os.ErrClosed ("file already closed")
deriving DecidableEq, Repr, Inhabited

/-- `file.writer` -/
inductive Writer where
  | none                                   -- nil: not writable
  | direct                                 -- the *os.File itself (unbuffered)
  | buffered (size : Nat) (pend : Bytes)   -- *bufio.Writer
deriving DecidableEq, Repr, Inhabited

structure LFile where
  disk : Bytes := []          -- content of the OS file
  off : Nat := 0              -- offset of the descriptor
  app : Bool := false         -- O_APPEND
  rd : Bool := true           -- descriptor has read access
  wr : Bool := true           -- descriptor has write access
  hasReader : Bool := true    -- file.reader != nil
  rbuf : Bytes := []          -- bufio.Reader: buffered, not yet delivered
  writer : Writer := .direct
  closed : Bool := false      -- file.closed (fp.Close() happens in the same function)
deriving DecidableEq, Repr, Inhabited

/-! ### the OS descriptor -/

/-- `fp.Read(buf)` with `len(buf) = k`: at most `k` bytes at the offset; `[]` with `k > 0` is io.EOF. -/
def osRead (f : LFile) (k : Nat) : Except IOErr (LFile × Bytes) :=
  if f.closed then .error .eclosed
  else if !f.rd then .error .ebadf
  else
    let d := (f.disk.drop f.off).take k
    .ok ({ f with off := f.off + d.length }, d)

/-- content after `pwrite(p, pos)`; a gap past the end is zero-filled by the OS. -/
def diskWrite (disk : Bytes) (pos : Nat) (p : Bytes) : Bytes :=
  disk.take pos ++ List.replicate (pos - disk.length) 0 ++ p ++ disk.drop (pos + p.length)

/-- `fp.Write(p)`: at the offset, or at the end with O_APPEND; a zero-length write does nothing. -/
def osWrite (f : LFile) (p : Bytes) : Except IOErr LFile :=
  if f.closed then .error .eclosed
  else if !f.wr then .error .ebadf
  else if p = [] then .ok f
  else
    let pos := if f.app then f.disk.length else f.off
    .ok { f with disk := diskWrite f.disk pos p, off := pos + p.length }

/-- `fp.Seek(d, whence)` -/
def osSeek (f : LFile) (w : Whence) (d : Int) : Except IOErr (LFile × Nat) :=
  if f.closed then .error .eclosed
  else
    let base : Int := match w with
      | .set => 0
      | .cur => f.off
      | .«end» => f.disk.length
    let np := base + d
    if np < 0 then .error .einval else .ok ({ f with off := np.toNat }, np.toNat)

/-! ### bufio.Reader (size `R`) over the descriptor -/

/-- outcome of `b.fill()`: bytes arrived | b.err = io.EOF | b.err = an OS error -/
inductive FillRes where
  | got | eof | err
deriving DecidableEq, Repr, Inhabited

/-- `b.fill()`: ONE read of the free space of the buffer, appended to the buffered bytes. -/
def brFill (R : Nat) (f : LFile) : LFile × FillRes :=
  match osRead f (R - f.rbuf.length) with
  | .ok (f', d) => ({ f' with rbuf := f.rbuf ++ d }, if d = [] then .eof else .got)
  | .error _ => (f, .err)

/-- result of `Reader.Read(p)`, `len(p) = k > 0`. -/
inductive RdRes where
  | data (d : Bytes)      -- n > 0, err == nil
  | eof                   -- 0, io.EOF
  | err (e : IOErr)
deriving DecidableEq, Repr, Inhabited

/-- `(*bufio.Reader).Read(p)` with `len(p) = k`, `k > 0`. -/
def brRead (R : Nat) (f : LFile) (k : Nat) : LFile × RdRes :=
  if f.rbuf = [] then
    if k ≥ R then
      -- large read, empty buffer: read directly into p
      match osRead f k with
      | .ok (f', d) => if d = [] then (f', .eof) else (f', .data d)
      | .error e => (f, .err e)
    else
      -- one read of the whole buffer
      match osRead f R with
      | .ok (f', d) =>
        if d = [] then (f', .eof)
        else ({ f' with rbuf := d.drop k }, .data (d.take k))
      | .error e => (f, .err e)
  else
    -- copy as much as we can
    ({ f with rbuf := f.rbuf.drop k }, .data (f.rbuf.take k))

/-- utils.go `readBufioSize(reader, size)`: loop `for read != size` calling `reader.Read(make([]byte, size-read))`,
    `break` on error.  Returns (result, err, iseof).  `fuel` bounds the loop (each round delivers ≥ 1 byte
    or ends it, so `size` rounds suffice; running out is reported as a Go-level hang). -/
def readBufioSizeLoop (R : Nat) : Nat → LFile → Nat → Bytes → LFile × Bytes × Option RdRes
  | 0, f, _, acc => (f, acc, some (.err .einval))      -- unreachable (see `readBufioSize_fuel`)
  | fuel + 1, f, need, acc =>
    if need = 0 then (f, acc, none)
    else
      match brRead R f need with
      | (f', .data d) => readBufioSizeLoop R fuel f' (need - d.length) (acc ++ d)
      | (f', r) => (f', acc, some r)

inductive ReadOut where
  | val (d : Bytes)     -- push a string (or, for `*n`, the number whose numeral is `d`)
  | eof                 -- push nil, normal return
  | err                 -- goto errreturn (nil, message, 1)
  | raise               -- L.ArgError: a Lua error
deriving DecidableEq, Repr, Inhabited

def readBufioSize (R : Nat) (f : LFile) (size : Nat) : LFile × ReadOut :=
  match readBufioSizeLoop R (size + 1) f size [] with
  | (f', acc, none) => (f', .val acc)
  | (f', acc, some .eof) => if acc = [] then (f', .eof) else (f', .val acc)
  | (f', acc, some (.data _)) => (f', .val acc)
  | (f', _, some (.err _)) => (f', .err)

/-- the `size == 0` prologue of fileReadAux: `ReadByte`; on EOF push nil; otherwise `UnreadByte`.
    Net effect on the reader: an empty buffer is filled, nothing is consumed. -/
def peekEOF (R : Nat) (f : LFile) : LFile × ReadOut :=
  if f.rbuf ≠ [] then (f, .val [])
  else
    match osRead f R with
    | .ok (f', d) => if d = [] then (f', .eof) else ({ f' with rbuf := d }, .val [])
    | .error _ => (f, .val [])   -- ReadByte's error is not io.EOF: falls through to readBufioSize(reader, 0) = ""

/-- index of the first `\n` -/
def nlIndex : Bytes → Option Nat
  | [] => none
  | c :: r => if c = 10 then some 0 else (nlIndex r).map (· + 1)

/-- result of `ReadSlice('\n')` -/
inductive SliceRes where
  | line (l : Bytes)          -- ends with '\n', err == nil
  | full (l : Bytes)          -- ErrBufferFull: the whole buffer, no '\n'
  | atEof (l : Bytes) (isErr : Bool)   -- pending error (io.EOF, or an OS error if `isErr`): whatever was buffered
deriving DecidableEq, Repr, Inhabited

/-- `(*bufio.Reader).ReadSlice('\n')`: search; pending error?; buffer full?; fill; again. -/
def brReadSlice (R : Nat) : Nat → LFile → LFile × SliceRes
  | 0, f => (f, .atEof [] true)    -- unreachable with fuel R + 1: every successful fill grows the buffer (Proofs: brReadSlice_spec)
  | fuel + 1, f =>
    match nlIndex f.rbuf with
    | some i => ({ f with rbuf := f.rbuf.drop (i + 1) }, .line (f.rbuf.take (i + 1)))
    | none =>
      if f.rbuf.length ≥ R then ({ f with rbuf := [] }, .full f.rbuf)
      else
        match brFill R f with
        | (f', .got) => brReadSlice R fuel f'
        | (f', .eof) => ({ f' with rbuf := [] }, .atEof f'.rbuf false)
        | (f', .err) => ({ f' with rbuf := [] }, .atEof f'.rbuf true)

/-- result of `ReadLine()`: (line, isPrefix, err) -/
inductive LineRes where
  | part (l : Bytes)     -- isPrefix = true
  | whole (l : Bytes)    -- isPrefix = false, err == nil
  | eof                  -- len(line) == 0 and err == io.EOF
  | err                  -- len(line) == 0 and another error
deriving DecidableEq, Repr, Inhabited

/-- drop the line terminator as `ReadLine` does: "\n" or "\r\n". -/
def stripEOL (l : Bytes) : Bytes :=
  if l.getLast? = some 10 then
    let l1 := l.dropLast
    if l1.getLast? = some 13 then l1.dropLast else l1
  else l

/-- `(*bufio.Reader).ReadLine()`.  In the ErrBufferFull case a trailing '\r' is put back (`b.r--`). -/
def brReadLine (R : Nat) (f : LFile) : LFile × LineRes :=
  match brReadSlice R (R + 1) f with
  | (f', .full l) =>
    if l.getLast? = some 13 then ({ f' with rbuf := [13] }, .part l.dropLast) else (f', .part l)
  | (f', .line l) => (f', .whole (stripEOL l))
  | (f', .atEof l isErr) =>
    if l = [] then (f', if isErr then .err else .eof) else (f', .whole (stripEOL l))

/-- utils.go `readBufioLine`: `for isprefix { buf, isprefix, err = reader.ReadLine(); … append }`. -/
def readBufioLineLoop (R : Nat) : Nat → LFile → Bytes → LFile × Bytes × FillRes
  | 0, f, acc => (f, acc, .err)         -- unreachable with `lineFuel` (see Proofs)
  | fuel + 1, f, acc =>
    match brReadLine R f with
    | (f', .part l) => readBufioLineLoop R fuel f' (acc ++ l)
    | (f', .whole l) => (f', acc ++ l, .got)
    | (f', .eof) => (f', acc, .eof)
    | (f', .err) => (f', acc, .err)

/-- fuel: every `part` consumes at least `R - 1 ≥ 1` bytes of what is left. -/
def lineFuel (f : LFile) : Nat := f.rbuf.length + (f.disk.length - f.off) + 2

def readBufioLine (R : Nat) (f : LFile) : LFile × ReadOut :=
  match readBufioLineLoop R (lineFuel f) f [] with
  | (f', _, .err) => (f', .err)
  | (f', acc, .eof) => if acc = [] then (f', .eof) else (f', .val acc)
  | (f', acc, .got) => (f', .val acc)

/-- `io.ReadAll(file.reader)`: everything buffered, then everything up to the end of the file. -/
def readAll (f : LFile) : LFile × ReadOut :=
  if !f.rd ∨ f.closed then (f, .err)
  else ({ f with rbuf := [], off := max f.off f.disk.length }, .val (f.rbuf ++ f.disk.drop f.off))

/-! ### `*n`: utils.go `readBufioNumber(file.reader)` (fixes/C19-6) and `parseNumber` / `luaNumeralBase`

  The reader looks at one byte with `reader.Peek(1)` and consumes it with `reader.Discard(1)`, so the cursor ends
  exactly behind the last byte it accepted. -/

/-- what `peek()` reports: a byte, or `more = false` (end of file; or a read error, remembered in `err`) -/
inductive PeekRes where
  | byte (c : UInt8)
  | eof
  | err
deriving DecidableEq, Repr, Inhabited

/-- `reader.Peek(1)`: `for b.w-b.r < 1 && … && b.err == nil { b.fill() }` — one fill when nothing is buffered. -/
def brPeekByte (R : Nat) (f : LFile) : LFile × PeekRes :=
  match f.rbuf with
  | c :: _ => (f, .byte c)
  | [] =>
    match brFill R f with
    | (f', .got) => (f', match f'.rbuf with | c :: _ => .byte c | [] => .eof)
    | (f', .eof) => (f', .eof)
    | (f', .err) => (f', .err)

/-- the state of `readBufioNumber`: the reader, `tok`, and whether `err` was set by a `peek` -/
structure NScan where
  f : LFile
  tok : Bytes := []
  ioerr : Bool := false
deriving DecidableEq, Repr, Inhabited

/-- `accept(pred)`: `if c, more := peek(); more && pred(c) { tok = append(tok, c); reader.Discard(1); return true }` -/
def nAccept (R : Nat) (pred : UInt8 → Bool) (s : NScan) : NScan × Bool :=
  match brPeekByte R s.f with
  | (f', .byte c) =>
    if pred c then ({ s with f := { f' with rbuf := f'.rbuf.drop 1 }, tok := s.tok ++ [c] }, true)
    else ({ s with f := f' }, false)
  | (f', .eof) => ({ s with f := f' }, false)
  | (f', .err) => ({ s with f := f', ioerr := true }, false)

/-- `for accept(pred) { n++ }`: the state and how many bytes were accepted -/
def nAcceptMany (R : Nat) (pred : UInt8 → Bool) : Nat → NScan → NScan × Nat
  | 0, s => (s, 0)                              -- unreachable with `scanFuel`
  | fuel + 1, s =>
    match nAccept R pred s with
    | (s', true) => let r := nAcceptMany R pred fuel s'; (r.1, r.2 + 1)
    | (s', false) => (s', 0)

/-- `c != ' ' && (c < '\t' || c > '\r')` negated: `isspace` of the "C" locale -/
def isBlankB (c : UInt8) : Bool := !(c != 32 && (c < 9 || c > 13))
def isSignB (c : UInt8) : Bool := c == 43 || c == 45
def isDecB (c : UInt8) : Bool := 48 ≤ c && c ≤ 57
def isHexB (c : UInt8) : Bool := isDecB c || (97 ≤ (c ||| 0x20) && (c ||| 0x20) ≤ 102)
def isZeroB (c : UInt8) : Bool := c == 48
def isXB (c : UInt8) : Bool := c == 120 || c == 88
def isDotB (c : UInt8) : Bool := c == 46
def isEB (c : UInt8) : Bool := c == 101 || c == 69

/-- the white-space loop: `true` = a byte that is not white space is next, `false` = no more input -/
def nSkipBlanks (R : Nat) : Nat → NScan → NScan × Bool
  | 0, s => (s, false)                          -- unreachable with `scanFuel`
  | fuel + 1, s =>
    match brPeekByte R s.f with
    | (f', .byte c) =>
      if isBlankB c then nSkipBlanks R fuel { s with f := { f' with rbuf := f'.rbuf.drop 1 } }
      else ({ s with f := f' }, true)
    | (f', .eof) => ({ s with f := f' }, false)
    | (f', .err) => ({ s with f := f', ioerr := true }, false)

/-- utils.go `luaNumeralBase(s)`: 10 for `[+-] digits [. digits] [e [+-] digits]` with a mantissa digit, 16 for
    `[+-] 0x hexdigits`, 0 otherwise. -/
def stripSignB : Bytes → Bytes
  | c :: r => if c = 43 ∨ c = 45 then r else c :: r
  | [] => []

/-- `if i < len(s) && s[i] == '.' { for i++; isDec(s[i]); i++ { nd++ } }`: digits of the fraction, what is left -/
def fracDigits : Bytes → Nat × Bytes
  | c :: t => if c = 46 then ((t.takeWhile isDecB).length, t.dropWhile isDecB) else (0, c :: t)
  | [] => (0, [])

/-- `i < len(s) && (s[i] == 'e' || s[i] == 'E')` -/
def startsE : Bytes → Bool
  | c :: _ => c == 101 || c == 69
  | [] => false

def luaNumeralDec (s1 : Bytes) : Nat :=
  let nd2 := (s1.takeWhile isDecB).length + (fracDigits (s1.dropWhile isDecB)).1
  let r2 := (fracDigits (s1.dropWhile isDecB)).2
  -- if nd > 0 && (e|E) { sign?; nd = number of exponent digits }
  let hasE : Bool := decide (nd2 > 0) && startsE r2
  let nd3 := if hasE then ((stripSignB (r2.drop 1)).takeWhile isDecB).length else nd2
  let r3 := if hasE then (stripSignB (r2.drop 1)).dropWhile isDecB else r2
  if nd3 = 0 ∨ r3 ≠ [] then 0 else 10

/-- `len(s) > i+2 && s[i] == '0' && (s[i+1] == 'x' || s[i+1] == 'X')` -/
def isHexPrefix : Bytes → Bool
  | z :: x :: _ :: _ => z == 48 && (x == 120 || x == 88)
  | _ => false

def luaNumeralBase (s : Bytes) : Nat :=
  if isHexPrefix (stripSignB s) then (if ((stripSignB s).drop 2).all isHexB then 16 else 0)
  else luaNumeralDec (stripSignB s)

/-- `parseNumber(string(tok))` succeeds iff the token is a Lua numeral: `strconv.ParseFloat` accepts every string of
    that grammar (hex: with "p0" appended), and `ErrRange` is tolerated (±Inf).  The VALUE is ParseFloat's (trusted;
    checked per observation by the engine). -/
def parseNumberOk (tok : Bytes) : Bool := luaNumeralBase tok ≠ 0

/-- fuel for the loops of the reader: every round consumes at least one byte of what is left. -/
def scanFuel (f : LFile) : Nat := f.rbuf.length + (f.disk.length - f.off) + 2

/-- `if accept('0') { nd = 1; hex = accept(xX) }`: state, nd, hex -/
def nZeroX (R : Nat) (s : NScan) : NScan × Nat × Bool :=
  match nAccept R isZeroB s with
  | (s1, true) => ((nAccept R isXB s1).1, 1, (nAccept R isXB s1).2)
  | (s1, false) => (s1, 0, false)

/-- `for accept(isDec) { nd++ }; if accept('.') { for accept(isDec) { nd++ } }`: state, digits accepted -/
def nMantissa (R : Nat) (fuel : Nat) (s : NScan) : NScan × Nat :=
  match nAccept R isDotB (nAcceptMany R isDecB fuel s).1 with
  | (s1, true) => ((nAcceptMany R isDecB fuel s1).1, (nAcceptMany R isDecB fuel s).2 + (nAcceptMany R isDecB fuel s1).2)
  | (s1, false) => (s1, (nAcceptMany R isDecB fuel s).2)

/-- `accept(eE) { accept(isSign); for accept(isDec) {} }` -/
def nExponent (R : Nat) (fuel : Nat) (s : NScan) : NScan :=
  match nAccept R isEB s with
  | (s1, true) => (nAcceptMany R isDecB fuel (nAccept R isSignB s1).1).1
  | (s1, false) => s1

/-- the token part of `readBufioNumber`, after the white space -/
def nToken (R : Nat) (fuel : Nat) (s : NScan) : NScan :=
  match nZeroX R (nAccept R isSignB s).1 with                -- accept(isSign); if accept('0') { … }
  | (s2, _, true) => (nAcceptMany R isHexB fuel s2).1       -- if hex { for accept(isHex) {} }
  | (s2, nd0, false) =>
    -- an exponent only after a mantissa digit: `if nd > 0 && accept(eE) { … }`
    if nd0 + (nMantissa R fuel s2).2 > 0 then nExponent R fuel (nMantissa R fuel s2).1 else (nMantissa R fuel s2).1

/-- `readBufioNumber`: (reader afterwards, the numeral | no numeral | I/O error) -/
def readBufioNumber (R : Nat) (f : LFile) : LFile × ReadOut :=
  let fuel := scanFuel f
  match nSkipBlanks R fuel { f := f } with
  | (s1, false) => (s1.f, if s1.ioerr then .err else .eof)
  | (s1, true) =>
    let s2 := nToken R fuel s1
    if s2.ioerr then (s2.f, .err)
    else if parseNumberOk s2.tok then (s2.f, .val s2.tok) else (s2.f, .eof)

/-! ### bufio.Writer -/

/-- `(*bufio.Writer).Write(p)` for a writer of `size` holding `pend`:
    `for len(p) > b.Available() { if b.Buffered() == 0 { direct write } else { copy; Flush } }; copy`. -/
def bwWrite (f : LFile) (size : Nat) (pend p : Bytes) : Except IOErr (LFile × Bytes) :=
  if p.length ≤ size - pend.length then .ok (f, pend ++ p)
  else if pend = [] then (osWrite f p).map (·, [])
  else
    let n := size - pend.length
    match osWrite f (pend ++ p.take n) with
    | .error e => .error e
    | .ok f1 =>
      let p' := p.drop n
      if p'.length > size then (osWrite f1 p').map (·, [])
      else .ok (f1, p')

/-- iolib.go `(*lFile).flushWriter` (added by fixes/C19-2): write out what a buffered writer holds. -/
def flushWriter (f : LFile) : Except IOErr LFile :=
  match f.writer with
  | .buffered size pend =>
    if pend = [] then .ok f
    else (osWrite f pend).map fun f' => { f' with writer := .buffered size [] }
  | _ => .ok f

/-- iolib.go `(*lFile).AbandonReadBuffer`: seek back by `Buffered()`, fresh reader. -/
def abandonReadBuffer (f : LFile) : Except IOErr LFile :=
  if f.hasReader then
    match osSeek f .cur (-(f.rbuf.length : Int)) with
    | .ok (f', _) => .ok { f' with rbuf := [] }
    | .error e => .error e
  else .ok f

/-- ignore the error of AbandonReadBuffer, as fileWriteAux / fileCloseAux do. -/
def abandonIgnore (f : LFile) : LFile :=
  match abandonReadBuffer f with
  | .ok f' => f'
  | .error _ => f

/-! ### the Lua-visible functions -/

/-- `fileWriteAux` (one string argument). -/
def fileWriteAux (f : LFile) (s : Bytes) : LFile × Res :=
  if f.closed then (f, .raise)                      -- errorIfFileIsClosed (first, fixes/C19-3)
  else match f.writer with
  | .none => (f, .fail)                             -- fileIsWritable
  | .direct =>
    match osWrite f s with
    | .ok f' => (abandonIgnore f', .ok)
    | .error _ => (abandonIgnore f, .fail)
  | .buffered size pend =>
    match bwWrite f size pend s with
    | .ok (f', pend') => (abandonIgnore { f' with writer := .buffered size pend' }, .ok)
    | .error _ => (abandonIgnore f, .fail)

/-- one format of `fileReadAux`.  `case 'n'` (fixes/C19-6): `readBufioNumber`; no numeral or end of file pushes nil
    and returns normally (the earlier results stay), only an I/O error is `errreturn`.  `str s` here is what is left of
    a format string after `expandFmt`: `L.ArgError(i, "invalid format")`. -/
def readOne (R : Nat) (f : LFile) : Fmt → LFile × ReadOut
  | .count 0 =>
    match peekEOF R f with
    | (f', .eof) => (f', .eof)
    | (f', _) => readBufioSize R f' 0
  | .count n => readBufioSize R f n
  | .line => readBufioLine R f
  | .all => readAll f
  | .num => readBufioNumber R f
  | .str _ => (f, .raise)

/-- `case LString:` of fileReadAux (fixes/C19-7, as liolib's g_read): `len(options) < 2 || options[0] != '*'` →
    ArgError; otherwise ONLY the byte after the star selects the format ("*l", "*line"); an unknown letter → ArgError. -/
def optFmt (o : UInt8) : Fmt :=
  if o = 110 then .num else if o = 97 then .all else if o = 108 then .line else .str [o]

def expandFmt : Fmt → List Fmt
  | .str (a :: c :: r) => if a = 42 then [optFmt c] else [.str (a :: c :: r)]
  | f => [f]

/-- how the format loop ended -/
inductive RStat where
  | done       -- normalreturn
  | err        -- errreturn: nil, message, 1
  | raise      -- a Lua error (ArgError)
deriving DecidableEq, Repr, Inhabited

/-- the format loop of `fileReadAux`: pushes values; nil ends the call (what was pushed stays: `normalreturn`); an
    I/O error returns (nil, msg, 1) — modelled as `fail`. -/
def readLoop (R : Nat) (f : LFile) : List Fmt → LFile × List (Option Bytes) × RStat
  | [] => (f, [], .done)
  | fm :: fs =>
    match readOne R f fm with
    | (f', .eof) => (f', [none], .done)
    | (f', .err) => (f', [], .err)
    | (f', .raise) => (f', [], .raise)
    | (f', .val v) => let r := readLoop R f' fs; (r.1, some v :: r.2.1, r.2.2)

def fileReadAux (R : Nat) (f : LFile) (fs : List Fmt) : LFile × Res :=
  if f.closed then (f, .raise)
  else if !f.hasReader then (f, .fail)              -- fileIsReadable
  else match flushWriter f with                     -- fixes/C19-2
  | .error _ => (f, .fail)
  | .ok f1 =>
    let r := readLoop R f1 ((if fs = [] then [.line] else fs).flatMap expandFmt)
    match r.2.2 with
    | .done => (r.1, .vals r.2.1)
    | .err => (r.1, .fail)
    | .raise => (r.1, .raise)

/-- `fileLines` -/
def fileLines (f : LFile) : LFile × Res :=
  if f.closed then (f, .raise)                      -- fixes/C19-3
  else if !f.hasReader then (f, .nothing)
  else (f, .ok)

/-- `fileLinesIter` (fixes/C19-3: closed check, C19-2: flushWriter, C19-4: readBufioLine). -/
def fileLinesIter (R : Nat) (f : LFile) : LFile × Res :=
  if f.closed then (f, .raise)
  else
    let f1 := match flushWriter f with | .ok g => g | .error _ => f
    match readBufioLine R f1 with
    | (f2, .eof) => (f2, .vals [none])
    | (f2, .val v) => (f2, .vals [some v])
    | (f2, _) => (f2, .raise)

/-- `fileSeek` -/
def fileSeek (f : LFile) (w : Whence) (d : Int) : LFile × Res :=
  if f.closed then (f, .raise)                      -- fixes/C19-3
  else match flushWriter f with                     -- fixes/C19-2
  | .error _ => (f, .fail)
  | .ok f1 =>
    match abandonReadBuffer f1 with
    | .error _ => (f1, .fail)
    | .ok f2 =>
      match osSeek f2 w d with
      | .ok (f3, p) => (f3, .pos p)
      | .error _ => (f2, .fail)

/-- `fileFlushAux` (fixes/C19-1: AbandonReadBuffer after the flush). -/
def fileFlushAux (f : LFile) : LFile × Res :=
  if f.closed then (f, .raise)
  else match f.writer with
  | .none => (f, .fail)
  | _ =>
    match flushWriter f with
    | .error _ => (f, .fail)
    | .ok f1 =>
      match abandonReadBuffer f1 with
      | .ok f2 => (f2, .ok)
      | .error _ => (f1, .fail)

/-- bufio.NewWriterSize: `size <= 0` means the default (4096); `L.OptInt(3, fileDefaultWriteBuffer)`. -/
def writerSize (n : Nat) : Nat := if n = 0 then Generated.fileDefaultWriteBuffer else n

/-- `fileSetVBuf` -/
def fileSetVBuf (f : LFile) (m : VBuf) (size : Nat) : LFile × Res :=
  if f.closed then (f, .raise)                      -- fixes/C19-3
  else match f.writer with
  | .none => (f, .fail)
  | _ =>
    match flushWriter f with                        -- fixes/C19-2
    | .error _ => (f, .fail)
    | .ok f1 =>
      match m with
      | .no => ({ f1 with writer := .direct }, .ok)
      | .full | .line => ({ f1 with writer := .buffered (writerSize size) [] }, .ok)

/-- `fileCloseAux`: closed := true; flush a buffered writer; AbandonReadBuffer (error ignored); fp.Close(). -/
def fileCloseAux (f : LFile) : LFile × Res :=
  match flushWriter f with
  | .error _ => ({ f with closed := true }, .raise)
  | .ok f1 =>
    let f2 := abandonIgnore f1
    if f2.closed then (f2, .raise)      -- fp.Close() on a closed descriptor: os.ErrClosed → RaiseError
    else ({ f2 with closed := true }, .ok)

/-- `ioOpenFile` mode table → `os.OpenFile` flags and the reader/writer of `newFile`.
    (fixes/C19-5: mode "a" is not readable; the unchanged code left `readable = true` there, giving the handle a
    reader over a write-only descriptor — `Unfixed.ioOpenFile`.) -/
def ioOpenFile (disk : Bytes) (m : Mode) : LFile :=
  let base : LFile := { disk := disk, off := 0 }
  match m with
  | .r  => { base with wr := false, writer := .none }
  | .w  => { base with disk := [], rd := false, hasReader := false }
  | .a  => { base with rd := false, hasReader := false, app := true }
  | .rp => base
  | .wp => { base with disk := [] }
  | .ap => { base with app := true }

/-- one operation of a history on the handle. -/
def step (R : Nat) (f : LFile) : Op → LFile × Res
  | .write s => fileWriteAux f s
  | .read fs => fileReadAux R f fs
  | .lines => fileLines f
  | .iter => fileLinesIter R f
  | .seek w d => fileSeek f w d
  | .flush => fileFlushAux f
  | .setvbuf m n => fileSetVBuf f m n
  | .close => fileCloseAux f
  | .reopen m => (ioOpenFile f.disk m, .ok)

def run (R : Nat) (f : LFile) : List Op → LFile × List Res
  | [] => (f, [])
  | o :: os => let (f', r) := step R f o; let (f'', rs) := run R f' os; (f'', r :: rs)


/-! ### the `io` library functions: default files, `io.lines`, `io.type`, `tostring`

  The upvalue table of the `io` functions holds the default output and input handles (`fileDefOutIndex`,
  `fileDefInIndex`).  One file, one handle at a time: a slot holds stdin/stdout (`std`, not modelled), the
  current handle, or an earlier handle of the file (`stale`) — which is closed, so that by `closed_handle_guard`
  every function raises on it and changes nothing; its state is therefore not kept. -/

structure World where
  f : LFile := {}
  defIn : Slot := .std
  defOut : Slot := .std
deriving DecidableEq, Repr, Inhabited

def World.newHandle (w : World) (f' : LFile) (setIn setOut : Bool) : World :=
  { f := f', defIn := if setIn then .cur else w.defIn.age, defOut := if setOut then .cur else w.defOut.age }

def World.onSlot (R : Nat) (w : World) (sl : Slot) (op : Op) : World × Res :=
  match sl with
  | .cur => ({ w with f := (step R w.f op).1 }, (step R w.f op).2)
  | .stale => (w, .raise)
  | .std => (w, .nothing)

/-- `ioLinesIter`: the handle is the first argument (iterator made by `io.lines()`; `toclose = false`) or the
    second upvalue (made by `io.lines(path)`; `toclose = true`: `fileCloseAux` at the end of the file).
    (On a handle without a reader — `io.input(f)` with a write-only `f` — `readBufioLine(nil)` is a nil-pointer
    panic, recovered as a Lua error; the model's `readBufioLine` fails with EBADF there: `raise` either way.) -/
def ioLinesIter (R : Nat) (f : LFile) (toclose : Bool) : LFile × Res :=
  if f.closed then (f, .raise)
  else
    let f1 := match flushWriter f with | .ok g => g | .error _ => f
    match readBufioLine R f1 with
    | (f2, .eof) =>
      if toclose then
        match fileCloseAux f2 with
        | (f3, .raise) => (f3, .raise)
        | (f3, _) => (f3, .vals [none])
      else (f2, .vals [none])
    | (f2, .val v) => (f2, .vals [some v])
    | (f2, _) => (f2, .raise)

/-- `ioOutput(name)` (fixes/C19-8): `newFile(L, nil, name, os.O_WRONLY|os.O_TRUNC|os.O_CREATE, 0600, true, false)`. -/
def ioOutputFile (_disk : Bytes) : LFile :=
  { disk := [], off := 0, rd := false, hasReader := false }

def wstep (R : Nat) (w : World) : WOp → World × Res
  | .h (.reopen m) => (w.newHandle (ioOpenFile w.f.disk m) false false, .ok)
  | .h op => w.onSlot R .cur op
  | .ioInput => if w.f.closed then (w, .raise) else ({ w with defIn := .cur }, .ok)    -- errorIfFileIsClosed (fixes/C19-9)
  | .ioOutput => if w.f.closed then (w, .raise) else ({ w with defOut := .cur }, .ok)
  | .ioInputName => (w.newHandle (ioOpenFile w.f.disk .r) true false, .ok)
  | .ioOutputName => (w.newHandle (ioOutputFile w.f.disk) false true, .ok)
  | .ioLinesName => (w.newHandle (ioOpenFile w.f.disk .r) false false, .ok)
  | .ioRead fs => w.onSlot R w.defIn (.read fs)         -- fileReadAux(L, fileDefIn(L), 1)
  | .ioWrite d => w.onSlot R w.defOut (.write d)        -- fileWriteAux(L, fileDefOut(L), 1)
  | .ioFlush => w.onSlot R w.defOut .flush              -- fileFlushAux(L, fileDefOut(L))
  | .ioClose => w.onSlot R w.defOut .close              -- fileCloseAux(L, fileDefOut(L))
  | .ioLines =>                                         -- ioLines, no argument: closed check (fixes/C19-9), then (iterator, fileDefIn)
    match w.defIn with
    | .std => (w, .nothing)
    | .stale => (w, .raise)
    | .cur => if w.f.closed then (w, .raise) else (w, .ok)
  | .ioIter auto => ({ w with f := (ioLinesIter R w.f auto).1 }, (ioLinesIter R w.f auto).2)
  | .ioType => (w, .vals [some (if w.f.closed then FileSpec.strClosedFile else FileSpec.strFile)])
  | .toStr => (w, .vals [some (if w.f.closed then FileSpec.strFileClosed else FileSpec.strFile)])

def wrun (R : Nat) (w : World) : List WOp → World × List Res
  | [] => (w, [])
  | o :: os => let r := wstep R w o; let rs := wrun R r.1 os; (rs.1, r.2 :: rs.2)

/-- the buffer size of the real code. -/
def R0 : Nat := Generated.fileDefaultReadBuffer

/-- logical cursor of a handle: OS offset − read-ahead (+ what a buffered writer still holds). -/
def cursor (f : LFile) : Nat := f.off - f.rbuf.length

/-! ### the unchanged functions (before fixes/C19-*.diff), kept for the negation theorems -/
namespace Unfixed

/-- `fileFlushAux` of the unchanged tree: no AbandonReadBuffer. -/
def fileFlushAux (f : LFile) : LFile × Res :=
  match f.writer with
  | .none => (f, .fail)
  | _ =>
    if f.closed then (f, .raise)
    else match flushWriter f with
    | .error _ => (f, .fail)
    | .ok f1 => (f1, .ok)

/-- `fileSeek` of the unchanged tree: no closed check, the buffered writer is not flushed. -/
def fileSeek (f : LFile) (w : Whence) (d : Int) : LFile × Res :=
  match abandonReadBuffer f with
  | .error _ => (f, .fail)
  | .ok f2 =>
    match osSeek f2 w d with
    | .ok (f3, p) => (f3, .pos p)
    | .error _ => (f2, .fail)

/-- `fileSetVBuf` of the unchanged tree: no closed check, pending bytes of the old writer are dropped. -/
def fileSetVBuf (f : LFile) (m : VBuf) (size : Nat) : LFile × Res :=
  match f.writer with
  | .none => (f, .fail)
  | _ =>
    match m with
    | .no => ({ f with writer := .direct }, .ok)
    | .full => ({ f with writer := .buffered (writerSize size) [] }, .ok)
    | .line => (f, .raise)     -- "line" is missing from filebufOptions: CheckOption raises

/-- `fileReadAux` of the unchanged tree: the buffered writer is not flushed before reading. -/
def fileReadAux (R : Nat) (f : LFile) (fs : List Fmt) : LFile × Res :=
  if !f.hasReader then (f, .fail)
  else if f.closed then (f, .raise)
  else
    let r := readLoop R f ((if fs = [] then [.line] else fs).flatMap expandFmt)
    match r.2.2 with
    | .done => (r.1, .vals r.2.1)
    | .err => (r.1, .fail)
    | .raise => (r.1, .raise)

/-- `fileLinesIter` of the unchanged tree: a single `ReadLine()`, the prefix flag ignored. -/
def fileLinesIter (R : Nat) (f : LFile) : LFile × Res :=
  match brReadLine R f with
  | (f2, .eof) => (f2, .vals [none])
  | (f2, .err) => (f2, .raise)
  | (f2, .part l) => (f2, .vals [some l])
  | (f2, .whole l) => (f2, .vals [some l])

/-- `ioOpenFile` of the unchanged tree: mode "a" keeps a reader. -/
def ioOpenFile (disk : Bytes) (m : Mode) : LFile :=
  match m with
  | .a => { disk := disk, off := 0, rd := false, app := true }
  | m => IoFile.ioOpenFile disk m

/-- `fileWriteAux` of the unchanged tree: fileIsWritable is consulted before errorIfFileIsClosed. -/
def fileWriteAux (f : LFile) (s : Bytes) : LFile × Res :=
  match f.writer with
  | .none => (f, .fail)
  | _ => IoFile.fileWriteAux f s

def step (R : Nat) (f : LFile) : Op → LFile × Res
  | .write s => fileWriteAux f s
  | .read fs => fileReadAux R f fs
  | .lines => if !f.hasReader then (f, .nothing) else (f, .ok)
  | .iter => fileLinesIter R f
  | .seek w d => fileSeek f w d
  | .flush => fileFlushAux f
  | .setvbuf m n => fileSetVBuf f m n
  | .close => fileCloseAux f
  | .reopen m => (ioOpenFile f.disk m, .ok)

def run (R : Nat) (f : LFile) : List Op → LFile × List Res
  | [] => (f, [])
  | o :: os => let (f', r) := step R f o; let (f'', rs) := run R f' os; (f'', r :: rs)

end Unfixed

end GLua.IoFile
