/-
  Model of /repo/iolib.go `lFile` (regular files) and of the read helpers of /repo/utils.go, function by
  function:

      lFile  =  one OS descriptor (disk bytes, offset, O_APPEND, access mode)
              + `reader *bufio.Reader` : `rbuf` = its unread buffered bytes (the read-ahead; a SNAPSHOT of
                 what was on disk when it was read, not a view), buffer size `R` (= fileDefaultReadBuffer,
                 a parameter of every function so that theorems hold for every buffer size)
              + `writer io.Writer`     : nil | the descriptor itself | a `bufio.Writer` (size, pending bytes)
              + `closed`

  The code modelled is iolib.go WITH the proposed fixes fixes/C19-*.diff applied (BUILDER.md: "the Model
  describes the code as it will be").  `Unfixed.*` at the end keeps the transcription of the unchanged
  functions; Props/C19.lean proves from them that the unchanged tree violates the property.

  What is trusted (DESIGN §4.5): the OS (`read/write/lseek`, O_APPEND), `bufio.Reader` and `bufio.Writer`
  — modelled below at the granularity "which OS calls are made with which sizes, which bytes stay buffered";
  `io.ReadAll` (= everything up to end of file); `fmt.Fscanf` (`*n`, not modelled).
  The vocabulary `Op`/`Res` is shared with the Spec (GLua/Spec/File.lean); nothing else is.
-/
import GLua.Spec.File
import GLua.Generated.Consts

namespace GLua.IoFile
open GLua.FileSpec (Bytes Fmt Whence VBuf Mode Op Res)

inductive IOErr where
  | ebadf      -- descriptor not open for this access
  | einval     -- negative resulting offset
  | eclosed    -- os.ErrClosed ("file already closed")
deriving DecidableEq, Repr, Inhabited

/-- `file.writer` -/
inductive Writer where
  | none                                   -- nil: not writable
  | direct                                 -- the *os.File itself (unbuffered)
  | buffered (size : Nat) (pend : Bytes)   -- *bufio.Writer
deriving DecidableEq, Repr, Inhabited

structure LFile where
  disk : Bytes := []          -- content of the OS file
  off : Nat := 0              -- offset of the descriptor
  app : Bool := false         -- O_APPEND
  rd : Bool := true           -- descriptor has read access
  wr : Bool := true           -- descriptor has write access
  hasReader : Bool := true    -- file.reader != nil
  rbuf : Bytes := []          -- bufio.Reader: buffered, not yet delivered
  writer : Writer := .direct
  closed : Bool := false      -- file.closed (fp.Close() happens in the same function)
deriving DecidableEq, Repr, Inhabited

/-! ### the OS descriptor -/

/-- `fp.Read(buf)` with `len(buf) = k`: at most `k` bytes at the offset; `[]` with `k > 0` is io.EOF. -/
def osRead (f : LFile) (k : Nat) : Except IOErr (LFile × Bytes) :=
  if f.closed then .error .eclosed
  else if !f.rd then .error .ebadf
  else
    let d := (f.disk.drop f.off).take k
    .ok ({ f with off := f.off + d.length }, d)

/-- content after `pwrite(p, pos)`; a gap past the end is zero-filled by the OS. -/
def diskWrite (disk : Bytes) (pos : Nat) (p : Bytes) : Bytes :=
  disk.take pos ++ List.replicate (pos - disk.length) 0 ++ p ++ disk.drop (pos + p.length)

/-- `fp.Write(p)`: at the offset, or at the end with O_APPEND; a zero-length write does nothing. -/
def osWrite (f : LFile) (p : Bytes) : Except IOErr LFile :=
  if f.closed then .error .eclosed
  else if !f.wr then .error .ebadf
  else if p = [] then .ok f
  else
    let pos := if f.app then f.disk.length else f.off
    .ok { f with disk := diskWrite f.disk pos p, off := pos + p.length }

/-- `fp.Seek(d, whence)` -/
def osSeek (f : LFile) (w : Whence) (d : Int) : Except IOErr (LFile × Nat) :=
  if f.closed then .error .eclosed
  else
    let base : Int := match w with
      | .set => 0
      | .cur => f.off
      | .«end» => f.disk.length
    let np := base + d
    if np < 0 then .error .einval else .ok ({ f with off := np.toNat }, np.toNat)

/-! ### bufio.Reader (size `R`) over the descriptor -/

/-- outcome of `b.fill()`: bytes arrived | b.err = io.EOF | b.err = an OS error -/
inductive FillRes where
  | got | eof | err
deriving DecidableEq, Repr, Inhabited

/-- `b.fill()`: ONE read of the free space of the buffer, appended to the buffered bytes. -/
def brFill (R : Nat) (f : LFile) : LFile × FillRes :=
  match osRead f (R - f.rbuf.length) with
  | .ok (f', d) => ({ f' with rbuf := f.rbuf ++ d }, if d = [] then .eof else .got)
  | .error _ => (f, .err)

/-- result of `Reader.Read(p)`, `len(p) = k > 0`. -/
inductive RdRes where
  | data (d : Bytes)      -- n > 0, err == nil
  | eof                   -- 0, io.EOF
  | err (e : IOErr)
deriving DecidableEq, Repr, Inhabited

/-- `(*bufio.Reader).Read(p)` with `len(p) = k`, `k > 0`. -/
def brRead (R : Nat) (f : LFile) (k : Nat) : LFile × RdRes :=
  if f.rbuf = [] then
    if k ≥ R then
      -- large read, empty buffer: read directly into p
      match osRead f k with
      | .ok (f', d) => if d = [] then (f', .eof) else (f', .data d)
      | .error e => (f, .err e)
    else
      -- one read of the whole buffer
      match osRead f R with
      | .ok (f', d) =>
        if d = [] then (f', .eof)
        else ({ f' with rbuf := d.drop k }, .data (d.take k))
      | .error e => (f, .err e)
  else
    -- copy as much as we can
    ({ f with rbuf := f.rbuf.drop k }, .data (f.rbuf.take k))

/-- utils.go `readBufioSize(reader, size)`: loop `for read != size` calling `reader.Read(make([]byte, size-read))`,
    `break` on error.  Returns (result, err, iseof).  `fuel` bounds the loop (each round delivers ≥ 1 byte
    or ends it, so `size` rounds suffice; running out is reported as a Go-level hang). -/
def readBufioSizeLoop (R : Nat) : Nat → LFile → Nat → Bytes → LFile × Bytes × Option RdRes
  | 0, f, _, acc => (f, acc, some (.err .einval))      -- unreachable (see `readBufioSize_fuel`)
  | fuel + 1, f, need, acc =>
    if need = 0 then (f, acc, none)
    else
      match brRead R f need with
      | (f', .data d) => readBufioSizeLoop R fuel f' (need - d.length) (acc ++ d)
      | (f', r) => (f', acc, some r)

inductive ReadOut where
  | val (d : Bytes)     -- push a string
  | eof                 -- push nil, normal return
  | err                 -- goto errreturn (nil, message, 1)
deriving DecidableEq, Repr, Inhabited

def readBufioSize (R : Nat) (f : LFile) (size : Nat) : LFile × ReadOut :=
  match readBufioSizeLoop R (size + 1) f size [] with
  | (f', acc, none) => (f', .val acc)
  | (f', acc, some .eof) => if acc = [] then (f', .eof) else (f', .val acc)
  | (f', acc, some (.data _)) => (f', .val acc)
  | (f', _, some (.err _)) => (f', .err)

/-- the `size == 0` prologue of fileReadAux: `ReadByte`; on EOF push nil; otherwise `UnreadByte`.
    Net effect on the reader: an empty buffer is filled, nothing is consumed. -/
def peekEOF (R : Nat) (f : LFile) : LFile × ReadOut :=
  if f.rbuf ≠ [] then (f, .val [])
  else
    match osRead f R with
    | .ok (f', d) => if d = [] then (f', .eof) else ({ f' with rbuf := d }, .val [])
    | .error _ => (f, .val [])   -- ReadByte's error is not io.EOF: falls through to readBufioSize(reader, 0) = ""

/-- index of the first `\n` -/
def nlIndex : Bytes → Option Nat
  | [] => none
  | c :: r => if c = 10 then some 0 else (nlIndex r).map (· + 1)

/-- result of `ReadSlice('\n')` -/
inductive SliceRes where
  | line (l : Bytes)          -- ends with '\n', err == nil
  | full (l : Bytes)          -- ErrBufferFull: the whole buffer, no '\n'
  | atEof (l : Bytes) (isErr : Bool)   -- pending error (io.EOF, or an OS error if `isErr`): whatever was buffered
deriving DecidableEq, Repr, Inhabited

/-- `(*bufio.Reader).ReadSlice('\n')`: search; pending error?; buffer full?; fill; again. -/
def brReadSlice (R : Nat) : Nat → LFile → LFile × SliceRes
  | 0, f => (f, .atEof [] true)    -- unreachable with fuel R + 1: every successful fill grows the buffer (Proofs: brReadSlice_spec)
  | fuel + 1, f =>
    match nlIndex f.rbuf with
    | some i => ({ f with rbuf := f.rbuf.drop (i + 1) }, .line (f.rbuf.take (i + 1)))
    | none =>
      if f.rbuf.length ≥ R then ({ f with rbuf := [] }, .full f.rbuf)
      else
        match brFill R f with
        | (f', .got) => brReadSlice R fuel f'
        | (f', .eof) => ({ f' with rbuf := [] }, .atEof f'.rbuf false)
        | (f', .err) => ({ f' with rbuf := [] }, .atEof f'.rbuf true)

/-- result of `ReadLine()`: (line, isPrefix, err) -/
inductive LineRes where
  | part (l : Bytes)     -- isPrefix = true
  | whole (l : Bytes)    -- isPrefix = false, err == nil
  | eof                  -- len(line) == 0 and err == io.EOF
  | err                  -- len(line) == 0 and another error
deriving DecidableEq, Repr, Inhabited

/-- drop the line terminator as `ReadLine` does: "\n" or "\r\n". -/
def stripEOL (l : Bytes) : Bytes :=
  if l.getLast? = some 10 then
    let l1 := l.dropLast
    if l1.getLast? = some 13 then l1.dropLast else l1
  else l

/-- `(*bufio.Reader).ReadLine()`.  In the ErrBufferFull case a trailing '\r' is put back (`b.r--`). -/
def brReadLine (R : Nat) (f : LFile) : LFile × LineRes :=
  match brReadSlice R (R + 1) f with
  | (f', .full l) =>
    if l.getLast? = some 13 then ({ f' with rbuf := [13] }, .part l.dropLast) else (f', .part l)
  | (f', .line l) => (f', .whole (stripEOL l))
  | (f', .atEof l isErr) =>
    if l = [] then (f', if isErr then .err else .eof) else (f', .whole (stripEOL l))

/-- utils.go `readBufioLine`: `for isprefix { buf, isprefix, err = reader.ReadLine(); … append }`. -/
def readBufioLineLoop (R : Nat) : Nat → LFile → Bytes → LFile × Bytes × FillRes
  | 0, f, acc => (f, acc, .err)         -- unreachable with `lineFuel` (see Proofs)
  | fuel + 1, f, acc =>
    match brReadLine R f with
    | (f', .part l) => readBufioLineLoop R fuel f' (acc ++ l)
    | (f', .whole l) => (f', acc ++ l, .got)
    | (f', .eof) => (f', acc, .eof)
    | (f', .err) => (f', acc, .err)

/-- fuel: every `part` consumes at least `R - 1 ≥ 1` bytes of what is left. -/
def lineFuel (f : LFile) : Nat := f.rbuf.length + (f.disk.length - f.off) + 2

def readBufioLine (R : Nat) (f : LFile) : LFile × ReadOut :=
  match readBufioLineLoop R (lineFuel f) f [] with
  | (f', _, .err) => (f', .err)
  | (f', acc, .eof) => if acc = [] then (f', .eof) else (f', .val acc)
  | (f', acc, .got) => (f', .val acc)

/-- `io.ReadAll(file.reader)`: everything buffered, then everything up to the end of the file. -/
def readAll (f : LFile) : LFile × ReadOut :=
  if !f.rd ∨ f.closed then (f, .err)
  else ({ f with rbuf := [], off := max f.off f.disk.length }, .val (f.rbuf ++ f.disk.drop f.off))

/-! ### bufio.Writer -/

/-- `(*bufio.Writer).Write(p)` for a writer of `size` holding `pend`:
    `for len(p) > b.Available() { if b.Buffered() == 0 { direct write } else { copy; Flush } }; copy`. -/
def bwWrite (f : LFile) (size : Nat) (pend p : Bytes) : Except IOErr (LFile × Bytes) :=
  if p.length ≤ size - pend.length then .ok (f, pend ++ p)
  else if pend = [] then (osWrite f p).map (·, [])
  else
    let n := size - pend.length
    match osWrite f (pend ++ p.take n) with
    | .error e => .error e
    | .ok f1 =>
      let p' := p.drop n
      if p'.length > size then (osWrite f1 p').map (·, [])
      else .ok (f1, p')

/-- iolib.go `(*lFile).flushWriter` (added by fixes/C19-2): write out what a buffered writer holds. -/
def flushWriter (f : LFile) : Except IOErr LFile :=
  match f.writer with
  | .buffered size pend =>
    if pend = [] then .ok f
    else (osWrite f pend).map fun f' => { f' with writer := .buffered size [] }
  | _ => .ok f

/-- iolib.go `(*lFile).AbandonReadBuffer`: seek back by `Buffered()`, fresh reader. -/
def abandonReadBuffer (f : LFile) : Except IOErr LFile :=
  if f.hasReader then
    match osSeek f .cur (-(f.rbuf.length : Int)) with
    | .ok (f', _) => .ok { f' with rbuf := [] }
    | .error e => .error e
  else .ok f

/-- ignore the error of AbandonReadBuffer, as fileWriteAux / fileCloseAux do. -/
def abandonIgnore (f : LFile) : LFile :=
  match abandonReadBuffer f with
  | .ok f' => f'
  | .error _ => f

/-! ### the Lua-visible functions -/

/-- `fileWriteAux` (one string argument). -/
def fileWriteAux (f : LFile) (s : Bytes) : LFile × Res :=
  if f.closed then (f, .raise)                      -- errorIfFileIsClosed (first, fixes/C19-3)
  else match f.writer with
  | .none => (f, .fail)                             -- fileIsWritable
  | .direct =>
    match osWrite f s with
    | .ok f' => (abandonIgnore f', .ok)
    | .error _ => (abandonIgnore f, .fail)
  | .buffered size pend =>
    match bwWrite f size pend s with
    | .ok (f', pend') => (abandonIgnore { f' with writer := .buffered size pend' }, .ok)
    | .error _ => (abandonIgnore f, .fail)

/-- one format of `fileReadAux`. -/
def readOne (R : Nat) (f : LFile) : Fmt → LFile × ReadOut
  | .count 0 =>
    match peekEOF R f with
    | (f', .eof) => (f', .eof)
    | (f', _) => readBufioSize R f' 0
  | .count n => readBufioSize R f n
  | .line => readBufioLine R f
  | .all => readAll f

/-- the format loop of `fileReadAux`: pushes values; nil ends the call; an error discards nothing already
    pushed but returns (nil, msg, 1) — modelled as `fail`. -/
def readLoop (R : Nat) (f : LFile) : List Fmt → LFile × List (Option Bytes) × Bool
  | [] => (f, [], false)
  | fm :: fs =>
    match readOne R f fm with
    | (f', .eof) => (f', [none], false)
    | (f', .err) => (f', [], true)
    | (f', .val v) => let (f'', r, e) := readLoop R f' fs; (f'', some v :: r, e)

def fileReadAux (R : Nat) (f : LFile) (fs : List Fmt) : LFile × Res :=
  if f.closed then (f, .raise)
  else if !f.hasReader then (f, .fail)              -- fileIsReadable
  else match flushWriter f with                     -- fixes/C19-2
  | .error _ => (f, .fail)
  | .ok f1 =>
    let (f2, r, e) := readLoop R f1 (if fs = [] then [.line] else fs)
    if e then (f2, .fail) else (f2, .vals r)

/-- `fileLines` -/
def fileLines (f : LFile) : LFile × Res :=
  if f.closed then (f, .raise)                      -- fixes/C19-3
  else if !f.hasReader then (f, .nothing)
  else (f, .ok)

/-- `fileLinesIter` (fixes/C19-3: closed check, C19-2: flushWriter, C19-4: readBufioLine). -/
def fileLinesIter (R : Nat) (f : LFile) : LFile × Res :=
  if f.closed then (f, .raise)
  else
    let f1 := match flushWriter f with | .ok g => g | .error _ => f
    match readBufioLine R f1 with
    | (f2, .eof) => (f2, .vals [none])
    | (f2, .err) => (f2, .raise)
    | (f2, .val v) => (f2, .vals [some v])

/-- `fileSeek` -/
def fileSeek (f : LFile) (w : Whence) (d : Int) : LFile × Res :=
  if f.closed then (f, .raise)                      -- fixes/C19-3
  else match flushWriter f with                     -- fixes/C19-2
  | .error _ => (f, .fail)
  | .ok f1 =>
    match abandonReadBuffer f1 with
    | .error _ => (f1, .fail)
    | .ok f2 =>
      match osSeek f2 w d with
      | .ok (f3, p) => (f3, .pos p)
      | .error _ => (f2, .fail)

/-- `fileFlushAux` (fixes/C19-1: AbandonReadBuffer after the flush). -/
def fileFlushAux (f : LFile) : LFile × Res :=
  if f.closed then (f, .raise)
  else match f.writer with
  | .none => (f, .fail)
  | _ =>
    match flushWriter f with
    | .error _ => (f, .fail)
    | .ok f1 =>
      match abandonReadBuffer f1 with
      | .ok f2 => (f2, .ok)
      | .error _ => (f1, .fail)

/-- bufio.NewWriterSize: `size <= 0` means the default (4096); `L.OptInt(3, fileDefaultWriteBuffer)`. -/
def writerSize (n : Nat) : Nat := if n = 0 then Generated.fileDefaultWriteBuffer else n

/-- `fileSetVBuf` -/
def fileSetVBuf (f : LFile) (m : VBuf) (size : Nat) : LFile × Res :=
  if f.closed then (f, .raise)                      -- fixes/C19-3
  else match f.writer with
  | .none => (f, .fail)
  | _ =>
    match flushWriter f with                        -- fixes/C19-2
    | .error _ => (f, .fail)
    | .ok f1 =>
      match m with
      | .no => ({ f1 with writer := .direct }, .ok)
      | .full | .line => ({ f1 with writer := .buffered (writerSize size) [] }, .ok)

/-- `fileCloseAux`: closed := true; flush a buffered writer; AbandonReadBuffer (error ignored); fp.Close(). -/
def fileCloseAux (f : LFile) : LFile × Res :=
  match flushWriter f with
  | .error _ => ({ f with closed := true }, .raise)
  | .ok f1 =>
    let f2 := abandonIgnore f1
    if f2.closed then (f2, .raise)      -- fp.Close() on a closed descriptor: os.ErrClosed → RaiseError
    else ({ f2 with closed := true }, .ok)

/-- `ioOpenFile` mode table → `os.OpenFile` flags and the reader/writer of `newFile`.
    (fixes/C19-5: mode "a" is not readable; the unchanged code left `readable = true` there, giving the handle a
    reader over a write-only descriptor — `Unfixed.ioOpenFile`.) -/
def ioOpenFile (disk : Bytes) (m : Mode) : LFile :=
  let base : LFile := { disk := disk, off := 0 }
  match m with
  | .r  => { base with wr := false, writer := .none }
  | .w  => { base with disk := [], rd := false, hasReader := false }
  | .a  => { base with rd := false, hasReader := false, app := true }
  | .rp => base
  | .wp => { base with disk := [] }
  | .ap => { base with app := true }

/-- one operation of a history on the handle. -/
def step (R : Nat) (f : LFile) : Op → LFile × Res
  | .write s => fileWriteAux f s
  | .read fs => fileReadAux R f fs
  | .lines => fileLines f
  | .iter => fileLinesIter R f
  | .seek w d => fileSeek f w d
  | .flush => fileFlushAux f
  | .setvbuf m n => fileSetVBuf f m n
  | .close => fileCloseAux f
  | .reopen m => (ioOpenFile f.disk m, .ok)

def run (R : Nat) (f : LFile) : List Op → LFile × List Res
  | [] => (f, [])
  | o :: os => let (f', r) := step R f o; let (f'', rs) := run R f' os; (f'', r :: rs)

/-- the buffer size of the real code. -/
def R0 : Nat := Generated.fileDefaultReadBuffer

/-- logical cursor of a handle: OS offset − read-ahead (+ what a buffered writer still holds). -/
def cursor (f : LFile) : Nat := f.off - f.rbuf.length

/-! ### the unchanged functions (before fixes/C19-*.diff), kept for the negation theorems -/
namespace Unfixed

/-- `fileFlushAux` of the unchanged tree: no AbandonReadBuffer. -/
def fileFlushAux (f : LFile) : LFile × Res :=
  match f.writer with
  | .none => (f, .fail)
  | _ =>
    if f.closed then (f, .raise)
    else match flushWriter f with
    | .error _ => (f, .fail)
    | .ok f1 => (f1, .ok)

/-- `fileSeek` of the unchanged tree: no closed check, the buffered writer is not flushed. -/
def fileSeek (f : LFile) (w : Whence) (d : Int) : LFile × Res :=
  match abandonReadBuffer f with
  | .error _ => (f, .fail)
  | .ok f2 =>
    match osSeek f2 w d with
    | .ok (f3, p) => (f3, .pos p)
    | .error _ => (f2, .fail)

/-- `fileSetVBuf` of the unchanged tree: no closed check, pending bytes of the old writer are dropped. -/
def fileSetVBuf (f : LFile) (m : VBuf) (size : Nat) : LFile × Res :=
  match f.writer with
  | .none => (f, .fail)
  | _ =>
    match m with
    | .no => ({ f with writer := .direct }, .ok)
    | .full => ({ f with writer := .buffered (writerSize size) [] }, .ok)
    | .line => (f, .raise)     -- "line" is missing from filebufOptions: CheckOption raises

/-- `fileReadAux` of the unchanged tree: the buffered writer is not flushed before reading. -/
def fileReadAux (R : Nat) (f : LFile) (fs : List Fmt) : LFile × Res :=
  if !f.hasReader then (f, .fail)
  else if f.closed then (f, .raise)
  else
    let (f2, r, e) := readLoop R f (if fs = [] then [.line] else fs)
    if e then (f2, .fail) else (f2, .vals r)

/-- `fileLinesIter` of the unchanged tree: a single `ReadLine()`, the prefix flag ignored. -/
def fileLinesIter (R : Nat) (f : LFile) : LFile × Res :=
  match brReadLine R f with
  | (f2, .eof) => (f2, .vals [none])
  | (f2, .err) => (f2, .raise)
  | (f2, .part l) => (f2, .vals [some l])
  | (f2, .whole l) => (f2, .vals [some l])

/-- `ioOpenFile` of the unchanged tree: mode "a" keeps a reader. -/
def ioOpenFile (disk : Bytes) (m : Mode) : LFile :=
  match m with
  | .a => { disk := disk, off := 0, rd := false, app := true }
  | m => IoFile.ioOpenFile disk m

/-- `fileWriteAux` of the unchanged tree: fileIsWritable is consulted before errorIfFileIsClosed. -/
def fileWriteAux (f : LFile) (s : Bytes) : LFile × Res :=
  match f.writer with
  | .none => (f, .fail)
  | _ => IoFile.fileWriteAux f s

def step (R : Nat) (f : LFile) : Op → LFile × Res
  | .write s => fileWriteAux f s
  | .read fs => fileReadAux R f fs
  | .lines => if !f.hasReader then (f, .nothing) else (f, .ok)
  | .iter => fileLinesIter R f
  | .seek w d => fileSeek f w d
  | .flush => fileFlushAux f
  | .setvbuf m n => fileSetVBuf f m n
  | .close => fileCloseAux f
  | .reopen m => (ioOpenFile f.disk m, .ok)

def run (R : Nat) (f : LFile) : List Op → LFile × List Res
  | [] => (f, [])
  | o :: os => let (f', r) := step R f o; let (f'', rs) := run R f' os; (f'', r :: rs)

end Unfixed

end GLua.IoFile
