/-
  The expected token stream of a rendered token list (`render toks lay`, GLua/Spec/LexRender.lean) in the scanner's own
  terms — goyacc token numbers from `Generated.Lexer`, `ast.Token.Str`, byte offsets, lines, columns, `PNewLine` — and
  the decidable guards of the `_partial` theorems.  Definitions only (executable: used by the theorems of
  Props/C08.lean and by the driver engine Engines/LexRenderEng.lean).
-/
import GLua.Model.Lexer
import GLua.Spec.LexRender

namespace GLua.Lexer
open GLua.Generated.Lexer
open GLua.LexSpec (Bytes)
open GLua.LexRender

/-! ### expected model token of a rendered token -/

def symType (sp : Bytes) : Int :=
  if sp = [61, 61] then TEqeq
  else if sp = [126, 61] then TNeq
  else if sp = [60, 61] then TLte
  else if sp = [62, 61] then TGte
  else if sp = [46, 46] then T2Comma
  else if sp = [46, 46, 46] then T3Comma
  else if sp = [58, 58] then T2Colon
  else match sp with
    | [c] => (c.toNat : Int)
    | _ => 0

/-- `Str` of an operator token is its spelling — except the single dot, whose `Str` the scanner leaves empty. -/
def symStr (sp : Bytes) : Bytes := if sp = [46] then [] else sp

/-- token type (`ast.Token.Type`: the goyacc token number or the character itself). -/
def tokType : RTok → Int
  | .name _ => TIdent
  | .kw k => (((reservedWords.lookup k).getD 0 : Nat) : Int)
  | .sym sp => symType sp
  | .num _ => TNumber
  | .str _ _ => TString
  | .lstr _ _ _ => TString

/-- token value (`ast.Token.Str`). -/
def tokStr : RTok → Bytes
  | .name w => w
  | .kw k => k.toUTF8.toList
  | .sym sp => symStr sp
  | .num n => n.render
  | .str _ cs => cs.map SChar.denote
  | .lstr _ _ content => content


/-- what the round trip looks at: token type, token value, and the ghost offset of the token's first byte. -/
def view (p : Token × Bool) : Int × Bytes × Nat := (p.1.type, p.1.str, p.1.off)

/-- the expected stream: for each token its type, its value and the number of bytes rendered before it; then the
    EOF token at the end of the text. -/
def expectFrom (lay : Layout) : Nat → Nat → List RTok → List (Int × Bytes × Nat)
  | i, pre, [] => [(-1, [], pre + (renderSeps (lay i)).length)]
  | i, pre, t :: ts =>
    (tokType t, tokStr t, pre + (renderSeps (lay i)).length) ::
      expectFrom lay (i + 1) (pre + (renderSeps (lay i)).length + t.render.length) ts


/-- the expected lines: 1 + the number of line ends in the text rendered before the token (`pre` = the text before
    gap `i`); the EOF token carries `Line = EOF`. -/
def linesFrom (lay : Layout) : Nat → Bytes → List RTok → List Int
  | _, _, [] => [-1]
  | i, pre, t :: ts =>
    (1 + (lineEnds (pre ++ renderSeps (lay i)) : Int)) ::
      linesFrom lay (i + 1) (pre ++ renderSeps (lay i) ++ t.render) ts


/-- the expected columns: 1 + the number of bytes between the last line terminator byte rendered before the token and
    the token; the EOF token has column 0. -/
def colsFrom (lay : Layout) : Nat → Bytes → List RTok → List Int
  | _, _, [] => [0]
  | i, pre, t :: ts =>
    (1 + (lineCol (pre ++ renderSeps (lay i)) : Int)) ::
      colsFrom lay (i + 1) (pre ++ renderSeps (lay i) ++ t.render) ts


/-- the expected `PNewLine` flags: true exactly for a `(` token directly behind a `)` token when the gap between them
    contains a line terminator (in a blank, or in / behind a comment). -/
def pnlFrom (lay : Layout) : Nat → Int → List RTok → List Bool
  | _, _, [] => [false]
  | i, prevTy, t :: ts =>
    (decide (tokType t = 40 ∧ prevTy = 41) && (renderSeps (lay i)).any LexSpec.isNewline) ::
      pnlFrom lay (i + 1) (tokType t) ts

end GLua.Lexer
