/-
  Model of /repo/parse/lexer.go (`Scanner`): byte-exact transcription, function by function.

    input            : `List UInt8` (what `bufio.Reader` delivers; `ReadByte`/`UnreadByte` = head/tail of the list)
    `ch int`         : `Int`, EOF = -1 (Generated.Lexer.EOF)
    `sc.Pos`         : `line`, `col` (`Line` becomes EOF = -1 once `Next` has read past the end)
    `bytes.Buffer`   : `List UInt8`; `writeChar(buf, ch)` = append `byte(ch)` (so `writeChar(buf, EOF)` appends 0xFF)
    loops            : every Go loop is a function defined by well-founded recursion on the remaining input
                       (measure `m ch s` = bytes not yet consumed, counting the current character `ch`),
                       so Lean accepts the definitions only with the proof that each iteration consumes input
                       or stops at EOF — this is "never hangs" for the model.
    `off`            : ghost field, number of bytes consumed so far (not observable in Go; used by the theorems)

  Errors (`sc.Error(tok, msg)`) carry the scanner position at the time of the error, as in Go.
  Nothing in the scanner can panic (no slice index, no map write, no type assertion): there is no `.goPanic`
  branch in this model; the only partial operation, `UnreadByte` after a successful `ReadByte`, always succeeds.
-/
import GLua.Basic
import GLua.Generated.Lexer

namespace GLua.Lexer
open GLua.Generated.Lexer

abbrev Buf := List UInt8

/-- scanner state: the unread input and `sc.Pos`. -/
structure Sc where
  rest : List UInt8
  line : Int := 1
  col  : Int := 0
  off  : Nat := 0
deriving Repr, DecidableEq, Inhabited

/-- `byte(ch)` for a Go `int` (two's complement truncation). -/
def byteOf (ch : Int) : UInt8 := UInt8.ofNat (ch % 256).toNat

def writeChar (buf : Buf) (ch : Int) : Buf := buf ++ [byteOf ch]

/-- `string(rune(ch))`: UTF-8 encoding of the code point `ch` (only values -1 … 255 occur). -/
def runeStr (ch : Int) : Buf :=
  if ch < 0 then [0xEF, 0xBF, 0xBD]
  else if ch < 128 then [byteOf ch]
  else [byteOf (192 + ch / 64), byteOf (128 + ch % 64)]

def isDecimal (ch : Int) : Bool := 48 ≤ ch && ch ≤ 57

def isIdent (ch : Int) (pos : Nat) : Bool :=
  ch == 95 || (65 ≤ ch && ch ≤ 90) || (97 ≤ ch && ch ≤ 122) || (isDecimal ch && pos > 0)

/-- `isDigit` of lexer.go is the *hexadecimal* digit test. -/
def isDigit (ch : Int) : Bool :=
  (48 ≤ ch && ch ≤ 57) || (97 ≤ ch && ch ≤ 102) || (65 ≤ ch && ch ≤ 70)

/-- `readNext`: one byte or EOF. -/
def readNext (s : Sc) : Int × Sc :=
  match s.rest with
  | [] => (-1, s)
  | b :: r => ((b.toNat : Int), { s with rest := r, off := s.off + 1 })

/-- `Peek`: `readNext` followed by `UnreadByte`. -/
def peek (s : Sc) : Int :=
  match s.rest with
  | [] => -1
  | b :: _ => (b.toNat : Int)

/-- `Newline(ch)`: count the line, swallow the second byte of a CR LF / LF CR pair. -/
def newline (ch : Int) (s : Sc) : Sc :=
  if ch < 0 then s else
  let s1 := { s with line := s.line + 1, col := 0 }
  let nx := peek s1
  if (ch = 10 ∧ nx = 13) ∨ (ch = 13 ∧ nx = 10) then (readNext s1).2 else s1

/-- `Next`. -/
def next (s : Sc) : Int × Sc :=
  let r := readNext s
  if r.1 = 10 ∨ r.1 = 13 then (10, newline r.1 r.2)
  else if r.1 = -1 then (-1, { r.2 with line := -1, col := 0 })
  else (r.1, { r.2 with col := r.2.col + 1 })

/-- bytes not yet consumed, counting the current character. -/
def m (ch : Int) (s : Sc) : Nat := s.rest.length + (if ch < 0 then 0 else 1)

theorem ite_prop {α : Type} (P : α → Prop) (c : Prop) [Decidable c] (a b : α)
    (ha : c → P a) (hb : ¬ c → P b) : P (if c then a else b) := by
  split
  · exact ha ‹_›
  · exact hb ‹_›

theorem rest_le_m (ch : Int) (s : Sc) : s.rest.length ≤ m ch s := by unfold m; omega
theorem m_le_succ (ch : Int) (s : Sc) : m ch s ≤ s.rest.length + 1 := by unfold m; split <;> omega
theorem m_of_nonneg (ch : Int) (s : Sc) (h : ¬ ch < 0) : m ch s = s.rest.length + 1 := by unfold m; simp [h]

theorem readNext_rest_le (s : Sc) : (readNext s).2.rest.length ≤ s.rest.length := by
  unfold readNext; split <;> simp_all

theorem newline_rest_le (ch : Int) (s : Sc) : (newline ch s).rest.length ≤ s.rest.length := by
  unfold newline
  split
  · exact Nat.le_refl _
  · simp only []
    split
    · exact readNext_rest_le _
    · exact Nat.le_refl _

/-- `Next` consumes at least one byte or returns EOF. -/
theorem next_m (s : Sc) : m (next s).1 (next s).2 ≤ s.rest.length := by
  obtain ⟨rest, line, col, off⟩ := s
  cases rest with
  | nil => simp [next, readNext, m]
  | cons b r =>
    have hb : ((b.toNat : Int) = -1) = False := by
      apply propext; constructor
      · intro h; omega
      · intro h; exact h.elim
    simp only [next, readNext, m, hb, if_false]
    split
    · have := newline_rest_le (b.toNat : Int) { rest := r, line := line, col := col, off := off + 1 }
      simp only [List.length_cons] at *
      have h10 : ¬ ((10 : Int) < 0) := by decide
      simp only [h10, if_false]; omega
    · simp only [List.length_cons]
      split <;> omega

theorem next_rest_le (s : Sc) : (next s).2.rest.length ≤ s.rest.length := by
  have := next_m s; have := rest_le_m (next s).1 (next s).2; omega

theorem next_rest_lt (s : Sc) (h : 0 ≤ (next s).1) : (next s).2.rest.length < s.rest.length := by
  have := next_m s
  have := m_of_nonneg (next s).1 (next s).2 (by omega); omega

theorem next_nonneg_of_peek (s : Sc) (h : 0 ≤ peek s) : 0 ≤ (next s).1 := by
  obtain ⟨rest, line, col, off⟩ := s
  cases rest with
  | nil => simp [peek] at h
  | cons b r =>
    simp only [next, readNext]
    by_cases h1 : ((b.toNat : Int) = 10 ∨ (b.toNat : Int) = 13)
    · simp only [h1, if_true]; decide
    · simp only [h1, if_false]
      by_cases h2 : (b.toNat : Int) = -1
      · omega
      · simp only [h2, if_false]; omega

theorem next_rest_lt_of_peek (s : Sc) (h : 0 ≤ peek s) : (next s).2.rest.length < s.rest.length :=
  next_rest_lt s (next_nonneg_of_peek s h)

/-- `whitespace&(1<<uint(ch)) != 0` on an `int64` mask: the shift count `uint(ch)` is ≥ 64 for EOF (-1) and for
    every byte ≥ 64, which makes `1<<…` zero in Go. -/
def wsBit (ws : Nat) (ch : Int) : Bool :=
  if 0 ≤ ch ∧ ch < 64 then ws.testBit ch.toNat else false

/-- `for ; whitespace&(1<<uint(ch)) != 0; ch = sc.Next() {}` -/
def skipWsLoop (ws : Nat) (ch : Int) (s : Sc) : Int × Sc :=
  if wsBit ws ch then skipWsLoop ws (next s).1 (next s).2 else (ch, s)
termination_by m ch s
decreasing_by
  rename_i h
  have hc : ¬ (ch < 0) := by
    unfold wsBit at h; split at h
    · omega
    · simp at h
  have := next_m s
  have := m_of_nonneg ch s hc; omega

/-- `skipWhiteSpace(whitespace)` -/
def skipWhiteSpace (ws : Nat) (s : Sc) : Int × Sc :=
  skipWsLoop ws (next s).1 (next s).2

theorem skipWsLoop_m (ws : Nat) (ch : Int) (s : Sc) :
    m (skipWsLoop ws ch s).1 (skipWsLoop ws ch s).2 ≤ m ch s := by
  fun_induction skipWsLoop ws ch s
  · rename_i ch s h ih
    have hc : ¬ (ch < 0) := by
      unfold wsBit at h; split at h
      · omega
      · simp at h
    have := next_m s
    have := m_of_nonneg ch s hc; omega
  · exact Nat.le_refl _

theorem skipWhiteSpace_m (ws : Nat) (s : Sc) :
    m (skipWhiteSpace ws s).1 (skipWhiteSpace ws s).2 ≤ s.rest.length := by
  unfold skipWhiteSpace
  exact Nat.le_trans (skipWsLoop_m ..) (next_m s)

/-- lexical error = `*parse.Error{Pos, Message, Token}` -/
structure LexErr where
  msg  : String
  tok  : Buf
  line : Int
  col  : Int
deriving Repr, DecidableEq, Inhabited

def mkErr (s : Sc) (tok : Buf) (msg : String) : LexErr := { msg := msg, tok := tok, line := s.line, col := s.col }

/-- `for ; ch == '='; count++ { ch = sc.Next() }` -/
def countSep (ch : Int) (s : Sc) : Nat × Int × Sc :=
  if ch = 61 then
    ((countSep (next s).1 (next s).2).1 + 1, (countSep (next s).1 (next s).2).2)
  else (0, ch, s)
termination_by m ch s
decreasing_by
  all_goals
    rename_i h
    have := next_m s
    have := m_of_nonneg ch s (by omega); omega

theorem countSep_m (ch : Int) (s : Sc) :
    m (countSep ch s).2.1 (countSep ch s).2.2 ≤ m ch s := by
  fun_induction countSep ch s
  · rename_i s ih
    have := next_m s
    have := m_of_nonneg 61 s (by decide)
    simp only []; omega
  · exact Nat.le_refl _

theorem countSep_rest_le (ch : Int) (s : Sc) : (countSep ch s).2.2.rest.length ≤ m ch s := by
  have := countSep_m ch s; have := rest_le_m (countSep ch s).2.1 (countSep ch s).2.2; omega

/-- the body loop of `scanMultilineString` (after the opening bracket and the optional first newline). -/
def mlLoop (count1 : Nat) (ch : Int) (buf : Buf) (s : Sc) : Except LexErr (Buf × Sc) :=
  if ch < 0 then .error (mkErr s buf "unterminated multiline string")
  else if ch = 93 then
    if count1 = (countSep (next s).1 (next s).2).1 ∧ (countSep (next s).1 (next s).2).2.1 = 93 then
      .ok (buf, (countSep (next s).1 (next s).2).2.2)
    else mlLoop count1 (countSep (next s).1 (next s).2).2.1
           (buf ++ [93] ++ List.replicate (countSep (next s).1 (next s).2).1 61) (countSep (next s).1 (next s).2).2.2
  else mlLoop count1 (next s).1 (writeChar buf ch) (next s).2
termination_by m ch s
decreasing_by
  · rename_i h _ _
    have h1 := countSep_m (next s).1 (next s).2
    have h2 := next_m s
    have hm : m ch s = s.rest.length + 1 := by unfold m; simp [h]
    omega
  · rename_i h _
    have h2 := next_m s
    have hm : m ch s = s.rest.length + 1 := by unfold m; simp [h]
    omega

/-- `scanMultilineBody(count1, buf)`: the opening bracket of level `count1` has been read; skip a first line end,
    then the body loop. -/
def scanMultilineBody (count1 : Nat) (buf : Buf) (s : Sc) : Except LexErr (Buf × Sc) :=
  let n1 := next s
  -- `if ch == '\n' || ch == '\r' { ch = sc.Next() }` (Next never returns '\r')
  let n2 := if n1.1 = 10 ∨ n1.1 = 13 then next n1.2 else n1
  mlLoop count1 n2.1 buf n2.2

/-- `scanMultilineString(ch, buf)`; `ch` is the character after the first `[`. -/
def scanMultilineString (ch : Int) (buf : Buf) (s : Sc) : Except LexErr (Buf × Sc) :=
  let r := countSep ch s
  if r.2.1 ≠ 91 then .error (mkErr r.2.2 (runeStr r.2.1) "invalid multiline string")
  else scanMultilineBody r.1 buf r.2.2

theorem mlLoop_le (count1 : Nat) (ch : Int) (buf : Buf) (s : Sc) (b : Buf) (s' : Sc)
    (h : mlLoop count1 ch buf s = .ok (b, s')) : s'.rest.length ≤ s.rest.length := by
  fun_induction mlLoop count1 ch buf s
  · simp at h
  · rename_i buf s _ _
    simp only [Except.ok.injEq, Prod.mk.injEq] at h
    have h1 := countSep_rest_le (next s).1 (next s).2
    have h2 := next_m s
    rw [← h.2]; omega
  · rename_i buf s _ _ ih
    have := ih h
    have h1 := countSep_rest_le (next s).1 (next s).2
    have h2 := next_m s
    omega
  · rename_i ch buf s _ _ ih
    have := ih h
    have := next_rest_le s; omega

theorem scanMultilineBody_le (count1 : Nat) (buf : Buf) (s : Sc) (b : Buf) (s' : Sc)
    (h : scanMultilineBody count1 buf s = .ok (b, s')) : s'.rest.length ≤ s.rest.length := by
  unfold scanMultilineBody at h
  simp only [] at h
  have h0 := mlLoop_le _ _ _ _ _ _ h
  have h2 := next_rest_le s
  have h3 : (if (next s).1 = 10 ∨ (next s).1 = 13 then next (next s).2 else next s).2.rest.length
      ≤ (next s).2.rest.length := by
    split
    · exact next_rest_le _
    · exact Nat.le_refl _
  omega

theorem scanMultilineString_le (ch : Int) (buf : Buf) (s : Sc) (b : Buf) (s' : Sc)
    (h : scanMultilineString ch buf s = .ok (b, s')) : s'.rest.length ≤ m ch s := by
  unfold scanMultilineString at h
  simp only [] at h
  split at h
  · simp at h
  · have h0 := scanMultilineBody_le _ _ _ _ _ h
    have h1 := countSep_rest_le ch s
    omega

/-- the line-comment loop of `skipComments`:
    `for { if ch == '\n' || ch == '\r' || ch < 0 { break }; ch = sc.Next() }` -/
def lineCommentLoop (ch : Int) (s : Sc) : Sc :=
  if ch = 10 ∨ ch = 13 ∨ ch < 0 then s else lineCommentLoop (next s).1 (next s).2
termination_by m ch s
decreasing_by
  rename_i h
  have := next_m s
  have hc : ¬ (ch < 0) := by omega
  unfold m at *; simp only [hc, if_false]; omega

theorem lineCommentLoop_le (ch : Int) (s : Sc) : (lineCommentLoop ch s).rest.length ≤ s.rest.length := by
  fun_induction lineCommentLoop ch s with
  | case1 ch s h => exact Nat.le_refl _
  | case2 ch s h ih => have := next_rest_le s; omega

/-- `skipComments(ch)`; called with `ch` = the second `-`.
    `--[` `=`* `[` opens a long comment; `--[` `=`* followed by anything else is a short comment that goes on from
    the character behind the `=`s (Lua 5.1 llex.c, skip_sep).  On a failed long comment the Go code returns
    `sc.Error(buf.String(), "invalid multiline comment")`: position and buffer are those at which
    `scanMultilineBody` stopped. -/
def skipComments (ch : Int) (s : Sc) : Except LexErr Sc :=
  if peek s = 91 then
    let n := next s
    if peek n.2 = 91 ∨ peek n.2 = 61 then
      let n2 := next n.2
      let r := countSep n2.1 n2.2
      if r.2.1 = 91 then
        match scanMultilineBody r.1 [] r.2.2 with
        | .error e => .error { e with msg := "invalid multiline comment" }
        | .ok (_, s') => .ok s'
      else .ok (lineCommentLoop r.2.1 r.2.2)
    else .ok (lineCommentLoop n.1 n.2)
  else .ok (lineCommentLoop ch s)

theorem skipComments_le (ch : Int) (s s' : Sc) (h : skipComments ch s = .ok s') :
    s'.rest.length ≤ s.rest.length := by
  unfold skipComments at h
  split at h
  · simp only [] at h
    split at h
    · have hc := countSep_rest_le (next (next s).2).1 (next (next s).2).2
      have hm := next_m (next s).2
      have hn := next_rest_le s
      split at h
      · split at h
        · simp at h
        · rename_i b s'' hs
          simp only [Except.ok.injEq] at h
          have := scanMultilineBody_le _ _ _ _ _ hs
          rw [← h]; omega
      · simp only [Except.ok.injEq] at h
        have := lineCommentLoop_le (countSep (next (next s).2).1 (next (next s).2).2).2.1
          (countSep (next (next s).2).1 (next (next s).2).2).2.2
        rw [← h]; omega
    · simp only [Except.ok.injEq] at h
      have := lineCommentLoop_le (next s).1 (next s).2
      have := next_rest_le s
      rw [← h]; omega
  · simp only [Except.ok.injEq] at h
    have := lineCommentLoop_le ch s
    rw [← h]; omega

/-- `for isIdent(sc.Peek(), 1) { writeChar(buf, sc.Next()) }` -/
def identLoop (buf : Buf) (s : Sc) : Buf × Sc :=
  if isIdent (peek s) 1 then identLoop (writeChar buf (next s).1) (next s).2 else (buf, s)
termination_by s.rest.length
decreasing_by
  rename_i h
  apply next_rest_lt_of_peek
  simp only [isIdent, isDecimal, Bool.or_eq_true, Bool.and_eq_true, decide_eq_true_eq, beq_iff_eq] at h
  omega

def scanIdent (ch : Int) (buf : Buf) (s : Sc) : Buf × Sc := identLoop (writeChar buf ch) s

theorem identLoop_le (buf : Buf) (s : Sc) : (identLoop buf s).2.rest.length ≤ s.rest.length := by
  fun_induction identLoop buf s with
  | case1 buf s h ih => have := next_rest_le s; omega
  | case2 buf s h => exact Nat.le_refl _

/-- `for isDecimal(sc.Peek()) { writeChar(buf, sc.Next()) }` -/
def decimalLoop (buf : Buf) (s : Sc) : Buf × Sc :=
  if isDecimal (peek s) then decimalLoop (writeChar buf (next s).1) (next s).2 else (buf, s)
termination_by s.rest.length
decreasing_by
  rename_i h
  apply next_rest_lt_of_peek
  simp only [isDecimal, Bool.and_eq_true, decide_eq_true_eq] at h
  omega

def scanDecimal (ch : Int) (buf : Buf) (s : Sc) : Buf × Sc := decimalLoop (writeChar buf ch) s

theorem decimalLoop_le (buf : Buf) (s : Sc) : (decimalLoop buf s).2.rest.length ≤ s.rest.length := by
  fun_induction decimalLoop buf s with
  | case1 buf s h ih => have := next_rest_le s; omega
  | case2 buf s h => exact Nat.le_refl _

/-- `for isDigit(sc.Peek()) { writeChar(buf, sc.Next()); hasvalue = true }` -/
def hexLoop (buf : Buf) (s : Sc) (hasvalue : Bool) : Buf × Sc × Bool :=
  if isDigit (peek s) then hexLoop (writeChar buf (next s).1) (next s).2 true else (buf, s, hasvalue)
termination_by s.rest.length
decreasing_by
  rename_i h
  apply next_rest_lt_of_peek
  simp only [isDigit, Bool.or_eq_true, Bool.and_eq_true, decide_eq_true_eq] at h
  omega

theorem hexLoop_le (buf : Buf) (s : Sc) (hv : Bool) : (hexLoop buf s hv).2.1.rest.length ≤ s.rest.length := by
  fun_induction hexLoop buf s hv with
  | case1 buf s hv h ih => have := next_rest_le s; omega
  | case2 buf s hv h => exact Nat.le_refl _

/-- `scanNumber` from `sc.scanDecimal(ch, buf)` on, first part: integer part and at most one fraction
    (`if ch != '.' && sc.Peek() == '.'`: a numeral that starts with the dot has had its fraction already). -/
def scanNumberFrac (ch : Int) (buf : Buf) (s : Sc) : Buf × Sc :=
  if ch ≠ 46 ∧ peek (scanDecimal ch buf s).2 = 46 then
    scanDecimal (next (scanDecimal ch buf s).2).1 (scanDecimal ch buf s).1 (next (scanDecimal ch buf s).2).2
  else scanDecimal ch buf s

theorem scanNumberFrac_le (ch : Int) (buf : Buf) (s : Sc) :
    (scanNumberFrac ch buf s).2.rest.length ≤ s.rest.length := by
  unfold scanNumberFrac scanDecimal
  have h1 := decimalLoop_le (writeChar buf ch) s
  split
  · have := decimalLoop_le (writeChar (decimalLoop (writeChar buf ch) s).1 (next (decimalLoop (writeChar buf ch) s).2).1)
      (next (decimalLoop (writeChar buf ch) s).2).2
    have := next_rest_le (decimalLoop (writeChar buf ch) s).2
    omega
  · exact h1

/-- the exponent marker and the optional sign (called when `Peek` is `e` or `E`). -/
def scanNumberExpPre (f : Buf × Sc) : Buf × Sc :=
  if peek (next f.2).2 = 45 ∨ peek (next f.2).2 = 43 then
    (writeChar (writeChar f.1 (next f.2).1) (next (next f.2).2).1, (next (next f.2).2).2)
  else (writeChar f.1 (next f.2).1, (next f.2).2)

theorem scanNumberExpPre_le (f : Buf × Sc) : (scanNumberExpPre f).2.rest.length ≤ f.2.rest.length := by
  unfold scanNumberExpPre
  have h1 := next_rest_le f.2
  have h2 := next_rest_le (next f.2).2
  split <;> (simp only []; omega)

/-- the loop of `numeralEnd`: `for ch := sc.Peek(); isIdent(ch, 1) || ch == '.'; ch = sc.Peek() { writeChar(buf, sc.Next()) }` -/
def numeralEndLoop (buf : Buf) (s : Sc) : Buf × Sc :=
  if isIdent (peek s) 1 = true ∨ peek s = 46 then numeralEndLoop (writeChar buf (next s).1) (next s).2 else (buf, s)
termination_by s.rest.length
decreasing_by
  rename_i h
  apply next_rest_lt_of_peek
  rcases h with h | h
  · simp only [isIdent, isDecimal, Bool.or_eq_true, Bool.and_eq_true, decide_eq_true_eq, beq_iff_eq] at h
    omega
  · omega

/-- `numeralEnd(buf, dots)`: a numeral directly followed by an alphanumeric character or `_` (and, before an
    exponent, by a `.`) is one malformed number (Lua 5.1 llex.c, read_numeral). -/
def numeralEnd (buf : Buf) (s : Sc) (dots : Bool) : Except LexErr (Buf × Sc) :=
  if ¬ (isIdent (peek s) 1 = true) ∧ ¬ (dots = true ∧ peek s = 46) then .ok (buf, s)
  else .error (mkErr (numeralEndLoop buf s).2 (numeralEndLoop buf s).1 "malformed number")

theorem numeralEnd_ok (buf : Buf) (s : Sc) (dots : Bool) (r : Buf × Sc) (h : numeralEnd buf s dots = .ok r) :
    r = (buf, s) := by
  unfold numeralEnd at h
  split at h
  · simp only [Except.ok.injEq] at h; exact h.symm
  · simp at h

/-- `scanNumber` from `sc.scanDecimal(ch, buf)` on: integer part, optional fraction, optional exponent; an exponent
    marker (and sign) not followed by a decimal digit is the error "malformed number"; every exit goes through
    `numeralEnd`. -/
def scanNumberTail (ch : Int) (buf : Buf) (s : Sc) : Except LexErr (Buf × Sc) :=
  if peek (scanNumberFrac ch buf s).2 = 101 ∨ peek (scanNumberFrac ch buf s).2 = 69 then
    if isDecimal (peek (scanNumberExpPre (scanNumberFrac ch buf s)).2) then
      numeralEnd
        (scanDecimal (next (scanNumberExpPre (scanNumberFrac ch buf s)).2).1
            (scanNumberExpPre (scanNumberFrac ch buf s)).1 (next (scanNumberExpPre (scanNumberFrac ch buf s)).2).2).1
        (scanDecimal (next (scanNumberExpPre (scanNumberFrac ch buf s)).2).1
            (scanNumberExpPre (scanNumberFrac ch buf s)).1 (next (scanNumberExpPre (scanNumberFrac ch buf s)).2).2).2
        false
    else .error (mkErr (scanNumberExpPre (scanNumberFrac ch buf s)).2 (scanNumberExpPre (scanNumberFrac ch buf s)).1
                  "malformed number")
  else numeralEnd (scanNumberFrac ch buf s).1 (scanNumberFrac ch buf s).2 true

theorem scanNumberTail_le (ch : Int) (buf : Buf) (s : Sc) (b : Buf) (s' : Sc)
    (h : scanNumberTail ch buf s = .ok (b, s')) : s'.rest.length ≤ s.rest.length := by
  unfold scanNumberTail at h
  have h1 := scanNumberFrac_le ch buf s
  have h2 := scanNumberExpPre_le (scanNumberFrac ch buf s)
  split at h
  · split at h
    · have := numeralEnd_ok _ _ _ _ h
      simp only [Prod.mk.injEq] at this
      have h3 := decimalLoop_le (writeChar (scanNumberExpPre (scanNumberFrac ch buf s)).1
        (next (scanNumberExpPre (scanNumberFrac ch buf s)).2).1) (next (scanNumberExpPre (scanNumberFrac ch buf s)).2).2
      have h4 := next_rest_le (scanNumberExpPre (scanNumberFrac ch buf s)).2
      unfold scanDecimal at this
      rw [this.2]; omega
    · simp at h
  · have := numeralEnd_ok _ _ _ _ h
    simp only [Prod.mk.injEq] at this
    rw [this.2]; exact h1

/-- `scanNumber(ch, buf)` -/
def scanNumber (ch : Int) (buf : Buf) (s : Sc) : Except LexErr (Buf × Sc) :=
  if ch = 48 ∧ (peek s = 120 ∨ peek s = 88) then
    let b1 := writeChar buf ch
    let n := next s
    let h := hexLoop (writeChar b1 n.1) n.2 false
    if !h.2.2 then .error (mkErr h.2.1 h.1 "illegal hexadecimal number") else numeralEnd h.1 h.2.1 false
  else scanNumberTail ch buf s

theorem scanNumber_le (ch : Int) (buf : Buf) (s : Sc) (b : Buf) (s' : Sc)
    (h : scanNumber ch buf s = .ok (b, s')) : s'.rest.length ≤ s.rest.length := by
  unfold scanNumber at h
  split at h
  · simp only [] at h
    split at h
    · simp at h
    · have he := numeralEnd_ok _ _ _ _ h
      simp only [Prod.mk.injEq] at he
      have := hexLoop_le (writeChar (writeChar buf ch) (next s).1) (next s).2 false
      have := next_rest_le s
      rw [he.2]; omega
  · exact scanNumberTail_le _ _ _ _ _ h

/-- up to two further decimal digits of a `\ddd` escape:
    `for i := 0; i < 2 && isDecimal(sc.Peek()); i++ { bytes = append(bytes, byte(sc.Next())) }` -/
def escDigits (i : Nat) (val : Nat) (s : Sc) : Nat × Sc :=
  match i with
  | 0 => (val, s)
  | i + 1 =>
    if isDecimal (peek s) then escDigits i (val * 10 + ((next s).1 - 48).toNat) (next s).2 else (val, s)

theorem escDigits_le (i : Nat) (val : Nat) (s : Sc) : (escDigits i val s).2.rest.length ≤ s.rest.length := by
  induction i generalizing val s with
  | zero => exact Nat.le_refl _
  | succ i ih =>
    unfold escDigits
    split
    · have := ih (val * 10 + ((next s).1 - 48).toNat) (next s).2
      have := next_rest_le s; omega
    · exact Nat.le_refl _

/-- `scanEscape` without its error exit (the backslash has been read): what is appended and how far the scanner
    advances.  `Next` never returns '\r', so the Go `case '\r'` is dead code; a CR (with or without LF) after the
    backslash arrives here as '\n'.  For `\ddd` the value is written with `writeChar` (a byte); values above 255 never
    get here, see `scanEscape`. -/
def scanEscapeCore (buf : Buf) (s : Sc) : Buf × Sc :=
  let n := next s
  let ch := n.1
  if ch = 97 then (buf ++ [7], n.2)          -- \a
  else if ch = 98 then (buf ++ [8], n.2)     -- \b
  else if ch = 102 then (buf ++ [12], n.2)   -- \f
  else if ch = 110 then (buf ++ [10], n.2)   -- \n
  else if ch = 114 then (buf ++ [13], n.2)   -- \r
  else if ch = 116 then (buf ++ [9], n.2)    -- \t
  else if ch = 118 then (buf ++ [11], n.2)   -- \v
  else if ch = 92 then (buf ++ [92], n.2)    -- \\
  else if ch = 34 then (buf ++ [34], n.2)    -- \"
  else if ch = 39 then (buf ++ [39], n.2)    -- \'
  else if ch = 10 then (buf ++ [10], n.2)    -- \ newline
  else if 48 ≤ ch ∧ ch ≤ 57 then
    -- `strconv.ParseInt(string(bytes), 10, 32)` of 1–3 decimal digits never fails; `writeChar(buf, int(val))` truncates
    let d := escDigits 2 (ch - 48).toNat n.2
    (writeChar buf (d.1 : Int), d.2)
  else (writeChar buf ch, n.2)

theorem scanEscapeCore_le (buf : Buf) (s : Sc) : (scanEscapeCore buf s).2.rest.length ≤ s.rest.length := by
  have h := next_rest_le s
  have hd := escDigits_le 2 ((next s).1 - 48).toNat (next s).2
  unfold scanEscapeCore
  simp only []
  repeat' (apply ite_prop (P := fun r : Buf × Sc => r.2.rest.length ≤ s.rest.length) <;> intro _)
  all_goals (simp only []; omega)

/-- the value of a `\ddd` escape exceeds 255 (`if val > 255 { return sc.Error(buf.String(), "escape sequence too large") }`).
    The decimal branch of the Go switch is reached exactly when the character after the backslash is a digit. -/
def escTooLarge (s : Sc) : Bool :=
  48 ≤ (next s).1 && (next s).1 ≤ 57 && decide ((escDigits 2 ((next s).1 - 48).toNat (next s).2).1 > 255)

/-- `scanEscape`: the error position is the one reached after the digits, the error token is the buffer before the
    escape. -/
def scanEscape (buf : Buf) (s : Sc) : Except LexErr (Buf × Sc) :=
  if escTooLarge s then
    .error (mkErr (escDigits 2 ((next s).1 - 48).toNat (next s).2).2 buf "escape sequence too large")
  else .ok (scanEscapeCore buf s)

theorem scanEscape_ok (buf : Buf) (s : Sc) (r : Buf × Sc) (h : scanEscape buf s = .ok r) :
    r = scanEscapeCore buf s := by
  unfold scanEscape at h
  split at h
  · simp at h
  · simp only [Except.ok.injEq] at h; exact h.symm

theorem scanEscape_le (buf : Buf) (s : Sc) (r : Buf × Sc) (h : scanEscape buf s = .ok r) :
    r.2.rest.length ≤ s.rest.length := by
  rw [scanEscape_ok buf s r h]; exact scanEscapeCore_le buf s

/-- the loop of `scanString`:
    `for ch != quote { if newline/EOF → error; if ch == '\\' scanEscape (may fail) else writeChar; ch = sc.Next() }` -/
def stringLoop (quote : Int) (ch : Int) (buf : Buf) (s : Sc) : Except LexErr (Buf × Sc) :=
  if ch = quote then .ok (buf, s)
  else if ch = 10 ∨ ch = 13 ∨ ch < 0 then .error (mkErr s buf "unterminated string")
  else if ch = 92 then
    match _hE : scanEscape buf s with
    | .error e => .error e
    | .ok r => stringLoop quote (next r.2).1 r.1 (next r.2).2
  else stringLoop quote (next s).1 (writeChar buf ch) (next s).2
termination_by m ch s
decreasing_by
  · rename_i _ h2 _
    have := scanEscape_le buf s r _hE
    have := next_m r.2
    have hm : m ch s = s.rest.length + 1 := by
      unfold m; have : ¬ (ch < 0) := by omega
      simp [this]
    omega
  · rename_i _ h2 _
    have := next_m s
    have hm : m ch s = s.rest.length + 1 := by
      unfold m; have : ¬ (ch < 0) := by omega
      simp [this]
    omega

def scanString (quote : Int) (buf : Buf) (s : Sc) : Except LexErr (Buf × Sc) :=
  stringLoop quote (next s).1 buf (next s).2

theorem stringLoop_le (quote ch : Int) (buf : Buf) (s : Sc) (b : Buf) (s' : Sc)
    (h : stringLoop quote ch buf s = .ok (b, s')) : s'.rest.length ≤ s.rest.length := by
  fun_induction stringLoop quote ch buf s
  · simp only [Except.ok.injEq, Prod.mk.injEq] at h; rw [← h.2]; exact Nat.le_refl _
  · simp at h
  · simp at h
  · rename_i buf s r hE _ _ ih
    have := ih h
    have := scanEscape_le buf s r hE
    have := next_rest_le r.2
    omega
  · rename_i ch buf s _ _ _ ih
    have := ih h
    have := next_rest_le s; omega

theorem scanString_le (quote : Int) (buf : Buf) (s : Sc) (b : Buf) (s' : Sc)
    (h : scanString quote buf s = .ok (b, s')) : s'.rest.length ≤ s.rest.length := by
  unfold scanString at h
  have := stringLoop_le _ _ _ _ _ _ h
  have := next_rest_le s; omega

/-- a token: `ast.Token{Type, Str, Pos}` (`Name` is a function of `Type`) plus the ghost offset of its first byte. -/
structure Token where
  type : Int
  str  : Buf
  line : Int
  col  : Int
  off  : Nat
deriving Repr, DecidableEq, Inhabited

def lookupReserved (w : Buf) : Option Nat :=
  (reservedWords.find? (fun p => p.1.toUTF8.toList == w)).map (·.2)

/-- result of one `Scan` call. -/
inductive ScanRes where
  | tok (t : Token) (pnewline : Bool) (s : Sc)
  | err (e : LexErr)
deriving Repr, Inhabited

def single (ch : Int) (line col : Int) (off : Nat) : Token :=
  { type := ch, str := runeStr ch, line := line, col := col, off := off }

/-- `tok.Pos = sc.Pos` is taken after the token's first character has been read. -/
def mkTok (s : Sc) (ty : Int) (str : Buf) (s' : Sc) : Except LexErr (Token × Sc) :=
  .ok ({ type := ty, str := str, line := s.line, col := s.col, off := s.off - 1 }, s')

/-- operators and punctuation: the `switch ch` arms of `Scan` from `'='` on. -/
def scanPunct (ch : Int) (s : Sc) : Except LexErr (Token × Sc) :=
  if ch = 61 then
    if peek s = 61 then mkTok s TEqeq [61, 61] (next s).2 else mkTok s ch (runeStr ch) s
  else if ch = 126 then
    if peek s = 61 then mkTok s TNeq [126, 61] (next s).2 else .error (mkErr s [126] "Invalid '~' token")
  else if ch = 60 then
    if peek s = 61 then mkTok s TLte [60, 61] (next s).2 else mkTok s ch (runeStr ch) s
  else if ch = 62 then
    if peek s = 61 then mkTok s TGte [62, 61] (next s).2 else mkTok s ch (runeStr ch) s
  else if ch = 58 then
    if peek s = 58 then mkTok s T2Colon [58, 58] (next s).2 else mkTok s ch (runeStr ch) s
  else if ch = 43 ∨ ch = 42 ∨ ch = 47 ∨ ch = 37 ∨ ch = 94 ∨ ch = 35 ∨ ch = 40 ∨ ch = 41 ∨ ch = 123 ∨ ch = 125
       ∨ ch = 93 ∨ ch = 59 ∨ ch = 44 then mkTok s ch (runeStr ch) s
  else .error (mkErr s (writeChar [] ch) "Invalid token")

/-- the `'.'` arm: a number (`.5`), `..`, `...` or a single dot (whose `Str` is the empty buffer). -/
def scanDot (ch : Int) (s : Sc) : Except LexErr (Token × Sc) :=
  if isDecimal (peek s) then
    match scanNumber ch [] s with
    | .error e => .error e
    | .ok (b, s') => mkTok s TNumber b s'
  else if peek s = 46 then
    if peek (next s).2 = 46 then
      mkTok s T3Comma (writeChar (writeChar (writeChar [] ch) (next s).1) (next (next s).2).1) (next (next s).2).2
    else mkTok s T2Comma (writeChar (writeChar [] ch) (next s).1) (next s).2
  else mkTok s 46 [] s          -- `tok.Str = buf.String()` with an empty buffer

/-- the token switch of `Scan` after blanks have been skipped: `ch` is the first character, `s` the state after it.
    Comments are handled by the caller (`scan`), which needs the recursion for `goto redo`. -/
def scanToken (ch : Int) (s : Sc) : Except LexErr (Token × Sc) :=
  if isIdent ch 0 then
    match lookupReserved (scanIdent ch [] s).1 with
    | some ty => mkTok s ty (scanIdent ch [] s).1 (scanIdent ch [] s).2
    | none => mkTok s TIdent (scanIdent ch [] s).1 (scanIdent ch [] s).2
  else if isDecimal ch then
    match scanNumber ch [] s with
    | .error e => .error e
    | .ok (b, s') => mkTok s TNumber b s'
  else if ch = -1 then .ok ({ type := -1, str := [], line := s.line, col := s.col, off := s.off }, s)
  else if ch = 45 then mkTok s ch (runeStr ch) s     -- '-' (not a comment: checked by the caller)
  else if ch = 34 ∨ ch = 39 then
    match scanString ch [] s with
    | .error e => .error e
    | .ok (b, s') => mkTok s TString b s'
  else if ch = 91 then
    if peek s = 91 ∨ peek s = 61 then
      match scanMultilineString (next s).1 [] (next s).2 with
      | .error e => .error e
      | .ok (b, s') => mkTok s TString b s'
    else mkTok s ch (runeStr ch) s
  else if ch = 46 then scanDot ch s
  else scanPunct ch s

theorem scanPunct_le (ch : Int) (s : Sc) (t : Token) (s' : Sc)
    (h : scanPunct ch s = .ok (t, s')) : s'.rest.length ≤ s.rest.length := by
  unfold scanPunct at h
  have hn := next_rest_le s
  repeat' split at h
  all_goals (try simp only [mkTok, Except.ok.injEq, Prod.mk.injEq, reduceCtorEq] at h)
  all_goals (try (obtain ⟨_, h2⟩ := h; subst h2))
  all_goals omega

theorem scanDot_le (ch : Int) (s : Sc) (t : Token) (s' : Sc)
    (h : scanDot ch s = .ok (t, s')) : s'.rest.length ≤ s.rest.length := by
  unfold scanDot at h
  have hn := next_rest_le s
  have hnn := next_rest_le (next s).2
  repeat' split at h
  all_goals (try simp only [mkTok, Except.ok.injEq, Prod.mk.injEq, reduceCtorEq] at h)
  all_goals (try (obtain ⟨_, h2⟩ := h; subst h2))
  all_goals first
    | omega
    | (have := scanNumber_le _ _ _ _ _ ‹_›; omega)

theorem scanToken_le (ch : Int) (s : Sc) (t : Token) (s' : Sc)
    (h : scanToken ch s = .ok (t, s')) : s'.rest.length ≤ s.rest.length := by
  unfold scanToken at h
  have hn := next_rest_le s
  have hm := next_m s
  repeat' split at h
  all_goals (try simp only [mkTok, Except.ok.injEq, Prod.mk.injEq, reduceCtorEq] at h)
  all_goals first
    | exact scanDot_le _ _ _ _ h
    | exact scanPunct_le _ _ _ _ h
    | skip
  all_goals (try (obtain ⟨_, h2⟩ := h; subst h2))
  all_goals first
    | omega
    | (have := identLoop_le (writeChar [] ch) s; unfold scanIdent; omega)
    | (have := scanNumber_le _ _ _ _ _ ‹_›; omega)
    | (have := scanString_le _ _ _ _ _ ‹_›; omega)
    | (have := scanMultilineString_le _ _ _ _ _ ‹_›; omega)

/-- the blank-skipping prologue of `Scan`: `(first non-blank character, state after it, newline seen)`. -/
def skipBlanks (s : Sc) : Int × Sc × Bool :=
  let w1 := skipWhiteSpace whitespace1 s
  if w1.1 = 10 ∨ w1.1 = 13 then
    ((skipWhiteSpace whitespace2 w1.2).1, (skipWhiteSpace whitespace2 w1.2).2, true)
  else (w1.1, w1.2, false)

theorem skipBlanks_m (s : Sc) : m (skipBlanks s).1 (skipBlanks s).2.1 ≤ s.rest.length := by
  unfold skipBlanks
  simp only []
  have a1 := skipWhiteSpace_m whitespace1 s
  split
  · have a2 := skipWhiteSpace_m whitespace2 (skipWhiteSpace whitespace1 s).2
    have := rest_le_m (skipWhiteSpace whitespace1 s).1 (skipWhiteSpace whitespace1 s).2
    simp only []; omega
  · exact a1

/-- what `Scan` reads of `*Lexer`: `PrevTokenType` and the line of `lexer.Token` (the previous token; initially
    `ast.Token{}`: type 0, line 0). -/
structure Prev where
  type : Int := 0
  line : Int := 0
deriving Repr, DecidableEq, Inhabited

/-- `Scan(lexer)`: skip blanks, handle comments (`goto redo`), produce one token.
    The Boolean of the result is `lexer.PNewLine` after the call: for a `(` behind a `)` it says whether the scanner's
    line (`sc.Pos.Line`, the line of the `(`) differs from the line of the previous token. -/
def scan (prev : Prev) (s : Sc) : ScanRes :=
  if (skipBlanks s).1 = 45 ∧ peek (skipBlanks s).2.1 = 45 then
    match _hsc : skipComments (next (skipBlanks s).2.1).1 (next (skipBlanks s).2.1).2 with
    | .error e => .err e
    | .ok s' => scan prev s'
  else
    match scanToken (skipBlanks s).1 (skipBlanks s).2.1 with
    | .error e => .err e
    | .ok (t, s') =>
      -- `if ch == '(' && lexer.PrevTokenType == ')' { lexer.PNewLine = sc.Pos.Line != lexer.Token.Pos.Line } else { … = false }`
      .tok t (if (skipBlanks s).1 = 40 ∧ prev.type = 41 then decide ((skipBlanks s).2.1.line ≠ prev.line) else false) s'
termination_by s.rest.length
decreasing_by
  rename_i hc
  have h1 := skipComments_le _ _ _ _hsc
  have h2 := next_rest_le (skipBlanks s).2.1
  have hw := skipBlanks_m s
  have := m_of_nonneg (skipBlanks s).1 (skipBlanks s).2.1 (by omega)
  omega

theorem scanToken_eof (ch : Int) (s : Sc) (t : Token) (s' : Sc)
    (h : scanToken ch s = .ok (t, s')) (hc : ch < 0) : t.type = -1 := by
  unfold scanToken at h
  have h1 : isIdent ch 0 = false := by
    simp only [isIdent, isDecimal, Bool.or_eq_false_iff, Bool.and_eq_false_iff, beq_eq_false_iff_ne,
      decide_eq_false_iff_not]
    omega
  have h2 : isDecimal ch = false := by
    simp only [isDecimal, Bool.and_eq_false_iff, decide_eq_false_iff_not]; omega
  simp only [h1, h2, Bool.false_eq_true, if_false] at h
  split at h
  · simp only [Except.ok.injEq, Prod.mk.injEq] at h
    rw [← h.1]
  · repeat' split at h
    all_goals (try omega)
    unfold scanPunct at h
    repeat' split at h
    all_goals first
      | omega
      | (simp only [reduceCtorEq] at h)

/-- **progress**: a `Scan` call that returns a token other than EOF has consumed at least one byte. -/
theorem scan_progress (prev : Prev) (s : Sc) (t : Token) (pnl : Bool) (s' : Sc)
    (h : scan prev s = .tok t pnl s') (ht : 0 ≤ t.type) : s'.rest.length < s.rest.length := by
  fun_induction scan prev s
  · simp at h
  · rename_i s hc s'' hsc ih
    have := ih h
    have h1 := skipComments_le _ _ _ hsc
    have h2 := next_rest_le (skipBlanks s).2.1
    have hw := skipBlanks_m s
    have := rest_le_m (skipBlanks s).1 (skipBlanks s).2.1
    omega
  · simp at h
  · rename_i s hc t' s'' hst
    simp only [ScanRes.tok.injEq] at h
    obtain ⟨h1, _, h3⟩ := h
    subst h1; subst h3
    have hle := scanToken_le _ _ _ _ hst
    have hw := skipBlanks_m s
    have hch : ¬ ((skipBlanks s).1 < 0) := by
      intro hlt
      have := scanToken_eof _ _ _ _ hst hlt
      omega
    have := m_of_nonneg _ (skipBlanks s).2.1 hch
    omega

def initSc (input : List UInt8) : Sc := { rest := input }

/-- outcome of lexing a whole input the way `Lexer.Lex` drives the scanner: tokens up to and including EOF,
    or the tokens before the first lexical error and that error. -/
structure LexAll where
  toks : List (Token × Bool)
  err  : Option LexErr
deriving Repr, Inhabited

/-- `Lexer.Lex` driven to the end: `prev` = type and line of the previous token (`ast.Token{}` initially).
    Defined by well-founded recursion on the remaining input; the decreasing proof is `scan_progress`. -/
def lexAll (prev : Prev) (s : Sc) : LexAll :=
  match _h : scan prev s with
  | .err e => { toks := [], err := some e }
  | .tok t pnl s' =>
    if _ht : t.type < 0 then { toks := [(t, pnl)], err := none }
    else
      let r := lexAll { type := t.type, line := t.line } s'
      { r with toks := (t, pnl) :: r.toks }
termination_by s.rest.length
decreasing_by exact scan_progress prev s t pnl s' _h (by omega)

def lex (input : List UInt8) : LexAll := lexAll {} (initSc input)

/-! ### `Lexer.Lex`: what the goyacc driver reads

  `yyParse` calls `yylex.Lex(&lval)` until it returns 0 (or `Lex` panics with the lexical error); between the calls
  the grammar actions read `lval.token` (stored by `Lex`) and the fields of `*Lexer`.  `lexAll` above is that loop in
  one function; here it is spelled call by call, with the lexer's fields, so that "what reaches the parser" is a
  defined object (`parserInput`) and its equality with `lexAll` a theorem (Proofs/LexerParserInput.lean). -/

/-- `ast.Token` as the parser sees it (`Name` is `TokenName(Type)`, `Pos.Source` the constant chunk name). -/
structure PTok where
  type : Int
  str  : Buf
  line : Int
  col  : Int
deriving Repr, DecidableEq, Inhabited

def Token.toPTok (t : Token) : PTok := { type := t.type, str := t.str, line := t.line, col := t.col }

/-- `parse.Lexer` (without `Stmts`, which the actions write): the scanner, `PNewLine`, `Token`;
    `PrevTokenType` is overwritten with `Token.Type` at the start of every `Lex` call. -/
structure LexerSt where
  sc       : Sc
  pnewline : Bool := false
  token    : PTok := { type := 0, str := [], line := 0, col := 0 }   -- `ast.Token{Str: ""}`
deriving Repr, Inhabited

/-- what one `Lex` call hands to the parser: the returned int (0 at the end of the input), the token stored in
    `lval.token` (nothing is stored at the end of the input), and `PNewLine` as the actions will read it. -/
structure PRead where
  code : Int
  lval : Option PTok
  pnl  : Bool
deriving Repr, DecidableEq, Inhabited

/-- `func (lx *Lexer) Lex(lval *yySymType) int`; `.error e` = `panic(err)`. -/
def lexCall (lx : LexerSt) : Except LexErr (PRead × LexerSt) :=
  -- lx.PrevTokenType = lx.Token.Type;  tok, err := lx.scanner.Scan(lx)
  match scan { type := lx.token.type, line := lx.token.line } lx.sc with
  | .err e => .error e
  | .tok t pnl s' =>
    if t.type < 0 then .ok ({ code := 0, lval := none, pnl := pnl }, { lx with sc := s', pnewline := pnl })
    else .ok ({ code := t.type, lval := some t.toPTok, pnl := pnl }, { sc := s', pnewline := pnl, token := t.toPTok })

/-- the sequence of `Lex` results the driver obtains, up to and including the 0 / up to the panic. -/
def lexCalls (lx : LexerSt) : List PRead × Option LexErr :=
  match _h : scan { type := lx.token.type, line := lx.token.line } lx.sc with
  | .err e => ([], some e)
  | .tok t pnl s' =>
    if _ht : t.type < 0 then ([{ code := 0, lval := none, pnl := pnl }], none)
    else
      let r := lexCalls { sc := s', pnewline := pnl, token := t.toPTok }
      ({ code := t.type, lval := some t.toPTok, pnl := pnl } :: r.1, r.2)
termination_by lx.sc.rest.length
decreasing_by exact scan_progress { type := lx.token.type, line := lx.token.line } lx.sc t pnl s' _h (by omega)

/-- `Parse(reader, name)`: `&Lexer{NewScanner(reader, name), nil, false, ast.Token{Str: ""}, TNil}`. -/
def parserInput (input : List UInt8) : List PRead × Option LexErr := lexCalls { sc := initSc input }

end GLua.Lexer
