/-
  Model for C15's special-operand family: transcription of /repo/mathlib.go (and of `luaModulo` in /repo/vm.go,
  which `mathMod` and the `%` operator call), function by function, over IEEE bit patterns.

  Every wrapper is a single call of a Go `math` function on `float64(L.CheckNumber(i))`.  TRUSTED: Go's
  `math.Floor`, `Ceil`, `Abs`, `Sqrt`, `Mod`, `Modf`, `Frexp`, `Ldexp` and the float64 operators `+ * / < >`
  compute the IEEE-754 operations of `GLua.IEEE` (their documented special cases are transcribed where they
  differ from C99: `Modf(±Inf) = ±Inf, NaN`, `Frexp(±Inf) = ±Inf, 0`, `Frexp(NaN) = NaN, 0`).  The harness sends
  Go's own result for the same operands with every request and the engine insists that it equals this Model, so
  the trust is re-checked on every run.  The transcendental wrappers (exp, log, sin, pow, atan2 …) are not
  computable here: for them the Model IS Go's function, i.e. the reference the harness sends (`none` below) —
  except `mathAtan2`, which corrects the sign of Go's result (`call2OfRef`).
-/
import GLua.Spec.MathIEEE

namespace GLua.MathModel
open GLua.IEEE

/-- `math.Pi / 180` — an untyped constant expression, evaluated exactly by the Go compiler and rounded once when
    it meets the float64 operand: the double nearest to π/180 -/
def piOver180 : Bits := 0x3F91DF46A2529D39

/-- Go `math.Modf`: integer part by truncation, fractional part `f - int` (exact), both with the sign of f;
    `Modf(±Inf) = ±Inf, NaN`; `Modf(NaN) = NaN, NaN` -/
def goModf (x : Bits) : Bits × Bits :=
  match decode x with
  | .nan => (nanBits, nanBits)
  | .inf _ => (x, nanBits)
  | .fin ng m e => (trunc x, if e ≥ 0 then zeroBits ng else roundDy ng (m % 2 ^ (-e).toNat) e)

/-- Go `math.Frexp`: `Frexp(±0) = ±0, 0`, `Frexp(±Inf) = ±Inf, 0`, `Frexp(NaN) = NaN, 0` -/
def goFrexp (x : Bits) : Bits × Int :=
  match decode x with
  | .nan => (nanBits, 0)
  | .inf _ => (x, 0)
  | .fin ng m e =>
    if m = 0 then (x, 0)
    else
      let n : Int := (Nat.log2 m + 1 : Nat)
      (roundDy ng m (-n), n + e)

/-- mathModf: `v1, v2 := math.Modf(x); if math.IsInf(x, 0) { v2 = math.Copysign(0, x) }` -/
def mathModf (x : Bits) : List Bits :=
  let (v1, v2) := goModf x
  [v1, if isInf x then zeroBits (isNeg x) else v2]

def mathFrexp (x : Bits) : List Bits :=
  let (v1, v2) := goFrexp x
  [v1, ofInt v2]

/-- mathMax: `max := arg 1; for i := 2..top { v := arg i; if v > max { max = v } }` (IEEE `>`: false on NaN) -/
def mathMax : List Bits → Option Bits
  | [] => none
  | x :: r => some (r.foldl (fun mx v => if gt v mx then v else mx) x)
def mathMin : List Bits → Option Bits
  | [] => none
  | x :: r => some (r.foldl (fun mn v => if lt v mn then v else mn) x)

/-- luaModulo: `v := math.Mod(flhs, frhs); if frhs > 0 && v < 0 || frhs < 0 && v > 0 { v += frhs }; return v` -/
def luaModulo (lhs rhs : Bits) : Bits :=
  let v := fmod lhs rhs
  let z0 := zeroBits false
  if (gt rhs z0 ∧ lt v z0) ∨ (lt rhs z0 ∧ gt v z0) then add v rhs else v

/-- `L.CheckInt(2)`: `int(LNumber)` — truncation for a finite value inside the int64 range; outside it (and for
    inf / NaN) the Go conversion is implementation-specific and not modelled (`none`) -/
def checkInt (n : Bits) : Option Int :=
  match toIntTrunc n with
  | some k => if k.natAbs < 9223372036854775808 then some k else none
  | none => none

/-- mathAtan2 (after fixes/C15-atan2-underflow-sign.diff):
    `r := math.Atan2(y, x); if y < 0 && r > 0 { r = -r }`.
    `math.Atan2` itself is not computable here: `goR` is Go's result for these operands (the reference the harness
    sends with the request); the wrapper's comparison and negation are the IEEE operations. -/
def mathAtan2 (y _x goR : Bits) : Bits :=
  if lt y (zeroBits false) ∧ gt goR (zeroBits false) then negate goR else goR

/-- mathAtan2 BEFORE the fix (`L.Push(LNumber(math.Atan2(y, x)))`): Go's result passed through — kept to state
    what was wrong (Props.C15.atan2_before_fix_fails) -/
def mathAtan2Old (_y _x goR : Bits) : Bits := goR

/-- wrappers that post-process the result of a Go function which is not computable in Lean: the Model as a
    function of the operands AND of Go's result `ref` for them -/
def call2OfRef (fn : String) (x y : Bits) (ref : List Bits) : Option (List Bits) :=
  match fn, ref with
  | "atan2", [r] => some [mathAtan2 x y r]
  | _, _ => none

/-- one- and two-argument wrappers; `none` = not computable in Lean (Model = the Go reference of the request) -/
def call1 (fn : String) (x : Bits) : Option (List Bits) :=
  let nn (b : Bits) : Bits := if isNaN b then nanBits else b
  match fn with
  | "floor" => some [nn (floor x)]
  | "ceil" => some [nn (ceil x)]
  | "abs" => some [nn (abs x)]
  | "sqrt" => some [sqrt x]
  | "modf" => some (mathModf x)
  | "frexp" => some (mathFrexp x)
  | "deg" => some [div x piOver180]            -- float64(x) / (math.Pi / 180)
  | "rad" => some [mul x piOver180]            -- float64(x) * (math.Pi / 180)
  | _ => none

def call2 (fn : String) (x y : Bits) : Option (List Bits) :=
  match fn with
  | "fmod" => some [fmod x y]                  -- math.Mod(x, y), arguments in this order
  | "mod" | "opmod" => some [luaModulo x y]
  | "ldexp" => (checkInt y).map fun k => [ldexp x k]
  | _ => none

end GLua.MathModel
