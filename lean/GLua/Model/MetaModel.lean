/-
  C04 — Model: transcription of gopher-lua's metamethod dispatch, function by function, same names, same
  case splits, returning the `Action` type of GLua/Spec/MetaSpec.lean.

    /repo/state.go   metatable, metaOp1, metaOp2, metaCall, pushCallFrame(meta), callR,
                     getField, getFieldString, setField, setFieldString (MaxTableGetLoop fuel),
                     ObjLen, GetMetatable, SetMetatable
    /repo/vm.go      opArith, objectArith, stringConcat, lessThan, OP_LE body, equals,
                     objectRational(WithError), OP_UNM, OP_LEN, OP_CALL, OP_TAILCALL (callable selection)
    /repo/baselib.go baseSetMetatable, baseGetMetatable, baseRawGet, baseRawSet, baseRawEqual
    /repo/auxlib.go  ToStringMeta

  How Go is read:
  * `LValue` = `V N`; a Go type switch / type assertion is a `match` on the constructor;
    `x.Type() == LTFunction` is `x.isFunc`; `x == LNil` is `x.isNil`.
  * `LTable.Metatable` / `LUserData.Metatable` hold `LNil` or a `*LTable` (the only writer is
    `LState.SetMetatable`, which rejects everything else): `Heap.tmeta/umeta : Nat → Option Nat`; the model
    still performs the `mt.(*LTable)` assertion the code performs.  `G.builtinMts[type]` is `Heap.tymeta`.
  * `tb.RawGetString(event)` on a metatable is `Heap.field tb event`; `tb.RawGet(key)` is `Heap.raw tb key`
    (that the string accessors agree with `RawGet` is C09's `reads_agree`).
  * a handler call `reg.Push(h); reg.Push(a)…; L.Call(n, r)` is the action `call h [a…] post`, where `post`
    says what the code does with the popped result.  `L.RaiseError(..)` is `error kind`.
  * the code is not repaired here: where it deviates from the manual the model deviates identically.
  Core Lean only.
-/
import GLua.Spec.MetaSpec
import GLua.Generated.Consts

namespace GLua.MetaModel
open GLua.Meta

variable {N : Type}

/-- state.go `func (ls *LState) metatable(lvalue LValue, rawget bool) LValue` -/
def metatable (h : Heap N) (lvalue : V N) (rawget : Bool) : V N :=
  let metatable : V N :=
    match lvalue with
    | .table id => optTable (h.tmeta id)          -- case *LTable: obj.Metatable
    | .udata id => optTable (h.umeta id)          -- case *LUserData: obj.Metatable
    | obj =>                                      -- default: ls.G.builtinMts[int(obj.Type())]
      match h.tymeta obj.ty with
      | some table => .table table
      | none => .nil
  if !rawget && !metatable.isNil then
    let oldmt := metatable
    match metatable with
    | .table tb =>                                -- if tb, ok := metatable.(*LTable); ok
      let metatable := h.field tb .metatable      -- tb.RawGetString("__metatable")
      if metatable.isNil then oldmt else metatable
    | _ => metatable
  else metatable

/-- state.go `metaOp1` -/
def metaOp1 (h : Heap N) (lvalue : V N) (event : Event) : V N :=
  let mt := metatable h lvalue true
  if !mt.isNil then
    match mt with
    | .table tb => h.field tb event
    | _ => .nil
  else .nil

/-- state.go `metaOp2` -/
def metaOp2 (h : Heap N) (value1 value2 : V N) (event : Event) : V N :=
  let first : Option (V N) :=
    let mt := metatable h value1 true
    if !mt.isNil then
      match mt with
      | .table tb =>
        let ret := h.field tb event
        if !ret.isNil then some ret else none
      | _ => none
    else none
  match first with
  | some ret => ret
  | none =>
    let mt := metatable h value2 true
    if !mt.isNil then
      match mt with
      | .table tb => h.field tb event
      | _ => .nil
    else .nil

/-- state.go `metaCall`: `(callable or nil, meta)` -/
def metaCall (h : Heap N) (lvalue : V N) : Option (V N) × Bool :=
  match lvalue with
  | .func _ => (some lvalue, false)
  | _ =>
    match metaOp1 h lvalue .call with
    | .func id => (some (.func id), true)          -- .(*LFunction) succeeded
    | _ => (none, false)

/-- state.go `pushCallFrame(cf, fn, isMeta)` as far as dispatch is concerned:
    `if isMeta { cf.NArgs++; ls.reg.Insert(fn, cf.LocalBase) }`, `if cf.Fn == nil { RaiseError(...) }`.
    (`stack overflow` belongs to C12.) -/
def pushCallFrame (callable : Option (V N)) (args : List (V N)) (fn : V N) (isMeta : Bool) : Action N :=
  let args := if isMeta then fn :: args else args
  match callable with
  | none => .error .call
  | some f => .call f args .all

/-- vm.go OP_CALL: callable selection + pushCallFrame -/
def opCall (h : Heap N) (lv : V N) (args : List (V N)) : Action N :=
  let (callable, isMeta) : Option (V N) × Bool :=
    match lv with
    | .func _ => (some lv, false)
    | _ => metaCall h lv
  pushCallFrame callable args lv isMeta

/-- vm.go OP_TAILCALL: callable selection, `if callable == nil { RaiseError }`, then either
    pushCallFrame(.., lv, isMeta) (Go function) or the inlined `if isMeta { cf.NArgs++; Insert(lv, LocalBase) }`. -/
def opTailCall (h : Heap N) (lv : V N) (args : List (V N)) : Action N :=
  let (callable, isMeta) : Option (V N) × Bool :=
    match lv with
    | .func _ => (some lv, false)
    | _ => metaCall h lv
  match callable with
  | none => .error .call
  | some f => .call f (if isMeta then lv :: args else args) .all

/-- state.go `callR` (used by `LState.Call/PCall`, OP_TFORLOOP, and every handler call): metaCall + pushCallFrame -/
def callR (h : Heap N) (lv : V N) (args : List (V N)) : Action N :=
  let (fn, isMeta) := metaCall h lv
  pushCallFrame fn args lv isMeta

/-! ### index / newindex chains -/

/-- body of the `for i := 0; i < MaxTableGetLoop; i++` loop of `getField`; `.next` = `curobj = metaindex`. -/
def getFieldStep (h : Heap N) (curobj key : V N) : Action N :=
  -- tb, istable := curobj.(*LTable)
  let found : Option (V N) :=
    match curobj with
    | .table tb =>
      let ret := h.raw tb key
      if !ret.isNil then some ret else none
    | _ => none
  match found with
  | some ret => .raw ret
  | none =>
    let metaindex := metaOp1 h curobj .index
    if metaindex.isNil then
      match curobj with
      | .table _ => .raw .nil
      | _ => .error .index                         -- if !istable { RaiseError("attempt to index a non-table object…") }
    else if metaindex.isFunc then .call metaindex [curobj, key] .first
    else .next metaindex

def getFieldLoop (h : Heap N) (key : V N) : Nat → V N → Action N
  | 0, _ => .error .loop                           -- ls.RaiseError("too many recursions in gettable")
  | i + 1, curobj =>
    match getFieldStep h curobj key with
    | .next o => getFieldLoop h key i o
    | a => a

/-- state.go `getField` -/
def getField (h : Heap N) (obj key : V N) : Action N :=
  getFieldLoop h key GLua.Generated.MaxTableGetLoop obj

/-- state.go `getFieldString`: same loop with `RawGetString(key)` and `LString(key)` pushed to the handler. -/
def getFieldString (h : Heap N) (obj : V N) (key : String) : Action N :=
  getFieldLoop h (.str key) GLua.Generated.MaxTableGetLoop obj

/-- vm.go OP_SELF (`obj:name(…)`): `selfobj := R(B); v := L.getFieldString(selfobj, L.rkString(C)); R(A) := v;
    R(A+1) := selfobj` — the method is fetched by the ordinary index path, for every kind of receiver; the call
    that follows (OP_CALL / OP_TAILCALL) gets the receiver as first argument. -/
def opSelf (h : Heap N) (selfobj : V N) (key : String) : Action N :=
  getFieldString h selfobj key

/-- body of the loop of `setField`. -/
def setFieldStep (h : Heap N) (curobj key value : V N) : Action N :=
  let present : Option Nat :=
    match curobj with
    | .table tb => if !(h.raw tb key).isNil then some tb else none
    | _ => none
  match present with
  | some tb => .store tb key value                 -- ls.RawSet(tb, key, value); return
  | none =>
    let metaindex := metaOp1 h curobj .newindex
    if metaindex.isNil then
      match curobj with
      | .table tb => .store tb key value
      | _ => .error .index
    else if metaindex.isFunc then .call metaindex [curobj, key, value] .discard
    else .next metaindex

def setFieldLoop (h : Heap N) (key value : V N) : Nat → V N → Action N
  | 0, _ => .error .loop                           -- ls.RaiseError("too many recursions in settable")
  | i + 1, curobj =>
    match setFieldStep h curobj key value with
    | .next o => setFieldLoop h key value i o
    | a => a

/-- state.go `setField` -/
def setField (h : Heap N) (obj key value : V N) : Action N :=
  setFieldLoop h key value GLua.Generated.MaxTableGetLoop obj

/-- state.go `setFieldString` -/
def setFieldString (h : Heap N) (obj : V N) (key : String) (value : V N) : Action N :=
  setFieldLoop h (.str key) value GLua.Generated.MaxTableGetLoop obj

/-! ### arithmetic -/

/-- the `if str, ok := x.(LString); ok { if num, err := parseNumber(str); err == nil { x = num } }` idiom -/
def coerceStr (p : Prims N) (x : V N) : V N :=
  match x with
  | .str s =>
    match p.toNum s with
    | some n => .num n
    | none => x
  | _ => x

/-- vm.go `objectArith` -/
def objectArith (p : Prims N) (h : Heap N) (opcode : ArithOp) (lhs rhs : V N) : Action N :=
  let op := metaOp2 h lhs rhs opcode.event
  if op.isFunc then .call op [lhs, rhs] .first     -- if _, ok := op.(*LFunction); ok
  else
    let lhs := coerceStr p lhs
    let rhs := coerceStr p rhs
    match lhs, rhs with
    | .num v1, .num v2 => .raw (.num (p.arith opcode v1 v2))
    | _, _ => .error .arith

/-- vm.go `opArith`: number fast path, else objectArith -/
def opArith (p : Prims N) (h : Heap N) (opcode : ArithOp) (lhs rhs : V N) : Action N :=
  match lhs, rhs with
  | .num v1, .num v2 => .raw (.num (p.arith opcode v1 v2))
  | _, _ => objectArith p h opcode lhs rhs

/-- vm.go OP_UNM -/
def opUnm (p : Prims N) (h : Heap N) (unaryv : V N) : Action N :=
  match unaryv with
  | .num nm => .raw (.num (p.neg nm))
  | _ =>
    let op := metaOp1 h unaryv .unm
    if op.isFunc then .call op [unaryv] .first
    else
      match unaryv with
      | .str str =>
        match p.toNum str with
        | some num => .raw (.num (p.neg num))
        | none => .error .unm
      | _ => .error .unm

/-- vm.go OP_LEN -/
def opLen (p : Prims N) (h : Heap N) (lv : V N) : Action N :=
  match lv with
  | .str s => .raw (.num (p.strLen s))
  | _ =>
    let op := metaOp1 h lv .len
    if op.isFunc then .call op [lv] .first          -- result stored whatever its type
    else
      match lv with
      | .table id => .raw (.num (h.border id))
      | _ => .error .len

/-- state.go `ObjLen` (Go API): like OP_LEN but a missing handler on a non-table yields 0, and the handler's
    result is converted with `int(..)` when it is a number, else 0. `none` = the Go int 0. -/
def objLen (p : Prims N) (h : Heap N) (v1 : V N) : Option (Action N) :=
  match v1 with
  | .str s => some (.raw (.num (p.strLen s)))
  | _ =>
    let op := metaOp1 h v1 .len
    if op.isFunc then some (.call op [v1] .apiInt)
    else
      match v1 with
      | .table id => some (.raw (.num (h.border id)))
      | _ => none

/-! ### concatenation -/

/-- value.go `LVCanConvToString` -/
def lvCanConvToString : V N → Bool
  | .str _ => true
  | .num _ => true
  | _ => false

/-- value.go `LVAsString` -/
def lvAsString (p : Prims N) : V N → String
  | .str s => s
  | .num n => p.numStr n
  | _ => ""

/-- the inner `for total > 0 { lhs = reg.Get(i); if !LVCanConvToString(lhs) { break }; buf[total-1] = …; i--; total-- }`:
    consumes the maximal run of convertible operands (nearest first), filling `buf` from the right. -/
def concatRun (p : Prims N) : List (V N) → List String → List String × List (V N)
  | [], buf => (buf, [])
  | lhs :: rest, buf =>
    if lvCanConvToString lhs then concatRun p rest (lvAsString p lhs :: buf)
    else (buf, lhs :: rest)

/-- the outer loop of `stringConcat`; `regs` = the operands left of `rhs`, nearest first (register `i`
    downwards), `total` = the Go counter (fuel; it equals `regs.length`). -/
def stringConcatLoop (p : Prims N) (h : Heap N) (ret : V N → List (V N) → V N) :
    Nat → List (V N) → V N → List (Call N) → Outcome N
  | 0, _, rhs, log => (log, .ok rhs)
  | _ + 1, [], rhs, log => (log, .ok rhs)
  | total + 1, lhs :: rest, rhs, log =>
    if !(lvCanConvToString lhs && lvCanConvToString rhs) then
      let op := metaOp2 h lhs rhs .concat
      if op.isFunc then
        stringConcatLoop p h ret total rest (ret op [lhs, rhs]) (log ++ [⟨op, [lhs, rhs]⟩])
      else (log, .error .concat)
    else
      let (buf, rest') := concatRun p (lhs :: rest) [lvAsString p rhs]
      stringConcatLoop p h ret total rest' (.str (String.join buf)) log

/-- vm.go `stringConcat(L, total, last)` over the operand list in source order (`regs[last-total+1 .. last]`). -/
def stringConcat (p : Prims N) (h : Heap N) (ret : V N → List (V N) → V N) (operands : List (V N)) : Outcome N :=
  match operands.reverse with
  | [] => ([], .ok (.str ""))                       -- not reachable: OP_CONCAT has at least two operands
  | rhs :: regs => stringConcatLoop p h ret regs.length regs rhs []

/-! ### comparison -/

/-- vm.go `objectRational`: `some m1` = the handler is called with `(lhs, rhs)` and its truth value decides
    between 1 and 0; `none` = -1. -/
def objectRational (h : Heap N) (goEq : V N → V N → Bool) (lhs rhs : V N) (event : Event) : Option (V N) :=
  let m1 := metaOp1 h lhs event
  let m2 := metaOp1 h rhs event
  if m1.isFunc && goEq m1 m2 then some m1 else none

/-- Go `==` on two `LValue` interfaces: same dynamic type and equal value (pointers by identity). -/
def goEq (p : Prims N) : V N → V N → Bool
  | .nil, .nil => true
  | .bool a, .bool b => a == b
  | .num a, .num b => p.numEq a b
  | .str a, .str b => a == b
  | .func a, .func b => a == b
  | .udata a, .udata b => a == b
  | .thread a, .thread b => a == b
  | .table a, .table b => a == b
  | .chan a, .chan b => a == b
  | _, _ => false

/-- vm.go `objectRationalWithError` -/
def objectRationalWithError (p : Prims N) (h : Heap N) (lhs rhs : V N) (event : Event) (post : Post) : Action N :=
  match objectRational h (goEq p) lhs rhs event with
  | some m1 => .call m1 [lhs, rhs] post
  | none => .error .compare

/-- vm.go `lessThan` -/
def lessThan (p : Prims N) (h : Heap N) (lhs rhs : V N) : Action N :=
  match lhs with
  | .num v1 =>
    match rhs with
    | .num v2 => .raw (.bool (p.numLt v1 v2))
    | _ => .error .compare
  | _ =>
    if lhs.ty ≠ rhs.ty then .error .compare
    else
      match lhs, rhs with
      | .str a, .str b => .raw (.bool (p.strLt a b))
      | _, _ => objectRationalWithError p h lhs rhs .lt .truth

/-- vm.go OP_LE body -/
def opLE (p : Prims N) (h : Heap N) (lhs rhs : V N) : Action N :=
  match lhs with
  | .num v1 =>
    match rhs with
    | .num v2 => .raw (.bool (p.numLe v1 v2))
    | _ => .error .compare
  | _ =>
    if lhs.ty ≠ rhs.ty then .error .compare
    else
      match lhs, rhs with
      | .str a, .str b => .raw (.bool (p.strLe a b))
      | _, _ =>
        match objectRational h (goEq p) lhs rhs .le with
        | some m1 => .call m1 [lhs, rhs] .truth
        | none => objectRationalWithError p h rhs lhs .lt .nottruth   -- ret = !objectRationalWithError(L, rhs, lhs, "__lt")

/-- vm.go `equals(L, lhs, rhs, raw)` -/
def equals (p : Prims N) (h : Heap N) (lhs rhs : V N) (raw : Bool) : Action N :=
  if lhs.ty ≠ rhs.ty then .raw (.bool false)
  else
    match lhs, rhs with
    | .nil, _ => .raw (.bool true)
    | .num v1, .num v2 => .raw (.bool (p.numEq v1 v2))
    | .bool a, .bool b => .raw (.bool (a == b))
    | .str a, .str b => .raw (.bool (a == b))
    | .udata _, _ | .table _, _ =>
      if goEq p lhs rhs then .raw (.bool true)
      else if !raw then
        match objectRational h (goEq p) lhs rhs .eq with
        | some m1 => .call m1 [lhs, rhs] .truth
        | none => .raw (.bool false)
      else .raw (.bool false)
    | _, _ => .raw (.bool (goEq p lhs rhs))

/-! ### library entry points -/

/-- auxlib.go `ToStringMeta` -/
def toStringMeta (p : Prims N) (h : Heap N) (lv : V N) : Action N :=
  match metaOp1 h lv .tostring with
  | .func id => .call (.func id) [lv] .first
  | _ => .raw (.str (p.tostr lv))

/-- state.go `GetMetatable` = `metatable(obj, false)`; baselib `baseGetMetatable` pushes it. -/
def getMetatable (h : Heap N) (obj : V N) : Action N := .raw (metatable h obj false)

/-- state.go `SetMetatable(obj, mt)` -/
def setMetatable (obj mt : V N) : Action N :=
  match mt with
  | .nil => .setmt obj none
  | .table m => .setmt obj (some m)
  | _ => .error .badArg                             -- "metatable must be a table or nil"

/-- baselib.go `baseSetMetatable` -/
def baseSetMetatable (h : Heap N) (obj mt : V N) : Action N :=
  -- L.CheckTypes(2, LTNil, LTTable)
  if !(mt.ty = .nil ∨ mt.ty = .table) then .error .badArg
  else if obj.isNil then .error .badArg             -- "cannot set metatable to a nil object."
  else
    let m := metatable h obj true
    let prot : Bool :=
      if !m.isNil then
        match m with
        | .table tb => !(h.field tb .metatable).isNil
        | _ => false
      else false
    if prot then .error .protectedMt                  -- "cannot change a protected metatable"
    else setMetatable obj mt

/-- baselib.go `baseRawGet`: `L.RawGet(L.CheckTable(1), L.CheckAny(2))` -/
def baseRawGet (h : Heap N) (t k : V N) : Action N :=
  match t with
  | .table id => .raw (h.raw id k)
  | _ => .error .badArg

/-- baselib.go `baseRawSet`: `L.RawSet(L.CheckTable(1), L.CheckAny(2), L.CheckAny(3))` -/
def baseRawSet (t k v : V N) : Action N :=
  match t with
  | .table id => .store id k v
  | _ => .error .badArg

/-- baselib.go `baseRawEqual`: `L.CheckAny(1) == L.CheckAny(2)` -/
def baseRawEqual (p : Prims N) (a b : V N) : Action N := .raw (.bool (goEq p a b))

end GLua.MetaModel
