/-
  MiniVM — the register machine of /repo/vm.go (`_vm.go`) restricted to the opcodes that the lowering of
  conditions, logical operators and local assignments emits:

      MOVE MOVEN LOADK LOADBOOL(with skip) LOADNIL NOT TEST TESTSET EQ LT LE JMP NOP
      ADD SUB MUL DIV MOD POW (opArith: RK operands) UNM LEN CONCAT (stringConcat over R(B)..R(C), right to left)
      + EVAL r id    pseudo-instruction: one opaque single-register computation (real code: GETGLOBAL r K"g<id>")
      + SETG r id    pseudo-instruction: global store (real code: SETGLOBAL r K"g<id>"), only in statement contexts
      + RETURN / other ABC instructions, on which the machine halts (they end an observation).

  Each case of `step` is the body of the corresponding `jumpTable` entry of vm.go (after `cf.Pc++`):
  operands are decoded fields, `RK(x)` is `Constants[x-256]` when bit 8 is set, `reg.Set` is a plain store
  (the registry never reallocates below `NumUsedRegisters`), comparison results come from an oracle.
  Go panics (constant index out of range, code index out of range) are explicit `.goPanic` outcomes.
  Values are abstract (`Env V`): only nil/true/false, truthiness, constants and the oracles are visible.
-/
import GLua.Generated.Consts
import GLua.Spec.CondAst

namespace GLua.MiniVM
open GLua.Compile (NumStruct ArithOp)

/-- constants of the pool (`FunctionProto.Constants`) that this fragment creates. -/
inductive Konst [NumStruct] where
  | num (x : NumStruct.N)   -- LNumber (a numeral as written or the result of constant folding; may be NaN)
  | str (s : String)        -- LString
deriving DecidableEq

instance [NumStruct] : Inhabited Konst := ⟨.str ""⟩

/-- decoded instructions. `jmp`/`nop` carry the sBx operand: a LABEL ID before `patchCode`, a DISTANCE after. -/
inductive Instr where
  | move (a b : Nat)
  | moven (a b c : Nat)
  | loadk (a bx : Nat)
  | loadbool (a b c : Nat)
  | loadnil (a b : Nat)
  | not (a b : Nat)
  | test (a b c : Nat)          -- B is ignored by the VM (the compiler sometimes leaves a register number there)
  | testset (a b c : Nat)
  | eq (a b c : Nat)
  | lt (a b c : Nat)
  | le (a b c : Nat)
  | jmp (sbx : Int)
  | nop (sbx : Int)             -- a JMP whose opcode was overwritten by OP_NOP (operand bits are kept)
  | eval (a id : Nat)           -- GETGLOBAL a K("g<id>")
  | setg (a id : Nat)           -- SETGLOBAL a K("g<id>")
  | arith (op : ArithOp) (a b c : Nat)   -- OP_ADD … OP_POW: R(A) := RK(B) op RK(C)
  | unm (a b : Nat)             -- OP_UNM:  R(A) := -RK(B)
  | len (a b : Nat)             -- OP_LEN:  R(A) := #RK(B)
  | concat (a b c : Nat)        -- OP_CONCAT: R(A) := R(B) .. … .. R(C)
  | ret (a b : Nat)             -- RETURN a b 0
  | abc (op a b c : Nat)        -- any other instruction of a context (e.g. VARARG); the MiniVM halts on it
deriving DecidableEq, Repr, Inhabited

/-- `opGetArgA` of the encoded instruction. -/
def Instr.argA : Instr → Nat
  | .move a _ | .moven a _ _ | .loadk a _ | .loadbool a _ _ | .loadnil a _ | .not a _ | .test a _ _
  | .testset a _ _ | .eq a _ _ | .lt a _ _ | .le a _ _ | .eval a _ | .setg a _ | .ret a _ | .abc _ a _ _
  | .arith _ a _ _ | .unm a _ | .len a _ | .concat a _ _ => a
  | .jmp _ | .nop _ => 0

/-- `opGetArgB` for the ABC-format instructions the VM decodes generically (MOVEN's followers). -/
def Instr.argB : Instr → Nat
  | .move _ b | .moven _ b _ | .loadbool _ b _ | .loadnil _ b | .not _ b | .test _ b _ | .testset _ b _
  | .eq _ b _ | .lt _ b _ | .le _ b _ | .ret _ b | .abc _ _ b _
  | .arith _ _ b _ | .unm _ b | .len _ b | .concat _ b _ => b
  | _ => 0

def Instr.isJmp : Instr → Bool
  | .jmp _ => true
  | _ => false

def Instr.isMove : Instr → Bool
  | .move _ _ => true
  | _ => false

variable [NumStruct]

abbrev Env := GLua.Compile.Dom

/-- the value of a pool constant. -/
def Env.konst {V} (env : Env V) : Konst → V
  | .num n => env.num n
  | .str s => env.str s

structure VM (V : Type) where
  pc : Nat
  regs : Nat → V
  globs : Nat → V

inductive Outcome (V : Type) where
  | ok (s : VM V)
  | halt (s : VM V)                  -- RETURN / foreign instruction reached (pc = that instruction)
  | luaError (site : String)         -- a comparison / arithmetic / concatenation / length operation raised
  | goPanic (site : String)

def setReg {V} (regs : Nat → V) (a : Nat) (v : V) : Nat → V := fun i => if i = a then v else regs i

/-- LOADNIL: `for i := RA; i <= lbase+B; i++ { reg.Set(i, LNil) }`. -/
def fillNil {V} (regs : Nat → V) (a b : Nat) (nilV : V) : Nat → V :=
  fun i => if a ≤ i ∧ i ≤ b then nilV else regs i

/-- `L.rkValue(x)`. -/
def rkValue {V} (env : Env V) (consts : List Konst) (regs : Nat → V) (x : Nat) : Option V :=
  if x ≥ Generated.opBitRk then (consts[x - Generated.opBitRk]?).map env.konst else some (regs x)

/-- MOVEN's loop: C further instructions are decoded as `R(A) := R(B)`. -/
def movenLoop {V} (code : List Instr) : Nat → Nat → (Nat → V) → Option (Nat × (Nat → V))
  | 0, pc, regs => some (pc, regs)
  | n + 1, pc, regs =>
    match code[pc]? with
    | none => none
    | some i => movenLoop code n (pc + 1) (setReg regs i.argA (regs i.argB))

/-- `stringConcat(L, total, last)` on R(b) … R(b+n): starting from `acc` = the value of the last register, the
    operands are joined from right to left (`acc := R(i) .. acc` for i = b+n-1 downto b); `none` = raises. -/
def concatFold {V} (env : Env V) (regs : Nat → V) (b : Nat) : Nat → V → Option V
  | 0, acc => some acc
  | n + 1, acc =>
    match env.concat (regs (b + n)) acc with
    | none => none
    | some v => concatFold env regs b n v

/-- the value `OP_CONCAT A B C` stores: R(B) .. … .. R(C). -/
def concatVal {V} (env : Env V) (regs : Nat → V) (b c : Nat) : Option V :=
  concatFold env regs b (c - b) (regs c)

/-- a value-producing instruction whose operation may raise. -/
def opStep {V} (s : VM V) (pc1 a : Nat) (r : Option (Option V)) (site : String) : Outcome V :=
  match r with
  | none => .goPanic "Constants[index out of range]"
  | some none => .luaError site
  | some (some v) => .ok { s with pc := pc1, regs := setReg s.regs a v }

def cmpStep {V} (s : VM V) (pc1 : Nat) (a : Nat) (r : Option (Option Bool)) (site : String) : Outcome V :=
  match r with
  | none => .goPanic "Constants[index out of range]"
  | some none => .luaError site
  | some (some ret) =>
    -- v := 1; if ret { v = 0 }; if v == A { cf.Pc++ }
    let v := if ret then 0 else 1
    .ok { s with pc := if v = a then pc1 + 1 else pc1 }

/-- one `mainLoop` iteration: `inst = Code[cf.Pc]; cf.Pc++; jumpTable[op](…)`. -/
def step {V} (env : Env V) (code : List Instr) (consts : List Konst) (s : VM V) : Outcome V :=
  match code[s.pc]? with
  | none => .goPanic "Code[index out of range]"
  | some inst =>
    let pc1 := s.pc + 1
    match inst with
    | .move a b => .ok { s with pc := pc1, regs := setReg s.regs a (s.regs b) }
    | .moven a b c =>
      match movenLoop code c pc1 (setReg s.regs a (s.regs b)) with
      | none => .goPanic "Code[index out of range] in MOVEN"
      | some (pc', regs') => .ok { s with pc := pc', regs := regs' }
    | .loadk a bx =>
      match consts[bx]? with
      | none => .goPanic "Constants[index out of range]"
      | some k => .ok { s with pc := pc1, regs := setReg s.regs a (env.konst k) }
    | .loadbool a b c =>
      .ok { s with pc := if c ≠ 0 then pc1 + 1 else pc1,
                   regs := setReg s.regs a (if b ≠ 0 then env.trueV else env.falseV) }
    | .loadnil a b => .ok { s with pc := pc1, regs := fillNil s.regs a b env.nilV }
    | .not a b =>
      .ok { s with pc := pc1, regs := setReg s.regs a (if env.truthy (s.regs b) then env.falseV else env.trueV) }
    | .test a _ c =>
      -- if LVAsBool(reg.Get(RA)) == (C == 0) { cf.Pc++ }
      .ok { s with pc := if env.truthy (s.regs a) == (c == 0) then pc1 + 1 else pc1 }
    | .testset a b c =>
      -- if value := reg.Get(lbase+B); LVAsBool(value) != (C == 0) { reg.Set(RA, value) } else { cf.Pc++ }
      let value := s.regs b
      if env.truthy value != (c == 0) then .ok { s with pc := pc1, regs := setReg s.regs a value }
      else .ok { s with pc := pc1 + 1 }
    | .eq a b c =>
      cmpStep s pc1 a (do let x ← rkValue env consts s.regs b; let y ← rkValue env consts s.regs c; pure (env.eq x y)) "eq"
    | .lt a b c =>
      cmpStep s pc1 a (do let x ← rkValue env consts s.regs b; let y ← rkValue env consts s.regs c; pure (env.lt x y)) "lt"
    | .le a b c =>
      cmpStep s pc1 a (do let x ← rkValue env consts s.regs b; let y ← rkValue env consts s.regs c; pure (env.le x y)) "le"
    | .jmp sbx =>
      -- cf.Pc += Sbx   (cf.Pc is already pc+1)
      let t : Int := (pc1 : Int) + sbx
      if t < 0 then .goPanic "Code[negative index]" else .ok { s with pc := t.toNat }
    | .nop _ => .ok { s with pc := pc1 }
    | .eval a id => .ok { s with pc := pc1, regs := setReg s.regs a (s.globs id) }
    | .setg a id => .ok { s with pc := pc1, globs := setReg s.globs id (s.regs a) }
    | .arith op a b c =>
      -- opArith: lhs := rkValue(B); rhs := rkValue(C); numberArith / objectArith (coercion, else error)
      opStep s pc1 a (do let x ← rkValue env consts s.regs b; let y ← rkValue env consts s.regs c; pure (env.arith op x y)) "arith"
    | .unm a b => opStep s pc1 a (do let x ← rkValue env consts s.regs b; pure (env.unm x)) "unm"
    | .len a b => opStep s pc1 a (do let x ← rkValue env consts s.regs b; pure (env.len x)) "len"
    | .concat a b c => opStep s pc1 a (some (concatVal env s.regs b c)) "concat"
    | .ret _ _ => .halt s
    | .abc _ _ _ _ => .halt s

/-- run with fuel (programs may loop). -/
def run {V} (env : Env V) (code : List Instr) (consts : List Konst) : Nat → VM V → Option (Outcome V)
  | 0, _ => none
  | n + 1, s =>
    match step env code consts s with
    | .ok s' => run env code consts n s'
    | o => some o

/-- `Reaches code consts s s'`: the machine gets from `s` to `s'` in zero or more `ok` steps. -/
inductive Reaches {V} (env : Env V) (code : List Instr) (consts : List Konst) : VM V → VM V → Prop where
  | refl (s) : Reaches env code consts s s
  | step {s s' s''} : step env code consts s = .ok s' → Reaches env code consts s' s'' → Reaches env code consts s s''

end GLua.MiniVM
