/-
  C16 Model — the number readers and the number printer of gopher-lua, function by function.

  Part 1  `Go.*`   : the *syntax* (and exact mathematical value) accepted by Go's strconv.ParseUint / ParseInt /
                     ParseFloat (incl. special, readFloat, underscoreOK) and math/big Int.SetString, transcribed
                     from go1.23 src/strconv/{atoi,atof}.go.  Their *rounding* to float64 is trusted (DESIGN §4.5);
                     the mantissa-truncation bookkeeping of readFloat (nd/ndMant/trunc, the 10000 exponent cap) is a
                     rounding-internal detail and is not modelled — the model returns the exact value read.
  Part 2  `Pre.*`  : utils.go parseNumber, baselib.go baseToNumber, parse/lexer.go scanNumber as they are in the
                     UNREPAIRED tree (ParseInt base 0, then ParseFloat; the "." test; the dropped leading zero; the
                     unconditional Next() after an exponent).  Kept for the negation theorems of Props/C16 and for the
                     `pre` protocol variant of the engine (validated once against the unrepaired tree).
  Part 3           : the same functions after fixes/C16-lua-numeral-reader.diff (luaNumeralBase, parseNumber,
                     baseToNumber, scanNumber), and value.go LNumber.String / utils.go isInteger.
  Core Lean only.
-/
import GLua.Spec.Numeral

namespace GLua.NumModel
open GLua.NumSpec (Bytes Exact isDec)

/-- what a reader returns before rounding: an exact value, or one of the IEEE specials. -/
inductive NumV where
  | exact (x : Exact)
  | inf (neg : Bool)
  | nan
deriving DecidableEq, Repr, Inhabited

namespace Go

/-- strconv `lower(c) = c | ('x' - 'X')` on a byte. -/
def lower (c : Nat) : Nat := if c / 32 % 2 = 0 then c + 32 else c

/-- strings.Trim(s, cutset) for a cutset of single bytes. -/
def trimSet (cut : Nat → Bool) (s : Bytes) : Bytes := ((s.dropWhile cut).reverse.dropWhile cut).reverse

def stripSign : Bytes → Bool × Bytes
  | 43 :: r => (false, r)
  | 45 :: r => (true, r)
  | s => (false, s)

/-- `saw` of underscoreOK: 0 '^', 1 '0', 2 '_', 3 '!'. -/
def underscoreLoop (hex : Bool) : Nat → Bytes → Bool
  | saw, [] => saw ≠ 2
  | saw, c :: r =>
    if isDec c ∨ (hex ∧ 97 ≤ lower c ∧ lower c ≤ 102) then underscoreLoop hex 1 r
    else if c = 95 then (if saw ≠ 1 then false else underscoreLoop hex 2 r)
    else if saw = 2 then false
    else underscoreLoop hex 3 r

def underscoreOK (s : Bytes) : Bool :=
  let s := (stripSign s).2
  match s with
  | 48 :: x :: r =>
    if lower x = 98 ∨ lower x = 111 ∨ lower x = 120 then underscoreLoop (lower x = 120) 1 r
    else underscoreLoop false 0 s
  | _ => underscoreLoop false 0 s

def maxUint64 : Nat := 2 ^ 64 - 1

/-- digit loop of ParseUint: `none` = syntax or range error. Returns the value and whether `_` was seen. -/
def uintLoop (base : Nat) (base0 : Bool) : Nat → Bool → Bytes → Option (Nat × Bool)
  | n, us, [] => some (n, us)
  | n, us, c :: r =>
    if c = 95 ∧ base0 then uintLoop base base0 n true r
    else
      let d? : Option Nat :=
        if isDec c then some (c - 48)
        else if 97 ≤ lower c ∧ lower c ≤ 122 then some (lower c - 97 + 10)
        else none
      match d? with
      | none => none
      | some d =>
        if d ≥ base then none
        else if n * base + d > maxUint64 then none
        else uintLoop base base0 (n * base + d) us r

/-- ParseUint with base 0: "Look for octal, hex prefix" — (base, digits). -/
def base0Select (s : Bytes) : Nat × Bytes :=
  match s with
  | 48 :: x :: y :: t =>
    if lower x = 98 then (2, y :: t)
    else if lower x = 111 then (8, y :: t)
    else if lower x = 120 then (16, y :: t)
    else (8, x :: y :: t)
  | 48 :: t => (8, t)
  | _ => (10, s)

/-- strconv.ParseUint(s, base, 64); base 0 selects by prefix. -/
def parseUint (s : Bytes) (base : Nat) : Option Nat :=
  if s = [] then none else
  let sel : Option (Nat × Bytes) :=
    if 2 ≤ base ∧ base ≤ 36 then some (base, s)
    else if base = 0 then some (base0Select s)
    else none
  match sel with
  | none => none
  | some p =>
    match uintLoop p.1 (base = 0) 0 false p.2 with
    | none => none
    | some r => if r.2 ∧ !underscoreOK s then none else some r.1

/-- strconv.ParseInt(s, base, 64). -/
def parseInt (s : Bytes) (base : Nat) : Option Int :=
  if s = [] then none else
  let (neg, u) := stripSign s
  match parseUint u base with
  | none => none
  | some un =>
    if !neg ∧ un ≥ 2 ^ 63 then none
    else if neg ∧ un > 2 ^ 63 then none
    else some (if neg then -(un : Int) else (un : Int))

/-- strconv commonPrefixLenIgnoreCase (prefix given in lower case). -/
def commonPrefixLen : Bytes → Bytes → Nat
  | c :: s, p :: ps =>
    let c' := if 65 ≤ c ∧ c ≤ 90 then c + 32 else c
    if c' = p then commonPrefixLen s ps + 1 else 0
  | _, _ => 0

def sInfinity : Bytes := [105, 110, 102, 105, 110, 105, 116, 121]
def sNan : Bytes := [110, 97, 110]

def infPart (neg : Bool) (nsign : Nat) (t : Bytes) : Option (NumV × Nat) :=
  let n := commonPrefixLen t sInfinity
  let n := if 3 < n ∧ n < 8 then 3 else n
  if n = 3 ∨ n = 8 then some (.inf neg, nsign + n) else none

/-- strconv `special`: (value, bytes consumed). -/
def special (s : Bytes) : Option (NumV × Nat) :=
  match s with
  | [] => none
  | c :: r =>
    if c = 43 ∨ c = 45 then infPart (c = 45) 1 r
    else if c = 105 ∨ c = 73 then infPart false 0 s
    else if c = 110 ∨ c = 78 then (if commonPrefixLen s sNan = 3 then some (.nan, 3) else none)
    else none

structure MState where
  sawdot : Bool := false
  sawdigits : Bool := false
  mant : Nat := 0
  frac : Nat := 0
  us : Bool := false
deriving Repr, DecidableEq

/-- mantissa loop of readFloat. -/
def mantLoop (hex : Bool) : MState → Bytes → MState × Bytes
  | st, [] => (st, [])
  | st, c :: r =>
    if c = 95 then mantLoop hex { st with us := true } r
    else if c = 46 then
      if st.sawdot then (st, c :: r) else mantLoop hex { st with sawdot := true } r
    else if isDec c then
      mantLoop hex { st with sawdigits := true, mant := st.mant * (if hex then 16 else 10) + (c - 48),
                             frac := if st.sawdot then st.frac + 1 else st.frac } r
    else if hex ∧ 97 ≤ lower c ∧ lower c ≤ 102 then
      mantLoop hex { st with sawdigits := true, mant := st.mant * 16 + (lower c - 97 + 10),
                             frac := if st.sawdot then st.frac + 1 else st.frac } r
    else (st, c :: r)

/-- exponent digit loop of readFloat (digits and underscores). -/
def expLoop : Nat → Bool → Bytes → Nat × Bool × Bytes
  | e, us, [] => (e, us, [])
  | e, us, c :: r =>
    if c = 95 then expLoop e true r
    else if isDec c then expLoop (e * 10 + (c - 48)) us r
    else (e, us, c :: r)

/-- readFloat: `if i+2 < len(s) && s[i] == '0' && lower(s[i+1]) == 'x'` — (hex?, what the mantissa loop reads). -/
def hexPrefix (s1 : Bytes) : Bool × Bytes :=
  match s1 with
  | 48 :: x :: y :: t => if lower x = 120 then (true, y :: t) else (false, s1)
  | _ => (false, s1)

/-- the end of readFloat (underscore check) followed by ParseFloat's "everything consumed" test. -/
def finishFloat (s : Bytes) (neg hex : Bool) (st : MState) (e : Int) (us2 : Bool) (rest : Bytes) : Option NumV :=
  if rest ≠ [] then none
  else if (st.us ∨ us2) ∧ !underscoreOK s then none
  else
    let ex : Int := e - (if hex then 4 else 1) * (st.frac : Int)
    some (.exact { neg := neg, mant := st.mant, exp10 := if hex then 0 else ex, exp2 := if hex then ex else 0 })

/-- readFloat, the optional exponent (mandatory `p` exponent for hexadecimal mantissas). -/
def readExp (s : Bytes) (neg hex : Bool) (st : MState) (r : Bytes) : Option NumV :=
  match r with
  | [] => if hex then none else finishFloat s neg hex st 0 false []
  | c :: r1 =>
    if lower c = (if hex then 112 else 101) then
      match r1 with
      | [] => none
      | _ =>
        let sg := stripSign r1
        match sg.2 with
        | [] => none
        | d :: _ =>
          if !isDec d then none
          else
            let x := expLoop 0 false sg.2
            finishFloat s neg hex st (if sg.1 then -(x.1 : Int) else (x.1 : Int)) x.2.1 x.2.2
    else if hex then none
    else finishFloat s neg hex st 0 false (c :: r1)

/-- readFloat followed by ParseFloat's "everything consumed" test. -/
def readFloat (s : Bytes) : Option NumV :=
  if s = [] then none else
  let sg := stripSign s
  let hp := hexPrefix sg.2
  let ml := mantLoop hp.1 {} hp.2
  if !ml.1.sawdigits then none else readExp s sg.1 hp.1 ml.1 ml.2

/-- strconv.ParseFloat(s, 64): syntax and exact value (`none` = ErrSyntax). -/
def parseFloat (s : Bytes) : Option NumV :=
  match special s with
  | some (v, n) => if n = s.length then some v else none
  | none => readFloat s

/-- math/big (*Int).SetString(s, base) for 2 ≤ base ≤ 36. -/
def bigSetString (s : Bytes) (base : Nat) : Option Int :=
  let (neg, u) := stripSign s
  if u ≠ [] ∧ u.all (NumSpec.isDigitIn base) then
    some (if neg then -(NumSpec.valIn base u : Int) else (NumSpec.valIn base u : Int))
  else none

end Go

def ofInt (i : Int) : NumV := .exact { neg := decide (i < 0), mant := i.natAbs, exp10 := 0 }

def isHexDigit (c : Nat) : Bool := isDec c || (97 ≤ c && c ≤ 102) || (65 ≤ c && c ≤ 70)

/-! ### the lexer's byte stream (parse/lexer.go Next/Peek) -/

/-- `Scanner.Next`: CR, LF, CRLF, LFCR all come out as one '\n'; EOF = -1. -/
def next : Bytes → Int × Bytes
  | [] => (-1, [])
  | 10 :: 13 :: r => (10, r)
  | 13 :: 10 :: r => (10, r)
  | 13 :: r => (10, r)
  | c :: r => (c, r)

/-- `writeChar(buf, ch)` = `buf.WriteByte(byte(ch))`. -/
def toByte (ch : Int) : Nat := (ch % 256).toNat

def scanDecimal (buf : Bytes) : Bytes → Bytes × Bytes
  | [] => (buf, [])
  | c :: r => if isDec c then scanDecimal (buf ++ [c]) r else (buf, c :: r)

def scanHex (buf : Bytes) : Bytes → Bytes × Bytes
  | [] => (buf, [])
  | c :: r => if isHexDigit c then scanHex (buf ++ [c]) r else (buf, c :: r)

inductive LexRes where
  | notnum                          -- the input does not start a number token
  | err                             -- the scanner reports an error
  | tok (t : Bytes) (rest : Bytes)  -- token text and unread input
deriving DecidableEq, Repr, Inhabited

def isLuaWs (c : Nat) : Bool := c == 32 || c == 9 || c == 10 || c == 13 || c == 11 || c == 12   -- lexer blanks incl. VT, FF (fix c5425b9)

namespace Pre

/-- `v, err := strconv.ParseFloat(s, 64); if err != nil …`: an out-of-range value (ErrRange, ±Inf returned) is an
    error for the unrepaired callers. -/
def parseFloatStrict (s : Bytes) : Option NumV :=
  match Go.parseFloat s with
  | some (.exact x) => if NumSpec.overflows x then none else some (.exact x)
  | r => r

/-- utils.go parseNumber, unrepaired: Trim " \t\n", ParseInt base 0, else ParseFloat. -/
def parseNumber (number : Bytes) : Option NumV :=
  let s := Go.trimSet (fun c => c == 32 || c == 9 || c == 10) number
  match Go.parseInt s 0 with
  | some v => some (ofInt v)
  | none => parseFloatStrict s

def hasPrefix0x : Bytes → Bool
  | 48 :: x :: _ => x = 120 ∨ x = 88
  | _ => false

/-- baselib.go baseToNumber on a string argument, unrepaired.  `base = none` ⇔ no second argument. -/
def baseToNumber (base : Option Nat) (str : Bytes) : Option NumV :=
  let s := Go.trimSet (fun c => c == 32 || c == 10 || c == 9) str
  if s.contains 46 then parseFloatStrict s
  else
    let (b, s) := if base.isNone ∧ hasPrefix0x s then (16, s.drop 2) else (base.getD 10, s)
    (Go.parseInt s b).map ofInt

/-- parse/lexer.go scanNumber, unrepaired (`ch` = first character, already consumed). -/
def scanNumber (ch : Nat) (inp : Bytes) : LexRes :=
  if ch = 48 ∧ (inp.head? = some 120 ∨ inp.head? = some 88) then
    let (b, r) := scanHex [48, inp.head!] inp.tail
    if b.length = 2 then .err else .tok b r
  else
    -- a leading zero followed by a digit is dropped
    let (ch, inp) : Nat × Bytes :=
      if ch = 48 then
        match inp with
        | c :: r => if isDec c then (c, r) else (ch, inp)
        | [] => (ch, inp)
      else (ch, inp)
    let (b1, r1) := scanDecimal [ch] inp
    let (b2, r2) : Bytes × Bytes := match r1 with
      | 46 :: t => scanDecimal (b1 ++ [46]) t
      | _ => (b1, r1)
    match r2 with
    | e :: r3 =>
      if e = 101 ∨ e = 69 then
        let (b3, r4) : Bytes × Bytes := match r3 with
          | 45 :: t => (b2 ++ [e, 45], t)
          | 43 :: t => (b2 ++ [e, 43], t)
          | _ => (b2 ++ [e], r3)
        -- sc.scanDecimal(sc.Next(), buf): whatever comes next is written, even EOF (byte 0xFF)
        let (c, r5) := next r4
        let (b4, r6) := scanDecimal (b3 ++ [toByte c]) r5
        .tok b4 r6
      else .tok b2 r2
    | [] => .tok b2 r2

end Pre

/-! ### after fixes/C16-lua-numeral-reader.diff -/

def skipSign : Bytes → Bytes
  | 43 :: r => r
  | 45 :: r => r
  | s => s

/-- count and consume decimal digits. -/
def countDec : Bytes → Nat × Bytes
  | [] => (0, [])
  | c :: r => if isDec c then ((countDec r).1 + 1, (countDec r).2) else (0, c :: r)

/-- luaNumeralBase, the fraction: `if i < len(s) && s[i] == '.' { … }` — (digits counted, rest). -/
def luaNumeralFrac (r1 : Bytes) : Nat × Bytes :=
  match r1 with
  | 46 :: t => countDec t
  | _ => (0, r1)

/-- luaNumeralBase, the exponent: `if nd > 0 && i < len(s) && (s[i] == 'e' || s[i] == 'E') { … }` —
    (digit count that the final test looks at, rest). -/
def luaNumeralExp (nd : Nat) (r2 : Bytes) : Nat × Bytes :=
  match r2 with
  | e :: t => if nd > 0 ∧ (e = 101 ∨ e = 69) then countDec (skipSign t) else (nd, r2)
  | [] => (nd, r2)

/-- the decimal part of utils.go luaNumeralBase (after the sign and the `0x` test): 10 or 0. -/
def luaNumeralDec (s1 : Bytes) : Nat :=
  let a := countDec s1
  let b := luaNumeralFrac a.2
  let c := luaNumeralExp (a.1 + b.1) b.2
  if c.1 = 0 ∨ c.2 ≠ [] then 0 else 10

/-- utils.go luaNumeralBase: 10, 16 or 0. -/
def luaNumeralBase (s : Bytes) : Nat :=
  match skipSign s with
  | 48 :: x :: c :: r =>
    if x = 120 ∨ x = 88 then (if (c :: r).all isHexDigit then 16 else 0) else luaNumeralDec (48 :: x :: c :: r)
  | s1 => luaNumeralDec s1

def trim6 (s : Bytes) : Bytes := Go.trimSet NumSpec.isBlank s

/-- utils.go parseNumber (the one shared reader). -/
def parseNumber (number : Bytes) : Option NumV :=
  let s := trim6 number
  match luaNumeralBase s with
  | 10 => Go.parseFloat s
  | 16 => Go.parseFloat (s ++ [112, 48])
  | _ => none

inductive BaseRes where
  | val (v : Option NumV)     -- pushed value (none = nil)
  | argError                  -- "base out of range"
deriving DecidableEq, Repr, Inhabited

/-- baselib.go baseToNumber on a string argument. -/
def baseToNumber (base : Option Nat) (str : Bytes) : BaseRes :=
  let b := base.getD 10
  if b < 2 ∨ b > 36 then .argError else
  let s := trim6 str
  if base.isNone ∨ b = 10 ∨ (b = 16 ∧ luaNumeralBase s = 16) then .val (parseNumber s)
  else .val ((Go.bigSetString s b).map ofInt)

/-- scanNumber, the fraction: `if ch != '.' && sc.Peek() == '.' { sc.scanDecimal(sc.Next(), buf) }` on
    (buffer, unread input). -/
def scanFrac (ch : Nat) (p : Bytes × Bytes) : Bytes × Bytes :=
  if ch ≠ 46 then
    match p.2 with
    | 46 :: t => scanDecimal (p.1 ++ [46]) t
    | _ => p
  else p

/-- scanNumber, the exponent marker and sign: `writeChar(buf, sc.Next()); if ch = sc.Peek(); ch == '-' || ch == '+' {…}`. -/
def scanExpSign (buf : Bytes) (e : Nat) (r3 : Bytes) : Bytes × Bytes :=
  match r3 with
  | 45 :: t => (buf ++ [e, 45], t)
  | 43 :: t => (buf ++ [e, 43], t)
  | _ => (buf ++ [e], r3)

/-- scanNumber, the exponent digits: a digit must follow ("malformed number"). -/
def scanExpDigits (q : Bytes × Bytes) : LexRes :=
  match q.2 with
  | d :: r5 =>
    if isDec d then .tok (scanDecimal (q.1 ++ [d]) r5).1 (scanDecimal (q.1 ++ [d]) r5).2 else .err
  | [] => .err

/-- scanNumber, the exponent. -/
def scanExp (p : Bytes × Bytes) : LexRes :=
  match p.2 with
  | e :: r3 => if e = 101 ∨ e = 69 then scanExpDigits (scanExpSign p.1 e r3) else .tok p.1 p.2
  | [] => .tok p.1 p.2

/-- parse/lexer.go scanNumber up to its calls of `numeralEnd` (`ch` = first character, already consumed). -/
def scanNumberCore (ch : Nat) (inp : Bytes) : LexRes :=
  match inp with
  | x :: t =>
    if ch = 48 ∧ (x = 120 ∨ x = 88) then
      let h := scanHex [48, x] t
      if h.1.length = 2 then .err else .tok h.1 h.2
    else scanExp (scanFrac ch (scanDecimal [ch] inp))
  | [] => scanExp (scanFrac ch (scanDecimal [ch] inp))

/-- parse/lexer.go isIdent(ch, 1). -/
def isIdentCh (c : Nat) : Bool :=
  c = 95 || (65 ≤ c && c ≤ 90) || (97 ≤ c && c ≤ 122) || isDec c

/-- parse/lexer.go numeralEnd(buf, dots) (since /repo 1a55d79): a numeral directly followed by an alphanumeric character
    or `_` — and, where no exponent or hex prefix was read (`dots`), by a `.` — is ONE malformed number. -/
def numeralEnd (dots : Bool) : LexRes → LexRes
  | .tok t (c :: rest) => if isIdentCh c || (dots && c == 46) then .err else .tok t (c :: rest)
  | r => r

/-- which `numeralEnd` call scanNumber reaches: `dots = true` only on the decimal path without an exponent. -/
def numeralDots (ch : Nat) (inp : Bytes) : Bool :=
  let isHex : Bool := match inp with
    | x :: _ => ch == 48 && (x == 120 || x == 88)
    | [] => false
  if isHex then false
  else match (scanFrac ch (scanDecimal [ch] inp)).2 with
    | e :: _ => !(e == 101 || e == 69)
    | [] => true

/-- parse/lexer.go scanNumber (`ch` = first character, already consumed). -/
def scanNumber (ch : Nat) (inp : Bytes) : LexRes :=
  numeralEnd (numeralDots ch inp) (scanNumberCore ch inp)

theorem numeralEnd_tok (d : Bool) (r : LexRes) (t rest : Bytes) (h : numeralEnd d r = .tok t rest) : r = .tok t rest := by
  unfold numeralEnd at h
  split at h
  · split at h
    · simp at h
    · exact h
  · exact h

theorem numeralEnd_nil (d : Bool) (t : Bytes) : numeralEnd d (.tok t []) = .tok t [] := by
  simp [numeralEnd]

/-- `Scanner.Scan` as far as number tokens are concerned: skip white space, then dispatch on the first byte. -/
def lexNumber (scan : Nat → Bytes → LexRes) (s : Bytes) : LexRes :=
  match s.dropWhile isLuaWs with
  | [] => .notnum
  | c :: r =>
    if isDec c then scan c r
    else if c = 46 then
      match r with
      | d :: _ => if isDec d then scan 46 r else .notnum
      | [] => .notnum
    else .notnum

/-- compile.go NumberExpr: the constant loaded for a number token (NaN when parseNumber fails). -/
def literalValue (parse : Bytes → Option NumV) (tok : Bytes) : NumV :=
  match parse tok with
  | some v => v
  | none => .nan

/-! ### value.go LNumber.String / utils.go isInteger -/

/-- strconv formatBits, base 10 (digit by digit; Go emits two digits per step from a table). -/
def fmtBits : Nat → Nat → Bytes → Bytes
  | 0, _, acc => acc
  | fuel + 1, u, acc => if u < 10 then (48 + u) :: acc else fmtBits fuel (u / 10) ((48 + u % 10) :: acc)

/-- fmt.Sprint(int64(i)). -/
def formatInt (i : Int) : Bytes :=
  if i < 0 then 45 :: fmtBits (i.natAbs + 1) i.natAbs [] else fmtBits (i.natAbs + 1) i.natAbs []

def digitsToBytes (ds : List Nat) : Bytes := ds.map (· + 48)

/-- strconv %e layout for the shortest digits `ds` (values 0..9, no leading/trailing zero) and decimal point `dp`. -/
def fmtE (neg : Bool) (ds : List Nat) (dp : Int) : Bytes :=
  let first : Nat := match ds with | d :: _ => 48 + d | [] => 48
  let more : Bytes := if ds.length > 1 then 46 :: digitsToBytes ds.tail else []
  let exp : Int := if ds = [] then 0 else dp - 1
  let (sg, e) : Nat × Nat := if exp < 0 then (45, (-exp).toNat) else (43, exp.toNat)
  let ed : Bytes :=
    if e < 10 then [48, 48 + e]
    else if e < 100 then [48 + e / 10, 48 + e % 10]
    else [48 + e / 100, 48 + e / 10 % 10, 48 + e % 10]
  (if neg then [45] else []) ++ [first] ++ more ++ [101, sg] ++ ed

/-- strconv %f layout with `prec = max(nd - dp, 0)`. -/
def fmtF (neg : Bool) (ds : List Nat) (dp : Int) : Bytes :=
  let nd := ds.length
  let ip : Bytes :=
    if dp > 0 then
      let m := min nd dp.toNat
      digitsToBytes (ds.take m) ++ List.replicate (dp.toNat - m) 48
    else [48]
  let prec : Nat := ((nd : Int) - dp).toNat
  let fp : Bytes :=
    if prec > 0 then
      46 :: (List.range prec).map (fun (i : Nat) =>
        let j : Int := dp + (i : Int)
        if 0 ≤ j ∧ j < (nd : Int) then 48 + ds.getD j.toNat 0 else 48)
    else []
  (if neg then [45] else []) ++ ip ++ fp

/-- fmt %v of a float64 = strconv 'g' with the shortest digits: %e when exp < -4 or exp ≥ 21… no: ≥ eprec,
    and eprec = 6 in shortest mode (strconv/ftoa.go formatDigits). -/
def fmtG (neg : Bool) (ds : List Nat) (dp : Int) : Bytes :=
  let exp := dp - 1
  if exp < -4 ∨ exp ≥ 6 then fmtE neg ds dp else fmtF neg ds dp

inductive StrBranch where
  | nan | inf (neg : Bool)
  | int (i : Int)              -- isInteger: printed through int64
  | float (neg : Bool)         -- printed by fmt.Sprint(float64): shortest digits are trusted to strconv
deriving DecidableEq, Repr, Inhabited

/-- which branch of LNumber.String a bit pattern takes (`isInteger v` ⇔ v == float64(int64(v)); the
    conversion of NaN/±Inf/out-of-range values yields -2^63 on amd64). -/
def stringBranch (bits : Nat) : StrBranch :=
  let neg : Bool := bits / 2 ^ 63 % 2 == 1
  let be : Nat := bits / 2 ^ 52 % 2048
  let fr : Nat := bits % 2 ^ 52
  if be == 2047 then (if fr == 0 then .inf neg else .nan)
  else
    match NumSpec.bitsToInt? bits with
    | some i => if -(2 ^ 63 : Int) ≤ i ∧ i < 2 ^ 63 then .int i else .float neg
    | none => .float neg

end GLua.NumModel
