/-
  Model of gopher-lua's protected-call protocol (the MECHANISM behind property C05):

    state.go   PCall (prologue, the two deferred recover closures), raiseError, Error, where, GetStack,
               panicWithTraceback / panicWithoutTraceback, closeUpvalues, findUpvalue, callR / pushCallFrame,
               registry Push / SetTop / Set
    baselib.go basePCall, baseXPCall (result shaping), baseError, baseAssert
    vm.go      callGFunction (return of a host frame), OP_RETURN (return of a Lua frame), threadRun's recover

  The interpreter state relevant to a protected call is
      (call stack, currentFrame, registry top + contents, Panic mode, hasErrorFunc, open-upvalue list)
  plus the stack of *active PCall activations* (`pstack`): one record per Go activation of `LState.PCall`
  holding exactly the Go locals its deferred closures captured (`sp`, `base`, `oldpanic`, `errfunc`).
  A Go panic unwinds to the innermost activation; that is `unwind`.

  Inner activity (what runs between the prologue of PCall and the panic) is an arbitrary list of abstract
  operations `Op`; an operation that the real interpreter can never perform in a given state (e.g. returning
  from a frame that belongs to the caller of the protected call) is `Res.disabled`, i.e. there is no such
  execution.  Everything the deferred closures do is transcribed literally, including what they do NOT do
  (`hasErrorFunc` is reset, not restored; after a failing handler the tail of the outer closure is skipped).

  `Cfg` carries two switches that select the code as it was before two repairs: `raiseClosesAll` = before /repo
  commit ae08bde (raiseError/Error closed the upvalues of every frame), `handlerPushOutside` = before
  fixes/C05-handler-push-under-recover.diff (proposed with this model, not yet in /repo).  The default `{}` is the
  repaired code.  The theorems are about `{}`; the legacy switches exist so that the defects are *provable*
  (negation witnesses in Props/C05.lean).
-/
namespace GLua.PCall

/-- Lua values as far as this model needs them (strings are texts: the tie only uses ASCII messages). -/
inductive V where
  | nil
  | bool (b : Bool)
  | num (i : Int)
  | str (s : String)
  | ref (n : Nat)          -- table / function / userdata / thread: identity only
deriving DecidableEq, Repr, Inhabited

def V.isStr : V → Bool
  | .str _ => true
  | _ => false

/-- `ls.Panic`: the two functions state.go ever installs. -/
inductive PanicFn where
  | withTraceback        -- panicWithTraceback   (newLState)
  | withoutTraceback     -- panicWithoutTraceback (PCall prologue, coroutine start)
deriving DecidableEq, Repr, Inhabited

/-- value.go: ApiErrorType -/
inductive ErrTy where
  | syntax | file | run | error | panic
deriving DecidableEq, Repr, Inhabited

structure ApiErr where
  ty  : ErrTy
  obj : V
deriving DecidableEq, Repr, Inhabited

/-- a value travelling up the Go stack as a panic -/
inductive Thrown where
  | api (e : ApiErr)             -- *ApiError  (made by ls.Panic)
  | foreign (text : String)      -- any other Go panic value; `text` = fmt.Sprint(value)
deriving DecidableEq, Repr, Inhabited

/-- a call frame (`callFrame`): `LocalBase = Base + 1`, `ReturnBase = Base` for every frame pushed by callR / OP_CALL. -/
structure Frame where
  isG      : Bool
  base     : Nat
  tailCall : Nat := 0
  src      : String := "<string>"   -- Proto.SourceName           (Lua frames)
  line     : Nat := 0               -- DbgSourcePositions[Pc-1]   (Lua frames)
deriving DecidableEq, Repr, Inhabited

def Frame.localBase (f : Frame) : Nat := f.base + 1

/-- the Go locals captured by the deferred closures of one `PCall` activation -/
structure PRec where
  sp        : Nat                  -- sp := ls.stack.Sp()
  base      : Nat                  -- base := ls.reg.Top() - nargs - 1
  oldPanic  : PanicFn              -- oldpanic := ls.Panic
  errfunc   : Option (V × Bool)    -- errfunc (the handler and whether it is a host function); none = nil
  inHandler : Bool := false        -- the outer closure has recovered and is inside `ls.Call(1, 1)` of the handler
  hsp       : Nat := 0             -- call-stack depth when the handler was called (its frame is frames[hsp])
deriving DecidableEq, Repr, Inhabited

/-- ghost log: what the property talks about -/
inductive Event where
  | handlerStart (depth : Nat) (arg : V)       -- the handler of the activation at pstack depth `depth` is called with `arg`
  | delivered (depth : Nat) (e : ApiErr)       -- PCall of that activation returns `e`
  | returned (depth : Nat)                     -- PCall of that activation returns nil
deriving DecidableEq, Repr, Inhabited

structure St where
  frames       : List Frame := []        -- ls.stack, slots [0, Sp)
  cur          : Option Nat := none      -- ls.currentFrame (index of the slot it points to); none = nil
  top          : Nat := 0                -- ls.reg.top
  cap          : Nat := 5120             -- effective registry limit (max(maxSize, cap(array)))
  regs         : Nat → V := fun _ => .nil
  panicFn      : PanicFn := .withTraceback
  hasErrorFunc : Bool := false
  uvs          : List Nat := []          -- ls.uvcache: register indices of the open upvalues, in list order
  pstack       : List PRec := []         -- active PCall activations, innermost first
  log          : List Event := []
deriving Inhabited

structure Cfg where
  /-- legacy: raiseError / Error close the upvalues of *every* Lua frame unless `hasErrorFunc` -/
  raiseClosesAll     : Bool := false
  /-- legacy: the handler and its argument are pushed before the inner recover is installed -/
  handlerPushOutside : Bool := false
deriving DecidableEq, Repr, Inhabited

def St.sp (s : St) : Nat := s.frames.length

/-- `callFrameStack.Last()`: nil when the stack is empty -/
def lastIdx (fr : List Frame) : Option Nat := if fr.length = 0 then none else some (fr.length - 1)

def St.curFrame (s : St) : Option Frame := s.cur.bind (fun i => s.frames[i]?)

/-- `ls.currentLocalBase()` (0 without a frame) -/
def St.localBase (s : St) : Nat :=
  match s.curFrame with
  | some f => f.localBase
  | none => 0

/-! ### registry -/

/-- `registry.SetTop`: slots between the old and the new top become LNil (slots above the new top are dead). -/
def regSetTop (s : St) (n : Nat) : St :=
  { s with top := n, regs := fun i => if s.top ≤ i ∧ i < n then .nil else s.regs i }

/-- `registry.Set` -/
def regSet (s : St) (i : Nat) (v : V) : St :=
  { s with regs := fun j => if j = i then v else s.regs j, top := if i ≥ s.top then i + 1 else s.top }

/-- `registry.Push` without the capacity check -/
def regPush (s : St) (v : V) : St :=
  { s with regs := fun j => if j = s.top then v else s.regs j, top := s.top + 1 }

/-! ### open upvalues -/

/-- `closeUpvalues(idx)`: the list is cut at the first cell whose register is ≥ idx (the list is kept sorted by
    `findUpvalue`, so everything behind that cell is ≥ idx as well and is closed by the same loop). -/
def closeUpvalues (uvs : List Nat) (idx : Nat) : List Nat := uvs.takeWhile (· < idx)

/-- cells that `closeUpvalues` detaches from the list without closing them (none when the list is sorted) -/
def leakedUpvalues (uvs : List Nat) (idx : Nat) : List Nat := (uvs.dropWhile (· < idx)).filter (· < idx)

/-- `findUpvalue(idx)`: reuse the cell of that register or insert a new one in register order. -/
def findUpvalue : List Nat → Nat → List Nat
  | [], i => [i]
  | u :: r, i => if u = i then u :: r else if u > i then i :: u :: r else u :: findUpvalue r i

/-- legacy `closeAllUpvalues`: for every frame from currentFrame down the Parent chain, if it is a Lua frame,
    closeUpvalues(LocalBase).  (Parent of slot i is slot i-1.) -/
def closeAllFrom (fr : List Frame) (uvs : List Nat) : Nat → List Nat
  | 0 => uvs
  | k + 1 =>
    match fr[k]? with
    | some f => closeAllFrom fr (if f.isG then uvs else closeUpvalues uvs f.localBase) k
    | none => closeAllFrom fr uvs k

def closeAllUpvalues (s : St) : List Nat :=
  match s.cur with
  | none => s.uvs
  | some i => closeAllFrom s.frames s.uvs (i + 1)

/-! ### error position: GetStack / where -/

/-- the loop of `GetStack`: `k` = index of `frame` + 1 (0 = nil); returns the remaining level and the frame reached. -/
def getStackWalk (fr : List Frame) : Nat → Int → Int × Nat
  | 0, lv => (lv, 0)
  | k + 1, lv =>
    if lv > 0 then
      match fr[k]? with
      | some f => getStackWalk fr k (lv - 1 - (if f.isG then 0 else (f.tailCall : Int)))
      | none => getStackWalk fr k (lv - 1)
    else (lv, k + 1)

/-- `GetStack(level)`: index of the frame, or none (`ok = false`) -/
def getStack (s : St) (level : Int) : Option Nat :=
  let start := match s.cur with | none => 0 | some i => i + 1
  let (lv, k) := getStackWalk s.frames start level
  if lv = 0 ∧ k ≠ 0 then some (k - 1)
  else if lv < 0 ∧ s.sp > 0 then some 0
  else none

/-- `where(level, skipg = true)`: position of the first Lua frame at or above `level`; "" if there is none.
    `fuel` bounds the `level+1` recursion (each round looks one level further; GetStack fails beyond the depth). -/
def whereAux (s : St) : Nat → Int → String
  | 0, _ => ""
  | fuel + 1, level =>
    match getStack s level with
    | none => ""
    | some i =>
      match s.frames[i]? with
      | none => ""
      | some f => if f.isG then whereAux s fuel (level + 1) else f.src ++ ":" ++ toString f.line ++ ":"

def tailCalls (fr : List Frame) : Nat := (fr.map (·.tailCall)).sum

def whereStr (s : St) (level : Int) : String := whereAux s (s.sp + tailCalls s.frames + 2) level

/-! ### raising -/

inductive RaiseKind where
  | raiseError (level : Nat) (msg : String)   -- ls.raiseError(level, msg): RaiseError, runtime faults, cancellation (level 1)
  | errorObj (v : V) (level : Nat)            -- ls.Error(v, level): `error(v, level)`
  | foreign (text : String)                   -- a Go panic that is not an *ApiError (host function bug, nil deref, …)
deriving DecidableEq, Repr, Inhabited

/-- the message `raiseError` builds -/
def raiseMessage (s : St) (level : Nat) (msg : String) : String :=
  if level > 0 then
    let lv : Int := (level : Int) - 1
    let lv := match s.curFrame with
      | some f => if f.isG then lv + 1 else lv     -- the running host function is not a level of its own
      | none => lv
    whereStr s lv ++ " " ++ msg
  else msg

/-- `raiseError`: (legacy: close all upvalues) build the message, make room if the registry is full, push, `ls.Panic(ls)`.
    Both Panic functions throw `ApiErrorRun` with `L.Get(-1)`. -/
def doRaiseError (c : Cfg) (s : St) (level : Nat) (msg : String) : St × Thrown :=
  let uvs := if c.raiseClosesAll ∧ !s.hasErrorFunc then closeAllUpvalues s else s.uvs
  let m := raiseMessage s level msg
  let s1 := { s with uvs := uvs, cap := if s.top ≥ s.cap then s.top + 1 else s.cap }
  (regPush s1 (.str m), .api ⟨.run, .str m⟩)

/-- what a `RaiseKind` does to the state before the Go panic starts travelling, and the panic value -/
def throwOf (c : Cfg) (s : St) : RaiseKind → St × Thrown
  | .raiseError level msg => doRaiseError c s level msg
  | .errorObj (.str m) level => doRaiseError c s level m
  | .errorObj v _ =>
    let uvs := if c.raiseClosesAll ∧ !s.hasErrorFunc then closeAllUpvalues s else s.uvs
    let s1 := { s with uvs := uvs }
    if s1.top + 1 > s1.cap then
      -- ls.Push → registryOverflow → RaiseError("registry overflow")
      doRaiseError c s1 1 "registry overflow"
    else (regPush s1 v, .api ⟨.run, v⟩)
  | .foreign text => (s, .foreign text)

/-- the conversion both deferred closures apply to a recovered value -/
def toApiErr : Thrown → ApiErr
  | .api e => e
  | .foreign text => ⟨.panic, .str text⟩

/-! ### the deferred closures -/

/-- `ls.stack.SetSp(sp); ls.currentFrame = ls.stack.Last(); ls.closeUpvalues(base); ls.reg.SetTop(base)` -/
def restore (s : St) (r : PRec) : St :=
  let fr := s.frames.take r.sp
  regSetTop { s with frames := fr, cur := lastIdx fr, uvs := closeUpvalues s.uvs r.base } r.base

/-- the last two statements of the outer closure: `ls.stack.SetSp(sp); if sp == 0 { ls.currentFrame = nil }` -/
def outerTail (s : St) (r : PRec) : St :=
  { s with frames := s.frames.take r.sp, cur := if r.sp = 0 then none else s.cur }

/-- pushCallFrame of callR for a callee that is a function: `base = top - nargs - 1`, Parent = currentFrame,
    host frames get `top = LocalBase + NArgs` (which it already is), Lua frames set their own top afterwards. -/
def pushFrame (s : St) (isG : Bool) (nargs : Nat) (line : Nat := 0) : St :=
  let f : Frame := { isG := isG, base := s.top - nargs - 1, line := line }
  { s with frames := s.frames ++ [f], cur := some s.frames.length }

inductive Res where
  | ok (s : St)
  | escaped (t : Thrown) (s : St)   -- a Go panic leaves the outermost API call
  | disabled                        -- the operation cannot happen in this state
deriving Inhabited

/-- A Go panic `t` raised in state `s` travels to the innermost PCall activation and runs its deferred closure(s). -/
def unwind (c : Cfg) (t : Thrown) : St → List PRec → Res
  | s, [] => .escaped t { s with pstack := [] }
  | s, r :: rest =>
    if r.inHandler then
      -- inner closure (the handler itself failed): Panic = oldpanic; err := …; SetSp; Last; closeUpvalues; SetTop.
      -- The panic is recovered inside the outer closure, which therefore returns at once: its tail is skipped.
      let e := toApiErr t
      let s1 := restore { s with panicFn := r.oldPanic } r
      .ok { s1 with pstack := rest, log := s1.log ++ [.delivered rest.length e] }
    else
      -- outer closure
      let s0 := { s with panicFn := r.oldPanic, hasErrorFunc := false }
      let e := toApiErr t
      match r.errfunc with
      | none =>
        let s1 := outerTail (restore s0 r) r
        .ok { s1 with pstack := rest, log := s1.log ++ [.delivered rest.length e] }
      | some (h, hIsG) =>
        if s0.top + 2 > s0.cap then
          -- one of `ls.Push(errfunc); ls.Push(obj)` overflows the registry: RaiseError("registry overflow")
          let pushed := if s0.top + 1 > s0.cap then s0 else regPush s0 h
          if c.handlerPushOutside then
            -- legacy: no recover is installed yet; this activation has already used its recover → the new
            -- panic leaves this PCall and travels on, nothing restored
            let (s1, t1) := doRaiseError c { pushed with pstack := rest } 1 "registry overflow"
            unwind c t1 s1 rest
          else
            -- fixed: `Panic = panicWithoutTraceback; defer …` come first, so this is a failing handler
            let (s1, t1) := doRaiseError c { pushed with panicFn := .withoutTraceback } 1 "registry overflow"
            let s2 := restore { s1 with panicFn := r.oldPanic } r
            .ok { s2 with pstack := rest, log := s2.log ++ [.delivered rest.length (toApiErr t1)] }
        else
          let s1 := regPush (regPush s0 h) e.obj
          let s2 := pushFrame { s1 with panicFn := .withoutTraceback } hIsG 1
          .ok { s2 with pstack := { r with inHandler := true, hsp := s.sp } :: rest,
                        log := s2.log ++ [.handlerStart rest.length e.obj] }

/-! ### operations -/

inductive Op where
  | push (v : V)                         -- L.Push / reg.Push
  | setTop (n : Nat)                     -- L.SetTop(n)  = reg.SetTop(LocalBase + n)
  | setReg (off : Nat) (v : V)           -- reg.Set(LocalBase + off, v)       (a Lua register store)
  | setUpval (j : Nat) (v : V)           -- store through the j-th open upvalue
  | openUpval (off : Nat)                -- findUpvalue(LocalBase + off)      (OP_CLOSURE capturing a local)
  | closeUpvals (off : Nat)              -- closeUpvalues(LocalBase + off)    (OP_CLOSE, leaving a block)
  | setLine (n : Nat)                    -- the current Lua frame moves on to an instruction of line n
  | call (isG : Bool) (nargs : Nat)      -- callR / OP_CALL: push the callee's frame (callee and args are on the stack)
  | ret (n : Nat)                        -- the current frame returns its top n values (not the body frame of a PCall)
  | enter (nargs : Nat) (h : Option (V × Bool)) (isG : Bool)   -- PCall prologue + callR pushing the body frame
  | enterFail (nargs : Nat) (h : Option (V × Bool)) (k : RaiseKind)  -- PCall prologue, callR raises before a frame exists
  | retLeave (n : Nat)                   -- the body frame returns n values; PCall's closure runs with rcv = nil
  | raise (k : RaiseKind)                -- an error / Go panic at this point
  | retHandler                           -- the handler returns (1 value on top); the outer closure finishes
deriving Repr, Inhabited

/-- frames that inner activity may pop: strictly above the body frame of the innermost activation
    (above the handler frame while a handler runs) -/
def popFloor (s : St) : Nat :=
  match s.pstack with
  | [] => 0
  | r :: _ => if r.inHandler then r.hsp + 1 else r.sp + 1

/-- return of the current frame with its top `n` values: Lua frames close their upvalues (OP_RETURN),
    CopyRange(ReturnBase, top-n, -1, n), stack.Pop(), currentFrame = stack.Last(). -/
def popFrame (s : St) (n : Nat) : Option St :=
  match s.frames.getLast? with
  | none => none
  | some f =>
    if s.top < f.localBase + n then none else
    let uvs := if f.isG then s.uvs else closeUpvalues s.uvs f.localBase
    let src := s.top - n
    let regs := fun i => if f.base ≤ i ∧ i < f.base + n then s.regs (src + (i - f.base)) else s.regs i
    let fr := s.frames.dropLast
    some { s with frames := fr, cur := lastIdx fr, uvs := uvs, regs := regs, top := f.base + n }

def prologue (s : St) (nargs : Nat) (h : Option (V × Bool)) : St :=
  { s with panicFn := .withoutTraceback,
           hasErrorFunc := if h.isSome then true else s.hasErrorFunc,
           pstack := { sp := s.sp, base := s.top - nargs - 1, oldPanic := s.panicFn, errfunc := h } :: s.pstack }

def raiseIn (c : Cfg) (s : St) (k : RaiseKind) : Res :=
  let (s1, t) := throwOf c s k
  unwind c t s1 s1.pstack

def step (c : Cfg) (s : St) : Op → Res
  | .push v =>
    if s.top + 1 > s.cap then raiseIn c s (.raiseError 1 "registry overflow") else .ok (regPush s v)
  | .setTop n => if s.localBase + n > s.cap then .disabled else .ok (regSetTop s (s.localBase + n))
  | .setReg off v => if s.localBase + off + 1 > s.cap then .disabled else .ok (regSet s (s.localBase + off) v)
  | .setUpval j v =>
    match s.uvs[j]? with
    | some i => .ok { s with regs := fun k => if k = i then v else s.regs k }
    | none => .disabled
  | .openUpval off =>
    if s.localBase + off < s.top then .ok { s with uvs := findUpvalue s.uvs (s.localBase + off) } else .disabled
  | .closeUpvals off => .ok { s with uvs := closeUpvalues s.uvs (s.localBase + off) }
  | .setLine n =>
    match s.cur with
    | some i => .ok { s with frames := s.frames.modify i (fun f => { f with line := n }) }
    | none => .disabled
  | .call isG nargs =>
    if s.localBase + nargs + 1 ≤ s.top then .ok (pushFrame s isG nargs) else .disabled
  | .ret n =>
    if s.sp > popFloor s then
      match popFrame s n with
      | some s' => .ok s'
      | none => .disabled
    else .disabled
  | .enter nargs h isG =>
    if s.localBase + nargs + 1 ≤ s.top then .ok (pushFrame (prologue s nargs h) isG nargs) else .disabled
  | .enterFail nargs h k =>
    if s.localBase + nargs + 1 ≤ s.top then raiseIn c (prologue s nargs h) k else .disabled
  | .retLeave n =>
    match s.pstack with
    | r :: rest =>
      if r.inHandler ∨ s.sp ≠ r.sp + 1 then .disabled else
      match popFrame s n with
      | none => .disabled
      | some s1 =>
        -- deferred closure with rcv = nil
        let s2 := outerTail { s1 with panicFn := r.oldPanic, hasErrorFunc := false } r
        .ok { s2 with pstack := rest, log := s2.log ++ [.returned rest.length] }
    | [] => .disabled
  | .raise k => raiseIn c s k
  | .retHandler =>
    match s.pstack with
    | r :: rest =>
      if !r.inHandler ∨ s.sp ≠ r.hsp + 1 then .disabled else
      match popFrame s 1 with
      | none => .disabled
      | some s1 =>
        -- `err = newApiError(ApiErrorError, ls.Get(-1))`, then restore and the tail of the outer closure
        -- (the inner closure, deferred inside the outer one, runs last: `ls.Panic = oldpanic`, nothing to recover)
        let e : ApiErr := ⟨.error, s1.regs (s1.top - 1)⟩
        let s2 := outerTail (restore s1 r) r
        .ok { s2 with panicFn := r.oldPanic, pstack := rest, log := s2.log ++ [.delivered rest.length e] }
    | [] => .disabled

/-- run inner activity that never leaves the activations present at depth `d` (pstack never shorter than `d`) -/
def runAbove (c : Cfg) (d : Nat) : St → List Op → Option St
  | s, [] => some s
  | s, o :: os =>
    match step c s o with
    | .ok s' => if s'.pstack.length < d then none else runAbove c d s' os
    | _ => none

/-- plain run; stops at the first escaping panic or disabled operation -/
def run (c : Cfg) : St → List Op → Res
  | s, [] => .ok s
  | s, o :: os =>
    match step c s o with
    | .ok s' => run c s' os
    | r => r

/-! ### baselib result shaping (what the Lua caller of pcall / xpcall sees) -/

/-- `basePCall`/`baseXPCall` after `L.PCall` returned: on error `false, err.Object` (2 values),
    otherwise `true` inserted below the results. -/
def shapeResult (err : Option ApiErr) (results : List V) : List V :=
  match err with
  | some e => [.bool false, e.obj]
  | none => .bool true :: results

/-! ### coroutines: threadRun's recover -/

inductive ThreadOutcome where
  | resumeReturns (vs : List V)      -- coroutine.resume returns these values in the parent
  | raisedInParent (t : Thrown)      -- wrapped coroutine: `parent.Panic(L)` raises the value in the parent thread
  | goPanic (t : Thrown)             -- no parent: re-panic
deriving DecidableEq, Repr

/-- vm.go threadRun, deferred closure: any panic value reaching the bottom of a coroutine's Go stack -/
def threadRecover (hasParent wrapped : Bool) (t : Thrown) : ThreadOutcome :=
  let lv : V := match t with
    | .api e => e.obj
    | .foreign text => .str text
  if hasParent then
    if wrapped then .raisedInParent (.api ⟨.run, lv⟩)
    else .resumeReturns [.bool false, lv]
  else .goPanic t

end GLua.PCall
