/-
  Model for C14 — transcription of /repo/pm/pm.go (scanner, parseClass / parseClassSet / parsePattern,
  compilePattern, recursiveVM with its recursion counter, Find) and of the result assembly in
  /repo/stringlib.go (strFind, strMatch, strGmatch(+Iter), strGsub, strGsubStr/Table/Func,
  strGsubDoReplace, capturedString, checkCaptureIndex) and utils.go (flagScanner).

  Same names, same case splits, same arithmetic.  Every Go operation that can panic (slice index,
  slice expression) is an explicit `.goPanic` result.  Loops that Go writes as `for {}` / `goto` take a
  fuel argument; running out of fuel is the distinct result `.fuel` (never a default value), and the
  theorems in Props/C14 bound the fuel that is needed.

  The model describes the tree WITH the proposed fixes fixes/C14-*.diff applied (see notes/C14.md).
  Bytes are `Nat` (< 256); Go `int` operands that may hold EOS (-1) are `Int`.
-/
import GLua.Spec.LuaPattern   -- only for the interface types CapVal / RVal / Repl of the replacement oracle

namespace GLua.Pm
open GLua.LuaPattern (CapVal RVal Repl)

inductive PErr where
  | pm (pos : Int) (msg : String)       -- *pm.Error (becomes a Lua error in stringlib)
  | lua (msg : String)                  -- L.RaiseError in stringlib
  | goPanic (site : String)             -- a Go runtime panic
  | fuel                                -- the model ran out of fuel (never happens with the fuel the engine gives)
deriving DecidableEq, Repr

abbrev M := Except PErr

def EOS : Int := -1
def UNKNOWN : Int := -2
def maxRecursionLevel : Nat := 1000000

/-- `(*Error).Error()` -/
def errorString (pos : Int) (msg : String) : String :=
  if pos = EOS then msg ++ " at EOS"
  else if pos = UNKNOWN then msg
  else msg ++ " at " ++ toString pos

/-! ### scanner -/
structure ScannerState where
  pos : Int := 0
  started : Bool := false
deriving DecidableEq, Repr

structure Scanner where
  src : Array Nat
  state : ScannerState := {}
  saved : ScannerState := {}

namespace Scanner
def length (sc : Scanner) : Int := sc.src.size
def currentPos (sc : Scanner) : Int := sc.state.pos

def nextPos (sc : Scanner) : Int :=
  if sc.state.pos = EOS ∨ sc.state.pos ≥ (sc.src.size : Int) - 1 then EOS
  else if !sc.state.started then 0
  else sc.state.pos + 1

def next (sc : Scanner) : M (Scanner × Int) :=
  let sc1 : Scanner :=
    if !sc.state.started then
      { sc with state := { started := true, pos := if sc.src.size = 0 then EOS else sc.state.pos } }
    else { sc with state := { sc.state with pos := sc.nextPos } }
  if sc1.state.pos = EOS then pure (sc1, EOS)
  else if sc1.state.pos < 0 then throw (.goPanic "scanner.Next: index")
  else match sc1.src[sc1.state.pos.toNat]? with
    | some c => pure (sc1, (c : Int))
    | none => throw (.goPanic "scanner.Next: index")

def peek (sc : Scanner) : M (Scanner × Int) := do
  let cureof := sc.state.pos = EOS
  let (sc1, ch) ← sc.next
  if !cureof then
    if sc1.state.pos = EOS then
      pure ({ sc1 with state := { sc1.state with pos := (sc1.src.size : Int) - 1 } }, ch)
    else
      let p := sc1.state.pos - 1
      if p < 0 then pure ({ sc1 with state := { pos := 0, started := false } }, ch)
      else pure ({ sc1 with state := { sc1.state with pos := p } }, ch)
  else pure (sc1, ch)

def save (sc : Scanner) : Scanner := { sc with saved := sc.state }
def restore (sc : Scanner) : Scanner := { sc with state := sc.saved }
end Scanner

/-! ### classes -/
inductive Class where
  | dot
  | char (ch : Int)
  | single (cl : Int)
  | set (isNot : Bool) (classes : List Class)
  | range (b e : Class)
deriving Repr

def btw (lo ch hi : Int) : Bool := lo ≤ ch && ch ≤ hi

/-- `singleClass.Matches` -/
def singleMatches (cl ch : Int) : Bool :=
  let neg (ret : Bool) : Bool := if btw 65 cl 90 then !ret else ret
  if cl = 97 ∨ cl = 65 then neg (btw 65 ch 90 || btw 97 ch 122)
  else if cl = 99 ∨ cl = 67 then neg (btw 0 ch 31 || ch == 127)
  else if cl = 100 ∨ cl = 68 then neg (btw 48 ch 57)
  else if cl = 108 ∨ cl = 76 then neg (btw 97 ch 122)
  else if cl = 112 ∨ cl = 80 then neg (btw 33 ch 47 || btw 58 ch 64 || btw 91 ch 96 || btw 123 ch 126)
  else if cl = 115 ∨ cl = 83 then neg (ch == 32 || ch == 12 || ch == 10 || ch == 13 || ch == 9 || ch == 11)
  else if cl = 117 ∨ cl = 85 then neg (btw 65 ch 90)
  else if cl = 119 ∨ cl = 87 then neg (btw 48 ch 57 || btw 65 ch 90 || btw 97 ch 122)
  else if cl = 120 ∨ cl = 88 then neg (btw 48 ch 57 || btw 97 ch 102 || btw 65 ch 70)
  else if cl = 122 ∨ cl = 90 then neg (ch == 0)
  else ch == cl

mutual
/-- `class.Matches(ch)` -/
def Class.Matches : Class → Int → Bool
  | .dot, _ => true
  | .char c, ch => c == ch
  | .single cl, ch => singleMatches cl ch
  | .set isNot cs, ch => if anyMatches cs ch then !isNot else isNot
  | .range b e, ch =>
    match b, e with
    | .char lo, .char hi => lo ≤ ch && ch ≤ hi
    | _, _ => false
def anyMatches : List Class → Int → Bool
  | [], _ => false
  | c :: r, ch => c.Matches ch || anyMatches r ch
end

def Class.isChar : Class → Bool
  | .char _ => true
  | _ => false

/-! ### patterns -/
inductive Pat where
  | single (c : Class)
  | repeat (ty : Int) (c : Class)
  | posCap
  | cap (pats : List Pat)          -- capPattern{&seqPattern{false,false,pats}}
  | number (n : Int)
  | brace (b e : Int)
deriving Repr

structure SeqPat where
  mustHead : Bool := false
  mustTail : Bool := false
  pats : List Pat := []
deriving Repr

/-! ### parser -/
def parseClassSetLoop : Nat → Scanner → Bool → List Class → Bool → M (Scanner × Class)
  | 0, _, _, _, _ => throw .fuel
  | fuel+1, sc, isNot, classes, isrange => do
    let (sc, ch) ← sc.peek
    if ch = EOS then throw (.pm sc.currentPos "unexpected EOS")
    -- case ']'
    if ch = 93 ∧ classes.length > 0 then
      let (sc, _) ← sc.next
      -- exit:
      let classes := if isrange then classes ++ [.char 45] else classes
      return (sc, .set isNot classes)
    -- case '-' (also reached by fallthrough from ']')
    if (ch = 45 ∨ ch = 93) ∧ classes.length > 0 ∧ !isrange ∧ (classes.getLast?.map Class.isChar) = some true then
      let (sc, _) ← sc.next
      return ← parseClassSetLoop fuel sc isNot classes true
    -- default: set.Classes = append(set.Classes, parseClass(sc, false))
    let (sc, ch) ← sc.next
    let (sc, cls) ←
      if ch = 37 then do
        let (sc, c2) ← sc.next
        pure (sc, Class.single c2)
      else if ch = EOS then throw (.pm sc.currentPos "unexpected EOS")
      else pure (sc, Class.char ch)      -- '.', '[' with allowset = false, and default
    let classes := classes ++ [cls]
    if isrange then
      if classes.length < 2 then throw (.goPanic "parseClassSet: set.Classes[len-2]")
      else
        let n := classes.length
        match classes[n-2]?, classes[n-1]? with
        | some b, some e => parseClassSetLoop fuel sc isNot (classes.take (n-2) ++ [.range b e]) false
        | _, _ => throw (.goPanic "parseClassSet: set.Classes[len-2]")
    else parseClassSetLoop fuel sc isNot classes false

/-- `parseClassSet` -/
def parseClassSet (fuel : Nat) (sc : Scanner) : M (Scanner × Class) := do
  let (sc1, ch) ← sc.peek
  if ch = 94 then
    let (sc2, _) ← sc1.next
    parseClassSetLoop fuel sc2 true [] false
  else parseClassSetLoop fuel sc1 false [] false

/-- `parseClass(sc, allowset)` -/
def parseClass (fuel : Nat) (sc : Scanner) (allowset : Bool) : M (Scanner × Class) := do
  let (sc, ch) ← sc.next
  if ch = 37 then
    let (sc, c2) ← sc.next
    pure (sc, .single c2)
  else if ch = 46 then pure (sc, if allowset then .dot else .char ch)
  else if ch = 91 then
    if allowset then parseClassSet fuel sc else pure (sc, .char ch)
  else if ch = EOS then throw (.pm sc.currentPos "unexpected EOS")
  else pure (sc, .char ch)

def isQuant (ch : Int) : Bool := ch = 42 || ch = 43 || ch = 45 || ch = 63

/-- `parsePattern(sc, toplevel)`; `pat` is the sequence built so far (the `for {}` loop is the recursion). -/
def parsePattern : Nat → Scanner → Bool → SeqPat → M (Scanner × SeqPat)
  | 0, _, _, _ => throw .fuel
  | fuel+1, sc, toplevel, pat => do
    let (sc, ch) ← sc.peek
    let push (p : Pat) : SeqPat := { pat with pats := pat.pats ++ [p] }
    if ch = 37 then
      let sc := sc.save
      let (sc, _) ← sc.next
      let (sc, c2) ← sc.peek
      if c2 = 48 then throw (.pm sc.currentPos "invalid capture index")
      else if 49 ≤ c2 ∧ c2 ≤ 57 then
        let (sc, d) ← sc.next
        parsePattern fuel sc toplevel (push (.number (d - 48)))
      else if c2 = 98 then
        let (sc, _) ← sc.next
        let (sc, b) ← sc.next
        let (sc, e) ← sc.next
        parsePattern fuel sc toplevel (push (.brace b e))
      else
        let sc := sc.restore
        let (sc, cls) ← parseClass fuel sc true
        parsePattern fuel sc toplevel (push (.single cls))
    else if ch = 46 ∨ ch = 91 ∨ ch = 93 then
      let (sc, cls) ← parseClass fuel sc true
      parsePattern fuel sc toplevel (push (.single cls))
    else if ch = 41 then
      if toplevel then throw (.pm sc.currentPos "invalid ')'")
      else pure (sc, pat)
    else if ch = 40 then
      let (sc, _) ← sc.next
      let (sc, c2) ← sc.peek
      if c2 = 41 then
        let (sc, _) ← sc.next
        parsePattern fuel sc toplevel (push .posCap)
      else
        let (sc, inner) ← parsePattern fuel sc false {}
        let (sc, c3) ← sc.peek
        if c3 ≠ 41 then throw (.pm sc.currentPos "unfinished capture")
        else
          let (sc, _) ← sc.next
          parsePattern fuel sc toplevel (push (.cap inner.pats))
    else if isQuant ch then
      let (sc, _) ← sc.next
      match pat.pats.getLast? with
      | some (.single cls) =>
        parsePattern fuel sc toplevel { pat with pats := pat.pats.dropLast ++ [.repeat ch cls] }
      | _ => parsePattern fuel sc toplevel (push (.single (.char ch)))
    else if ch = 36 then
      let pat' : SeqPat :=
        if toplevel ∧ (sc.nextPos = sc.length - 1 ∨ sc.nextPos = EOS) then { pat with mustTail := true }
        else push (.single (.char ch))
      let (sc, _) ← sc.next
      parsePattern fuel sc toplevel pat'
    else if ch = EOS then
      let (sc, _) ← sc.next
      pure (sc, pat)
    else
      let (sc, _) ← sc.next
      parsePattern fuel sc toplevel (push (.single (.char ch)))

/-- `parsePattern(newScanner(p), true)` including the leading `^` -/
def parseTop (p : Array Nat) : M SeqPat := do
  let fuel := 2 * p.size + 8
  let sc : Scanner := { src := p }
  let (sc1, ch) ← sc.peek
  if ch = 94 then
    let (sc2, _) ← sc1.next
    let (_, pat) ← parsePattern fuel sc2 true { mustHead := true }
    pure pat
  else
    let (_, pat) ← parsePattern fuel sc1 true {}
    pure pat

/-! ### bytecode -/
inductive Inst where
  | char (c : Class)
  | matchI
  | tailMatch
  | jmp (t : Nat)
  | split (a b : Nat)
  | save (n : Nat)
  | psave (n : Nat)
  | brace (b e : Int)
  | number (n : Int)
deriving Repr

structure IPtr where
  insts : Array Inst
  capture : Nat
  closed : List Nat      -- (fix C14-backref) captures a back-reference may name

mutual
/-- `compilePattern(p, ptr)` (the non-toplevel calls) -/
def compilePat : Pat → IPtr → M IPtr
  | .single c, ptr => pure { ptr with insts := ptr.insts.push (.char c) }
  | .repeat ty c, ptr =>
    let idx := ptr.insts.size
    if ty = 42 then pure { ptr with insts := ((ptr.insts.push (.split (idx+1) (idx+3))).push (.char c)).push (.jmp idx) }
    else if ty = 43 then pure { ptr with insts := (ptr.insts.push (.char c)).push (.split idx (idx+2)) }
    else if ty = 45 then pure { ptr with insts := ((ptr.insts.push (.split (idx+3) (idx+1))).push (.char c)).push (.jmp idx) }
    else if ty = 63 then pure { ptr with insts := (ptr.insts.push (.split (idx+1) (idx+2))).push (.char c) }
    else pure ptr
  | .posCap, ptr =>
    pure { insts := ptr.insts.push (.psave ptr.capture), closed := ptr.capture :: ptr.closed, capture := ptr.capture + 2 }
  | .cap pats, ptr => do
    let c0 := ptr.capture
    let c1 := ptr.capture + 1
    let ptr1 : IPtr := { ptr with capture := ptr.capture + 2, insts := ptr.insts.push (.save c0) }
    let ptr2 ← compileSeq pats ptr1
    pure { ptr2 with insts := ptr2.insts.push (.save c1), closed := c0 :: ptr2.closed }
  | .brace b e, ptr => pure { ptr with insts := ptr.insts.push (.brace b e) }
  | .number n, ptr =>
    if ptr.closed.contains (n * 2).toNat ∧ n ≥ 0 then pure { ptr with insts := ptr.insts.push (.number n) }
    else throw (.pm UNKNOWN "invalid capture index")
def compileSeq : List Pat → IPtr → M IPtr
  | [], ptr => pure ptr
  | p :: r, ptr => do
    let ptr1 ← compilePat p ptr
    compileSeq r ptr1
end

/-- `compilePattern(pat)` (the toplevel call) -/
def compilePattern (pat : SeqPat) : M (Array Inst) := do
  let ptr : IPtr := { insts := #[.save 0], capture := 2, closed := [] }
  let ptr ← compileSeq pat.pats ptr
  let insts := if pat.mustTail then (ptr.insts.push (.save 1)).push .tailMatch else ptr.insts
  pure ((insts.push (.save 1)).push .matchI)

/-! ### MatchData: `captures []uint32`, entry = pos<<1 | isPositionCapture -/
abbrev Caps := Array Nat

/-- `append(st.captures, 0)` k times -/
def pushZeros (m : Caps) : Nat → Caps
  | 0 => m
  | k+1 => pushZeros (m.push 0) k

/-- `for n > len(st.captures) { st.captures = append(st.captures, 0) }` -/
def growTo (m : Caps) (n : Nat) : Caps := pushZeros m (n - m.size)

/-- `setCapture(s, pos)`: returns the old entry -/
def setCapture (m : Caps) (s pos : Nat) : Caps × Nat :=
  let m := growTo m (s + 1)
  (m.setIfInBounds s (pos * 2), m.getD s 0)

def restoreCapture (m : Caps) (s v : Nat) : M Caps :=
  if s < m.size then pure (m.setIfInBounds s v) else throw (.goPanic "restoreCapture: index")

def addPosCapture (m : Caps) (s pos : Nat) : Caps :=
  let m := growTo m (s + 2)
  (m.setIfInBounds s (pos * 2 + 1)).setIfInBounds (s + 1) (pos * 2 + 1)

def isPosCapture (m : Caps) (idx : Nat) : M Bool :=
  match m[idx]? with
  | some v => pure (v % 2 = 1)
  | none => throw (.goPanic "IsPosCapture: index")

def capture (m : Caps) (idx : Nat) : M Nat :=
  match m[idx]? with
  | some v => pure (v / 2)
  | none => throw (.goPanic "Capture: index")

/-! ### VM -/
/-- the scan of `opBrace` after the opening byte: `for sp = sp+1; sp < len(src); sp++` -/
def braceLoop (src : Array Nat) (b e : Int) : Nat → Nat → Int → Option Nat
  | 0, _, _ => none
  | n+1, sp, count =>
    match src[sp]? with
    | none => none
    | some ch =>
      let count := if (ch : Int) = e then count - 1 else count
      if count = 0 then some (sp + 1)
      else braceLoop src b e n (sp + 1) (if (ch : Int) = b then count + 1 else count)

/-- the comparison loop of `opNumber` -/
def backrefLoop (src : Array Nat) (lo sp : Nat) : Nat → Nat → Bool
  | 0, _ => true
  | n+1, i =>
    match src[i + sp]?, src[lo + i]? with
    | some a, some b => if a = b then backrefLoop src lo sp n (i+1) else false
    | _, _ => false

/-- `recursiveVM` from the label `redo` on; `rec` is the value of `recLevel` after the increment at entry.
    A recursive Go call is `enter`. -/
def vm (src : Array Nat) (insts : Array Inst) (cap : Nat) : Nat → Nat → Nat → Nat → Caps → M (Bool × Nat × Caps)
  | 0, _, _, _, _ => throw .fuel
  | fuel+1, pc, sp, rec, m =>
    let enter (pc sp : Nat) (m : Caps) : M (Bool × Nat × Caps) :=
      if rec + 1 > cap then throw (.pm UNKNOWN "pattern/input too complex")
      else vm src insts cap fuel pc sp (rec + 1) m
    match insts[pc]? with
    | none => throw (.goPanic "recursiveVM: insts[pc]")
    | some inst =>
      match inst with
      | .char c =>
        match src[sp]? with
        | none => pure (false, sp, m)
        | some ch => if c.Matches ch then vm src insts cap fuel (pc+1) (sp+1) rec m else pure (false, sp, m)
      | .matchI => pure (true, sp, m)
      | .tailMatch => pure (decide (sp ≥ src.size), sp, m)
      | .jmp t => vm src insts cap fuel t sp rec m
      | .split a b => do
        let (ok, nsp, m1) ← enter a sp m
        if ok then pure (true, nsp, m1) else vm src insts cap fuel b sp rec m1
      | .save n => do
        let (m1, old) := setCapture m n sp
        let (ok, nsp, m2) ← enter (pc+1) sp m1
        if ok then pure (true, nsp, m2)
        else
          let m3 ← restoreCapture m2 n old
          pure (false, sp, m3)
      | .psave n => vm src insts cap fuel (pc+1) sp rec (addPosCapture m n (sp+1))
      | .brace b e =>
        match src[sp]? with
        | none => pure (false, sp, m)
        | some ch =>
          if (ch : Int) ≠ b then pure (false, sp, m)
          else match braceLoop src b e (src.size - sp) (sp+1) 1 with
            | some sp' => vm src insts cap fuel (pc+1) sp' rec m
            | none => pure (false, src.size, m)
      | .number n => do
        let idx := (n * 2).toNat
        if n < 0 ∨ idx + 1 ≥ m.size then throw (.pm UNKNOWN "invalid capture index")
        if (← isPosCapture m idx) then return (false, sp, m)
        let lo ← capture m idx
        let hi ← capture m (idx + 1)
        if lo > hi ∨ hi > src.size then throw (.goPanic "recursiveVM: src[lo:hi]")
        if backrefLoop src lo sp (hi - lo) 0 then vm src insts cap fuel (pc+1) (sp + (hi - lo)) rec m
        else pure (false, sp, m)

/-- fuel given to one run of the VM; `vm_fuel_suffices` (Proofs/PmCompile) shows it is never exhausted on a compiled program -/
def vmFuel (src : Array Nat) (insts : Array Inst) : Nat := (2 * insts.size + 2) * (src.size + 1) + 1

/-- the scan loop of `Find` over an abstract single-position matcher `run sp = (ok, nsp, captures)` -/
def findLoop {α} (run : Nat → M (Bool × Nat × α)) (len : Nat) (limit : Int) (mustHead : Bool) :
    Nat → Nat → List α → M (List α)
  | 0, _, mds => pure mds
  | fuel+1, sp, mds =>
    if sp > len then pure mds else do
    let (ok, nsp, ms) ← run sp
    let sp1 := sp + 1
    let (sp2, mds) := if ok then ((if sp1 < nsp then nsp else sp1), mds ++ [ms]) else (sp1, mds)
    if (mds.length : Int) = limit ∨ mustHead then pure mds
    else findLoop run len limit mustHead fuel sp2 mds

/-- `pm.Find(p, src, offset, limit)` -/
def find (cap : Nat) (p : Array Nat) (src : Array Nat) (offset : Nat) (limit : Int) : M (List Caps) := do
  let pat ← parseTop p
  let insts ← compilePattern pat
  findLoop (fun sp => vm src insts cap (vmFuel src insts) 0 sp 1 #[]) src.size limit pat.mustHead
    (src.size + 2) offset []

/-! ### stringlib.go: result assembly -/
/-- Lua values pushed by the string functions -/
inductive LV where
  | nil
  | num (i : Int)
  | str (b : List Nat)
deriving DecidableEq, Repr

def substr (str : Array Nat) (lo hi : Nat) : M (List Nat) :=
  if lo ≤ hi ∧ hi ≤ str.size then pure ((str.toList.drop lo).take (hi - lo))
  else throw (.goPanic "string slice out of range")

/-- `luaIndex2StringIndex(str, i, true)` -/
def luaIndex2StringIndexStart (len : Nat) (i : Int) : Nat :=
  let i := if i ≠ 0 then i - 1 else i
  let i := if i < 0 then (len : Int) + i + 1 else i
  (max 0 i).toNat

/-- the capture-pushing loop shared by strFind / strMatch / strGmatchIter: `for i := 2; i < md.CaptureLength(); i += 2` -/
def pushCaps (str : Array Nat) (md : Caps) : Nat → Nat → M (List LV)
  | 0, _ => pure []
  | n+1, i =>
    if i < md.size then do
      let v ← (do
        if (← isPosCapture md i) then pure (LV.num (← capture md i))
        else pure (LV.str (← substr str (← capture md i) (← capture md (i+1)))))
      let rest ← pushCaps str md n (i + 2)
      pure (v :: rest)
    else pure []

def liftErr {α} (x : M α) : M α :=
  match x with
  | .error (.pm pos msg) => .error (.lua (errorString pos msg))
  | r => r

/-- `strFind` without the `plain` argument; `init` is `L.OptInt(3, 1)` -/
def strFind (str pattern : Array Nat) (init : Int) : M (List LV) := do
  let init0 := luaIndex2StringIndexStart str.size init
  let init := if init0 > str.size then str.size else init0
  if pattern.size = 0 then return [.num (init + 1), .num init]
  let mds ← liftErr (find maxRecursionLevel pattern str init 1)
  match mds with
  | [] => pure [.nil]
  | md :: _ =>
    let s ← capture md 0
    let e ← capture md 1
    let caps ← pushCaps str md md.size 2
    pure (.num (s + 1) :: .num e :: caps)

/-- `strMatch` -/
def strMatch (str pattern : Array Nat) (init : Int) : M (List LV) := do
  let l : Int := str.size
  let offset := if init < 0 then l + init + 1 else init
  let offset := offset - 1
  let offset := if offset < 0 then 0 else offset
  let offset := if offset > l then l else offset
  let mds ← liftErr (find maxRecursionLevel pattern str offset.toNat 1)
  match mds with
  | [] => pure [.nil]
  | md :: _ =>
    if md.size / 2 = 1 then
      pure [.str (← substr str (← capture md 0) (← capture md 1))]
    else pushCaps str md md.size 2

/-- `strMatchData`: the state the closure returned by `string.gmatch` keeps in its upvalue -/
structure StrMatchData where
  str : Array Nat
  pos : Nat
  mds : List Caps

/-- `strGmatchIter`: one call of the iterator closure; the values it pushes and the updated upvalue state.
    An exhausted iterator keeps returning nothing (repo d99b29c). -/
def strGmatchIter (md : StrMatchData) : M (List LV × StrMatchData) :=
  let idx := md.pos
  if idx ≥ md.mds.length then pure ([], md) else
  let md' := { md with pos := md.pos + 1 }
  match md.mds[idx]? with
  | none => throw (.goPanic "strGmatchIter: matches[idx]")
  | some m => do
    if m.size = 2 then pure ([.str (← substr md.str (← capture m 0) (← capture m 1))], md')
    else pure (← pushCaps md.str m m.size 2, md')

/-- `strGmatch`: runs `pm.Find` once and returns the closure (= its initial state) -/
def strGmatchNew (str pattern : Array Nat) : M StrMatchData := do
  let pattern := if pattern[0]? = some 94 then #[37] ++ pattern else pattern     -- fix C14-gmatch-anchor
  let mds ← liftErr (find maxRecursionLevel pattern str 0 (-1))
  pure { str := str, pos := 0, mds := mds }

/-- what a generic `for` sees: the tuples the iterator yields until it returns nothing -/
def strGmatchDrive : Nat → StrMatchData → M (List (List LV))
  | 0, _ => throw .fuel
  | n+1, md => do
    let (vals, md') ← strGmatchIter md
    if vals.length = 0 then pure []
    else
      let rest ← strGmatchDrive n md'
      pure (vals :: rest)

/-- `string.gmatch` driven to exhaustion: the list of value tuples -/
def strGmatch (str pattern : Array Nat) : M (List (List LV)) := do
  let md ← strGmatchNew str pattern
  strGmatchDrive (md.mds.length + 1) md

def natBytes (n : Nat) : List Nat := (toString n).toList.map (·.toNat)

/-- `checkCaptureIndex` + `capturedString` -/
def capturedString (m : Caps) (str : Array Nat) (idx : Nat) : M (List Nat) := do
  if idx > 2 ∧ idx ≥ m.size then throw (.lua "invalid capture index")
  let idx := if idx ≥ m.size ∧ idx = 2 then 0 else idx
  if (← isPosCapture m idx) then pure (natBytes (← capture m idx))
  else substr str (← capture m idx) (← capture m (idx + 1))

structure ReplaceInfo where
  i0 : Nat
  i1 : Nat
  str : List Nat

/-- `strGsubDoReplace` -/
def strGsubDoReplace (str : List Nat) (info : List ReplaceInfo) : M (List Nat) :=
  let rec go : List ReplaceInfo → Int → List Nat → M (List Nat)
    | [], _, buf => pure buf
    | r :: rest, offset, buf =>
      let oldlen := buf.length
      let a := offset + r.i0
      if a < 0 ∨ a > buf.length then throw (.goPanic "strGsubDoReplace: buf[0:offset+i0]") else
      let b1 := buf.take a.toNat
      let index2 := offset + r.i1
      if index2 < 0 then throw (.goPanic "strGsubDoReplace: buf[index2:]") else
      let b2 := if index2 ≤ buf.length then buf.drop index2.toNat else []
      let buf' := b1 ++ r.str ++ b2
      go rest (offset + ((buf'.length : Int) - oldlen)) buf'
  go info 0 str

/-- flagScanner with flag '%' and empty start/end, as used by strGsubStr -/
structure FlagScanner where
  str : Array Nat
  buf : List Nat := []
  pos : Nat := 0
  hasFlag : Bool := false
  changeFlag : Bool := false

def FlagScanner.next : Nat → FlagScanner → M (FlagScanner × Nat × Bool)
  | 0, _ => throw .fuel
  | fuel+1, fs =>
    let fs := { fs with changeFlag := false }
    if fs.pos = fs.str.size then pure (fs, 0, true)
    else match fs.str[fs.pos]? with
      | none => throw (.goPanic "flagScanner.Next: index")
      | some c =>
        if c = 37 then
          if fs.pos + 1 < fs.str.size ∧ fs.str[fs.pos + 1]? = some 37 then
            FlagScanner.next fuel { fs with hasFlag := false, buf := fs.buf ++ [37], pos := fs.pos + 2 }
          else if fs.pos + 1 ≠ fs.str.size then
            pure ({ fs with changeFlag := true, hasFlag := true, pos := fs.pos + 1 }, c, false)
          else pure ({ fs with pos := fs.pos + 1 }, c, false)
        else pure ({ fs with pos := fs.pos + 1 }, c, false)

/-- the replacement text of one match in `strGsubStr` -/
def gsubStrOne (str : Array Nat) (repl : Array Nat) (m : Caps) : Nat → FlagScanner → M (List Nat)
  | 0, _ => throw .fuel
  | fuel+1, sc => do
    let (sc, c, eos) ← sc.next (repl.size + 2)
    if eos then return sc.buf
    if !sc.changeFlag then
      if sc.hasFlag then
        if 48 ≤ c ∧ c ≤ 57 then
          let s ← capturedString m str (2 * (c - 48))
          gsubStrOne str repl m fuel { sc with buf := sc.buf ++ s, hasFlag := false }
        else
          gsubStrOne str repl m fuel { sc with buf := sc.buf ++ [37, c], hasFlag := false }
      else gsubStrOne str repl m fuel { sc with buf := sc.buf ++ [c] }
    else gsubStrOne str repl m fuel sc

def strGsubStr (str : Array Nat) (repl : Array Nat) (mds : List Caps) : M (List Nat) := do
  let infos ← mds.mapM fun m => do
    let s ← capture m 0
    let e ← capture m 1
    let txt ← gsubStrOne str repl m (repl.size + 2) { str := repl }
    pure (ReplaceInfo.mk s e txt)
  strGsubDoReplace str.toList infos

/-- value → replacement text, shared tail of strGsubTable / strGsubFunc (with fix C14-gsub-repl-value) -/
def replValue (v : RVal) : M (Option (List Nat)) :=
  match v with
  | .nil => pure none
  | .false => pure none
  | .str b => pure (some b)
  | .int i => pure (some ((toString i).toList.map (·.toNat)))
  | .other t => throw (.lua ("invalid replacement value (a " ++ t ++ ")"))

def strGsubTable (str : Array Nat) (look : CapVal → RVal) (mds : List Caps) : M (List Nat) := do
  let infos ← mds.mapM fun m => do
    let idx := if m.size > 2 then 2 else 0
    let key ← (do
      if (← isPosCapture m idx) then pure (CapVal.pos (← capture m idx))
      else pure (CapVal.str (← substr str (← capture m idx) (← capture m (idx + 1)))))
    match ← replValue (look key) with
    | some txt => pure (some (ReplaceInfo.mk (← capture m 0) (← capture m 1) txt))
    | none => pure none
  strGsubDoReplace str.toList (infos.filterMap id)

def funcArgs (str : Array Nat) (m : Caps) : Nat → Nat → M (List CapVal)
  | 0, _ => pure []
  | n+1, i =>
    if i < m.size then do
      let v ← (do
        if (← isPosCapture m i) then pure (CapVal.pos (← capture m i))
        else pure (CapVal.str (← capturedString m str i)))
      pure (v :: (← funcArgs str m n (i + 2)))
    else pure []

def strGsubFunc (str : Array Nat) (call : Nat → List CapVal → RVal) (mds : List Caps) : M (List Nat) := do
  let rec go : List Caps → Nat → M (List (Option ReplaceInfo))
    | [], _ => pure []
    | m :: rest, k => do
      let s ← capture m 0
      let e ← capture m 1
      let args ← if m.size > 2 then funcArgs str m m.size 2
                 else (do pure [CapVal.str (← capturedString m str 0)])
      let r ← (do
        match ← replValue (call k args) with
        | some txt => pure (some (ReplaceInfo.mk s e txt))
        | none => pure none)
      pure (r :: (← go rest (k + 1)))
  let infos ← go mds 0
  strGsubDoReplace str.toList (infos.filterMap id)

/-- `strGsub`; `maxS = none` when the 4th argument is absent -/
def strGsub (str pat : Array Nat) (repl : Repl) (maxS : Option Int) : M (List Nat × Nat) := do
  let limit : Int := match maxS with
    | none => (str.size : Int) + 1
    | some i => i
  if limit ≤ 0 then return (str.toList, 0)                                        -- fix C14-gsub-max-s
  let mds ← liftErr (find maxRecursionLevel pat str 0 limit)
  if mds.length = 0 then return (str.toList, 0)
  let out ← match repl with
    | .str b => strGsubStr str b.toArray mds
    | .tbl look => strGsubTable str look mds
    | .fn call => strGsubFunc str call mds
  pure (out, mds.length)

end GLua.Pm
