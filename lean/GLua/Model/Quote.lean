/-
  C16 Model — quoting and reading back.
   * `formatQ`        : value.go LString.Format, case 'q' (after fixes/C16-lua-quote.diff) as reached from
                        stringlib.go strFormat / fmt.Sprintf("%q", LString).
   * `Pre.goQuote`    : the unrepaired path — `defaultFormat(string(st), f, 'q')` = strconv.Quote.  Runes ≥ 0x80 that
                        decode as valid UTF-8 need unicode.IsPrint (a table we do not model): `none`.
   * `scanString`, `scanEscape` : parse/lexer.go, over the `next` stream of Model/Numeral (CR/LF normalisation).
   * `linesRead`      : the line counter of Scanner.Next/Newline over that stream.
  Core Lean only.
-/
import GLua.Model.Numeral

namespace GLua.QuoteModel
open GLua.NumSpec (Bytes isDec)
open GLua.NumModel (next toByte)

/-- LString.Format 'q' (repaired): the loop over the bytes of the string. -/
def formatQBody : Bytes → Bytes
  | [] => []
  | c :: r =>
    (if c = 34 ∨ c = 92 ∨ c = 10 then [92, c]
     else if c = 13 then [92, 114]
     else if c = 0 then [92, 48, 48, 48]
     else [c]) ++ formatQBody r

def formatQ (s : Bytes) : Bytes := 34 :: (formatQBody s ++ [34])

/-- scanEscape: the backslash has been consumed; returns the buffer and the remaining input;
    `none` = "escape sequence too large" (fixes/C16-decimal-escape-range.diff; `wrap = true` is the unrepaired code,
    which stores `byte(val)`). -/
def scanEscape (wrap : Bool) (inp : Bytes) (buf : Bytes) : Option (Bytes × Bytes) :=
  let (ch, r) := next inp
  if ch = 97 then some (buf ++ [7], r)
  else if ch = 98 then some (buf ++ [8], r)
  else if ch = 102 then some (buf ++ [12], r)
  else if ch = 110 then some (buf ++ [10], r)
  else if ch = 114 then some (buf ++ [13], r)
  else if ch = 116 then some (buf ++ [9], r)
  else if ch = 118 then some (buf ++ [11], r)
  else if ch = 92 then some (buf ++ [92], r)
  else if ch = 34 then some (buf ++ [34], r)
  else if ch = 39 then some (buf ++ [39], r)
  else if ch = 10 then some (buf ++ [10], r)
  else if 48 ≤ ch ∧ ch ≤ 57 then
    -- up to two more digits; strconv.ParseInt(…, 10, 32)
    let d1 := ch.toNat - 48
    match r with
    | c2 :: r2 =>
      if isDec c2 then
        match r2 with
        | c3 :: r3 =>
          if isDec c3 then
            let v := d1 * 100 + (c2 - 48) * 10 + (c3 - 48)
            if v > 255 then (if wrap then some (buf ++ [v % 256], r3) else none) else some (buf ++ [v], r3)
          else some (buf ++ [d1 * 10 + (c2 - 48)], r2)
        | [] => some (buf ++ [d1 * 10 + (c2 - 48)], r2)
      else some (buf ++ [d1], r)
    | [] => some (buf ++ [d1], r)
  else some (buf ++ [toByte ch], r)

/-- scanString: the opening quote has been consumed. `none` = scanner error. -/
def scanString (wrap : Bool) (quote : Nat) : Nat → Bytes → Bytes → Option (Bytes × Bytes)
  | 0, _, _ => none
  | fuel + 1, inp, buf =>
    let (ch, r) := next inp
    if ch = quote then some (buf, r)
    else if ch = 10 ∨ ch < 0 then none
    else if ch = 92 then
      match scanEscape wrap r buf with
      | none => none
      | some (buf', r') => scanString wrap quote fuel r' buf'
    else scanString wrap quote fuel r (buf ++ [toByte ch])

/-- parse/lexer.go Next/Newline: how often `sc.Pos.Line += 1` runs while Next() reads all of a text (a token that
    follows the text stands on line 1 + that).  Newline pairs CR LF / LF CR by peeking at the next byte of the
    STREAM: where the reader's buffer ends plays no part. -/
def linesRead : Nat → Bytes → Nat
  | 0, _ => 0
  | _ + 1, [] => 0
  | fuel + 1, c :: r => (if (next (c :: r)).1 = 10 then 1 else 0) + linesRead fuel (next (c :: r)).2

/-- what `loadstring("return " .. q)()` yields when `q` is one double-quoted literal and nothing else. -/
def readBack (q : Bytes) (wrap : Bool := false) : Option Bytes :=
  match q with
  | 34 :: r =>
    match scanString wrap 34 (r.length + 1) r [] with
    | some (s, []) => some s
    | _ => none
  | _ => none

namespace Pre

def hexDigit (n : Nat) : Nat := if n < 10 then 48 + n else 87 + n

def cont (c : Nat) : Bool := 128 ≤ c && c ≤ 191

/-- width of the valid UTF-8 sequence at the head (0 = invalid → RuneError, width 1). -/
def utf8Width : Bytes → Nat
  | b0 :: r =>
    if 194 ≤ b0 ∧ b0 ≤ 223 then
      match r with | b1 :: _ => if cont b1 then 2 else 0 | _ => 0
    else if 224 ≤ b0 ∧ b0 ≤ 239 then
      match r with
      | b1 :: b2 :: _ =>
        let lo := if b0 = 224 then 160 else 128
        let hi := if b0 = 237 then 159 else 191
        if lo ≤ b1 ∧ b1 ≤ hi ∧ cont b2 then 3 else 0
      | _ => 0
    else if 240 ≤ b0 ∧ b0 ≤ 244 then
      match r with
      | b1 :: b2 :: b3 :: _ =>
        let lo := if b0 = 240 then 144 else 128
        let hi := if b0 = 244 then 143 else 191
        if lo ≤ b1 ∧ b1 ≤ hi ∧ cont b2 ∧ cont b3 then 4 else 0
      | _ => 0
    else 0
  | [] => 0

/-- strconv.Quote body.  `none`: a valid multi-byte rune occurs (needs unicode.IsPrint). -/
def goQuoteBody : Nat → Bytes → Option Bytes
  | 0, _ => some []
  | _ + 1, [] => some []
  | fuel + 1, c :: r =>
    if c ≥ 128 then
      if utf8Width (c :: r) = 0 then (goQuoteBody fuel r).map ([92, 120, hexDigit (c / 16), hexDigit (c % 16)] ++ ·)
      else none
    else
      let e : Bytes :=
        if c = 34 ∨ c = 92 then [92, c]
        else if 32 ≤ c ∧ c < 127 then [c]
        else if c = 7 then [92, 97] else if c = 8 then [92, 98] else if c = 12 then [92, 102]
        else if c = 10 then [92, 110] else if c = 13 then [92, 114] else if c = 9 then [92, 116]
        else if c = 11 then [92, 118]
        else [92, 120, hexDigit (c / 16), hexDigit (c % 16)]
      (goQuoteBody fuel r).map (e ++ ·)

def goQuote (s : Bytes) : Option Bytes := (goQuoteBody (s.length + 1) s).map fun b => 34 :: (b ++ [34])

end Pre

end GLua.QuoteModel
