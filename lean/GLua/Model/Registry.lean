/-
  Model of `registry` in /repo/state.go (the data stack of an LState), function by function:
  checkSize / resize / forceResize / SetTop / Push / Pop / Get / Set / CopyRange / FillNil / Insert / IsFull,
  plus `raiseError`'s forced one-slot growth and `NewState`'s option normalisation.

  The slice `rg.array` is (cap, index → slot) — `make([]LValue, n)` has len = cap = n and the code only ever
  replaces the slice by another `make`.  A slot is a Go `nil` interface (`goNil`) or a Lua value (`val`, LNil = none).
  Every index expression is checked (`.goPanic` otherwise).  `registryOverflow()` of both handlers (LState and the
  verification hook) does not return: it is the error `luaError "registry overflow"`; the state is the one before
  the operation (the harness checks this on the real structure by continuing the history after an overflow).
  Indices and sizes are naturals (callers compute them from frame bases; negative values are outside the model),
  except `start`/`limit` of CopyRange whose negative values are meaningful in the code.
-/
import GLua.Basic
import GLua.Generated.Consts
import GLua.Spec.LimitsSpec

namespace GLua.Registry
open GLua GLua.LimitsSpec

inductive RV where
  | goNil
  | val (v : OVal)
deriving DecidableEq, Repr, Inhabited

def LNil : RV := .val none

def upd (f : Nat → RV) (i : Nat) (x : RV) : Nat → RV := fun j => if j = i then x else f j

structure Reg where
  cap     : Nat            -- cap(rg.array) = len(rg.array)
  array   : Nat → RV
  top     : Nat
  growBy  : Nat
  maxSize : Nat

def overflow : Err := .luaError "registry overflow"

namespace Reg

/-- `newRegistry(handler, initialSize, growBy, maxSize, alloc)`. -/
def new (initialSize growBy maxSize : Nat) : Reg := ⟨initialSize, fun _ => .goNil, 0, growBy, maxSize⟩

/-- `forceResize(newSize)`: `copy(newSlice, rg.array[:rg.top])` copies `min(newSize, top)` slots. -/
def forceResize (r : Reg) (newSize : Nat) : Except Err Reg :=
  if r.top ≤ r.cap then
    .ok { r with cap := newSize, array := fun i => if i < newSize ∧ i < r.top then r.array i else .goNil }
  else .error (.goPanic "registry.forceResize: slice bounds out of range")

def resize (r : Reg) (requiredSize : Nat) : Except Err Reg :=
  let newSize := requiredSize + r.growBy            -- give some padding
  let newSize := if newSize > r.maxSize then r.maxSize else newSize
  if newSize < requiredSize then .error overflow    -- rg.handler.registryOverflow()
  else r.forceResize newSize

def checkSize (r : Reg) (requiredSize : Nat) : Except Err Reg :=
  if requiredSize > r.cap then r.resize requiredSize else .ok r

/-- the tail shared by SetTop / CopyRange / FillNil: `rg.top = newTop`, slots `[newTop, oldtop)` become Go nil. -/
def truncTo (r : Reg) (newTop : Nat) : Except Err Reg :=
  if newTop < r.top then
    if r.top ≤ r.cap then
      .ok { r with top := newTop, array := fun i => if newTop ≤ i ∧ i < r.top then .goNil else r.array i }
    else .error (.goPanic "registry: slice bounds out of range")
  else .ok { r with top := newTop }

def setTop (r : Reg) (topi : Nat) : Except Err Reg := do
  let r ← r.checkSize topi
  -- for i := oldtopi; i < rg.top; i++ { rg.array[i] = LNil }
  if r.top < topi ∧ ¬ topi ≤ r.cap then .error (.goPanic "registry.SetTop: index out of range")
  else
    let r' := { r with array := fun i => if r.top ≤ i ∧ i < topi then LNil else r.array i }
    r'.truncTo topi

def push (r : Reg) (v : OVal) : Except Err Reg := do
  let r ← r.checkSize (r.top + 1)
  if r.top < r.cap then .ok { r with array := upd r.array r.top (.val v), top := r.top + 1 }
  else .error (.goPanic "registry.Push: index out of range")

def pop (r : Reg) : Except Err (Reg × RV) :=
  if r.top = 0 then .error (.goPanic "registry.Pop: index out of range [-1]")
  else if r.top - 1 < r.cap then
    .ok ({ r with array := upd r.array (r.top - 1) LNil, top := r.top - 1 }, r.array (r.top - 1))
  else .error (.goPanic "registry.Pop: index out of range")

def get (r : Reg) (reg : Nat) : Except Err RV :=
  if reg < r.cap then .ok (r.array reg) else .error (.goPanic "registry.Get: index out of range")

def set (r : Reg) (regi : Nat) (v : RV) : Except Err Reg := do
  let r ← r.checkSize (regi + 1)
  if regi < r.cap then .ok { r with array := upd r.array regi v, top := if regi ≥ r.top then regi + 1 else r.top }
  else .error (.goPanic "registry.Set: index out of range")

/-- the copy loop of CopyRange: `for i := 0; i < n; i++`, here from `i` for `k` more rounds. -/
def copyLoop (regv : Nat) (start : Int) (limit : Int) : Nat → Nat → Reg → Except Err Reg
  | 0, _, r => .ok r
  | k + 1, i, r =>
    let srcIdx : Int := start + (i : Int)
    if regv + i < r.cap then
      if srcIdx ≥ limit ∨ srcIdx < 0 then
        copyLoop regv start limit k (i + 1) { r with array := upd r.array (regv + i) LNil }
      else if srcIdx.toNat < r.cap then
        copyLoop regv start limit k (i + 1) { r with array := upd r.array (regv + i) (r.array srcIdx.toNat) }
      else .error (.goPanic "registry.CopyRange: source index out of range")
    else .error (.goPanic "registry.CopyRange: destination index out of range")

def copyRange (r : Reg) (regv : Nat) (start limit : Int) (n : Nat) : Except Err Reg := do
  let r ← r.checkSize (regv + n)
  let limit : Int := if limit = -1 ∨ limit > (r.top : Int) then (r.top : Int) else limit
  let r ← copyLoop regv start limit n 0 r
  r.truncTo (regv + n)

def fillLoop (regm : Nat) : Nat → Nat → Reg → Except Err Reg
  | 0, _, r => .ok r
  | k + 1, i, r =>
    if regm + i < r.cap then fillLoop regm k (i + 1) { r with array := upd r.array (regm + i) LNil }
    else .error (.goPanic "registry.FillNil: index out of range")

def fillNil (r : Reg) (regm n : Nat) : Except Err Reg := do
  let r ← r.checkSize (regm + n)
  let r ← fillLoop regm n 0 r
  r.truncTo (regm + n)

/-- the shifting loop of Insert: `for ; top >= reg; top-- { Set(top+1, Get(top)) }`, `k` rounds starting at `j`. -/
def insertLoop : Nat → Nat → Reg → Except Err Reg
  | 0, _, r => .ok r
  | k + 1, j, r => do
    let v ← r.get j
    let r ← r.set (j + 1) v
    insertLoop k (j - 1) r

def insert (r : Reg) (value : OVal) (reg : Nat) : Except Err Reg :=
  let top := r.top
  if reg ≥ top then r.set reg (.val value)
  else do
    -- top--; for ; top >= reg; top-- { … }  runs for top = old top - 1 down to reg
    let r ← insertLoop (top - reg) (top - 1) r
    r.set reg (.val value)

def isFull (r : Reg) : Bool := r.top ≥ r.cap

/-- `raiseError`: "if the registry is full … force a larger size", then push the message. -/
def raisePush (r : Reg) (msg : OVal) : Except Err Reg := do
  let r ← if r.isFull then r.forceResize (r.top + 1) else .ok r
  r.push msg

def obsOf : RV → RObs
  | .goNil => .any       -- never inside the contract
  | .val v => .val v

def step (r : Reg) : ROp → Except Err (Reg × RObs)
  | .push v => (r.push v).map (fun r' => (r', .unit))
  | .pop => (r.pop).map (fun p => (p.1, obsOf p.2))
  | .get i => (r.get i).map (fun v => (r, obsOf v))
  | .set i v => (r.set i (.val v)).map (fun r' => (r', .unit))
  | .setTop n => (r.setTop n).map (fun r' => (r', .unit))
  | .copyRange regv start limit n => (r.copyRange regv start limit n).map (fun r' => (r', .unit))
  | .fillNil regm n => (r.fillNil regm n).map (fun r' => (r', .unit))
  | .insert v reg => (r.insert v reg).map (fun r' => (r', .unit))
  | .top => .ok (r, .nat r.top)
  | .isFull => .ok (r, .any)

end Reg

/-- a run that continues after a "registry overflow" with the state unchanged (what a protected call sees);
    the observation of an overflowing operation is `none`. -/
def run : Reg → List ROp → Except Err (Reg × List (Option RObs))
  | r, [] => .ok (r, [])
  | r, op :: rest => match r.step op with
    | .error (.luaError _) => match run r rest with
      | .error e => .error e
      | .ok (r'', os) => .ok (r'', none :: os)
    | .error e => .error e
    | .ok (r', o) => match run r' rest with
      | .error e => .error e
      | .ok (r'', os) => .ok (r'', some o :: os)

/-! ## NewState: option normalisation (state.go: NewState, newLState) -/

/-- `NewState(opts)` with explicit options: the values `newLState` receives. -/
def normalise (defCS defRS defStep : Nat) (o : Options) : Options :=
  let cs := if o.callStackSize < 1 then (defCS : Int) else o.callStackSize
  let rs := if o.registrySize < 128 then (defRS : Int) else o.registrySize
  if o.registryMaxSize < rs then
    { o with callStackSize := cs, registrySize := rs, registryMaxSize := 0 }   -- disable growth
  else
    { o with callStackSize := cs, registrySize := rs,
             registryGrowStep := if o.registryGrowStep < 1 then (defStep : Int) else o.registryGrowStep }

/-- the registry `newLState` builds from (normalised) options. -/
def regOf (o : Options) : Reg :=
  Reg.new o.registrySize.toNat o.registryGrowStep.toNat o.registryMaxSize.toNat

end GLua.Registry
