/-
  Model of gopher-lua's module loading, function by function:
    baselib.go : loRequire (cache test with LVAsBool, `loopdetection` sentinel, loader loop over
                 registry._LOADERS with message accumulation, result selection), loModule
    loadlib.go : loLoaders (order REGENERATED: GLua/Generated/Loaders.lean), loLoaderPreload, loLoaderLua
                 (L.LoadFile inside the searcher: a file that does not load makes the SEARCHER raise),
                 loFindFile (over the parameter file map `St.files` / `St.broken`)
    auxlib.go  : FindTable, RegisterModule, PreloadModule
  Types, loader behaviours (what a module's code does) and the log are shared with the Spec
  (GLua/Spec/Require.lean); everything `require` itself does is transcribed here from the Go code.

  RegisterModule is modelled AS IT WILL BE after fixes/C20-registermodule-existing.diff (functions are
  registered also when package.loaded[name] already holds a table) — see notes/C20.md.

  Go panic sites: the type assertions `L.Get(RegistryIndex).(*LTable)`, `L.Get(GlobalsIndex).(*LTable)` are on
  values that are tables by construction of the state; `registry._LOADERS.(*LTable)` is checked (`ok`) and
  the field is not writable from Lua; `curobj.Type()` in FindTable is called on a *LTable. No reachable
  panic site remains, hence no `.goPanic` constructor appears in this model (recorded in notes/C20.md).
-/
import GLua.Spec.Require
import GLua.Generated.Loaders

namespace GLua.Require.Model
open GLua.Require

/-- loadlib.go loFindFile(L, name, "path"): `strings.Replace(name, ".", sep)`, split package.path at ";",
    replace "?" in every pattern, `os.Stat` each; returns the first existing path or the messages. -/
def loFindFileLoop (s : St) (name : String) : List String → List String → Sum String (List String)
  | [], messages => .inr messages
  | pattern :: rest, messages =>
    let luapath := s.str.subst pattern name                -- strings.Replace(pattern, "?", name, -1)
    if (s.files luapath).isSome then .inl luapath          -- os.Stat(luapath) err == nil
    else loFindFileLoop s name rest (messages ++ ["F:" ++ luapath])

def loFindFile (s : St) (name : Name) : Sum String (List String) :=
  loFindFileLoop s (s.str.replaceDots name) (s.str.splitPath s.path) []

/-- loadlib.go loLoaderPreload -/
def loLoaderPreload (s : St) (name : Name) : Found :=
  match s.preload name with                                 -- L.GetField(preload, name)
  | none => .msg ["P:" ++ name]                             -- "no field package.preload['name']"
  | some lv => .fn lv

/-- loadlib.go loLoaderLua -/
def loLoaderLua (s : St) (name : Name) : Found :=
  match loFindFile s name with
  | .inr msg => .msg msg
  | .inl path =>
    if s.broken path then .raise (.loadErr path)            -- fn, err1 := L.LoadFile(path); err1 != nil → L.RaiseError
    else match s.files path with
    | some b => .fn { src := .file, key := path, beh := b }
    | none => .other

def searcherOfName (n : String) : Searcher :=
  if n = "loLoaderPreload" then .preload else if n = "loLoaderLua" then .lua else .unknown

/-- `var loLoaders = []LGFunction{…}` — regenerated from loadlib.go on every run. -/
def loLoaders : List Searcher := Generated.loLoaders.map searcherOfName

/-- `L.Push(loader); L.Push(LString(name)); L.Call(1, 1)`: the library's searchers, or a Lua function a script stored. -/
def callSearcher (s : St) (name : Name) : Searcher → Found
  | .preload => loLoaderPreload s name
  | .lua => loLoaderLua s name
  | c => scripted name c

/-- the `for i := 1; ; i++` loop of loRequire over registry._LOADERS. -/
def loaderLoop (s : St) (name : Name) : List Searcher → List String → Sum Loader RErr
  | [], messages => .inr (.notFound name messages)          -- loader == LNil → "module %s not found:…"
  | l :: rest, messages =>
    match callSearcher s name l with
    | .fn ld => .inl ld                                     -- case *LFunction: goto loopbreak
    | .msg m => loaderLoop s name rest (messages ++ m)      -- case LString: append
    | .other => loaderLoop s name rest messages
    | .raise e => .inr e                                    -- the searcher raised (L.Call propagates)

/-- auxlib.go FindTable(obj, n, size) -/
def findTableLoop (s : St) (curobj : Nat) : List String → St × LV
  | [] => (s, .tbl curobj)
  | name :: rest =>
    match s.heap curobj name with                           -- ls.RawGet(curobj, LString(name))
    | .nil =>
      let (s1, tb) := s.fresh                               -- ls.CreateTable(0, size)
      match tb with
      | .tbl id => findTableLoop (s1.heapSet curobj name tb) id rest
      | _ => (s1, .nil)
    | .tbl id => findTableLoop s id rest
    | _ => (s, .nil)                                        -- nextobj.Type() != LTTable

def findTable (s : St) (obj : Nat) (n : String) : St × LV := findTableLoop s obj (s.str.splitDots n)

/-- auxlib.go RegisterModule (with fixes/C20-registermodule-existing.diff applied) -/
def registerModule (s : St) (name : Name) (funcs : List String) : St × Res :=
  let setFuncs (s : St) (id : Nat) : St := funcs.foldl (fun s fname => s.heapSet id fname .fn) s
  match s.loaded name with                                  -- mod := ls.GetField(tb, name)
  | .tbl id => (setFuncs s id, .ok (.tbl id))               -- mod.Type() == LTTable
  | _ =>
    match findTable s 0 name with                           -- ls.FindTable(globals, name, len(funcs))
    | (s1, .tbl id) => ((setFuncs s1 id).setLoaded name (.tbl id), .ok (.tbl id))
    | (s1, _) => (s1, .err (.conflict name))                -- "name conflict for module(%v)"

/-- auxlib.go PreloadModule -/
def preloadModule (s : St) (name : Name) (b : Beh) : St :=
  { s with preload := upd s.preload name (some { src := .go, key := name, beh := b }) }

/-- baselib.go loModule (the part before SetFEnv; the extra arguments of `module` are not used). -/
def loModule (s : St) (name : Name) : St × Res :=
  let step1 : St × LV :=
    match s.loaded name with                                -- tb := L.GetField(loaded, name)
    | .tbl id => (s, .tbl id)
    | _ =>
      match findTable s 0 name with                         -- L.FindTable(globals, name, 1)
      | (s1, .tbl id) => (s1.setLoaded name (.tbl id), .tbl id)
      | (s1, _) => (s1, .nil)
  match step1 with
  | (s1, .tbl id) =>
    let s2 :=
      if s1.heap id "_NAME" = .nil then
        let names := s.str.splitDots name                   -- strings.Split(name, ".")
        let pname := if names.length > 1 then ".".intercalate names.dropLast ++ "." else ""
        ((s1.heapSet id "_M" (.tbl id)).heapSet id "_NAME" (.str name)).heapSet id "_PACKAGE" (.str pname)
      else s1
    (s2, .ok (.tbl id))
  | (s1, _) => (s1, .err (.conflict name))                  -- "name conflict for module: %v"

/-- baselib.go loRequire. `fuel` bounds the nesting depth of requires (Lua's call stack in the code).
    `loaders` = the contents of the table registry._LOADERS (the table OpenPackage created: loRequire does not
    read the field package.loaders, so a script reaches this table only by changing it in place). -/
def loRequireL (loaders : List Searcher) : Nat → St → Name → St × Res
  | 0, s, _ => (s, .err .fuel)
  | fuel + 1, s, name =>
    let lv := s.loaded name                                 -- L.GetField(loaded, name)
    if lv.truthy then                                       -- LVAsBool(lv)
      if lv = .sentinel then (s, .err (.loop name))         -- lv == loopdetection
      else (s, .ok lv)
    else
      match loaderLoop s name loaders [] with
      | .inr e => (s, .err e)
      | .inl modasfunc =>
        let s1 := s.setLoaded name .sentinel                -- L.SetField(loaded, name, loopdetection)
        match runLoader { require := loRequireL loaders fuel, module := loModule } s1 modasfunc name with
        | (s2, .err e) => (s2, .err e)                      -- L.Call raised: the sentinel stays
        | (s2, .ok ret) =>
          let modv := s2.loaded name                        -- modv := L.GetField(loaded, name)
          if ret ≠ .nil ∧ modv = .sentinel then (s2.setLoaded name ret, .ok ret)
          else if modv = .sentinel then (s2.setLoaded name (.bool true), .ok (.bool true))
          else (s2, .ok modv)

/-- loRequire in a state whose registry._LOADERS is as OpenPackage left it. -/
def loRequire : Nat → St → Name → St × Res := loRequireL loLoaders

/-- one top-level step / a history on the Model -/
def step (fuel : Nat) : St → Op → St × Option Res := stepWith (loRequire fuel) registerModule
def run (fuel : Nat) : St → List Op → St × List (Option Res) := runWith (loRequire fuel) registerModule

end GLua.Require.Model
