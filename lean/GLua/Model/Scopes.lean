/-
  Model of gopher-lua's debug-scope mechanism (C17, mechanism part) — a transcription, function by function, of

    /repo/compile.go   varNamePool.Register/List/LastIndex, codeStore.Add/LastPC, funcContext.RegisterLocalVar,
                       EnterBlock, CloseUpvalues, LeaveBlock, EndScope, SetRegTop, end of compileFunctionExpr
    /repo/function.go  LFunction.LocalName(regno, pc)
    /repo/state.go     findLocal, GetLocal, SetLocal, GetUpvalue, SetUpvalue, GetStack (tail-call arithmetic),
                       where, raiseError (level arithmetic incl. the `error level 2` fix of today)

  The model is parametrised by `Cfg`, which selects between the code as it is at /repo HEAD (`Cfg.orig`) and the
  code AFTER the two fixes proposed by this builder (`Cfg.fixed`: fixes/C17-local-scope-ranges.diff and
  fixes/C17-findlocal-nonpositive-index.diff).  The delivered theorems and the correspondence engine use
  `Cfg.fixed`; `Cfg.orig` (and the intermediate `Cfg.indexOnly`) exist only so that the negations of the property
  for the unrepaired code are machine-checked statements about a transcription of that code.

  Every Go operation that can panic is an explicit `.goPanic` branch.  Core Lean only.
-/
import GLua.Basic
import GLua.Generated.Consts

namespace GLua.Scopes
open GLua

/-- which version of the code is modelled. -/
structure Cfg where
  /-- EndScope indexes `Proto.DbgLocals` with the REGISTER numbers of the block's locals (HEAD) instead of the
      declaration indices remembered by the block (fixed). -/
  byRegister : Bool
  /-- EndScope stores `EndPc = LastPC() + endOff` (HEAD: 0, fixed: 1). -/
  endOff : Int
  /-- LocalName's loop guard is `StartPc <= pc` (fixed) instead of `StartPc < pc` (HEAD). -/
  startLe : Bool
  /-- findLocal returns "" for `no < 1` (fixed); HEAD has no such test. -/
  posOnly : Bool
deriving DecidableEq, Repr

def Cfg.fixed : Cfg := { byRegister := false, endOff := 1, startLe := true, posOnly := true }
def Cfg.orig : Cfg := { byRegister := true, endOff := 0, startLe := false, posOnly := false }
/-- HEAD with only the declaration-index repair (shows that the range arithmetic is a separate defect). -/
def Cfg.indexOnly : Cfg := { byRegister := false, endOff := 0, startLe := false, posOnly := false }

/-- function.go: DbgLocalInfo -/
structure DbgLocalInfo where
  name : String
  startPc : Int
  endPc : Int := 0
deriving DecidableEq, Repr, Inhabited

/-- compile.go: codeBlock (only the fields the scope mechanism reads): LocalVars = varNamePool{names, offset},
    RefUpvalue, and (fixed code) dbgLocals. The Parent pointer is the `parents` list of `FC`. -/
structure Block where
  offset : Nat
  names : List String := []
  refUpvalue : Bool := false
  dbg : List Nat := []
deriving DecidableEq, Repr, Inhabited

/-- compile.go: funcContext (Proto.DbgLocals, Block + Parent chain, Code.pc, regTop).  `fc.Block` is never nil
    in a state that has not panicked (LeaveBlock dereferences it right after assigning the parent). -/
structure FC where
  locals : List DbgLocalInfo := []
  block : Block := { offset := 0 }
  parents : List Block := []
  pc : Nat := 0
  regTop : Nat := 0
deriving DecidableEq, Repr, Inhabited

/-- codeStore.LastPC -/
def FC.lastPC (fc : FC) : Int := (fc.pc : Int) - 1

/-- codeStore.Add (no Pop in between: always appends) -/
def add (fc : FC) : FC := { fc with pc := fc.pc + 1 }

/-- funcContext.SetRegTop -/
def setRegTop (fc : FC) (top : Nat) : Except Err FC :=
  if top > Generated.maxRegisters then .error (.luaError "compile:too many local variables")
  else .ok { fc with regTop := top }

/-- funcContext.RegisterLocalVar: returns the register `len(names)-1+offset`. -/
def registerLocalVar (fc : FC) (name : String) : Except Err (FC × Nat) :=
  let ret := fc.block.names.length + fc.block.offset
  let blk := { fc.block with names := fc.block.names ++ [name], dbg := fc.block.dbg ++ [fc.locals.length] }
  let fc1 := { fc with block := blk, locals := fc.locals ++ [{ name := name, startPc := fc.lastPC + 1 }] }
  (setRegTop fc1 (fc.regTop + 1)).map (fun f => (f, ret))

/-- funcContext.EnterBlock: `newVarNamePool(fc.RegTop())`, parent = current block -/
def enterBlock (fc : FC) : FC :=
  { fc with block := { offset := fc.regTop }, parents := fc.block :: fc.parents }

/-- `fc.Proto.DbgLocals[i].EndPc = v` (Go index expression: panics when out of range) -/
def setEndPc : List DbgLocalInfo → Nat → Int → Except Err (List DbgLocalInfo)
  | [], _, _ => .error (.goPanic "EndScope: DbgLocals index out of range")
  | l :: r, 0, v => .ok ({ l with endPc := v } :: r)
  | l :: r, i + 1, v => (setEndPc r i v).map (l :: ·)

/-- the DbgLocals indices EndScope writes: HEAD uses `vr.Index = i + offset` of `LocalVars.List()`. -/
def endScopeIndices (cfg : Cfg) (b : Block) : List Nat :=
  if cfg.byRegister then (List.range b.names.length).map (· + b.offset) else b.dbg

/-- funcContext.EndScope -/
def endScope (cfg : Cfg) (fc : FC) : Except Err FC :=
  (endScopeIndices cfg fc.block).foldlM (fun (f : FC) i =>
      (setEndPc f.locals i (fc.lastPC + cfg.endOff)).map (fun ls => { f with locals := ls })) fc

/-- funcContext.LeaveBlock (CloseUpvalues; EndScope; no pending gotos; Block = Parent; SetRegTop(LastIndex)) -/
def leaveBlock (cfg : Cfg) (fc : FC) : Except Err FC := do
  -- CloseUpvalues: `fc.Block.Parent.LocalVars.LastIndex()` dereferences Parent
  let fc1 ← if fc.block.refUpvalue then
      (match fc.parents with
       | [] => .error (.goPanic "CloseUpvalues: nil Parent")
       | _ :: _ => .ok (add fc))
    else .ok fc
  let fc2 ← endScope cfg fc1
  match fc2.parents with
  | [] => .error (.goPanic "LeaveBlock: nil Block")     -- fc.Block = nil; fc.Block.LocalVars
  | p :: ps => setRegTop { fc2 with block := p, parents := ps } (p.offset + p.names.length)

/-- the compile-level operations a function body performs on the scope mechanism -/
inductive Op where
  | declare (name : String)   -- RegisterLocalVar
  | enter                      -- EnterBlock
  | leave                      -- LeaveBlock
  | markUp                     -- fc.Block.RefUpvalue = true (a closure captured a local of this block)
  | instr                      -- Code.Add
deriving DecidableEq, Repr, Inhabited

/-- trace of a simulated compilation: registers returned by RegisterLocalVar and the pc of every `instr`. -/
structure Trace where
  fc : FC := {}
  regs : List Nat := []
  ipcs : List Int := []
deriving DecidableEq, Repr, Inhabited

def stepOp (cfg : Cfg) (t : Trace) : Op → Except Err Trace
  | .declare n => (registerLocalVar t.fc n).map (fun (f, r) => { t with fc := f, regs := t.regs ++ [r] })
  | .enter => .ok { t with fc := enterBlock t.fc }
  | .leave => (leaveBlock cfg t.fc).map (fun f => { t with fc := f })
  | .markUp => .ok { t with fc := { t.fc with block := { t.fc.block with refUpvalue := true } } }
  | .instr => let f := add t.fc; .ok { t with fc := f, ipcs := t.ipcs ++ [f.lastPC] }

/-- the end of compileFunctionExpr: `Code.AddABC(OP_RETURN…)`, `EndScope()` -/
def finish (cfg : Cfg) (t : Trace) : Except Err Trace :=
  (endScope cfg (add t.fc)).map (fun f => { t with fc := f })

def compileOps (cfg : Cfg) (ops : List Op) : Except Err Trace :=
  (ops.foldlM (stepOp cfg) {}) >>= finish cfg

/-- the debug table a body produces (`Proto.DbgLocals`) -/
def dbgLocalsOf (cfg : Cfg) (ops : List Op) : Except Err (List DbgLocalInfo) :=
  (compileOps cfg ops).map (·.fc.locals)

/-! ### function.go: LocalName -/

/-- the loop of `LFunction.LocalName` over the remaining entries; `regno` is a Go int (may go negative). -/
def localNameAux (cfg : Cfg) : List DbgLocalInfo → Int → Int → Option String
  | [], _, _ => none
  | l :: r, regno, pc =>
    if (if cfg.startLe then l.startPc ≤ pc else l.startPc < pc) then
      if pc < l.endPc then
        if regno - 1 = 0 then some l.name else localNameAux cfg r (regno - 1) pc
      else localNameAux cfg r regno pc
    else none

/-- `fn.LocalName(regno, pc)` of a Lua function (`IsG` functions return "", false before the loop). -/
def localName (cfg : Cfg) (ls : List DbgLocalInfo) (regno pc : Int) : Option String :=
  localNameAux cfg ls regno pc

/-- enumeration `LocalName(1, pc), LocalName(2, pc), …` until the first miss (what a debug.getlocal sweep does);
    at most `ls.length` names can be found. -/
def enumAux (cfg : Cfg) (ls : List DbgLocalInfo) (pc : Int) : Nat → Nat → List String
  | 0, _ => []
  | fuel + 1, n => match localName cfg ls n pc with
    | none => []
    | some nm => nm :: enumAux cfg ls pc fuel (n + 1)

def enumLocals (cfg : Cfg) (ls : List DbgLocalInfo) (pc : Int) : List String :=
  enumAux cfg ls pc (ls.length + 1) 1

/-! ### state.go: findLocal, GetLocal, SetLocal -/

/-- the facts findLocal reads from a call frame and from the state -/
structure FrameView where
  isG : Bool
  pc : Int            -- frame.Pc
  localBase : Int
  isCurrent : Bool    -- ls.currentFrame == frame
  hasNext : Bool      -- frame.Idx+1 < ls.stack.Sp()
  nextBase : Int      -- ls.stack.At(frame.Idx+1).Base   (read only when hasNext)
  top : Int           -- ls.reg.Top()
deriving DecidableEq, Repr, Inhabited

/-- LState.findLocal -/
def findLocal (cfg : Cfg) (ls : List DbgLocalInfo) (fr : FrameView) (no : Int) : String :=
  if cfg.posOnly ∧ no < 1 then "" else
  match (if fr.isG then none else localName cfg ls no (fr.pc - 1)) with
  | some n => n
  | none =>
    if fr.isCurrent then (if fr.top - fr.localBase ≥ no then "(*temporary)" else "")
    else if fr.hasNext then (if fr.nextBase - fr.localBase ≥ no then "(*temporary)" else "")
    else ""

/-- sweep `findLocal(frame, 1), findLocal(frame, 2), …` until "" (bounded by the number of registers) -/
def sweepAux (cfg : Cfg) (ls : List DbgLocalInfo) (fr : FrameView) : Nat → Nat → List String
  | 0, _ => []
  | fuel + 1, n =>
    let nm := findLocal cfg ls fr n
    if nm = "" then [] else nm :: sweepAux cfg ls fr fuel (n + 1)

def sweep (cfg : Cfg) (ls : List DbgLocalInfo) (fr : FrameView) (bound : Nat) : List String :=
  sweepAux cfg ls fr bound 1

/-- the registry as findLocal's clients see it: `array` (its length is the capacity) and `top`. -/
structure Reg (V : Type) where
  array : List V
  top : Nat
deriving DecidableEq, Repr

/-- registry.Get: `rg.array[reg]` -/
def Reg.get {V} (r : Reg V) (i : Int) : Except Err V :=
  if i < 0 then .error (.goPanic "registry.Get: negative index") else
  match r.array[i.toNat]? with
  | some v => .ok v
  | none => .error (.goPanic "registry.Get: index out of range")

/-- registry.Set: grow when `regi+1 > cap`, store, raise `top` to `regi+1` when `regi >= top`.
    (`nil` is the filler of freshly grown capacity.) -/
def Reg.set {V} (r : Reg V) (nil : V) (i : Int) (v : V) : Except Err (Reg V) :=
  if i < 0 then .error (.goPanic "registry.Set: negative index") else
  let n := i.toNat
  let arr := if n + 1 > r.array.length then r.array ++ List.replicate (n + 1 - r.array.length) nil else r.array
  .ok { array := arr.set n v, top := if n ≥ r.top then n + 1 else r.top }

/-- LState.GetLocal -/
def getLocal {V} (cfg : Cfg) (ls : List DbgLocalInfo) (fr : FrameView) (r : Reg V) (nil : V) (no : Int) :
    Except Err (String × V) :=
  let name := findLocal cfg ls fr no
  if name.length > 0 then (r.get (fr.localBase + no - 1)).map (fun v => (name, v)) else .ok ("", nil)

/-- LState.SetLocal -/
def setLocal {V} (cfg : Cfg) (ls : List DbgLocalInfo) (fr : FrameView) (r : Reg V) (nil : V) (no : Int) (lv : V) :
    Except Err (String × Reg V) :=
  let name := findLocal cfg ls fr no
  if name.length > 0 then (r.set nil (fr.localBase + no - 1) lv).map (fun r' => (name, r')) else .ok ("", r)

/-! ### state.go: GetUpvalue / SetUpvalue (closure = DbgUpvalues names + one cell per upvalue) -/

structure Closure (V : Type) where
  isG : Bool
  names : List String      -- Proto.DbgUpvalues
  cells : List V           -- fn.Upvalues[i].Value()
deriving Repr

/-- LState.GetUpvalue: `no--; if 0 <= no < len(fn.Upvalues) { DbgUpvalues[no], Upvalues[no].Value() }` -/
def getUpvalue {V} (c : Closure V) (nil : V) (no : Int) : Except Err (String × V) :=
  if c.isG then .ok ("", nil) else
  let k := no - 1
  if 0 ≤ k ∧ k < c.cells.length then
    match c.names[k.toNat]?, c.cells[k.toNat]? with
    | some n, some v => .ok (n, v)
    | none, _ => .error (.goPanic "GetUpvalue: DbgUpvalues index out of range")
    | _, none => .error (.goPanic "GetUpvalue: Upvalues index out of range")
  else .ok ("", nil)

/-- LState.SetUpvalue -/
def setUpvalue {V} (c : Closure V) (no : Int) (lv : V) : Except Err (String × Closure V) :=
  if c.isG then .ok ("", c) else
  let k := no - 1
  if 0 ≤ k ∧ k < c.cells.length then
    match c.names[k.toNat]? with
    | some n => .ok (n, { c with cells := c.cells.set k.toNat lv })
    | none => .error (.goPanic "SetUpvalue: DbgUpvalues index out of range")
  else .ok ("", c)

/-! ### state.go: GetStack, where, raiseError -/

/-- one call frame as GetStack/where read it.  `line = none` ⇔ `DbgSourcePositions[Pc-1]` would be out of range. -/
structure Frame where
  isG : Bool
  tailCall : Nat := 0
  line : Option Nat := none
deriving DecidableEq, Repr, Inhabited

/-- result of GetStack: a frame of the Parent chain (0 = currentFrame), `ls.stack.At(0)`, or `ok = false`. -/
inductive StackRes where
  | frame (i : Nat)
  | bottom
  | none
deriving DecidableEq, Repr, Inhabited

/-- the `for ; level > 0 && frame != nil; frame = frame.Parent` loop: remaining level and the frame reached. -/
def getStackLoop : List Frame → Nat → Int → Int × Option Nat
  | [], _, level => (level, none)
  | f :: r, i, level =>
    if level > 0 then getStackLoop r (i + 1) (level - 1 - (if f.isG then 0 else (f.tailCall : Int)))
    else (level, some i)

/-- LState.GetStack(level); `fs` = Parent chain from currentFrame, `sp` = ls.stack.Sp() -/
def getStack (fs : List Frame) (sp : Nat) (level : Int) : StackRes :=
  match getStackLoop fs 0 level with
  | (lv, some i) => if lv = 0 then .frame i else if lv < 0 ∧ sp > 0 then .bottom else .none
  | (lv, none) => if lv < 0 ∧ sp > 0 then .bottom else .none

/-- what `where` prints -/
inductive WhereRes where
  | pos (line : Nat)     -- "source:line:"
  | g                    -- "[G]:"
  | empty                -- ""
deriving DecidableEq, Repr, Inhabited

/-- the frame a StackRes denotes; `ls.stack.At(0)` is the last frame of the Parent chain of that state. -/
def frameOf (fs : List Frame) : StackRes → Option Frame
  | .frame i => fs[i]?
  | .bottom => fs.getLast?
  | .none => none

/-- number of levels GetStack can resolve: a bound for the recursion of `where` -/
def totalLevels (fs : List Frame) : Nat := (fs.map (fun f => 1 + f.tailCall)).sum

/-- LState.where(level, skipg); the recursion `where(level+1, skipg)` over host frames is bounded by `fuel`. -/
def whereAux (fs : List Frame) (sp : Nat) (skipg : Bool) : Nat → Int → Except Err WhereRes
  | 0, _ => .error (.goPanic "where: recursion bound of the model exceeded")
  | fuel + 1, level =>
    match frameOf fs (getStack fs sp level) with
    | none => .ok .empty
    | some cf =>
      if !cf.isG then
        match cf.line with
        | some l => .ok (.pos l)
        | none => .error (.goPanic "where: DbgSourcePositions index out of range")
      else if skipg then whereAux fs sp skipg fuel (level + 1)
      else .ok .g

def whereM (fs : List Frame) (sp : Nat) (level : Int) (skipg : Bool) : Except Err WhereRes :=
  whereAux fs sp skipg (totalLevels fs + 2 + (-level).toNat) level

/-- the position part of raiseError(level, …): none when `level <= 0` (no position is added). -/
def raiseWhere (fs : List Frame) (sp : Nat) (level : Int) : Except Err (Option WhereRes) :=
  if level > 0 then
    let lv := level - 1
    let lv := match fs with
      | f :: _ => if f.isG then lv + 1 else lv
      | [] => lv
    (whereM fs sp lv true).map some
  else .ok none

end GLua.Scopes
