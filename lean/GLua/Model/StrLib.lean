/-
  Model for C15 — transcription of /repo/stringlib.go (strSub, strByte, strFind (plain path and the shared
  prologue), strChar, strRep, strReverse, strLen, strUpper, strLower, strFormat's argument counting) and of the
  argument/arity logic of /repo/mathlib.go (mathMax, mathMin, mathFmod, mathMod, mathRandom), function by
  function, same case splits, same arithmetic.  `luaIndex2StringIndex`, `intMin`, `intMax` are NOT written here:
  they are regenerated from the source on every run (GLua/Generated/StrIndex.lean).

  The code modelled is the tree WITH the proposed fixes fixes/C15-*.diff applied (BUILDER.md: "the Model describes
  the code as it will be").  Every Go operation that can panic (slice expression, index expression,
  strings.Repeat overflow, rand.Intn with n <= 0) is an explicit `.goPanic` branch.

  Go `int` is modelled as `Int` in the string functions (positions are far from 2^63: stated assumption) and as
  wrapped 64-bit arithmetic in `mathRandom`, where the overflow corner is part of the property.
  Also here: Go's `fmt` integer rendering (`fmtInteger`, transcribed from $GOROOT/src/fmt/format.go, go1.23) as it
  is reached through `LNumber.Format` → `defaultFormat`, so that the places where Go's rendering differs from
  C's are reproduced by the Model (known findings C15-format-*).
-/
import GLua.Basic
import GLua.Generated.StrIndex
import GLua.Spec.StrLib
import GLua.Spec.MathIEEE

namespace GLua.StrModel
open GLua GLua.Generated

abbrev Bytes := List Nat
abbrev R := Except Err

/-- Go slice expression `s[a:b]` (panics unless 0 ≤ a ≤ b ≤ len). -/
def goSlice {α} (s : List α) (a b : Int) (site : String) : R (List α) :=
  if 0 ≤ a ∧ a ≤ b ∧ b ≤ (s.length : Int) then .ok ((s.drop a.toNat).take (b - a).toNat)
  else .error (.goPanic site)

/-- Go index expression `s[i]` (panics unless 0 ≤ i < len). -/
def goIndex {α} (s : List α) (i : Int) (site : String) : R α :=
  if 0 ≤ i then
    match s[i.toNat]? with
    | some x => .ok x
    | none => .error (.goPanic site)
  else .error (.goPanic site)

/-- strSub: `start >= l || end < start` gives "", else `str[start:end]`. -/
def strSub {α} (s : List α) (i : Int) (j : Option Int) : R (List α) :=
  let start := luaIndex2StringIndex s.length i true
  let end_ := luaIndex2StringIndex s.length (j.getD (-1)) false
  let l : Int := s.length
  if start ≥ l ∨ end_ < start then .ok []
  else goSlice s start end_ "strSub str[start:end]"

/-- the loop `for i := posi - 1; i < pose; i++ { L.Push(LNumber(str[i])) }`, `n` iterations left. -/
def strByteLoop {α} (s : List α) : Nat → Int → List α → R (List α)
  | 0, _, acc => .ok acc
  | n + 1, i, acc => do
    let x ← goIndex s i "strByte str[i]"
    strByteLoop s n (i + 1) (acc ++ [x])

/-- strByte (after fixes/C15-byte-range.diff). -/
def strByte {α} (s : List α) (a2 a3 : Option Int) : R (List α) :=
  let l : Int := s.length
  let posi := a2.getD 1
  let posi := if posi < 0 then intMax (l + posi + 1) 0 else posi
  let pose := a3.getD posi
  let pose := if pose < 0 then intMax (l + pose + 1) 0 else pose
  let posi := intMax posi 1
  let pose := intMin pose l
  if posi > pose then .ok []
  else strByteLoop s (pose - (posi - 1)).toNat (posi - 1) []

/-- strChar (after fixes/C15-char-range.diff): each argument is range-checked, then narrowed to a byte. -/
def strChar : List Int → R Bytes
  | [] => .ok []
  | c :: r =>
    if c < 0 ∨ c > 255 then .error (.luaError "invalid value")
    else (strChar r).map (fun t => (c % 256).toNat :: t)

/-- the UNFIXED strChar of the pinned tree: `uint8(L.CheckInt(i))` wraps silently (not used by the engine). -/
def strCharPinned (cs : List Int) : Bytes := cs.map fun c => (c % 256).toNat

def strLen {α} (s : List α) : Nat := s.length

def maxInt : Int := 9223372036854775807

/-- Go `strings.Repeat` (go1.23): panics on a negative count and when `len(s) * count` overflows `int`. -/
def stringsRepeat {α} (s : List α) (count : Int) : R (List α) :=
  if count = 0 then .ok []
  else if count = 1 then .ok s
  else if count < 0 then .error (.goPanic "strings: negative Repeat count")
  else if (s.length : Int) > maxInt / count then .error (.goPanic "strings: Repeat output length overflow")
  else if s.length = 0 then .ok []
  else .ok (Nat.rec [] (fun _ acc => acc ++ s) count.toNat)

/-- strRep: a negative count gives "", else strings.Repeat. -/
def strRep {α} (s : List α) (n : Int) : R (List α) :=
  if n < 0 then .ok [] else stringsRepeat s n

/-- the loop `for i, j := 0, len(bts)-1; j >= 0; i, j = i+1, j-1 { out[i] = bts[j] }`:
    since `i = len-1-j` throughout and `i` runs upwards from 0, `out` is filled in order. -/
def strReverseLoop {α} (bts : List α) : Nat → List α → R (List α)
  | 0, out => .ok out
  | j + 1, out => do
    let x ← goIndex bts j "strReverse bts[j]"
    strReverseLoop bts j (out ++ [x])

def strReverse {α} (s : List α) : R (List α) := strReverseLoop s s.length []

/-- strUpper / strLower (after fixes/C15-upper-lower-bytes.diff): byte loops over the ASCII letters. -/
def strUpper : Bytes → Bytes
  | [] => []
  | c :: r => (if 97 ≤ c ∧ c ≤ 122 then c - (97 - 65) else c) :: strUpper r
def strLower : Bytes → Bytes
  | [] => []
  | c :: r => (if 65 ≤ c ∧ c ≤ 90 then c + (97 - 65) else c) :: strLower r

/-- Go `strings.Index` as the naive scan (first i with `s[i:i+len(pat)] == pat`, else -1); `n` positions left. -/
def stringsIndexAux {α} [BEq α] (pat : List α) : Nat → Int → List α → Int
  | 0, _, _ => -1
  | n + 1, i, s => if pat.isPrefixOf s then i else stringsIndexAux pat n (i + 1) s.tail

def stringsIndex {α} [BEq α] (s pat : List α) : Int := stringsIndexAux pat (s.length + 1) 0 s

/-- strFind, prologue and plain path (after fixes/C15-find-init.diff):
    init is clamped to len; the empty pattern matches at init; `str[init:]` is a Go slice expression. -/
def strFindPlain {α} [BEq α] (s pat : List α) (init : Option Int) : R (Option (Int × Int)) :=
  let l : Int := s.length
  let init := intMin (luaIndex2StringIndex s.length (init.getD 1) true) l
  if pat.length = 0 then .ok (some (init + 1, init))
  else do
    let tail ← goSlice s init l "strFind str[init:]"
    let pos := stringsIndex tail pat
    if pos < 0 then .ok none
    else .ok (some (init + pos + 1, init + pos + pat.length))

/-- the UNFIXED prologue of the pinned tree (kept only to state what the fix changes; not used by the engine):
    empty pattern answers (1, 0) whatever init is; init is not clamped, so `str[init:]` can panic. -/
def strFindPlainPinned {α} [BEq α] (s pat : List α) (init : Option Int) : R (Option (Int × Int)) :=
  if pat.length = 0 then .ok (some (1, 0))
  else
    let l : Int := s.length
    let init := luaIndex2StringIndex s.length (init.getD 1) true
    do
      let tail ← goSlice s init l "strFind str[init:]"
      let pos := stringsIndex tail pat
      if pos < 0 then .ok none
      else .ok (some (init + pos + 1, init + pos + pat.length))

/-- the UNFIXED strByte of the pinned tree (kept only to state what the fix changes; not used by the engine);
    `top` is `L.GetTop()`. -/
def strBytePinned {α} (s : List α) (top : Nat) (a2 a3 : Option Int) : R (List α) :=
  let l : Int := s.length
  let start := a2.getD 1 - 1
  let end_ := a3.getD (-1)
  let start := if start < 0 then l + start + 1 else start
  let end_ := if end_ < 0 then l + end_ + 1 else end_
  if top = 2 then
    if start < 0 ∨ start ≥ l then .ok [] else (goIndex s start "strByte str[start]").map ([·])
  else
    let start := intMax start 0
    let end_ := intMin end_ l
    if end_ < 0 ∨ end_ ≤ start ∨ start ≥ l then .ok []
    else strByteLoop s (end_ - start).toNat start []

/-! ### strFormat: how many arguments are handed to fmt.Sprintf -/

def countByte (b : Nat) (s : Bytes) : Nat := (s.filter (· = b)).length

/-- Go `strings.Count(s, "%%")`: non-overlapping occurrences, scanning left to right. -/
def countPctPct : Bytes → Nat
  | 37 :: 37 :: r => countPctPct r + 1
  | _ :: r => countPctPct r
  | [] => 0

/-- npat (after fixes/C15-format-argcount.diff): `Count(str,"%") - 2*Count(str,"%%")`;
    more directives than arguments is an argument error, extra arguments are dropped. -/
def strFormatNpat (fmt : Bytes) : Int := (countByte 37 fmt : Int) - 2 * (countPctPct fmt : Int)

def strFormatArgs {α} (fmt : Bytes) (args : List α) : R (List α) :=
  let npat := strFormatNpat fmt
  if npat > (args.length : Int) then .error (.luaError "no value")
  else .ok (args.take (intMin npat args.length).toNat)

/-! ### LNumber.Format verb table (value.go, after fixes/C15-format-c-x.diff): which Go value and verb reach fmt -/

inductive GoArg where
  | int64 (verb : Nat)      -- defaultFormat(int64(nm), f, verb)
  | uint64 (verb : Nat)     -- defaultFormat(uint64(int64(nm)), f, verb)
  | float64 (verb : Nat)    -- defaultFormat(float64(nm), f, verb)
  | byteStr                 -- formatBytes(string([]byte{byte(int64(nm))}), f, false)
  | tostring (verb : Nat)   -- defaultFormat(nm.String(), f, verb)
  | other
deriving DecidableEq, Repr

def lnumberFormat (c : Nat) : GoArg :=
  if c = 113 ∨ c = 115 then .tostring c                         -- 'q', 's'
  else if c = 98 ∨ c = 100 ∨ c = 85 then .int64 c               -- 'b', 'd', 'U'
  else if c = 111 ∨ c = 120 ∨ c = 88 then .uint64 c             -- 'o', 'x', 'X'
  else if c = 99 then .byteStr                                  -- 'c'
  else if c = 101 ∨ c = 69 ∨ c = 102 ∨ c = 70 ∨ c = 103 ∨ c = 71 then .float64 c   -- e E f F g G
  else if c = 105 then .int64 100                               -- 'i' → 'd'
  else .other

/-! ### Go fmt.fmtInteger (go1.23 src/fmt/format.go), for the verbs d (signed) and o x X (unsigned) -/

open GLua.StrSpec in
/-- `u` is the magnitude (Go negates a negative signed value first); `negative` only for signed. -/
def goFmtInteger (d : Directive) (signed : Bool) (v : Int) : Bytes :=
  let negative := signed ∧ v < 0
  let u : Nat := if signed then v.natAbs else toUnsigned64 v
  let base := if d.verb = 111 then 8 else if d.verb = 100 ∨ d.verb = 105 then 10 else 16
  let padTo (b : Bytes) : Bytes :=                    -- f.pad with f.zero switched off
    match d.width with
    | none => b
    | some w => if d.minus then b ++ spaces (w - b.length) else spaces (w - b.length) ++ b
  -- precision 0 and value 0: "print nothing but padding"
  if d.prec = some 0 ∧ u = 0 then spaces (d.width.getD 0)
  else
    let prec : Nat := match d.prec with
      | some p => p
      | none =>
        if d.zero ∧ !d.minus ∧ d.width.isSome then
          (d.width.getD 0) - (if negative ∨ d.plus ∨ d.space then 1 else 0)
        else 0
    let digits := toDigits base (d.verb = 88) u
    let digits := zeros (prec - digits.length) ++ digits
    let digits : Bytes :=
      if d.sharp then
        if base = 8 then (if digits.head? ≠ some 48 then 48 :: digits else digits)
        else if base = 16 then 48 :: (if d.verb = 88 then 88 else 120) :: digits
        else digits
      else digits
    let digits : Bytes := if negative then 45 :: digits else if d.plus then 43 :: digits
                          else if d.space then 32 :: digits else digits
    padTo digits

open GLua.StrSpec in
/-- Go fmt.fmtFloat on ±Inf / NaN: "+Inf" keeps its sign always, "NaN" only with + or space; blanks only. -/
def goFmtInfNan (d : Directive) (neg nan : Bool) : Bytes :=
  let sign : Nat := if neg ∧ !nan then 45 else if d.space ∧ !d.plus then 32 else 43
  let body : Bytes := if nan then [78, 97, 78] else [73, 110, 102]
  let num : Bytes := if nan ∧ !d.space ∧ !d.plus then body else sign :: body
  match d.width with
  | none => num
  | some w => if d.minus then num ++ spaces (w - num.length) else spaces (w - num.length) ++ num

/-! ### mathlib.go wrappers -/

/-- mathMax: `max := arg 1; for i := 2..top { if v > max { max = v } }` over a NaN-free order. -/
def mathMaxLoop (max : Int) : List Int → Int
  | [] => max
  | v :: r => mathMaxLoop (if v > max then v else max) r
def mathMax : List Int → R Int
  | [] => .error (.luaError "wrong number of arguments")
  | x :: r => .ok (mathMaxLoop x r)

def mathMinLoop (min : Int) : List Int → Int
  | [] => min
  | v :: r => mathMinLoop (if v < min then v else min) r
def mathMin : List Int → R Int
  | [] => .error (.luaError "wrong number of arguments")
  | x :: r => .ok (mathMinLoop x r)

/-- trusted law of Go's `math.Mod` on integral arguments with y ≠ 0: the truncated remainder (sign of x). -/
def goMod (x y : Int) : Int := Int.tmod x y

/-- `math.Mod` gives its result — also a zero — the sign of x: a zero remainder of a negative dividend is −0
    (x is an exact integer here, never −0).  `luaModulo` keeps it: neither `v < 0` nor `v > 0` holds for −0. -/
def goModNegZero (x y : Int) : Bool := x < 0 ∧ goMod x y = 0

/-- mathFmod is `math.Mod(x, y)`, arguments in this order. -/
def mathFmod (x y : Int) : Int := goMod x y

/-- mathMod → luaModulo: `math.Mod`, then moved to the sign of the divisor. -/
def mathMod (lhs rhs : Int) : Int :=
  let v := goMod lhs rhs
  if (rhs > 0 ∧ v < 0) ∨ (rhs < 0 ∧ v > 0) then v + rhs else v

/-- 64-bit two's complement wrap-around of Go `int` arithmetic. -/
def wrap64 (x : Int) : Int := (x + 9223372036854775808) % 18446744073709551616 - 9223372036854775808

/-- what `math.random(m, n)` pushes: `LNumber(int)` on the ordinary path, a float64 (bit pattern) on the wide path -/
inductive RandOut where
  | int (i : Int)
  | num (bits : Nat)
deriving Repr, DecidableEq

/-- the wide path of mathRandom (after fixes/C15-random-interval-overflow.diff), Lua 5.1's own formula:
    `math.Floor(r.Float64()*(float64(max)-float64(min)+1)) + float64(min)`; `rf` = `r.Float64()`.
    The float64 operators are the IEEE operations of GLua/Spec/MathIEEE.lean. -/
def mathRandom2Wide (rf : Nat) (m n : Int) : Nat :=
  IEEE.add (IEEE.floor (IEEE.mul rf (IEEE.add (IEEE.sub (IEEE.ofInt n) (IEEE.ofInt m)) (IEEE.oneBits false))))
    (IEEE.ofInt m)

/-- mathRandom, two arguments (after fixes/C15-random-empty-interval.diff and C15-random-interval-overflow.diff):
    `min, max := CheckInt(1), CheckInt(2); if min > max { ArgError }; if n := max - min + 1; n > 0 { Intn(n) + min }
    else { the float64 formula }`.  `intn` is `rand.Intn` (trusted: `0 ≤ intn k < k` for `k > 0`), `rf` is
    `rand.Float64()` (trusted: a float64 in [0, 1)). -/
def mathRandom2 (intn : Int → Int) (rf : Nat) (m n : Int) : R RandOut :=
  if m > n then .error (.luaError "interval is empty")
  else if wrap64 (wrap64 (n - m) + 1) > 0 then .ok (.int (wrap64 (intn (wrap64 (wrap64 (n - m) + 1)) + m)))
  else .ok (.num (mathRandom2Wide rf m n))

/-- is the pushed number an integer of [m, n] -/
def RandOut.inRange (m n : Int) : RandOut → Bool
  | .int i => m ≤ i ∧ i ≤ n
  | .num b =>
    match IEEE.toIntTrunc b with
    | some v => IEEE.floor b = b ∧ m ≤ v ∧ v ≤ n
    | none => false

/-- the two-argument path BEFORE fixes/C15-random-interval-overflow.diff (`max := CheckInt(2) + 1;
    if max-min <= 0 { ArgError }; Intn(max-min) + min`): `max - min` overflows for a span ≥ 2^63 — kept to state
    what was wrong (Props.C15.random_before_fix_fails). -/
def mathRandom2Old (intn : Int → Int) (m n : Int) : R Int :=
  let min := m
  let max := wrap64 (n + 1)
  let k := wrap64 (max - min)
  if k ≤ 0 then .error (.luaError "interval is empty")
  else .ok (wrap64 (intn k + min))

/-! ### integer arguments given as strings -/

/-- `LState.CheckInt(n)` / `OptInt(n, d)` on an `LString` argument, after
    fixes/C15-int-arg-no-string-coercion.diff: `int(ls.CheckNumber(n))`, where `CheckNumber` converts a string
    through `parseNumber` (Lua §2.2.1).  `some i`: the numeral denotes the integer i; `none`: not a numeral —
    `ls.TypeError(n, LTNumber)`.
    MODELLED for decimal numerals `[ws][±]digits[.digits][e[±]digits][ws]` with an INTEGRAL value (`strtod` of
    GLua/Spec/MathIEEE.lean, then Go's `int(float64)`) and for strings that are a numeral in no reading; the
    harness sends nothing else (hexadecimal numerals and the rest of `parseNumber` are C16's subject, a
    non-integral or out-of-int64 value is platform-defined in C Lua as well). -/
def checkIntStr (b : Bytes) : Option Int :=
  match IEEE.strtod b with
  | some bits =>
    match IEEE.decode bits with
    | .fin _ m e => if IEEE.isIntDy m e then IEEE.toIntTrunc bits else none
    | _ => none
  | none => none

/-- the same BEFORE the fix: `CheckInt` / `OptInt` accepted an `LNumber` only, every string was a type error —
    kept to state what was wrong (Props.C15.int_arg_before_fix_fails) -/
def checkIntStrOld (_b : Bytes) : Option Int := none

/-- mathRandom, one argument. -/
def mathRandom1 (intn : Int → Int) (n : Int) : R Int :=
  if n < 1 then .error (.luaError "interval is empty")
  else .ok (wrap64 (intn n + 1))

/-- the UNFIXED two-argument path of the pinned tree: `rand.Intn(max-min)` panics for a non-positive argument. -/
def mathRandom2Pinned (intn : Int → Int) (m n : Int) : R Int :=
  let max := wrap64 (n + 1)
  let k := wrap64 (max - m)
  if k ≤ 0 then .error (.goPanic "invalid argument to Intn")
  else .ok (wrap64 (intn k + m))

end GLua.StrModel
