/-
  Model of /repo/table.go (`LTable`): the four-structure table
    array   : positive integer keys below MaxArrayIndex (LNil holes are `none`)
    strdict : string keys          (Go map  → association list, insertion order)
    dict    : every other key      (Go map  → association list, insertion order)
    keys / k2i : traversal order bookkeeping that survives deletion
  Every function below is a transcription of the Go function of the same name;
  Go's `nil` slice/map vs. empty is tracked only where the code tests it (`alloc`).
  A Go slice index that can be out of range is an explicit `.goPanic`.
-/
import GLua.Basic
import GLua.Generated.Consts

namespace GLua.Table
open GLua

/-- `utils.go: isArrayKey` on a canonical key: an integral number `0 < v < MaxArrayIndex`. -/
def arrIdx (mai : Nat) : Val → Option Nat
  | .int i => if 0 < i ∧ i < (mai : Int) then some i.toNat else none
  | _ => none

def isStr : Val → Bool
  | .str _ => true
  | _ => false

abbrev AL := List (Val × Val)

def alGet (l : AL) (k : Val) : OVal :=
  match l with
  | [] => none
  | (k', v) :: r => if k' = k then some v else alGet r k

def alSet (l : AL) (k v : Val) : AL :=
  match l with
  | [] => [(k, v)]
  | (k', v') :: r => if k' = k then (k, v) :: r else (k', v') :: alSet r k v

def alDel (l : AL) (k : Val) : AL :=
  match l with
  | [] => []
  | (k', v') :: r => if k' = k then alDel r k else (k', v') :: alDel r k

def k2iGet (l : List (Val × Nat)) (k : Val) : Option Nat :=
  match l with
  | [] => none
  | (k', v) :: r => if k' = k then some v else k2iGet r k

structure Tbl where
  mai     : Nat := Generated.MaxArrayIndex   -- config.go: MaxArrayIndex (an exported tunable)
  alloc   : Bool := false          -- tb.array != nil
  array   : List OVal := []
  strdict : AL := []
  dict    : AL := []
  keys    : List Val := []
  k2i     : List (Val × Nat) := []
deriving Repr, Inhabited

def empty : Tbl := {}

/-- the shared array-part store of `RawSet` / `RawSetInt` (`index = key-1`). -/
def setArr (t : Tbl) (key : Nat) (v : OVal) : Tbl :=
  let index := key - 1
  let alen := t.array.length
  if index = alen then { t with alloc := true, array := t.array ++ [v] }
  else if index > alen then
    { t with alloc := true, array := t.array ++ List.replicate (index - alen) none ++ [v] }
  else { t with alloc := true, array := t.array.set index v }

def noteKey (t : Tbl) (k : Val) : Tbl :=
  match k2iGet t.k2i k with
  | some _ => t
  | none => { t with k2i := t.k2i ++ [(k, t.keys.length)], keys := t.keys ++ [k] }

def rawSetString (t : Tbl) (k : Val) (v : OVal) : Tbl :=
  match v with
  | none => { t with strdict := alDel t.strdict k }
  | some x => noteKey { t with strdict := alSet t.strdict k x } k

def rawSetH (t : Tbl) (k : Val) (v : OVal) : Tbl :=
  if isStr k then rawSetString t k v
  else match v with
    | none => { t with dict := alDel t.dict k }
    | some x => noteKey { t with dict := alSet t.dict k x } k

def rawSet (t : Tbl) (k : Val) (v : OVal) : Tbl :=
  match arrIdx t.mai k with
  | some n => setArr t n v
  | none => if isStr k then rawSetString t k v else rawSetH t k v

def rawSetInt (t : Tbl) (key : Int) (v : OVal) : Tbl :=
  if key < 1 ∨ key ≥ (t.mai : Int) then rawSetH t (.int key) v
  else setArr t key.toNat v

def rawGetH (t : Tbl) (k : Val) : OVal :=
  if isStr k then alGet t.strdict k else alGet t.dict k

def rawGetString (t : Tbl) (k : Val) : OVal := alGet t.strdict k

def rawGet (t : Tbl) (k : Val) : OVal :=
  match arrIdx t.mai k with
  | some n => (t.array[n - 1]?).join
  | none => if isStr k then alGet t.strdict k else alGet t.dict k

def rawGetInt (t : Tbl) (key : Int) : OVal :=
  if key < 1 ∨ key ≥ (t.mai : Int) then rawGetH t (.int key)
  else
    let index := key - 1
    if index ≥ t.array.length ∨ index < 0 then none else (t.array[index.toNat]?).join

/-- position (1-based) of the last non-nil entry; 0 if none.  This is both `Len` and `MaxN`
    (`Len`'s `prev == LNil` test is vacuous while scanning from the end). -/
def lastNonNil : List OVal → Nat
  | [] => 0
  | x :: r =>
    let n := lastNonNil r
    if n > 0 then n + 1 else if x.isSome then 1 else 0

def len (t : Tbl) : Nat := lastNonNil t.array
def maxN (t : Tbl) : Nat := lastNonNil t.array

def append (t : Tbl) (v : OVal) : Tbl :=
  match v with
  | none => t
  | some _ =>
    match t.array.getLast? with
    | none => { t with alloc := true, array := t.array ++ [v] }           -- len == 0
    | some (some _) => { t with alloc := true, array := t.array ++ [v] }  -- last != LNil
    | some none =>
      -- scan down from len-2 to the last non-nil among the first len-1 entries
      let i1 := lastNonNil t.array.dropLast      -- = i+1 of the Go loop
      { t with alloc := true, array := t.array.set i1 v }

def insert (t : Tbl) (i : Int) (v : OVal) : Tbl :=
  let t := { t with alloc := true }
  if i > t.array.length then rawSetInt t i v
  else if i ≤ 0 then rawSet t (.int i) v
  else { t with array := t.array.insertIdx (i.toNat - 1) v }

def remove (t : Tbl) (pos : Int) : Tbl × OVal :=
  let larray := t.array.length
  if larray = 0 then (t, none)
  else
    let i := pos - 1
    if i ≥ larray then (t, none)
    else if i = larray - 1 ∨ i < 0 then
      ({ t with array := t.array.dropLast }, (t.array.getLast?).join)
    else
      ({ t with array := t.array.eraseIdx i.toNat }, (t.array[i.toNat]?).join)

/-- first non-nil array entry at 0-based position ≥ `from`; returns (1-based key, value). -/
def scanArr (a : List OVal) (start : Nat) : Option (Nat × Val) :=
  match a with
  | [] => none
  | x :: r =>
    match start with
    | 0 => match x with
      | some v => some (1, v)
      | none => (scanArr r 0).map (fun p => (p.1 + 1, p.2))
    | s + 1 => (scanArr r s).map (fun p => (p.1 + 1, p.2))

/-- the final `for i := tb.k2i[key] + 1; i < len(tb.keys); i++` loop, as a scan of `keys.drop`. -/
def scanKeys (t : Tbl) : List Val → Option (Val × Val)
  | [] => none
  | k :: r => match rawGetH t k with
    | some v => some (k, v)
    | none => scanKeys t r

def hashFrom (t : Tbl) (key : Val) : Option (Val × Val) :=
  scanKeys t (t.keys.drop ((k2iGet t.k2i key).getD 0 + 1))

/-- `Next`.  `key = none` is LNil. -/
def next (t : Tbl) (key0 : OVal) : Except Err (Option (Val × Val)) :=
  let init := key0.isNone
  let key : Val := key0.getD (.int 0)
  let arrCase : Option Int :=
    if init ∨ key ≠ .int 0 then
      match key with
      | .int i => if 0 ≤ i ∧ i < (t.mai : Int) then some i else none
      | _ => none
    else none
  match arrCase with
  | some i =>
    let index := i.toNat
    match scanArr t.array index with
    | some (k, v) => .ok (some (.int k, v))
    | none =>
      -- after the loop `index` is max(index, len)
      if !t.alloc ∨ index ≤ t.array.length then
        if t.dict.isEmpty ∧ t.strdict.isEmpty then .ok none
        else match t.keys with
          | [] => .error (.goPanic "Next: tb.keys[0]")
          | k0 :: _ =>
            match rawGetH t k0 with
            | some v => .ok (some (k0, v))
            | none => .ok (hashFrom t k0)
      else .ok (hashFrom t key)
  | none => .ok (hashFrom t key)

/-- `ForEach`: array part in order, then strdict, then dict (map order is unspecified in Go;
    the driver sorts the hash part before comparing). -/
def forEach (t : Tbl) : List (Val × Val) :=
  let rec arr (a : List OVal) (i : Nat) : List (Val × Val) :=
    match a with
    | [] => []
    | none :: r => arr r (i + 1)
    | some v :: r => (.int (i + 1), v) :: arr r (i + 1)
  arr t.array 0 ++ t.strdict ++ t.dict

/-- `LState.RawSet` / `setField` validation: a store under nil or NaN is a Lua error.
    (`nan = true` marks a NaN key; canonical `Val`s never contain NaN.) -/
def luaSet (t : Tbl) (k : OVal) (nan : Bool) (v : OVal) : Except Err Tbl :=
  if nan then .error (.luaError "table index is NaN")
  else match k with
    | none => .error (.luaError "table index is nil")
    | some k => .ok (rawSet t k v)

end GLua.Table
