/-
  Model of /repo/table.go (`LTable`): the four-structure table
    array   : positive integer keys below MaxArrayIndex (LNil holes are `none`)
    strdict : string keys          (Go map  → association list, insertion order)
    dict    : every other key      (Go map  → association list, insertion order)
    keys / k2i : traversal order bookkeeping that survives deletion
  Every function below is a transcription of the Go function of the same name;
  Go's `nil` slice/map vs. empty is tracked only where the code tests it (`alloc`).
  A Go slice index that can be out of range is an explicit `.goPanic`.
-/
import GLua.Basic
import GLua.Generated.Consts

namespace GLua.Table
open GLua

/-- `utils.go: isArrayKey` on a canonical key: an integral number `0 < v < MaxArrayIndex`. -/
def arrIdx (mai : Nat) : Val → Option Nat
  | .int i => if 0 < i ∧ i < (mai : Int) then some i.toNat else none
  | _ => none

def isStr : Val → Bool
  | .str _ => true
  | _ => false

abbrev AL := List (Val × Val)

def alGet (l : AL) (k : Val) : OVal :=
  match l with
  | [] => none
  | (k', v) :: r => if k' = k then some v else alGet r k

def alSet (l : AL) (k v : Val) : AL :=
  match l with
  | [] => [(k, v)]
  | (k', v') :: r => if k' = k then (k, v) :: r else (k', v') :: alSet r k v

def alDel (l : AL) (k : Val) : AL :=
  match l with
  | [] => []
  | (k', v') :: r => if k' = k then alDel r k else (k', v') :: alDel r k

def k2iGet (l : List (Val × Nat)) (k : Val) : Option Nat :=
  match l with
  | [] => none
  | (k', v) :: r => if k' = k then some v else k2iGet r k

structure Tbl where
  mai     : Nat := Generated.MaxArrayIndex   -- config.go: MaxArrayIndex (an exported tunable)
  alloc   : Bool := false          -- tb.array != nil
  array   : List OVal := []
  strdict : AL := []
  dict    : AL := []
  keys    : List Val := []
  k2i     : List (Val × Nat) := []
deriving Repr, Inhabited

def empty : Tbl := {}

/-- the shared array-part store of `RawSet` / `RawSetInt` (`index = key-1`). -/
def setArr (t : Tbl) (key : Nat) (v : OVal) : Tbl :=
  let index := key - 1
  let alen := t.array.length
  if index = alen then { t with alloc := true, array := t.array ++ [v] }
  else if index > alen then
    { t with alloc := true, array := t.array ++ List.replicate (index - alen) none ++ [v] }
  else { t with alloc := true, array := t.array.set index v }

def noteKey (t : Tbl) (k : Val) : Tbl :=
  match k2iGet t.k2i k with
  | some _ => t
  | none => { t with k2i := t.k2i ++ [(k, t.keys.length)], keys := t.keys ++ [k] }

def rawSetString (t : Tbl) (k : Val) (v : OVal) : Tbl :=
  match v with
  | none => { t with strdict := alDel t.strdict k }
  | some x => noteKey { t with strdict := alSet t.strdict k x } k

def rawSetH (t : Tbl) (k : Val) (v : OVal) : Tbl :=
  if isStr k then rawSetString t k v
  else match v with
    | none => { t with dict := alDel t.dict k }
    | some x => noteKey { t with dict := alSet t.dict k x } k

def rawSet (t : Tbl) (k : Val) (v : OVal) : Tbl :=
  match arrIdx t.mai k with
  | some n => setArr t n v
  | none => if isStr k then rawSetString t k v else rawSetH t k v

def rawSetInt (t : Tbl) (key : Int) (v : OVal) : Tbl :=
  if key < 1 ∨ key ≥ (t.mai : Int) then rawSetH t (.int key) v
  else setArr t key.toNat v

def rawGetH (t : Tbl) (k : Val) : OVal :=
  if isStr k then alGet t.strdict k else alGet t.dict k

def rawGetString (t : Tbl) (k : Val) : OVal := alGet t.strdict k

def rawGet (t : Tbl) (k : Val) : OVal :=
  match arrIdx t.mai k with
  | some n => (t.array[n - 1]?).join
  | none => if isStr k then alGet t.strdict k else alGet t.dict k

def rawGetInt (t : Tbl) (key : Int) : OVal :=
  if key < 1 ∨ key ≥ (t.mai : Int) then rawGetH t (.int key)
  else
    let index := key - 1
    if index ≥ t.array.length ∨ index < 0 then none else (t.array[index.toNat]?).join

/-- position (1-based) of the last non-nil entry; 0 if none.  This is both `Len` and `MaxN`
    (`Len`'s `prev == LNil` test is vacuous while scanning from the end). -/
def lastNonNil : List OVal → Nat
  | [] => 0
  | x :: r =>
    let n := lastNonNil r
    if n > 0 then n + 1 else if x.isSome then 1 else 0

def len (t : Tbl) : Nat := lastNonNil t.array
def maxN (t : Tbl) : Nat := lastNonNil t.array

def append (t : Tbl) (v : OVal) : Tbl :=
  match v with
  | none => t
  | some _ =>
    match t.array.getLast? with
    | none => { t with alloc := true, array := t.array ++ [v] }           -- len == 0
    | some (some _) => { t with alloc := true, array := t.array ++ [v] }  -- last != LNil
    | some none =>
      -- scan down from len-2 to the last non-nil among the first len-1 entries
      let i1 := lastNonNil t.array.dropLast      -- = i+1 of the Go loop
      { t with alloc := true, array := t.array.set i1 v }

def insert (t : Tbl) (i : Int) (v : OVal) : Tbl :=
  let t := { t with alloc := true }
  if i > t.array.length then rawSetInt t i v
  else if i ≤ 0 then rawSet t (.int i) v
  else { t with array := t.array.insertIdx (i.toNat - 1) v }

def remove (t : Tbl) (pos : Int) : Tbl × OVal :=
  let larray := t.array.length
  if larray = 0 then (t, none)
  else
    let i := pos - 1
    if i ≥ larray then (t, none)
    else if i = larray - 1 ∨ i < 0 then
      ({ t with array := t.array.dropLast }, (t.array.getLast?).join)
    else
      ({ t with array := t.array.eraseIdx i.toNat }, (t.array[i.toNat]?).join)

/-- first non-nil array entry at 0-based position ≥ `from`; returns (1-based key, value). -/
def scanArr (a : List OVal) (start : Nat) : Option (Nat × Val) :=
  match a with
  | [] => none
  | x :: r =>
    match start with
    | 0 => match x with
      | some v => some (1, v)
      | none => (scanArr r 0).map (fun p => (p.1 + 1, p.2))
    | s + 1 => (scanArr r s).map (fun p => (p.1 + 1, p.2))

/-- the final `for i := tb.k2i[key] + 1; i < len(tb.keys); i++` loop, as a scan of `keys.drop`. -/
def scanKeys (t : Tbl) : List Val → Option (Val × Val)
  | [] => none
  | k :: r => match rawGetH t k with
    | some v => some (k, v)
    | none => scanKeys t r

def hashFrom (t : Tbl) (key : Val) : Option (Val × Val) :=
  scanKeys t (t.keys.drop ((k2iGet t.k2i key).getD 0 + 1))

/-- `Next`.  `key = none` is LNil. -/
def next (t : Tbl) (key0 : OVal) : Except Err (Option (Val × Val)) :=
  let init := key0.isNone
  let key : Val := key0.getD (.int 0)
  let arrCase : Option Int :=
    if init ∨ key ≠ .int 0 then
      match key with
      | .int i => if 0 ≤ i ∧ i < (t.mai : Int) then some i else none
      | _ => none
    else none
  match arrCase with
  | some i =>
    let index := i.toNat
    match scanArr t.array index with
    | some (k, v) => .ok (some (.int k, v))
    | none =>
      -- after the loop `index` is max(index, len)
      if !t.alloc ∨ index ≤ t.array.length then
        if t.dict.isEmpty ∧ t.strdict.isEmpty then .ok none
        else match t.keys with
          | [] => .error (.goPanic "Next: tb.keys[0]")
          | k0 :: _ =>
            match rawGetH t k0 with
            | some v => .ok (some (k0, v))
            | none => .ok (hashFrom t k0)
      else .ok (hashFrom t key)
  | none => .ok (hashFrom t key)

/-- `Next` **after the proposed repair** `fixes/C09-next-after-array-shrink.diff` (`index >= len(tb.array)` instead of
    `index == len(tb.array)`; after the scan loop `index >= len(tb.array)` always holds, so the block that starts the
    hash part is entered whenever the array scan is exhausted).  Not what the unchanged tree does — see the finding
    `C09-next-after-array-shrink`; `Proofs/TableChainFixed.lean` proves that this version is complete also when
    `Remove` shrinks the array part during the traversal. -/
def nextFixed (t : Tbl) (key0 : OVal) : Except Err (Option (Val × Val)) :=
  let init := key0.isNone
  let key : Val := key0.getD (.int 0)
  let arrCase : Option Int :=
    if init ∨ key ≠ .int 0 then
      match key with
      | .int i => if 0 ≤ i ∧ i < (t.mai : Int) then some i else none
      | _ => none
    else none
  match arrCase with
  | some i =>
    match scanArr t.array i.toNat with
    | some (k, v) => .ok (some (.int k, v))
    | none =>
      if t.dict.isEmpty ∧ t.strdict.isEmpty then .ok none
      else match t.keys with
        | [] => .error (.goPanic "Next: tb.keys[0]")
        | k0 :: _ =>
          match rawGetH t k0 with
          | some v => .ok (some (k0, v))
          | none => .ok (hashFrom t k0)
  | none => .ok (hashFrom t key)

/-- `ForEach`: array part in order, then strdict, then dict (map order is unspecified in Go;
    the driver sorts the hash part before comparing). -/
def forEach (t : Tbl) : List (Val × Val) :=
  let rec arr (a : List OVal) (i : Nat) : List (Val × Val) :=
    match a with
    | [] => []
    | none :: r => arr r (i + 1)
    | some v :: r => (.int (i + 1), v) :: arr r (i + 1)
  arr t.array 0 ++ t.strdict ++ t.dict

/-- `baselib.go: ipairsaux` — one step of `ipairs`: `i++; v := tb.RawGetInt(i)`; nothing when `v == LNil`,
    else the pair `(i, v)`. -/
def ipairsAux (t : Tbl) (i : Int) : Option (Int × Val) :=
  match rawGetInt t (i + 1) with
  | none => none
  | some v => some (i + 1, v)

/-- the generic `for` over `ipairs(t)`: iterate `ipairsaux` from the control value 0 (fuel = bound on the number of
    calls; `none` = fuel exhausted). -/
def ipairsRun (t : Tbl) : Nat → Int → Option (List (Int × Val))
  | 0, _ => none
  | f + 1, i =>
    match ipairsAux t i with
    | none => some []
    | some (j, v) => (ipairsRun t f j).map ((j, v) :: ·)

/-! ### `ForEach` with a callback that stores into the table

  `for i, v := range tb.array` evaluates the slice header once and reads each element when it reaches it;
  `for k, v := range m` over a Go map: an entry removed before it is reached is not produced, an entry is produced
  with the value it has when it is reached, no entry is produced twice, every entry that is never removed is
  produced; the order is unspecified (language spec, "For statements with range clause").  So the iteration is a
  nondeterministic process; `feStep` says whether delivering `(k, v)` next is admissible on the table as it is now
  (= after the stores of the previous callback), `feEnd` whether the iteration may end now.  Only callbacks that
  clear or overwrite *existing* fields are in scope (an insertion into a map during `range` may or may not be produced). -/

structure FEState where
  phase : Nat := 0          -- 0 = array part, 1 = strdict, 2 = dict
  idx   : Nat := 0          -- array slots already passed
  alen  : Nat := 0          -- len(tb.array) when ForEach was entered
  seen  : List Val := []    -- keys delivered so far
  seenH : List Val := []    -- … those delivered out of one of the two maps (a Go map yields an entry at most once; the
                            -- array loop and a map can both hold the same integer only in the state of the finding
                            -- C09-array-past-maxarrayindex, and then both deliver it)
deriving Repr, Inhabited

def feBegin (t : Tbl) : FEState := { alen := t.array.length }

/-- all array slots `i ≤ · < j` are nil now. -/
def arrNilBetween (t : Tbl) (i j : Nat) : Bool :=
  (List.range (j - i)).all (fun d => ((t.array[i + d]?).join).isNone)

/-- every key that is live in the map now has been delivered. -/
def alAllSeen (l : AL) (seen : List Val) : Bool := l.all (fun p => seen.contains p.1)

/-- is `(k, v)` the next delivery of the array loop?  (decided by position, as the Go loop does, not by `isArrayKey`:
    the next non-nil slot after the ones passed, read now) -/
def feArrNext (t : Tbl) (s : FEState) (k v : Val) : Option Nat :=
  match k with
  | .int z =>
    if s.phase = 0 ∧ (s.idx : Int) < z ∧ z ≤ (s.alen : Int) ∧ arrNilBetween t s.idx (z.toNat - 1) = true ∧
        (t.array[z.toNat - 1]?).join = some v then some z.toNat else none
  | _ => none

def feStep (t : Tbl) (s : FEState) (k v : Val) : Option FEState :=
  match feArrNext t s k v with
  | some j => some { s with idx := j, seen := s.seen ++ [k] }
  | none =>
    if !arrNilBetween t s.idx s.alen then none           -- a live array slot has not been delivered
    else if isStr k then
      if s.phase ≤ 1 ∧ alGet t.strdict k = some v ∧ !s.seenH.contains k then
        some { s with phase := 1, idx := s.alen, seen := s.seen ++ [k], seenH := s.seenH ++ [k] }
      else none
    else
      if (s.phase = 2 ∨ alAllSeen t.strdict s.seenH) ∧ alGet t.dict k = some v ∧ !s.seenH.contains k then
        some { s with phase := 2, idx := s.alen, seen := s.seen ++ [k], seenH := s.seenH ++ [k] }
      else none

def feEnd (t : Tbl) (s : FEState) : Bool :=
  arrNilBetween t s.idx s.alen && (s.phase = 2 || alAllSeen t.strdict s.seenH) && alAllSeen t.dict s.seenH

/-- `LState.RawSet` / `setField` validation: a store under nil or NaN is a Lua error.
    (`nan = true` marks a NaN key; canonical `Val`s never contain NaN.) -/
def luaSet (t : Tbl) (k : OVal) (nan : Bool) (v : OVal) : Except Err Tbl :=
  if nan then .error (.luaError "table index is NaN")
  else match k with
    | none => .error (.luaError "table index is nil")
    | some k => .ok (rawSet t k v)

/-! ### number keys: from the float64 bit pattern to the key

  `LNumber` is a float64.  The Go maps `dict`/`k2i` compare `LNumber` keys with float64 `==` (so `+0` and `-0` are
  one key and NaN is never found again); the array path is taken for `isArrayKey(v)` with index `int(v)`.
  On the wire and in this Model a number key is *canonical*: `.int z` for a finite integral value `z`
  (whatever its spelling or sign of zero), `.flt bits` otherwise (non-integral or ±Inf); NaN is no key.
  `numKey` is that canonicalisation, as a function of the IEEE-754 bit pattern (exact integer arithmetic). -/

def f64neg (bits : Nat) : Bool := bits / 2 ^ 63 % 2 == 1
def f64exp (bits : Nat) : Nat := bits / 2 ^ 52 % 2048
def f64frac (bits : Nat) : Nat := bits % 2 ^ 52
/-- significand and shift: the value is `± f64mant · 2^(f64sh − 1075)` (subnormals: shift 1, no hidden bit). -/
def f64mant (bits : Nat) : Nat := if f64exp bits = 0 then f64frac bits else f64frac bits + 2 ^ 52
def f64sh (bits : Nat) : Nat := if f64exp bits = 0 then 1 else f64exp bits

def isNaNBits (bits : Nat) : Bool := f64exp bits == 2047 && f64frac bits != 0

def signed (neg : Bool) (a : Nat) : Int := if neg then -(a : Int) else (a : Int)

/-- `± m · 2^(s − (c+1))`, if that is an integer. -/
def scaledInt? (neg : Bool) (m s c : Nat) : Option Int :=
  if c + 1 ≤ s then some (signed neg (m * 2 ^ (s - (c + 1))))
  else if m % 2 ^ (c + 1 - s) = 0 then some (signed neg (m / 2 ^ (c + 1 - s)))
  else none

/-- `± m · 2^(s − (c+1))` truncated toward zero. -/
def scaledTrunc (neg : Bool) (m s c : Nat) : Int :=
  if c + 1 ≤ s then signed neg (m * 2 ^ (s - (c + 1))) else signed neg (m / 2 ^ (c + 1 - s))

/-- the value, if it is finite and integral (value = `± f64mant · 2^(f64sh − 1075)`). -/
def f64int? (bits : Nat) : Option Int :=
  if f64exp bits = 2047 then none else scaledInt? (f64neg bits) (f64mant bits) (f64sh bits) 1074

/-- the canonical key of a number; `none` for NaN. -/
def numKey (bits : Nat) : Option Val :=
  if isNaNBits bits then none
  else match f64int? bits with
    | some z => some (.int z)
    | none => some (.flt bits)

/-- truncation toward zero of a finite value. -/
def f64trunc (bits : Nat) : Int := scaledTrunc (f64neg bits) (f64mant bits) (f64sh bits) 1074

/-- Go's `int64(v)` on amd64 (CVTTSD2SQ): truncation; NaN, ±Inf and out-of-range values give `-2^63`. -/
def goInt64 (bits : Nat) : Int :=
  if f64exp bits = 2047 then -(2 ^ 63)
  else if -(2 ^ 63 : Int) ≤ f64trunc bits ∧ f64trunc bits < 2 ^ 63 then f64trunc bits else -(2 ^ 63)

/-- `utils.go: isInteger(v)` = `float64(v) == float64(int64(v))`.  `float64(int64(v))` is exact here: `int64(v)` is
    the value of `v` itself, or a truncation of magnitude `< 2^52`, or `-2^63`; so the comparison holds exactly when the
    value of `v` *is* the integer `int64(v)`. -/
def goIsInteger (bits : Nat) : Bool := f64int? bits == some (goInt64 bits)

/-- `utils.go: isArrayKey(v)` = `isInteger(v) && v < LNumber(MaxInt) && v > 0 && v < LNumber(MaxArrayIndex)`
    (`LNumber(MaxInt)` is `2^63`; the comparisons are between integral values, hence exact). -/
def goIsArrayKey (mai : Nat) (bits : Nat) : Bool :=
  goIsInteger bits && decide (goInt64 bits < 2 ^ 63) && decide (0 < goInt64 bits) && decide (goInt64 bits < (mai : Int))

/-- the Lua-level store `t[k] = v` with a number key given by its bit pattern (`LState.RawSet` / `setField`). -/
def luaSetNum (t : Tbl) (bits : Nat) (v : OVal) : Except Err Tbl :=
  match numKey bits with
  | none => .error (.luaError "table index is NaN")
  | some k => .ok (rawSet t k v)

end GLua.Table
