/-
  Model of the list functions of /repo/tablelib.go (`tableInsert`, `tableRemove`, `tableConcat`, `tableGetN`,
  `tableMaxN`, `tableSort`) and of `baseUnpack` (/repo/baselib.go), on top of the table model
  `GLua/Model/Table.lean` (= /repo/table.go: `Append`, `Insert`, `Remove`, `Len`, `MaxN`, `RawGetInt`).

  A call `f(t, a2, …, ak)` is modelled on the table `t` (CheckTable(1) passed) and the list
  `args = [a2, …, ak]` of the remaining arguments, so `L.GetTop() = args.length + 1` and `L.Get(n)` beyond the
  top is nil — the same tests the Go code makes.

  The model describes the code WITH the proposed repairs fixes/C18-*.diff applied:
    * `tableRemove` default position is `tbl.Len()`            (was `tbl.Remove(-1)`: the raw last array slot)
    * `tableSort` sorts `tbl.array[:tbl.Len()]`                (was the whole raw array incl. trailing nils)
    * `tableConcat` tests `i > j` before clamping, and always returns a string
  The behaviour of the unrepaired functions is kept beside them (`…Old`) for the machine-checked negations.

  `sort.Sort` is not modelled: it is an arbitrary *adaptive strategy* issuing `Less`/`Swap` calls with indices
  below `Len()` (trusted contract of Go's sort package); `lValueArraySorter.Less/Swap` are modelled.
-/
import GLua.Model.Table

namespace GLua.TableLib
open GLua GLua.Table

/-! ### argument access (auxlib.go) -/

/-- `L.Get(n)` for `n ≥ 2`: nil beyond the top. -/
def getArg (args : List OVal) (n : Nat) : OVal := (args[n - 2]?).join

/-- Go `int(float64)` of a non-integral/infinite double given by its bits (amd64: out of range → minInt64). -/
def fltTrunc (bits : Nat) : Int :=
  let sign : Nat := bits / 2^63
  let ex : Nat := bits / 2^52 % 2^11
  let fr : Nat := bits % 2^52
  if ex = 2047 then -(2^63 : Int)
  else
    let m : Nat := if ex = 0 then fr else fr + 2^52
    let sh : Int := (if ex = 0 then 1 else (ex : Int)) - 1075
    let mag : Nat := if sh ≥ 0 then m * 2 ^ sh.toNat else m / 2 ^ (-sh).toNat
    if mag ≥ 2^63 then -(2^63 : Int) else if sign = 1 then -(mag : Int) else mag

/-- Go `int(LNumber)`. -/
def toGoInt : Val → Option Int
  | .int i => some (if -(2^63 : Int) ≤ i ∧ i < 2^63 then i else -(2^63 : Int))
  | .flt b => some (fltTrunc b)
  | _ => none

/-- `L.CheckInt(n)`. -/
def checkInt (args : List OVal) (n : Nat) : Except Err Int :=
  match (getArg args n).bind toGoInt with
  | some i => .ok i
  | none => .error (.luaError s!"bad argument #{n} (number expected)")

/-- `L.OptInt(n, d)`. -/
def optInt (args : List OVal) (n : Nat) (d : Int) : Except Err Int :=
  match getArg args n with
  | none => .ok d
  | some v => match toGoInt v with
    | some i => .ok i
    | none => .error (.luaError s!"bad argument #{n} (number expected)")

/-- `L.OptString(n, d)` (strings are hex on the wire and in the model). -/
def optString (args : List OVal) (n : Nat) (d : String) : Except Err String :=
  match getArg args n with
  | none => .ok d
  | some (.str h) => .ok h
  | some _ => .error (.luaError s!"bad argument #{n} (string expected)")

/-! ### tableInsert / tableRemove / tableGetN / tableMaxN -/

def tableInsert (t : Tbl) (args : List OVal) : Except Err Tbl :=
  match args with
  | [] => .error (.luaError "wrong number of arguments")
  | [v] => .ok (append t v)
  | _ :: v :: _ => do
    let i ← checkInt args 2
    .ok (insert t i v)

def tableRemove (t : Tbl) (args : List OVal) : Except Err (Tbl × OVal) :=
  match args with
  | [] => .ok (remove t (len t))          -- repaired: tbl.Remove(tbl.Len())
  | _ :: _ => do
    let i ← checkInt args 2
    .ok (remove t i)

/-- the unrepaired default: `tbl.Remove(-1)` removes the raw last array slot. -/
def tableRemoveOld (t : Tbl) (args : List OVal) : Except Err (Tbl × OVal) :=
  match args with
  | [] => .ok (remove t (-1))
  | _ :: _ => do
    let i ← checkInt args 2
    .ok (remove t i)

def tableGetN (t : Tbl) : Nat := len t
def tableMaxN (t : Tbl) : Nat := maxN t

/-! ### tableConcat -/

def hexDigit (n : Nat) : Char := if n < 10 then Char.ofNat (48 + n) else Char.ofNat (87 + n)
def hexOfAscii (s : String) : String :=
  String.ofList (s.toList.flatMap (fun c => [hexDigit (c.toNat / 16 % 16), hexDigit (c.toNat % 16)]))

/-- `LVCanConvToString` + `LVAsString`: strings and numbers (`LNumber.String()` of an integral number is the
    decimal of its int64; non-integral numbers print through `fmt` — C16's subject, not modelled here). -/
def asString : OVal → Option String
  | some (.str h) => some h
  | some (.int i) => some (hexOfAscii (toString i))
  | _ => none

def typeName : OVal → String
  | none => "nil"
  | some (.int _) => "number"
  | some (.flt _) => "number"
  | some (.str _) => "string"
  | some (.bool _) => "boolean"
  | some (.ref _) => "table"

/-- the loop `for ; i <= j; i++ { v := tbl.RawGetInt(i); if !LVCanConvToString(v) { RaiseError }; Push(v); … }`
    over `cnt` indices starting at `i`; returns the pieces. -/
def concatLoop (t : Tbl) (i : Int) : Nat → Except Err (List String)
  | 0 => .ok []
  | cnt + 1 =>
    match asString (rawGetInt t i) with
    | none => .error (.luaError s!"invalid value ({typeName (rawGetInt t i)}) at index {i} in table for concat")
    | some s => (concatLoop t (i + 1) cnt).map (s :: ·)

def intMin (a b : Int) : Int := if a < b then a else b
def intMax (a b : Int) : Int := if a > b then a else b

/-- the body of `tableConcat` after its three `Opt…` argument reads (`top = L.GetTop()`); `fixed = false` gives
    the unrepaired function (no early `i > j` test; a one-element range returns the element itself, which may
    be a number). -/
def concatCore (fixed : Bool) (t : Tbl) (top : Nat) (sep : String) (i j : Int) : Except Err Val :=
  if fixed ∧ i > j then .ok (.str "")
  else if top = 3 ∧ (i > (len t : Int) ∨ i < 1) then .ok (.str "")
  else
    let i' := intMax (intMin i (len t)) 1
    let j' := intMin (intMin j (len t)) (len t)
    if i' > j' then .ok (.str "")
    else
      match concatLoop t i' (j' - i' + 1).toNat with
      | .error e => .error e
      | .ok pieces =>
        match fixed, pieces, rawGetInt t i' with
        | false, [_], some (.int n) => .ok (.int n)     -- stringConcat(L, 1, top-1) returns the value itself
        | _, _, _ => .ok (.str (sep.intercalate pieces))

def tableConcatG (fixed : Bool) (t : Tbl) (args : List OVal) : Except Err Val := do
  let sep ← optString args 2 ""
  let i ← optInt args 3 1
  let j ← optInt args 4 (len t)
  concatCore fixed t (args.length + 1) sep i j

def tableConcat := tableConcatG true
def tableConcatOld := tableConcatG false

/-! ### baseUnpack -/

def unpackLoop (t : Tbl) (i : Int) : Nat → List OVal
  | 0 => []
  | cnt + 1 => rawGetInt t i :: unpackLoop t (i + 1) cnt

/-- `baseUnpack`: pushes `RawGetInt(start..end)`; returns `end-start+1` values (0 if negative).  The registry
    limit (a catchable "registry overflow" for thousands of values) is C12's subject and not modelled. -/
def unpackCore (t : Tbl) (start stop : Int) : List OVal := unpackLoop t start (stop - start + 1).toNat

def baseUnpack (t : Tbl) (args : List OVal) : Except Err (List OVal) := do
  let start ← optInt args 2 1
  let stop ← optInt args 3 (len t)
  .ok (unpackCore t start stop)

/-! ### tableSort -/

/-- the comparator as the sorter sees it: either a Lua error/Go panic, or a boolean. -/
abbrev Cmp := OVal → OVal → Except Err Bool

/-- `lessThan` (vm.go) on the values of this model (no metatables): numbers by value, strings by `strCmp`
    (bytewise = order of the lower-case hex spelling), anything else "attempt to compare".
    Non-integral numbers are outside the model (the harness sorts exact integers and strings). -/
def lessThan : Cmp
  | some (.int a), some (.int b) => .ok (decide (a < b))
  | some (.str a), some (.str b) => .ok (decide (a < b))
  | a, b => .error (.luaError s!"attempt to compare {typeName a} with {typeName b}")

/-- `LVAsBool`: everything except nil and false is true. -/
def asBool : OVal → Bool
  | none => false
  | some (.bool false) => false
  | _ => true

/-- `lValueArraySorter.Less` with `Fn != nil`: call the Lua function, convert its first result. -/
def fnCmp (f : OVal → OVal → Except Err OVal) : Cmp := fun a b => (f a b).map asBool

/-- what `sort.Sort` may do: a finite adaptive tree of `Less`/`Swap` calls (every branch ends: the trusted
    contract "terminates for any Less"). -/
inductive Strategy where
  | done
  | less (i j : Nat) (k : Bool → Strategy)
  | swap (i j : Nat) (k : Strategy)

/-- indices below `n` (= `Len()`): the other half of the trusted contract. -/
def Strategy.InRange (n : Nat) : Strategy → Prop
  | .done => True
  | .less i j k => i < n ∧ j < n ∧ ∀ b, (k b).InRange n
  | .swap i j k => i < n ∧ j < n ∧ k.InRange n

structure SortRun where
  arr : List OVal                    -- the slice as left behind
  calls : List (OVal × OVal) := []   -- arguments handed to the comparator, in order
  snaps : List (List OVal) := []     -- the slice at the time of each comparator call
  err : Option Err := none           -- the Lua error / Go panic that ended the sort, if any
deriving Inhabited

/-- run a strategy through `lValueArraySorter.Less/Swap` on the slice `a`. -/
def runSort (lt : Cmp) : Strategy → List OVal → SortRun
  | .done, a => { arr := a }
  | .less i j k, a =>
    match a[i]?, a[j]? with
    | some x, some y =>
      match lt x y with
      | .ok b => let r := runSort lt (k b) a; { r with calls := (x, y) :: r.calls, snaps := a :: r.snaps }
      | .error e => { arr := a, calls := [(x, y)], snaps := [a], err := some e }
    | _, _ => { arr := a, err := some (.goPanic "lValueArraySorter.Less: index out of range") }
  | .swap i j k, a =>
    match a[i]?, a[j]? with
    | some x, some y => runSort lt k ((a.set i y).set j x)
    | _, _ => { arr := a, err := some (.goPanic "lValueArraySorter.Swap: index out of range") }

/-- the second argument of `table.sort`. -/
inductive CmpArg where
  | absent                                            -- GetTop() == 1
  | notFunction                                       -- CheckFunction(2) raises (includes an explicit nil)
  | fn (f : OVal → OVal → Except Err OVal)            -- a Lua function (its behaviour as a pure oracle)

/-- the slice handed to `sort.Sort`: repaired `tbl.array[:tbl.Len()]`, unrepaired `tbl.array`. -/
def sortRange (fixed : Bool) (t : Tbl) : List OVal := if fixed then t.array.take (len t) else t.array

/-- `tableSort`: sorts the slice in place (the slice shares the table's array). -/
def tableSortG (fixed : Bool) (t : Tbl) (c : CmpArg) (s : Strategy) : Tbl × SortRun :=
  let lt : Except Err Cmp := match c with
    | .absent => .ok lessThan
    | .notFunction => .error (.luaError "bad argument #2 (function expected)")
    | .fn f => .ok (fnCmp f)
  match lt with
  | .error e => (t, { arr := sortRange fixed t, err := some e })
  | .ok lt =>
    let r := runSort lt s (sortRange fixed t)
    ({ t with array := r.arr ++ t.array.drop r.arr.length }, r)

def tableSort := tableSortG true
def tableSortOld := tableSortG false

end GLua.TableLib
