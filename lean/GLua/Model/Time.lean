/-
  C16 Model — oslib.go osDate / osTime / getIntField and utils.go strftime / flagScanner, with the table
  `cDateFlagToGo` regenerated from the source (GLua/Generated/DateFlags.lean).

  Go's `time` package is trusted (DESIGN §4.5): its calendar is a *parameter* `Cal` of the model (`civil` =
  time.Unix(t,0).In(zone) broken down, `unix` = time.Date(...).Unix()), with the assumed law
  `unix (civil t) = t` in a zone without transitions.  The engine instantiates `Cal` with the Spec's calendar, so
  that the correspondence check also compares Go's calendar with the reference on every sampled timestamp.
  `goFormat` models time.Time.Format for the layout elements that occur in gopher-lua's table (nextStdChunk of
  go1.23 src/time/format.go); any other recognised element yields `none` ("unmodelled"), never a guess.
  Core Lean only.
-/
import GLua.Spec.Time
import GLua.Generated.DateFlags

namespace GLua.TimeModel
open GLua.NumSpec (Bytes)
open GLua.TimeSpec (Fields str)

/-- the trusted calendar of Go's time package in the process's zone. -/
structure Cal where
  civil : Int → Fields
  unix : (year month day hour min sec : Int) → Int

/-- osDate with "*t": the table's fields (isdst is always false). -/
def osDateTable (cal : Cal) (t : Int) : Fields :=
  let c := cal.civil t
  { year := c.year, month := c.month, day := c.day, hour := c.hour, min := c.min, sec := c.sec,
    wday := c.wday,   -- LNumber(t.Weekday()+1); `civil` already counts Sunday = 1
    yday := c.yday }

/-- osTime on a table whose fields are numbers (getIntField: `int(lv)`), with the defaults of the code. -/
def osTime (cal : Cal) (year month day hour min sec : Option Int) : Int :=
  cal.unix (year.getD (-1)) (month.getD (-1)) (day.getD (-1)) (hour.getD 12) (min.getD 0) (sec.getD 0)

def osTimeOfFields (cal : Cal) (f : Fields) : Int :=
  osTime cal (some f.year) (some f.month) (some f.day) (some f.hour) (some f.min) (some f.sec)

/-! ### time.Format -/

/-- time.appendInt(b, x, width) for x ≥ 0. -/
def appendInt (x : Nat) (width : Nat) : Bytes :=
  let ds := NumSpec.natDigits (x + 1) x
  List.replicate (width - ds.length) 48 ++ ds

def isLowerCase (c : Nat) : Bool := 97 ≤ c && c ≤ 122
def startsWithLowerCase : Bytes → Bool
  | c :: _ => isLowerCase c
  | [] => false

/-- layout elements, as bytes -/
def lJanuary : Bytes := [74, 97, 110, 117, 97, 114, 121]   -- "January"
def lJan : Bytes := [74, 97, 110]   -- "Jan"
def lMonday : Bytes := [77, 111, 110, 100, 97, 121]   -- "Monday"
def lMon : Bytes := [77, 111, 110]   -- "Mon"
def lMST : Bytes := [77, 83, 84]   -- "MST"
def l2006 : Bytes := [50, 48, 48, 54]   -- "2006"
def lU2006 : Bytes := [95, 50, 48, 48, 54]   -- "_2006"
def lU2 : Bytes := [95, 50]   -- "_2"
def lUU2 : Bytes := [95, 95, 50]   -- "__2"
def lM070000 : Bytes := [45, 48, 55, 48, 48, 48, 48]   -- "-070000"
def lM07C00 : Bytes := [45, 48, 55, 58, 48, 48]   -- "-07:00"
def lM0700 : Bytes := [45, 48, 55, 48, 48]   -- "-0700"
def lM07 : Bytes := [45, 48, 55]   -- "-07"
def lZ07 : Bytes := [90, 48, 55]   -- "Z07"

def hasPrefix (p : Bytes) (s : Bytes) : Bool := p.isPrefixOf s
def dropStr (p : Bytes) (s : Bytes) : Bytes := s.drop p.length

def shortNames (l : List Bytes) (i : Int) : Bytes := (l.getD i.toNat [63]).take 3
def longNames (l : List Bytes) (i : Int) : Bytes := l.getD i.toNat [63]

/-- one step of Format: the bytes produced for the element at the head and the rest of the layout. -/
def formatStep (f : Fields) (l : Bytes) : Option (Bytes × Bytes) :=
  match l with
  | [] => none
  | c :: r =>
    let lit : Option (Bytes × Bytes) := some ([c], r)
    if c = 74 then        -- 'J'
      if hasPrefix lJanuary l then some (longNames TimeSpec.monthNames (f.month - 1), dropStr lJanuary l)
      else if hasPrefix lJan l ∧ !startsWithLowerCase (dropStr lJan l) then
        some (shortNames TimeSpec.monthNames (f.month - 1), dropStr lJan l)
      else lit
    else if c = 77 then   -- 'M'
      if hasPrefix lMonday l then some (longNames TimeSpec.weekdayNames (f.wday - 1), dropStr lMonday l)
      else if hasPrefix lMon l ∧ !startsWithLowerCase (dropStr lMon l) then
        some (shortNames TimeSpec.weekdayNames (f.wday - 1), dropStr lMon l)
      else if hasPrefix lMST l then some (TimeSpec.sUTC, dropStr lMST l)
      else lit
    else if c = 48 then   -- '0'
      match r with
      | 49 :: t => some (appendInt f.month.toNat 2, t)
      | 50 :: t => some (appendInt f.day.toNat 2, t)
      | 51 :: t => some (appendInt (TimeSpec.hour12 f.hour).toNat 2, t)
      | 52 :: t => some (appendInt f.min.toNat 2, t)
      | 53 :: t => some (appendInt f.sec.toNat 2, t)
      | 54 :: t => some (appendInt (f.year.natAbs % 100) 2, t)
      | 48 :: 50 :: t => some (appendInt f.yday.toNat 3, t)
      | _ => lit
    else if c = 49 then   -- '1'
      match r with
      | 53 :: t => some (appendInt f.hour.toNat 2, t)
      | _ => some (appendInt f.month.toNat 0, r)
    else if c = 50 then   -- '2'
      if hasPrefix l2006 l then
        (if f.year < 0 then none else some (appendInt f.year.toNat 4, dropStr l2006 l))
      else some (appendInt f.day.toNat 0, r)
    else if c = 95 then   -- '_'
      if hasPrefix lU2006 l then (if f.year < 0 then none else some (95 :: appendInt f.year.toNat 4, dropStr lU2006 l))
      else if hasPrefix lU2 l then
        some ((if f.day < 10 then [32] else []) ++ appendInt f.day.toNat 0, dropStr lU2 l)
      else if hasPrefix lUU2 l then none
      else lit
    else if c = 51 then some (appendInt (TimeSpec.hour12 f.hour).toNat 0, r)
    else if c = 52 then some (appendInt f.min.toNat 0, r)
    else if c = 53 then some (appendInt f.sec.toNat 0, r)
    else if c = 80 then   -- 'P'
      match r with
      | 77 :: t => some (if f.hour ≥ 12 then TimeSpec.sPM else TimeSpec.sAM, t)
      | _ => lit
    else if c = 112 then  -- 'p'
      match r with
      | 109 :: t => some (if f.hour ≥ 12 then TimeSpec.spm else TimeSpec.sam, t)
      | _ => lit
    else if c = 45 then   -- '-'
      if hasPrefix lM070000 l ∨ hasPrefix lM07C00 l then none
      else if hasPrefix lM0700 l then some (TimeSpec.sPlus0000, dropStr lM0700 l)
      else if hasPrefix lM07 l then none
      else lit
    else if c = 90 then   -- 'Z'
      if hasPrefix lZ07 l then none else lit
    else if c = 46 ∨ c = 44 then
      match r with
      | d :: _ => if d = 48 ∨ d = 57 then none else lit
      | [] => lit
    else lit

/-- time.Time.Format(layout) in UTC; `none` = the layout uses an element this model does not cover. -/
def goFormat (f : Fields) : Nat → Bytes → Option Bytes
  | 0, _ => none
  | _ + 1, [] => some []
  | fuel + 1, l =>
    match formatStep f l with
    | none => none
    | some (out, rest) => (goFormat f fuel rest).map (out ++ ·)

def lookupFlag (c : Nat) : Option Bytes := (Generated.cDateFlagToGo.find? (·.1 = c)).map (·.2)

/-- what strftime appends for the conversion character `c` (`HasFlag` set). -/
def renderFlag (f : Fields) (c : Nat) : Option Bytes :=
  match lookupFlag c with
  | some layout => goFormat f (layout.length + 1) layout
  | none =>
    if c = 119 then some (appendInt (f.wday - 1).toNat 0)   -- 'w': fmt.Sprint(int(t.Weekday()))
    else some [37, c]

/-- utils.go strftime over the flagScanner('%', "", ""): `hasFlag` = a lone '%' was just read. -/
def strftimeLoop (f : Fields) : Bytes → Bool → Option Bytes
  | [], _ => some []
  | c :: r, true =>
    -- the character after a lone '%' is the conversion character
    match renderFlag f c with
    | none => none
    | some b => (strftimeLoop f r false).map (b ++ ·)
  | c :: r, false =>
    if c ≠ 37 then (strftimeLoop f r false).map (c :: ·)
    else
      match r with
      | [] => some [37]                                              -- trailing '%': ordinary character
      | d :: r2 =>
        if d = 37 then (strftimeLoop f r2 false).map (37 :: ·)       -- "%%"
        else
          -- ChangeFlag: nothing appended; the next character is the conversion character
          match renderFlag f d with
          | none => none
          | some b => (strftimeLoop f r2 false).map (b ++ ·)

def strftime (f : Fields) (cfmt : Bytes) : Option Bytes := strftimeLoop f cfmt false

end GLua.TimeModel
