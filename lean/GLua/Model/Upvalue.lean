/-
  Model of gopher-lua's upvalue mechanism (C03, mechanism part).

    /repo/function.go : type Upvalue {next, reg, index, value, closed}; Value / SetValue / Close / IsClosed
    /repo/state.go    : LState.uvcache (open list), findUpvalue, closeUpvalues (also inlined three times in
                        vm.go: OP_CLOSE, OP_RETURN, OP_TAILCALL), PCall's recover path, threadRun (vm.go)
    /repo/vm.go       : OP_CLOSURE (+ capture pseudo-instructions), OP_GETUPVAL, OP_SETUPVAL, OP_CLOSE,
                        OP_GETGLOBAL / OP_SETGLOBAL (cf.Fn.Env)
    /repo/baselib.go  : baseGetFEnv / baseSetFEnv level arithmetic

  Representation.  Upvalue objects live in an allocation-ordered store `uvs` (a handle is the allocation
  number = pointer identity); the singly linked chain `ls.uvcache → uv.next → …` is the list `openL` of
  handles, head first (the `next` field of an upvalue that has been cut out of the chain is never followed
  again by the code, so it is not represented).  The register file is `reg.array` as a list of slots; Go
  `nil` above `top` and `LNil` are both `none` (disciplined code never reads above `top`).
  A Go slice index that can be out of range / a nil `*Upvalue` dereference is an explicit `.goPanic`.
  Registry growth (`registry.Set` beyond `len(array)`) belongs to Model/Registry and is an explicit error here.
-/
import GLua.Basic

namespace GLua.Upvalue
open GLua

structure UvObj where
  index  : Nat
  value  : OVal := none
  closed : Bool := false
deriving DecidableEq, Repr, Inhabited

structure St where
  regs  : List OVal := []    -- reg.array
  uvs   : List UvObj := []   -- every Upvalue object allocated so far
  openL : List Nat := []     -- ls.uvcache chain (handles, head first)
deriving DecidableEq, Repr, Inhabited

def St.init (nregs : Nat) : St := { regs := List.replicate nregs none }

/-- `reg.array[i]` (registry.Get and the direct index in Upvalue.Value). -/
def regGet (s : St) (i : Nat) : Except Err OVal :=
  match s.regs[i]? with
  | some v => .ok v
  | none => .error (.goPanic "reg.array index out of range")

/-- `registry.Set(i, v)` inside the allocated array. -/
def regSet (s : St) (i : Nat) (v : OVal) : Except Err St :=
  if i < s.regs.length then .ok { s with regs := s.regs.set i v }
  else .error (.luaError "registry growth (Model/Registry)")

/-- dereference of a `*Upvalue` held by a closure or by the chain. -/
def getUv (s : St) (h : Nat) : Except Err UvObj :=
  match s.uvs[h]? with
  | some u => .ok u
  | none => .error (.goPanic "nil *Upvalue")

/-- `Upvalue.Value` -/
def uvValue (s : St) (h : Nat) : Except Err OVal := do
  let u ← getUv s h
  if u.closed then .ok u.value else regGet s u.index

/-- `Upvalue.SetValue` -/
def uvSetValue (s : St) (h : Nat) (v : OVal) : Except Err St := do
  let u ← getUv s h
  if u.closed then .ok { s with uvs := s.uvs.set h { u with value := v } }
  else regSet s u.index v

/-- `Upvalue.Close`: `value := uv.Value(); uv.closed = true; uv.value = value` -/
def uvClose (s : St) (h : Nat) : Except Err St := do
  let u ← getUv s h
  let v ← uvValue s h
  .ok { s with uvs := s.uvs.set h { u with closed := true, value := v } }

/-- `Upvalue.IsClosed` (`reg == nil` only for upvalues made by the host API, which are born closed). -/
def uvIsClosed (s : St) (h : Nat) : Except Err Bool := do
  let u ← getUv s h
  .ok u.closed

/-- the loop of `closeUpvalues(idx)` over the chain.  Returns the chain that remains reachable from
    `ls.uvcache`: the first upvalue with `index >= idx` cuts the chain before itself (`prev.next = nil` or
    `ls.uvcache = nil`); the loop keeps walking the old `next` pointers and closes every later upvalue
    with `index >= idx` (those with a smaller index behind the cut are dropped *unclosed* — only a sorted
    chain excludes that). -/
def closeLoop (idx : Nat) : List Nat → St → Except Err (List Nat × St)
  | [], s => .ok ([], s)
  | h :: rest, s => do
    let u ← getUv s h
    if u.index ≥ idx then
      let s1 ← uvClose s h
      let (_, s2) ← closeLoop idx rest s1
      .ok ([], s2)
    else
      let (keep, s1) ← closeLoop idx rest s
      .ok (h :: keep, s1)

/-- `LState.closeUpvalues(idx)` -/
def closeUpvalues (idx : Nat) (s : St) : Except Err St := do
  let (keep, s1) ← closeLoop idx s.openL s
  .ok { s1 with openL := keep }

/-- the search loop of `findUpvalue(idx)`: the handle found or `fresh`, and the chain afterwards. -/
def findLoop (s : St) (idx fresh : Nat) : List Nat → Except Err (Nat × List Nat)
  | [] => .ok (fresh, [fresh])
  | h :: rest => do
    let u ← getUv s h
    if u.index = idx then .ok (h, h :: rest)
    else if u.index > idx then .ok (fresh, fresh :: h :: rest)
    else
      let (r, l) ← findLoop s idx fresh rest
      .ok (r, h :: l)

/-- `LState.findUpvalue(idx)`: find-or-create in the chain kept sorted by register index. -/
def findUpvalue (s : St) (idx : Nat) : Except Err (Nat × St) := do
  let fresh := s.uvs.length
  let (h, chain) ← findLoop s idx fresh s.openL
  if h = fresh then
    .ok (h, { s with uvs := s.uvs ++ [{ index := idx, value := none, closed := false }], openL := chain })
  else .ok (h, s)

/-! ### closures and the opcodes -/

/-- `LFunction` of a Lua closure: environment table (identity) and `Upvalues` (nil slots possible). -/
structure Fn where
  env    : Nat
  upvals : List (Option Nat) := []
deriving DecidableEq, Repr, Inhabited

/-- capture pseudo-instruction following OP_CLOSURE -/
inductive Cap where
  | move (b : Nat)       -- OP_MOVE 0 B     : findUpvalue(lbase + B)
  | getupval (b : Nat)   -- OP_GETUPVAL 0 B : cf.Fn.Upvalues[B]
  | other                -- any other opcode: the slot stays nil
deriving DecidableEq, Repr, Inhabited

abbrev EnvTbl := List (String × OVal)

structure VM where
  st   : St := {}
  fns  : List Fn := []
  envs : List EnvTbl := []
deriving DecidableEq, Repr, Inhabited

def fnRef (h : Nat) : Val := .ref (2000 + h)

def getFn (m : VM) (f : Nat) : Except Err Fn :=
  match m.fns[f]? with
  | some x => .ok x
  | none => .error (.goPanic "nil *LFunction")

/-- the capture loop of OP_CLOSURE -/
def captureLoop (lbase : Nat) (parent : Fn) : List Cap → St → Except Err (List (Option Nat) × St)
  | [], s => .ok ([], s)
  | c :: rest, s => do
    let (slot, s1) ← (match c with
      | .move b => do
        let (h, s1) ← findUpvalue s (lbase + b)
        pure (some h, s1)
      | .getupval b =>
        match parent.upvals[b]? with
        | some u => pure (u, s)
        | none => throw (.goPanic "cf.Fn.Upvalues index out of range")
      | .other => pure (none, s) : Except Err (Option Nat × St))
    let (slots, s2) ← captureLoop lbase parent rest s1
    .ok (slot :: slots, s2)

/-- OP_CLOSURE A Bx + capture list, executed in closure `cur` with `LocalBase = lbase`:
    `closure := newLFunctionL(proto, cf.Fn.Env, n)`; `reg.Set(RA, closure)`; captures.  Returns the new handle. -/
def opClosure (m : VM) (cur lbase a : Nat) (caps : List Cap) : Except Err (Nat × VM) := do
  let parent ← getFn m cur
  let h := m.fns.length
  let s1 ← regSet m.st (lbase + a) (some (fnRef h))
  let (slots, s2) ← captureLoop lbase parent caps s1
  .ok (h, { m with st := s2, fns := m.fns ++ [{ env := parent.env, upvals := slots }] })

def fnUpval (m : VM) (cur b : Nat) : Except Err Nat := do
  let f ← getFn m cur
  match f.upvals[b]? with
  | none => .error (.goPanic "cf.Fn.Upvalues index out of range")
  | some none => .error (.goPanic "nil *Upvalue")
  | some (some h) => .ok h

/-- OP_GETUPVAL A B : `reg.Set(RA, cf.Fn.Upvalues[B].Value())` -/
def opGetUpval (m : VM) (cur lbase a b : Nat) : Except Err VM := do
  let h ← fnUpval m cur b
  let v ← uvValue m.st h
  let s1 ← regSet m.st (lbase + a) v
  .ok { m with st := s1 }

/-- OP_SETUPVAL A B : `cf.Fn.Upvalues[B].SetValue(reg.Get(RA))` -/
def opSetUpval (m : VM) (cur lbase a b : Nat) : Except Err VM := do
  let h ← fnUpval m cur b
  let v ← regGet m.st (lbase + a)
  let s1 ← uvSetValue m.st h v
  .ok { m with st := s1 }

/-- OP_CLOSE A : `closeUpvalues(lbase + A)` (inlined copy in vm.go) -/
def opClose (m : VM) (lbase a : Nat) : Except Err VM := do
  let s1 ← closeUpvalues (lbase + a) m.st
  .ok { m with st := s1 }

/-- the closing done by OP_RETURN and OP_TAILCALL: `closeUpvalues(lbase)` -/
def opReturnClose (s : St) (lbase : Nat) : Except Err St := closeUpvalues lbase s

def envGet (t : EnvTbl) (k : String) : OVal :=
  match t with
  | [] => none
  | (k', v) :: r => if k' = k then v else envGet r k

def envSet (t : EnvTbl) (k : String) (v : OVal) : EnvTbl :=
  match t with
  | [] => [(k, v)]
  | (k', v') :: r => if k' = k then (k, v) :: r else (k', v') :: envSet r k v

def getEnv (m : VM) (e : Nat) : Except Err EnvTbl :=
  match m.envs[e]? with
  | some t => .ok t
  | none => .error (.goPanic "nil *LTable")

/-- OP_GETGLOBAL A Bx : `reg.Set(RA, getFieldString(cf.Fn.Env, name))` (environment without metatable) -/
def opGetGlobal (m : VM) (cur lbase a : Nat) (name : String) : Except Err VM := do
  let f ← getFn m cur
  let t ← getEnv m f.env
  let s1 ← regSet m.st (lbase + a) (envGet t name)
  .ok { m with st := s1 }

/-- OP_SETGLOBAL A Bx : `setFieldString(cf.Fn.Env, name, reg.Get(RA))` -/
def opSetGlobal (m : VM) (cur lbase a : Nat) (name : String) : Except Err VM := do
  let f ← getFn m cur
  let t ← getEnv m f.env
  let v ← regGet m.st (lbase + a)
  .ok { m with envs := m.envs.set f.env (envSet t name v) }

/-- `LState.SetFEnv(fn, env)` / the function branch of `baseSetFEnv` -/
def setFEnv (m : VM) (f e : Nat) : Except Err VM := do
  let fn ← getFn m f
  .ok { m with fns := m.fns.set f { fn with env := e } }

/-! ### the error path -/

/-- a live call frame as the error path sees it: host function?, LocalBase. Innermost first. -/
structure Frame where
  isG : Bool
  localBase : Nat
deriving DecidableEq, Repr, Inhabited

/-- `closeAllUpvalues` of the tree before fix C03-error-keeps-live-upvalues: every Lua frame of the thread,
    also the frames *below* the protected call that is going to catch the error. -/
def closeAllUpvalues : List Frame → St → Except Err St
  | [], s => .ok s
  | f :: rest, s => do
    let s1 ← (if f.isG then pure s else closeUpvalues f.localBase s)
    closeAllUpvalues rest s1

/-- `raiseError` / `Error`, upvalue part.  `closesAll = true` is the code before the fix
    (`if !ls.hasErrorFunc { ls.closeAllUpvalues() }`), `false` the code after it (nothing is closed by the
    raiser; the catcher closes what it releases). -/
def raiseClose (closesAll hasErrorFunc : Bool) (frames : List Frame) (s : St) : Except Err St :=
  if closesAll && !hasErrorFunc then closeAllUpvalues frames s else .ok s

/-- `registry.SetTop(base)` downwards: slots `[base, oldtop)` are cleared. -/
def clearFrom (base : Nat) (s : St) : St :=
  { s with regs := s.regs.mapIdx (fun i v => if i ≥ base then none else v) }

/-- recover path of `PCall` (with or without handler): `closeUpvalues(base); reg.SetTop(base)`. -/
def pcallRecover (base : Nat) (s : St) : Except Err St := do
  let s1 ← closeUpvalues base s
  .ok (clearFrom base s1)

/-- a failed protected call as a whole (upvalue part): raise inside, then recover at `base`. -/
def failedPCall (closesAll hasErrorFunc : Bool) (frames : List Frame) (base : Nat) (s : St) : Except Err St := do
  let s1 ← raiseClose closesAll hasErrorFunc frames s
  pcallRecover base s1

/-- death of a coroutine by an error (`threadRun` recover path, after the fix): everything is closed. -/
def threadDeath (s : St) : Except Err St := closeUpvalues 0 s

/-! ### getfenv / setfenv level arithmetic (baselib.go) -/

/-- what a frame contributes to `getfenv(level)`: a Lua function's Env, or a host function. -/
inductive FFrame where
  | lua (env : Nat)
  | host
deriving DecidableEq, Repr, Inhabited

inductive EnvRes where
  | env (e : Nat)
  | global          -- L.G.Global
  | threadEnv       -- L.Env
  | error
deriving DecidableEq, Repr, Inhabited

/-- `cf := L.currentFrame; for i := 0; i < level && cf != nil; i++ { cf = cf.Parent }` on the list of
    frames starting at the running host function (getfenv/setfenv itself). -/
def walkFrames : Nat → List FFrame → Option FFrame
  | _, [] => none
  | 0, f :: _ => some f
  | n + 1, _ :: rest => walkFrames n rest

/-- `baseGetFEnv` with a number argument `level` (after `int(float64(number))`). -/
def getFEnvLevel (level : Int) (frames : List FFrame) : EnvRes :=
  if level ≤ 0 then .threadEnv
  else match walkFrames level.toNat frames with
    | none => .global
    | some .host => .global
    | some (.lua e) => .env e

/-- `baseSetFEnv` with a number argument: which function object gets the new environment. -/
inductive SetRes where
  | thread            -- L.Env = env, returns nothing
  | frameFn (depth : Nat)   -- cf.Fn.Env = env for the frame `depth` steps up
  | error
deriving DecidableEq, Repr, Inhabited

def setFEnvLevel (level : Int) (frames : List FFrame) : SetRes :=
  if level ≤ 0 then .thread
  else match walkFrames level.toNat frames with
    | none => .error
    | some .host => .error
    | some (.lua _) => .frameFn level.toNat

end GLua.Upvalue
