/-
  The mechanism's implementation of the trace alphabet of Spec/Cells: how compiled code realises each request
  with registers and the open-upvalue list.
    declare / write  → a register store            (LOADK, MOVE, …: `reg.Set`)
    read             → a register load
    capture          → `findUpvalue(r)`            (OP_CLOSURE's `MOVE 0 B` pseudo-instruction)
    close k          → `closeUpvalues(k)`          (OP_CLOSE, OP_RETURN, OP_TAILCALL, PCall recovery, threadRun)
    uvread / uvwrite → `Upvalue.Value` / `SetValue` (OP_GETUPVAL / OP_SETUPVAL)
-/
import GLua.Model.Upvalue
import GLua.Spec.Cells

namespace GLua.Upvalue
open GLua GLua.Cells

structure MSt where
  st   : St := {}
  caps : List Nat := []     -- i-th capture ↦ upvalue handle
deriving DecidableEq, Repr, Inhabited

def MSt.init (nregs : Nat) : MSt := { st := St.init nregs }

def mstep (m : MSt) : Op → Except Err (MSt × Option OVal)
  | .declare r v => do let s ← regSet m.st r v; pure ({ m with st := s }, none)
  | .write r v => do let s ← regSet m.st r v; pure ({ m with st := s }, none)
  | .read r => do let v ← regGet m.st r; pure (m, some v)
  | .capture r => do
    let (h, s) ← findUpvalue m.st r
    pure ({ st := s, caps := m.caps ++ [h] }, none)
  | .close k => do let s ← closeUpvalues k m.st; pure ({ m with st := s }, none)
  | .uvread i =>
    match m.caps[i]? with
    | none => .error (.luaError "no such capture")
    | some h => do let v ← uvValue m.st h; pure (m, some v)
  | .uvwrite i v =>
    match m.caps[i]? with
    | none => .error (.luaError "no such capture")
    | some h => do let s ← uvSetValue m.st h v; pure ({ m with st := s }, none)

def mrun : MSt → List Op → Except Err (MSt × List OVal)
  | m, [] => .ok (m, [])
  | m, op :: rest => do
    let (m1, o) ← mstep m op
    let (m2, os) ← mrun m1 rest
    pure (m2, (match o with | some v => [v] | none => []) ++ os)

end GLua.Upvalue
