/-
  C07 — bytecode well-formedness.

  `Proto`   : the part of a `lua.FunctionProto` the VM indexes (one function; nested prototypes are separate
              `Proto`s, the parent only sees their `NumUpvalues`).
  `step`    : MODEL — what `/repo/_vm.go` (mainLoop + the 42 jumpTable entries, `rkValue`, `rkString`) *indexes*
              when it executes the instruction at `pc`: every slice index (`Code`, `Constants`,
              `stringConstants`, `FunctionPrototypes`, `Upvalues`, `jumpTable`) and every register *read*
              (`reg.Get`, `reg.array[..]`) is an explicit check that ends in `.goPanic site` when out of range —
              never a totalised default.  Data-dependent choices (branch taken or not) are resolved
              nondeterministically: `step` returns every possible next pc.  Registers: the frame window is
              `[LocalBase, LocalBase+NumUsedRegisters)`, which `initCallFrame` puts inside `reg.array`
              (checkSize), and `reg.array` never shrinks; register *writes* (`reg.Set/SetNumber/SetTop/CopyRange/
              FillNil`) call `checkSize` first and cannot fault, so only reads are checked by `step`.
  `wf`      : the verifier (decides the property on one prototype): header conditions, a checked bitmap of
              instruction starts, `step` succeeds on every start with all successors again starts, plus the
              explicit operand-range conditions of the property text (`hyg`).
  Decoding uses the regenerated `GLua/Generated/Opcode.lean`.
-/
import GLua.Basic
import GLua.Generated.Consts
import GLua.Generated.Opcode

namespace GLua.Verifier
open GLua GLua.Generated

structure Proto where
  code        : Array Nat := #[]              -- Code (uint32 words)
  consts      : Array (Option String) := #[]  -- Constants: `some hex` = LString, `none` = LNumber
  strConsts   : Array String := #[]           -- stringConstants (hex)
  protoNups   : Array Nat := #[]              -- NumUpvalues of FunctionPrototypes[i]
  numUpvalues : Nat := 0                      -- NumUpvalues (= len(closure.Upvalues) at run time)
  nDbgUpvalues : Nat := 0                     -- len(DbgUpvalues) = number of names the compiler captured
  numParams   : Nat := 0
  isVarArg    : Nat := 0
  numRegs     : Nat := 0                      -- NumUsedRegisters
  nLines      : Nat := 0                      -- len(DbgSourcePositions)
deriving Repr, Inhabited

structure Ins where
  op : Nat
  a : Nat
  b : Nat
  c : Nat
  bx : Nat
  sbx : Int
deriving Repr

def decode (w : Nat) : Ins :=
  { op := opGetOpCode w, a := opGetArgA w, b := opGetArgB w, c := opGetArgC w, bx := opGetArgBx w, sbx := opGetArgSbx w }

/-! ### checked accessors (each `throw` is a Go run-time panic site of vm.go) -/

def chk (c : Bool) (site : String) : Except Err Unit :=
  if c then pure () else throw (.goPanic site)

/-- `inst = cf.Fn.Proto.Code[pc]` -/
def fetch (p : Proto) (pc : Nat) : Except Err Nat :=
  match p.code[pc]? with
  | some w => pure w
  | none => throw (.goPanic "Code index out of range")

/-- `reg.Get(lbase+r)` / `reg.array[lbase+r]` -/
def rd (p : Proto) (r : Nat) : Except Err Unit := chk (decide (r < p.numRegs)) "register read outside the frame"
/-- `Proto.Constants[i]` -/
def kst (p : Proto) (i : Nat) : Except Err Unit := chk (decide (i < p.consts.size)) "Constants index out of range"
/-- `Proto.stringConstants[i]` -/
def sks (p : Proto) (i : Nat) : Except Err Unit := chk (decide (i < p.strConsts.size)) "stringConstants index out of range"
/-- `cf.Fn.Upvalues[i]` -/
def upv (p : Proto) (i : Nat) : Except Err Unit := chk (decide (i < p.numUpvalues)) "Upvalues index out of range"

/-- `(idx & opBitRk) != 0` and `idx & ^opBitRk` on an operand field (regenerated `opIsK` / `opIndexK`) -/
def isK (x : Nat) : Bool := opIsK (x : Int)
def idxK (x : Nat) : Nat := (opIndexK (x : Int)).toNat

/-- `L.rkValue(x)` -/
def rkValue (p : Proto) (x : Nat) : Except Err Unit :=
  if isK x then kst p (idxK x) else rd p x
/-- `L.rkString(x)` (the `.(LString)` assertion on a register operand is a dataflow fact, not an index; see notes) -/
def rkString (p : Proto) (x : Nat) : Except Err Unit :=
  if isK x then sks p (idxK x) else rd p x

/-- `cf.Pc += sbx` after the fetch increment; a negative pc faults at the next fetch. -/
def jmpTo (pc : Nat) (sbx : Int) : Except Err Nat :=
  let t : Int := (pc : Int) + 1 + sbx
  if t < 0 then throw (.goPanic "Code index out of range (negative pc)") else pure t.toNat

/-- the capture pseudo-instructions after OP_CLOSURE -/
def captureEntry (p : Proto) (pc : Nat) : Except Err Unit := do
  let w ← fetch p pc
  let d := decode w
  if d.op = 0 then rd p d.b            -- OP_MOVE: findUpvalue(lbase+B), later read through uv.reg.array[index]
  else if d.op = 5 then upv p d.b      -- OP_GETUPVAL: cf.Fn.Upvalues[B]
  else throw (.goPanic "capture entry is neither MOVE nor GETUPVAL: closure.Upvalues[i] stays nil")

/-- the extra MOVE words after OP_MOVEN (vm.go uses only their A and B fields) -/
def movenEntry (p : Proto) (pc : Nat) : Except Err Unit := do
  let w ← fetch p pc
  rd p (decode w).b

/-- MODEL of one VM step at `pc`: `.ok succs` = every possible next pc inside this function
    (`[]` = the function returns), `.error (.goPanic site)` = an index is out of range. -/
def step (p : Proto) (pc : Nat) : Except Err (List Nat) := do
  let w ← fetch p pc
  let i := decode w
  match i.op with
  | 0 => do rd p i.b; pure [pc+1]                                   -- MOVE
  | 1 => do                                                          -- MOVEN
    rd p i.b
    (List.range i.c).forM (fun k => movenEntry p (pc+1+k))
    pure [pc+1+i.c]
  | 2 => do kst p i.bx; pure [pc+1]                                  -- LOADK
  | 3 => pure [if i.c ≠ 0 then pc+2 else pc+1]                       -- LOADBOOL
  | 4 => pure [pc+1]                                                 -- LOADNIL (writes only)
  | 5 => do upv p i.b; pure [pc+1]                                   -- GETUPVAL
  | 6 => do sks p i.bx; pure [pc+1]                                  -- GETGLOBAL
  | 7 => do rd p i.b; rkValue p i.c; pure [pc+1]                     -- GETTABLE
  | 8 => do rd p i.b; rkString p i.c; pure [pc+1]                    -- GETTABLEKS
  | 9 => do sks p i.bx; rd p i.a; pure [pc+1]                        -- SETGLOBAL
  | 10 => do upv p i.b; rd p i.a; pure [pc+1]                        -- SETUPVAL
  | 11 => do rd p i.a; rkValue p i.b; rkValue p i.c; pure [pc+1]     -- SETTABLE
  | 12 => do rd p i.a; rkString p i.b; rkValue p i.c; pure [pc+1]    -- SETTABLEKS
  | 13 => pure [pc+1]                                                -- NEWTABLE
  | 14 => do rd p i.b; rkString p i.c; pure [pc+1]                   -- SELF
  | 15 | 16 | 17 | 18 | 19 | 20 => do rkValue p i.b; rkValue p i.c; pure [pc+1]   -- ADD SUB MUL DIV MOD POW
  | 21 => do rkValue p i.b; pure [pc+1]                              -- UNM  (vm.go: L.rkValue(B))
  | 22 => do rd p i.b; pure [pc+1]                                   -- NOT
  | 23 => do rkValue p i.b; pure [pc+1]                              -- LEN  (vm.go: L.rkValue(B))
  | 24 => do                                                          -- CONCAT: stringConcat reads R(C) down to R(B)
    rd p i.c
    pure [pc+1]
  | 25 => do let t ← jmpTo pc i.sbx; pure [t]                        -- JMP
  | 26 | 27 | 28 => do rkValue p i.b; rkValue p i.c; pure [pc+1, pc+2]  -- EQ LT LE
  | 29 => do rd p i.a; pure [pc+1, pc+2]                             -- TEST
  | 30 => do rd p i.b; pure [pc+1, pc+2]                             -- TESTSET
  | 31 => do rd p i.a; pure [pc+1]                                   -- CALL
  | 32 => do rd p i.a; pure [pc+1]                                   -- TAILCALL (Go callee: continues at pc+1)
  | 33 => pure []                                                    -- RETURN (CopyRange bounds its reads by top)
  | 34 => do                                                          -- FORLOOP
    rd p i.a; rd p (i.a+1); rd p (i.a+2)
    let t ← jmpTo pc i.sbx
    pure [t, pc+1]
  | 35 => do                                                          -- FORPREP
    rd p i.a; rd p (i.a+2)
    let t ← jmpTo pc i.sbx
    pure [t]
  | 36 => do                                                          -- TFORLOOP
    -- reg.SetTop(RA+3+2) first: the registry then covers RA..RA+5, so the reads of RA+3.. cannot fault
    rd p i.a; rd p (i.a+1); rd p (i.a+2)
    let w2 ← fetch p (pc+1)            -- `pc := cf.Fn.Proto.Code[cf.Pc]` (the JMP that follows)
    let t ← jmpTo (pc+1) (opGetArgSbx w2)
    pure [t, pc+2]
  | 37 => do                                                          -- SETLIST
    rd p i.a
    (List.range i.b).forM (fun k => rd p (i.a+1+k))
    if i.c = 0 then do
      let _ ← fetch p (pc+1)           -- `C = int(cf.Fn.Proto.Code[cf.Pc])`
      pure [pc+2]
    else pure [pc+1]
  | 38 => pure [pc+1]                                                -- CLOSE
  | 39 => do                                                          -- CLOSURE
    match p.protoNups[i.bx]? with
    | none => throw (.goPanic "FunctionPrototypes index out of range")
    | some nup => do
      (List.range nup).forM (fun k => captureEntry p (pc+1+k))
      pure [pc+1+nup]
  | 40 => pure [pc+1]                                                -- VARARG (CopyRange: writes only)
  | 41 => pure [pc+1]                                                -- NOP
  | _ => throw (.goPanic "jumpTable index out of range (opcode > opCodeMax)")

/-! ### instruction starts -/

/-- number of code words the instruction at `pc` owns as one indivisible group.  The MOVE words after an
    OP_MOVEN are *not* part of a group here: each is a complete MOVE instruction with the same effect whether it
    is reached through the MOVEN loop or by a jump (the compiler merges MOVE runs across jump targets). -/
def groupLen (p : Proto) (pc : Nat) : Nat :=
  match p.code[pc]? with
  | none => 1
  | some w =>
    let i := decode w
    if i.op = 39 then 1 + (p.protoNups[i.bx]?).getD 0
    else if i.op = 37 ∧ i.c = 0 then 2
    else 1

def scanStarts (p : Proto) : Nat → Nat → Array Bool → Array Bool
  | 0, _, sm => sm
  | fuel+1, pc, sm =>
    if pc < sm.size then scanStarts p fuel (pc + groupLen p pc) (sm.set! pc true) else sm

/-- bitmap of instruction starts (computed by one linear scan; `wf` re-checks it, so the scan is untrusted) -/
def startMap (p : Proto) : Array Bool :=
  scanStarts p p.code.size 0 (Array.replicate p.code.size false)

def isSt (sm : Array Bool) (pc : Nat) : Bool := (sm[pc]?).getD false

/-- the bitmap is closed under `groupLen`: a start's group lies inside the code, its interior words are not
    starts, and the word after the group (if any) is a start. -/
def startsOkAt (p : Proto) (sm : Array Bool) (pc : Nat) : Bool :=
  let l := groupLen p pc
  decide (pc + l ≤ p.code.size) &&
  (List.range (l - 1)).all (fun k => !isSt sm (pc + 1 + k)) &&
  (decide (pc + l = p.code.size) || isSt sm (pc + l))

/-! ### explicit operand ranges (the property text) -/

def isStrConst (p : Proto) (i : Nat) : Bool :=
  match p.consts[i]? with
  | some (some _) => true
  | _ => false

/-- RK operand: a register below the declared count or a constant index in range -/
def rkOk (p : Proto) (x : Nat) : Bool :=
  if isK x then decide (idxK x < p.consts.size) else decide (x < p.numRegs)
/-- string-keyed RK operand: a constant operand must name a string constant -/
def rkStrOk (p : Proto) (x : Nat) : Bool :=
  if isK x then isStrConst p (idxK x) && decide (idxK x < p.strConsts.size) else decide (x < p.numRegs)

def isOp (p : Proto) (pc op : Nat) : Bool :=
  match p.code[pc]? with
  | some w => opGetOpCode w == op
  | none => false

/-- operand-range conditions beyond what `step` needs for safety -/
def hyg (p : Proto) (pc : Nat) : Bool :=
  match p.code[pc]? with
  | none => false
  | some w =>
    let i := decode w
    let n := p.numRegs
    match i.op with
    | 0 => decide (i.a < n ∧ i.b < n)
    | 1 => decide (i.a < n ∧ i.b < n) && (List.range i.c).all (fun k => isOp p (pc+1+k) 0)
    | 2 => decide (i.a < n ∧ i.bx < p.consts.size)
    | 3 => decide (i.a < n)
    | 4 => decide (i.a < n ∧ i.b < n ∧ i.a ≤ i.b)
    | 5 => decide (i.a < n ∧ i.b < p.numUpvalues)
    | 6 => decide (i.a < n) && isStrConst p i.bx
    | 7 => decide (i.a < n ∧ i.b < n) && rkOk p i.c
    | 8 => decide (i.a < n ∧ i.b < n) && rkStrOk p i.c
    | 9 => decide (i.a < n) && isStrConst p i.bx
    | 10 => decide (i.a < n ∧ i.b < p.numUpvalues)
    | 11 => decide (i.a < n) && rkOk p i.b && rkOk p i.c
    | 12 => decide (i.a < n) && rkStrOk p i.b && rkOk p i.c
    | 13 => decide (i.a < n)
    | 14 => decide (i.a + 1 < n ∧ i.b < n) && rkStrOk p i.c
    | 15 | 16 | 17 | 18 | 19 | 20 => decide (i.a < n) && rkOk p i.b && rkOk p i.c
    | 21 | 22 | 23 => decide (i.a < n ∧ i.b < n)
    | 24 => decide (i.a < n ∧ i.b ≤ i.c ∧ i.c < n)
    | 25 => true
    | 26 | 27 | 28 => decide (i.a ≤ 1) && rkOk p i.b && rkOk p i.c
    | 29 => decide (i.a < n)
    | 30 => decide (i.a < n ∧ i.b < n)
    | 31 => decide (i.a < n ∧ (i.b ≥ 1 → i.a + i.b ≤ n) ∧ (i.c ≥ 2 → i.a + i.c ≤ n + 1))
    | 32 => decide (i.a < n ∧ (i.b ≥ 1 → i.a + i.b ≤ n))
    | 33 => decide ((i.b = 0 → i.a ≤ n) ∧ (i.b ≥ 2 → i.a + i.b ≤ n + 1))   -- B = 1: no value, A is unused
    | 34 | 35 => decide (i.a + 2 < n)
    | 36 => decide (i.a + 2 < n ∧ i.c ≥ 1) && isOp p (pc+1) 25
    | 37 => decide (i.a < n ∧ i.a + i.b < n) &&
            (decide (i.c ≠ 0) ||
              (match p.code[pc+1]? with
               | some x => decide (opMaxArgsC < x ∧ (x - 1) * FieldsPerFlush < MaxArrayIndex)
               | none => false))
    | 38 => decide (i.a < n)
    | 39 => decide (i.a < n)
    | 40 => decide ((i.b = 0 → i.a ≤ n) ∧ (i.b = 1 → i.a < n) ∧ (i.b ≥ 2 → i.a + i.b ≤ n + 1))
    | 41 => true
    | _ => false

/-! ### the verifier -/

def stepOk (p : Proto) (sm : Array Bool) (pc : Nat) : Bool :=
  match step p pc with
  | .ok succs => succs.all (isSt sm)
  | .error _ => false

def headerOk (p : Proto) (sm : Array Bool) : Bool :=
  decide (p.numRegs ≤ maxRegisters) &&
  decide (maxRegisters ≤ opMaxArgsA + 1) &&
  decide (p.numParams < p.numRegs) &&
  decide (p.numUpvalues = p.nDbgUpvalues) &&
  decide (p.nLines = p.code.size) &&
  decide (p.consts.size ≤ opMaxArgBx + 1) &&
  decide (p.protoNups.size ≤ opMaxArgBx + 1) &&
  decide (p.strConsts.size = p.consts.size) &&
  (List.range p.consts.size).all (fun k =>
      match p.consts[k]?, p.strConsts[k]? with
      | some (some h), some s => h == s
      | some none, some s => s == ""
      | _, _ => false) &&
  decide (sm.size = p.code.size) &&
  isSt sm 0 &&
  decide (0 < p.code.size) &&
  isSt sm (p.code.size - 1) && isOp p (p.code.size - 1) 33

def wfWith (p : Proto) (sm : Array Bool) : Bool :=
  headerOk p sm &&
  (List.range p.code.size).all (fun pc => !isSt sm pc || (startsOkAt p sm pc && stepOk p sm pc && hyg p pc))

/-- **the verifier** -/
def wf (p : Proto) : Bool := wfWith p (startMap p)

def isStart (p : Proto) (pc : Nat) : Bool := isSt (startMap p) pc

/-! ### diagnostics for the driver (first failing condition; not used by any theorem) -/

def whyNot (p : Proto) : String :=
  let sm := startMap p
  if !headerOk p sm then
    "header" ++
      (if p.numUpvalues ≠ p.nDbgUpvalues then ":NumUpvalues≠len(DbgUpvalues)" else "") ++
      (if p.numRegs > maxRegisters then ":NumUsedRegisters>maxRegisters" else "") ++
      (if p.nLines ≠ p.code.size then ":len(DbgSourcePositions)≠len(Code)" else "") ++
      (if !(isSt sm (p.code.size - 1) && isOp p (p.code.size - 1) 33) then ":code-does-not-end-in-RETURN" else "") ++
      (if !(decide (p.numParams < p.numRegs)) then ":NumParameters≥NumUsedRegisters" else "")
  else
    match (List.range p.code.size).find? (fun pc => isSt sm pc && !(startsOkAt p sm pc && stepOk p sm pc && hyg p pc)) with
    | none => "unknown"
    | some pc =>
      let opn := match p.code[pc]? with | some w => toString (opGetOpCode w) | none => "?"
      "pc=" ++ toString pc ++ ":op=" ++ opn ++ ":" ++
      (if !startsOkAt p sm pc then "group-crosses-code-end-or-overlaps"
       else match step p pc with
         | .error e => e.show.replace " " "_"
         | .ok succs =>
           if !succs.all (isSt sm) then
             "successor-not-an-instruction-start:" ++ toString (succs.filter (fun s => !isSt sm s))
           else "operand-range")

end GLua.Verifier
