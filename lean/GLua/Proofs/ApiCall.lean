/-
  C10 call/return contract: `CopyRange` in pointwise form, the host-function return of `callGFunction`,
  and the recovery path of `PCall`.
-/
import GLua.Proofs.ApiStackRefine

namespace GLua.ApiStack
open GLua

theorem copyLoop_step (a : List Slot) (x : Slot) (regv start limit n i : Nat)
    (h1 : regv + i + (n + 1) ≤ a.length) (h2 : regv ≤ start) (a' : List Slot)
    (hp : ∀ j, a'[j]? = if regv + (i + 1) ≤ j ∧ j < regv + (i + 1) + n then
                      (if start + (j - regv) ≥ limit then some (.val none) else (a.set (regv + i) x)[start + (j - regv)]?)
                    else (a.set (regv + i) x)[j]?)
    (hx : some x = if start + i ≥ limit then some (.val none) else a[start + i]?) :
    ∀ j, a'[j]? = if regv + i ≤ j ∧ j < regv + i + (n + 1) then
                      (if start + (j - regv) ≥ limit then some (.val none) else a[start + (j - regv)]?)
                    else a[j]? := by
  intro j
  rw [hp j]
  by_cases hc1 : regv + (i + 1) ≤ j ∧ j < regv + (i + 1) + n
  · have hout : regv + i ≤ j ∧ j < regv + i + (n + 1) := by omega
    rw [if_pos hc1, if_pos hout]
    by_cases hc3 : start + (j - regv) ≥ limit
    · rw [if_pos hc3, if_pos hc3]
    · have hne : ¬ (regv + i = start + (j - regv)) := by omega
      rw [if_neg hc3, if_neg hc3, List.getElem?_set, if_neg hne]
  · rw [if_neg hc1]
    by_cases hj : j = regv + i
    · subst hj
      have hout : regv + i ≤ regv + i ∧ regv + i < regv + i + (n + 1) := by omega
      have hlt : regv + i < a.length := by omega
      rw [if_pos hout, List.getElem?_set, if_pos rfl, if_pos hlt]
      rw [show start + (regv + i - regv) = start + i by omega]
      exact hx
    · have hout : ¬ (regv + i ≤ j ∧ j < regv + i + (n + 1)) := by omega
      have hne : ¬ (regv + i = j) := by omega
      rw [if_neg hout, List.getElem?_set, if_neg hne]

theorem copyLoop_ok : ∀ (n i : Nat) (a : List Slot) (regv start limit : Nat),
    regv + i + n ≤ a.length → regv ≤ start → limit ≤ a.length →
    ∃ a', copyLoop a regv start limit n i = .ok a' ∧ a'.length = a.length ∧
      ∀ j, a'[j]? = if regv + i ≤ j ∧ j < regv + i + n then
                      (if start + (j - regv) ≥ limit then some (.val none) else a[start + (j - regv)]?)
                    else a[j]?
  | 0, i, a, regv, start, limit, _, _, _ => by
    refine ⟨a, rfl, rfl, ?_⟩
    intro j
    have : ¬ (regv + i ≤ j ∧ j < regv + i + 0) := by omega
    rw [if_neg this]
  | n + 1, i, a, regv, start, limit, h1, h2, h3 => by
    simp only [copyLoop]
    have hdst : ¬ ((regv : Int) + (i : Int) < 0 ∨ (regv : Int) + (i : Int) ≥ (a.length : Int)) := by omega
    rw [if_neg hdst]
    have hd : ((regv : Int) + (i : Int)).toNat = regv + i := by omega
    by_cases hsrc : (start : Int) + (i : Int) ≥ (limit : Int) ∨ (start : Int) + (i : Int) < 0
    · rw [if_pos hsrc, hd]
      obtain ⟨a', he, hl, hp⟩ := copyLoop_ok n (i + 1) (a.set (regv + i) (.val none)) regv start limit
        (by rw [List.length_set]; omega) h2 (by rw [List.length_set]; exact h3)
      refine ⟨a', he, by rw [hl, List.length_set], ?_⟩
      have hge : start + i ≥ limit := by omega
      exact copyLoop_step a (.val none) regv start limit n i h1 h2 a' hp (by rw [if_pos hge])
    · have hsrc2 : ¬ ((start : Int) + (i : Int) ≥ (a.length : Int)) := by omega
      rw [if_neg hsrc, if_neg hsrc2, hd]
      have hs : ((start : Int) + (i : Int)).toNat = start + i := by omega
      rw [hs]
      have hlt : start + i < a.length := by omega
      obtain ⟨x, hx⟩ : ∃ x, a[start + i]? = some x := ⟨_, List.getElem?_eq_getElem hlt⟩
      have hgd : a.getD (start + i) .goNil = x := by rw [List.getD_eq_getElem?_getD, hx]; rfl
      rw [hgd]
      obtain ⟨a', he, hl, hp⟩ := copyLoop_ok n (i + 1) (a.set (regv + i) x) regv start limit
        (by rw [List.length_set]; omega) h2 (by rw [List.length_set]; exact h3)
      refine ⟨a', he, by rw [hl, List.length_set], ?_⟩
      have hge : ¬ (start + i ≥ limit) := by omega
      exact copyLoop_step a x regv start limit n i h1 h2 a' hp (by rw [if_neg hge, hx])

/-- `CopyRange(regv, start, -1, n)` with `regv ≤ start ≤ top`: afterwards top = regv+n, the n slots from regv
    hold the n values from start (LNil beyond the old top), everything below regv is unchanged. -/
theorem regCopyRange_ok {r : Reg} (h : r.top ≤ r.array.length) (regv start n : Nat)
    (h1 : regv ≤ start) (h2 : start ≤ r.top) :
    (∀ r', regCopyRange r regv start (-1) n = .ok r' →
      r'.top = regv + n ∧ r'.top ≤ r'.array.length ∧
      (∀ j, j < regv → r'.array[j]? = r.array[j]?) ∧
      (∀ j, j < n → r'.array[regv + j]? = if start + j ≥ r.top then some (.val none) else r.array[start + j]?)) ∧
    (∀ e, regCopyRange r regv start (-1) n = .error e → e = overflow) := by
  unfold regCopyRange
  cases hc : checkSize r ((regv : Int) + (n : Int)) with
  | error err =>
    rw [bind_err]
    exact ⟨fun r' e => (by cases e), fun e he => (by cases he; exact checkSize_err h hc)⟩
  | ok r1 =>
    rw [bind_ok]
    obtain ⟨ht, hl, hn, hp⟩ := checkSize_ok h hc
    simp only [true_or, if_true]
    have hnn : ((n : Nat) : Int).toNat = n := by omega
    rw [hnn]
    obtain ⟨a', he, hla, hpa⟩ := copyLoop_ok n 0 r1.array regv start r1.top (by omega) h1 (by omega)
    rw [he, bind_ok]
    rw [if_neg (by omega)]
    have htn : ((regv : Int) + (n : Int)).toNat = regv + n := by omega
    rw [htn]
    constructor
    · intro r' e
      cases e
      simp only [fillRange_length]
      refine ⟨trivial, by omega, ?_, ?_⟩
      · intro j hj
        rw [fillRange_getElem?, hpa j, if_neg (by omega), hp j (by omega)]
        have : j < r.array.length := by omega
        rw [List.getElem?_eq_getElem this]
        simp only [Option.map_some]
        rw [if_neg (by omega)]
      · intro j hj
        rw [fillRange_getElem?, hpa (regv + j), if_pos (by omega)]
        rw [show start + (regv + j - regv) = start + j by omega, ht]
        by_cases hs : start + j ≥ r.top
        · rw [if_pos hs, if_pos hs]
          simp only [Option.map_some]
          rw [if_neg (by omega)]
        · rw [if_neg hs, if_neg hs, hp _ (by omega)]
          have : start + j < r.array.length := by omega
          rw [List.getElem?_eq_getElem this]
          simp only [Option.map_some]
          rw [if_neg (by omega)]
    · intro e he
      cases he

theorem callGFunctionRet_contract {s : St} (hw : WF s) (retBase : Nat) (hrb : retBase ≤ s.base) (nRet : Int)
    (hn : -1 ≤ nRet) (gfnret : Nat) (hg : gfnret ≤ (abs s).length) (callerBase : Nat) :
    (∀ s', callGFunctionRet s retBase nRet gfnret callerBase = .ok s' →
      s'.reg.top = retBase + (StackSpec.adjust (StackSpec.topMost (abs s) gfnret) nRet).length ∧
      (∀ j v, (StackSpec.adjust (StackSpec.topMost (abs s) gfnret) nRet)[j]? = some v →
         s'.reg.array[retBase + j]? = some (.val v)) ∧
      (∀ j, j < retBase → s'.reg.array[j]? = s.reg.array[j]?) ∧ s'.reg.top ≤ s'.reg.array.length) ∧
    (∀ e, callGFunctionRet s retBase nRet gfnret callerBase = .error e → e = overflow) := by
  have hlen := abs_length s hw.top_le
  have hbl := hw.base_le
  unfold callGFunctionRet
  -- the wanted count as a natural number
  obtain ⟨n, hn'⟩ : ∃ n : Nat, (if nRet = Generated.MultRet then (gfnret : Int) else nRet) = (n : Int) := by
    by_cases hm : nRet = Generated.MultRet
    · exact ⟨gfnret, by rw [if_pos hm]⟩
    · refine ⟨nRet.toNat, ?_⟩
      rw [if_neg hm]
      have : Generated.MultRet = -1 := rfl
      omega
  have hstart : (s.reg.top : Int) - (gfnret : Int) = ((s.reg.top - gfnret : Nat) : Int) := by omega
  simp only [hn', hstart]
  obtain ⟨hok, herr⟩ := regCopyRange_ok hw.top_le retBase (s.reg.top - gfnret) n (by omega) (by omega)
  have hadjlen : (StackSpec.adjust (StackSpec.topMost (abs s) gfnret) nRet).length = n := by
    unfold StackSpec.adjust StackSpec.topMost
    by_cases hm : nRet = Generated.MultRet
    · rw [if_pos hm] at hn'
      have : Generated.MultRet = -1 := rfl
      rw [if_pos (by omega), List.length_drop]; omega
    · rw [if_neg hm] at hn'
      have : Generated.MultRet = -1 := rfl
      rw [if_neg (by omega)]
      simp only [List.length_append, List.length_take, List.length_replicate, List.length_drop]
      omega
  constructor
  · intro s' e
    cases hc : regCopyRange s.reg (retBase : Int) ((s.reg.top - gfnret : Nat) : Int) (-1) (n : Int) with
    | error err => rw [hc, bind_err] at e; cases e
    | ok r' =>
      rw [hc, bind_ok] at e
      cases e
      obtain ⟨htop, hcap, hbelow, hvals⟩ := hok r' hc
      refine ⟨by rw [hadjlen]; exact htop, ?_, hbelow, hcap⟩
      intro j v hj
      have hjn : j < n := by
        rw [← hadjlen]
        exact (List.getElem?_eq_some_iff.mp hj).1
      show r'.array[retBase + j]? = _
      rw [hvals j hjn]
      unfold StackSpec.adjust StackSpec.topMost at hj
      have hmr : Generated.MultRet = -1 := rfl
      by_cases hm : nRet < 0
      · rw [if_pos hm, List.getElem?_drop] at hj
        obtain ⟨h1, h2⟩ := abs_get hw hj
        rw [if_neg (by omega)]
        rw [show s.reg.top - gfnret + j = s.base + ((abs s).length - gfnret + j) by omega]
        exact h1
      · rw [if_neg hm, List.getElem?_append] at hj
        simp only [List.length_take, List.length_drop] at hj
        split at hj
        · rw [List.getElem?_take] at hj
          split at hj
          · rw [List.getElem?_drop] at hj
            obtain ⟨h1, h2⟩ := abs_get hw hj
            rw [if_neg (by omega)]
            rw [show s.reg.top - gfnret + j = s.base + ((abs s).length - gfnret + j) by omega]
            exact h1
          · cases hj
        · rename_i hge
          rw [List.getElem?_replicate] at hj
          split at hj
          · cases hj
            rw [if_pos (by omega)]
          · cases hj
  · intro e he
    cases hc : regCopyRange s.reg (retBase : Int) ((s.reg.top - gfnret : Nat) : Int) (-1) (n : Int) with
    | error err => rw [hc, bind_err] at he; cases he; exact herr _ hc
    | ok r' => rw [hc, bind_ok] at he; cases he

theorem pcallRecover_contract {s : St} (hw : WF s) (nargs : Nat) (hna : nargs + 1 ≤ (abs s).length)
    (atFailure : Reg) (hcap : atFailure.top ≤ atFailure.array.length)
    (hkeep : ∀ j, j < s.reg.top - nargs - 1 → atFailure.array[j]? = s.reg.array[j]?)
    (htop : s.reg.top - nargs - 1 ≤ atFailure.top) :
    Refines s (pcallRecover s nargs atFailure) (StackSpec.callFailed (abs s) nargs) := by
  have hlen := abs_length s hw.top_le
  have hbl := hw.base_le
  unfold pcallRecover StackSpec.callFailed
  show Refines s (do
    let r ← regSetTop atFailure ((s.reg.top : Int) - (nargs : Int) - 1)
    .ok { s with reg := r }) _
  constructor
  · intro s' e
    cases hs : regSetTop atFailure ((s.reg.top : Int) - (nargs : Int) - 1) with
    | error err => rw [hs, bind_err] at e; cases e
    | ok r =>
      rw [hs, bind_ok] at e
      cases e
      obtain ⟨h0, htop', hl, hlen', hsame, hnil⟩ := regSetTop_ok hcap hs
      have htn : ((s.reg.top : Int) - (nargs : Int) - 1).toNat = s.reg.top - nargs - 1 := by omega
      rw [htn] at htop' hsame
      have := refine_of_pointwise (s := s) (s' := { s with reg := r })
        (l' := (abs s).take ((abs s).length - nargs - 1)) rfl hl
        (fun j hj => by
          show r.array[j]? = _
          rw [hsame j (by omega) (by omega), hkeep j (by omega)])
        (by rw [List.length_take]; show r.top = _; omega)
        (by
          intro j w hj
          show r.array[s.base + j]? = _
          rw [List.getElem?_take] at hj
          split at hj
          · obtain ⟨h1, h2⟩ := abs_get hw hj
            rw [hsame _ (by omega) (by omega), hkeep _ (by omega)]; exact h1
          · cases hj)
      exact ⟨this.1, this.2.1, this.2.2, rfl⟩
  · intro e he
    cases hs : regSetTop atFailure ((s.reg.top : Int) - (nargs : Int) - 1) with
    | error err => rw [hs, bind_err] at he; cases he; exact regSetTop_err hcap (by omega) hs
    | ok r => rw [hs, bind_ok] at he; cases he

/-- every exit path of `PCall`'s deferred function is the recovery `pcallRecover` on the registry of that moment:
    the frame that was current when the path was taken (`atExit.base`) plays no role. -/
theorem pcallDeferred_eq_recover (s : St) (nargs : Int) (path : RecoverPath) (atExit : St) :
    pcallDeferred s nargs path atExit = pcallRecover s nargs atExit.reg := by
  cases path <;> rfl

end GLua.ApiStack
