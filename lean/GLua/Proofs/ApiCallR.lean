/-
  C10 call contract, composed: `callR` as a whole (frame push, callee body, `callGFunction`'s CopyRange, the
  final `SetTop(rbase+nret)`), for a host-function callee with an arbitrary body and for a Lua callee abstracted
  as the registry its OP_RETURN leaves.
-/
import GLua.Proofs.ApiCall

namespace GLua.ApiStack
open GLua

theorem adjust_length (vs : List OVal) (n : Int) (h : 0 ≤ n) : (StackSpec.adjust vs n).length = n.toNat := by
  unfold StackSpec.adjust
  rw [if_neg (by omega)]
  simp only [List.length_append, List.length_take, List.length_replicate]
  omega

theorem prefix_get {a b : St} (hp : callerPrefix a = callerPrefix b) (hb : a.base = b.base) (j : Nat)
    (hj : j < a.base) : a.reg.array[j]? = b.reg.array[j]? := by
  have h1 : (callerPrefix a)[j]? = a.reg.array[j]? := by
    unfold callerPrefix; rw [List.getElem?_take, if_pos hj]
  have h2 : (callerPrefix b)[j]? = b.reg.array[j]? := by
    unfold callerPrefix; rw [List.getElem?_take, if_pos (by omega)]
  rw [← h1, ← h2, hp]

/-- the activation of a callee whose frame starts `k` slots above the caller's base, on the same registry. -/
def subFrame (s : St) (k : Nat) : St := { reg := s.reg, base := s.base + k }

theorem subFrame_wf {s : St} (hw : WF s) (k : Nat) (hk : k ≤ (abs s).length) :
    WF (subFrame s k) ∧ abs (subFrame s k) = (abs s).drop k := by
  have hlen := abs_length s hw.top_le
  have hbl := hw.base_le
  refine ⟨⟨by show s.base + k ≤ s.reg.top; omega, hw.top_le, fun j h1 h2 => ?_⟩, ?_⟩
  · have h1' : s.base + k ≤ j := h1
    exact hw.vals j (by omega) h2
  · apply List.ext_getElem?
    intro j
    rw [abs_getElem?, List.getElem?_drop, abs_getElem?]
    simp only [subFrame, Nat.add_assoc]

/-! ### what a returning callee leaves, and the final `SetTop` -/

/-- the registry as the return of a callee leaves it (`callGFunction`'s CopyRange / OP_RETURN): the adjusted results
    `adj` from the return base `B` on, nothing above them, everything below `B` as the caller had it, the caller's
    frame current again. -/
structure RetLeft (s : St) (B : Nat) (adj : List OVal) (s1 : St) : Prop where
  base : s1.base = s.base
  top : s1.reg.top = B + adj.length
  cap : s1.reg.top ≤ s1.reg.array.length
  vals : ∀ j v, adj[j]? = some v → s1.reg.array[B + j]? = some (.val v)
  below : ∀ j, j < B → s1.reg.array[j]? = s.reg.array[j]?

theorem retLeft_refines {s s1 : St} (hw : WF s) {B : Nat} (h1 : s.base ≤ B) (h2 : B ≤ s.reg.top) {adj : List OVal}
    (h : RetLeft s B adj s1) :
    abs s1 = (abs s).take (B - s.base) ++ adj ∧ callerPrefix s1 = callerPrefix s ∧ WF s1 := by
  have hlen := abs_length s hw.top_le
  have hbl := hw.base_le
  refine refine_of_pointwise (s := s) (s' := s1) h.base h.cap (fun j hj => h.below j (by omega)) ?_ ?_
  · rw [List.length_append, List.length_take, h.top]; omega
  · intro j w hj
    rw [List.getElem?_append] at hj
    simp only [List.length_take] at hj
    split at hj
    · rename_i hjl
      rw [List.getElem?_take] at hj
      rw [if_pos (by omega)] at hj
      obtain ⟨h3, h4⟩ := abs_get hw hj
      rw [h.below _ (by omega)]; exact h3
    · rename_i hjl
      have := h.vals _ _ hj
      rw [show B + (j - min (B - s.base) (abs s).length) = s.base + j by omega] at this
      exact this

/-- **the tail of `callR`**: on what a returning callee left, `if nret != MultRet { SetTop(rbase+nret) }` changes
    neither the list nor anything below it; the caller's list is `prefix ++ adj`. -/
theorem callRTail_contract {s s1 : St} (hw : WF s) {B : Nat} (h1 : s.base ≤ B) (h2 : B ≤ s.reg.top)
    (results : List OVal) (nret : Int) (hn : -1 ≤ nret)
    (h : RetLeft s B (StackSpec.adjust results nret) s1) :
    Refines s (callRTail s1 (B : Int) nret) ((abs s).take (B - s.base) ++ StackSpec.adjust results nret) := by
  have hmr : Generated.MultRet = -1 := rfl
  unfold callRTail
  by_cases hm : nret = Generated.MultRet
  · rw [if_neg (by simpa using hm)]
    obtain ⟨a, b, c⟩ := retLeft_refines hw h1 h2 h
    exact ⟨fun s' e => (by cases e; exact ⟨a, b, c, h.base⟩), fun e he => (by cases he)⟩
  · rw [if_pos hm]
    have hal := adjust_length results nret (by omega)
    constructor
    · intro s' e
      cases hs : regSetTop s1.reg ((B : Int) + nret) with
      | error err => rw [hs, bind_err] at e; cases e
      | ok r =>
        rw [hs, bind_ok] at e
        cases e
        obtain ⟨h0, htop, hl, hlen', hsame, hnil⟩ := regSetTop_ok h.cap hs
        have htn : ((B : Int) + nret).toNat = B + nret.toNat := by omega
        rw [htn] at htop hsame
        have hr : RetLeft s B (StackSpec.adjust results nret) { s1 with reg := r } :=
          ⟨h.base, by show r.top = _; rw [htop, hal], hl,
           fun j v hj => by
             have hjl : j < nret.toNat := by rw [← hal]; exact (List.getElem?_eq_some_iff.mp hj).1
             show r.array[B + j]? = _
             rw [hsame _ (by rw [h.top, hal]; omega) (by omega)]
             exact h.vals j v hj,
           fun j hj => by
             show r.array[j]? = _
             rw [hsame _ (by rw [h.top]; omega) (by omega)]
             exact h.below j hj⟩
        obtain ⟨a, b, c⟩ := retLeft_refines hw h1 h2 hr
        exact ⟨a, b, c, h.base⟩
    · intro e he
      cases hs : regSetTop s1.reg ((B : Int) + nret) with
      | error err => rw [hs, bind_err] at he; cases he; exact regSetTop_err h.cap (by omega) hs
      | ok r => rw [hs, bind_ok] at he; cases he

/-! ### the callee's activation on entry -/

abbrev fnSlot := StackSpec.fnSlot

/-- what the callee receives: `StackSpec.calleeArgs`, by the way `metaCall` resolved the called value. -/
def calleeArgs (l : List OVal) (nargs : Nat) (kind : Callee) : List OVal :=
  StackSpec.calleeArgs l nargs (kind == .viaCall)

/-- the callee's activation on entry: its list is exactly what it is to receive, and everything below its base —
    the caller's prefix, the rest of the caller's list, the function slot — is as the caller had it. -/
structure CalleeEntry (s : St) (nargs : Nat) (kind : Callee) (c : St) : Prop where
  wf : WF c
  base : c.base = s.reg.top - nargs
  args : abs c = calleeArgs (abs s) nargs kind
  below : ∀ j, j < s.reg.top - nargs → c.reg.array[j]? = s.reg.array[j]?

theorem regInsert_eq {r : Reg} {v : Slot} {reg : Nat} (h : reg ≤ r.top) :
    regInsert r v (reg : Int) = (do
      let r1 ← insertLoop r reg (r.top - reg)
      regSet r1 (reg : Int) v) := by
  unfold regInsert
  by_cases hge : (reg : Int) ≥ r.top
  · rw [if_pos hge]
    have : r.top - reg = 0 := by omega
    rw [this]
    rfl
  · rw [if_neg hge, if_neg (by omega)]
    rw [show ((reg : Nat) : Int).toNat = reg by omega]

/-- `reg.Insert(v, LocalBase)` seen from the frame whose base is that register: `v` goes in front of its list. -/
theorem regInsert_front {c : St} (hw : WF c) (v : OVal) :
    Refines c (do let r ← regInsert c.reg (.val v) (c.base : Int); .ok { reg := r, base := c.base })
      ((abs c).insertIdx 0 v) := by
  have hbl := hw.base_le
  rw [regInsert_eq hbl]
  have := insert_at hw 0 (Nat.zero_le _) v (reg := (c.base : Int)) (by omega)
  simp only [Nat.add_zero] at this
  have e : (do
      let r ← (do
        let r1 ← insertLoop c.reg c.base (c.reg.top - c.base)
        regSet r1 (c.base : Int) (.val v))
      (Except.ok { reg := r, base := c.base } : Except Err St))
      = (do
      let r ← insertLoop c.reg c.base (c.reg.top - c.base)
      let r ← regSet r (c.base : Int) (.val v)
      .ok { c with reg := r }) := by
    cases insertLoop c.reg c.base (c.reg.top - c.base) <;> rfl
  rw [e]
  exact this

/-- `initCallFrame` of a host function, `reg.SetTop(LocalBase + NArgs)`, when the frame's list has `NArgs` elements. -/
theorem initFrame_refines {c : St} (hw : WF c) :
    Refines c (do let r ← regSetTop c.reg ((c.base : Int) + ((abs c).length : Int)); .ok { reg := r, base := c.base })
      (abs c) := by
  have := refines_of_regSetTop hw (abs c).length (t := (c.base : Int) + ((abs c).length : Int)) rfl
  rw [resize_self] at this
  exact this

theorem pushCallFrameG_entry {s : St} (hw : WF s) (nargs : Nat) (hna : nargs + 1 ≤ (abs s).length) (kind : Callee) :
    (∀ c, pushCallFrameG s nargs kind (.val (fnSlot (abs s) nargs)) = .ok c → CalleeEntry s nargs kind c) ∧
    (∀ e, pushCallFrameG s nargs kind (.val (fnSlot (abs s) nargs)) = .error e →
      e = overflow ∨ (kind = .none ∧ e = notCallable)) := by
  have hlen := abs_length s hw.top_le
  have hbl := hw.base_le
  have hk : (abs s).length - nargs ≤ (abs s).length := by omega
  obtain ⟨hwc, hac⟩ := subFrame_wf hw ((abs s).length - nargs) hk
  have hcb : (subFrame s ((abs s).length - nargs)).base = s.reg.top - nargs := by
    show s.base + ((abs s).length - nargs) = _; omega
  have hclen : (abs (subFrame s ((abs s).length - nargs))).length = nargs := by
    rw [hac, List.length_drop]; omega
  have hB : ((s.reg.top : Int) - (nargs : Int) - 1 + 1).toNat = (subFrame s ((abs s).length - nargs)).base := by
    omega
  have hBi : (s.reg.top : Int) - (nargs : Int) - 1 + 1 = (((subFrame s ((abs s).length - nargs)).base : Nat) : Int) := by
    omega
  unfold pushCallFrameG
  cases kind with
  | none =>
    exact ⟨fun c e => (by cases e), fun e he => (by cases he; exact Or.inr ⟨rfl, rfl⟩)⟩
  | fn =>
    simp only [hB]
    have hT : (s.reg.top : Int) - (nargs : Int) - 1 + 1 + (nargs : Int)
        = (((subFrame s ((abs s).length - nargs)).base : Nat) : Int)
          + (((abs (subFrame s ((abs s).length - nargs))).length : Nat) : Int) := by omega
    rw [hT]
    have hr := initFrame_refines hwc
    constructor
    · intro c e
      obtain ⟨a, b, w, d⟩ := hr.1 c e
      refine ⟨w, by rw [d, hcb], ?_, ?_⟩
      · rw [a, hac]; unfold calleeArgs StackSpec.calleeArgs StackSpec.argsOf; simp
      · intro j hj
        exact prefix_get b d j (by rw [d, hcb]; exact hj)
    · intro e he
      exact Or.inl (hr.2 e he)
  | viaCall =>
    simp only [hB]
    rw [hBi]
    -- reg.Insert(lv, LocalBase) on the callee's frame: the object goes in front of the arguments
    have hins := regInsert_front hwc (fnSlot (abs s) nargs)
    cases h1 : regInsert s.reg (.val (fnSlot (abs s) nargs))
        (((subFrame s ((abs s).length - nargs)).base : Nat) : Int) with
    | error err =>
      simp only [bind_err]
      refine ⟨fun c e => (by cases e), fun e he => ?_⟩
      cases he
      exact Or.inl (hins.2 _ (by show (regInsert s.reg _ _ >>= _) = _; rw [h1]; rfl))
    | ok r1 =>
      simp only [bind_ok]
      obtain ⟨a1, b1, w1, d1⟩ := hins.1 { reg := r1, base := (subFrame s ((abs s).length - nargs)).base }
        (by show (regInsert s.reg _ _ >>= _) = _; rw [h1]; rfl)
      have hlen1 : (abs ({ reg := r1, base := (subFrame s ((abs s).length - nargs)).base } : St)).length
          = nargs + 1 := by
        rw [a1, List.length_insertIdx, if_pos (Nat.zero_le _), hclen]
      have hT : (((subFrame s ((abs s).length - nargs)).base : Nat) : Int) + ((nargs : Int) + 1)
          = (((subFrame s ((abs s).length - nargs)).base : Nat) : Int)
            + (((abs ({ reg := r1, base := (subFrame s ((abs s).length - nargs)).base } : St)).length : Nat) : Int) := by
        omega
      rw [hT]
      have hr := initFrame_refines w1
      constructor
      · intro c e
        obtain ⟨a, b, w, d⟩ := hr.1 c e
        refine ⟨w, by rw [d, hcb], ?_, ?_⟩
        · rw [a, a1, hac]; unfold calleeArgs StackSpec.calleeArgs StackSpec.argsOf; simp
        · intro j hj
          rw [prefix_get b d j (by rw [d, hcb]; exact hj)]
          exact prefix_get b1 d1 j (by rw [hcb]; exact hj)
      · intro e he
        exact Or.inl (hr.2 e he)

/-! ### the body of a host function -/

/-- what a host function's body is required to respect on the activation `c` it is entered with: whatever it does
    (stack operations, calls of its own, nested protected calls), when it returns `n` its activation is still a list of
    LValues on the same base, nothing below that base has changed, and `0 ≤ n ≤ its top`.  (`api_refines_list` shows
    that every history of stack operations is such a body; the composed call theorem shows that a call made by a body
    keeps the same three facts.) -/
def BodyOKAt (body : GFunction) (c : St) : Prop :=
  ∀ c' n, body c = .ok (c', n) →
    WF c' ∧ c'.base = c.base ∧ callerPrefix c' = callerPrefix c ∧ 0 ≤ n ∧ n ≤ (abs c').length

theorem callGFunctionRet_base {s s' : St} {rb nr g : Int} {cb : Nat}
    (e : callGFunctionRet s rb nr g cb = .ok s') : s'.base = cb := by
  unfold callGFunctionRet at e
  simp only at e
  cases h : regCopyRange s.reg rb ((s.reg.top : Int) - g) (-1) (if nr = Generated.MultRet then g else nr) with
  | error err => rw [h, bind_err] at e; cases e
  | ok r => rw [h, bind_ok] at e; cases e; rfl

/-- **callR, composed** (host callee). -/
theorem callRHost_contract {s : St} (hw : WF s) (nargs : Nat) (hna : nargs + 1 ≤ (abs s).length) (nret : Int)
    (hn : -1 ≤ nret) (kind : Callee) (body : GFunction)
    (hb : ∀ c, CalleeEntry s nargs kind c → BodyOKAt body c) :
    (∀ s', callRHost s nargs nret kind body = .ok s' →
      ∃ c c' n, CalleeEntry s nargs kind c ∧ body c = .ok (c', n) ∧ 0 ≤ n ∧ n ≤ (abs c').length ∧
        abs s' = StackSpec.call (abs s) nargs nret (StackSpec.topMost (abs c') n.toNat) ∧
        callerPrefix s' = callerPrefix s ∧ WF s' ∧ s'.base = s.base) ∧
    (∀ e, callRHost s nargs nret kind body = .error e →
      e = overflow ∨ (kind = .none ∧ e = notCallable) ∨ ∃ c, CalleeEntry s nargs kind c ∧ body c = .error e) := by
  have hlen := abs_length s hw.top_le
  have hbl := hw.base_le
  have hget : regGet s.reg ((s.reg.top : Int) - (nargs : Int) - 1) = .ok (.val (fnSlot (abs s) nargs)) :=
    regGet_val hw (i := (abs s).length - nargs - 1) (by omega) (by omega)
  obtain ⟨hent, henterr⟩ := pushCallFrameG_entry hw nargs hna kind
  unfold callRHost
  simp only [hget, bind_ok]
  cases hp : pushCallFrameG s nargs kind (.val (fnSlot (abs s) nargs)) with
  | error err =>
    simp only [bind_err]
    refine ⟨fun s' e => (by cases e), fun e he => ?_⟩
    cases he
    rcases henterr _ hp with h | h
    · exact Or.inl h
    · exact Or.inr (Or.inl h)
  | ok c =>
    simp only [bind_ok]
    have hce := hent c hp
    cases hbd : body c with
    | error err =>
      simp only [bind_err]
      exact ⟨fun s' e => (by cases e), fun e he => (by cases he; exact Or.inr (Or.inr ⟨c, hce, hbd⟩))⟩
    | ok res =>
      obtain ⟨c', n⟩ := res
      simp only [bind_ok]
      obtain ⟨hwc', hbc', hpc', hn0, hnl⟩ := hb c hce c' n hbd
      rw [if_neg (by omega)]
      -- the return of the host function
      obtain ⟨m, hm⟩ : ∃ m : Nat, n = (m : Int) := ⟨n.toNat, by omega⟩
      subst hm
      have hBnat : (s.reg.top : Int) - (nargs : Int) - 1 = ((s.reg.top - nargs - 1 : Nat) : Int) := by omega
      have hcb' : c'.base = s.reg.top - nargs := by rw [hbc', hce.base]
      obtain ⟨hok, herr⟩ := callGFunctionRet_contract hwc' (s.reg.top - nargs - 1) (by omega) nret hn m
        (by omega) s.base
      rw [hBnat]
      have hrl : ∀ s1, callGFunctionRet c' ((s.reg.top - nargs - 1 : Nat) : Int) nret (m : Int) s.base = .ok s1 →
          RetLeft s (s.reg.top - nargs - 1) (StackSpec.adjust (StackSpec.topMost (abs c') m) nret) s1 := by
        intro s1 hg
        obtain ⟨ht, hv, hbel, hcap⟩ := hok s1 hg
        refine ⟨callGFunctionRet_base hg, ht, hcap, hv, fun j hj => ?_⟩
        rw [hbel j hj, prefix_get hpc' hbc' j (by rw [hbc', hce.base]; omega)]
        exact hce.below j (by omega)
      constructor
      · intro s' e
        cases hg : callGFunctionRet c' ((s.reg.top - nargs - 1 : Nat) : Int) nret (m : Int) s.base with
        | error err => rw [hg, bind_err] at e; cases e
        | ok s1 =>
          rw [hg, bind_ok] at e
          have hR := callRTail_contract hw (B := s.reg.top - nargs - 1) (by omega) (by omega)
            (StackSpec.topMost (abs c') m) nret hn (hrl s1 hg)
          obtain ⟨a, b, w, d⟩ := hR.1 s' e
          refine ⟨c, c', (m : Int), hce, hbd, hn0, hnl, ?_, b, w, d⟩
          rw [a]
          unfold StackSpec.call
          rw [show s.reg.top - nargs - 1 - s.base = (abs s).length - nargs - 1 by omega, Int.toNat_natCast]
      · intro e he
        cases hg : callGFunctionRet c' ((s.reg.top - nargs - 1 : Nat) : Int) nret (m : Int) s.base with
        | error err => rw [hg, bind_err] at he; cases he; exact Or.inl (herr _ hg)
        | ok s1 =>
          rw [hg, bind_ok] at he
          have hR := callRTail_contract hw (B := s.reg.top - nargs - 1) (by omega) (by omega)
            (StackSpec.topMost (abs c') m) nret hn (hrl s1 hg)
          exact Or.inl (hR.2 e he)

/-- **callR, composed** (Lua callee, abstracted): whatever the callee did, when `mainLoop` returns and the registry is
    as OP_RETURN leaves it — the adjusted results from the return base on, nothing above, everything below unchanged
    (C02's mechanism) — the caller's list is the prefix without function and arguments plus exactly those results. -/
theorem callRLua_contract {s : St} (hw : WF s) (nargs : Nat) (hna : nargs + 1 ≤ (abs s).length) (nret : Int)
    (hn : -1 ≤ nret) (results : List OVal) (afterLoop : Reg)
    (h : RetLeft s (s.reg.top - nargs - 1) (StackSpec.adjust results nret) { reg := afterLoop, base := s.base }) :
    Refines s (callRLua s nargs nret afterLoop) (StackSpec.call (abs s) nargs nret results) := by
  have hlen := abs_length s hw.top_le
  have hbl := hw.base_le
  unfold callRLua StackSpec.call
  rw [show (s.reg.top : Int) - (nargs : Int) - 1 = ((s.reg.top - nargs - 1 : Nat) : Int) by omega]
  have := callRTail_contract hw (B := s.reg.top - nargs - 1) (by omega) (by omega) results nret hn h
  rw [show s.reg.top - nargs - 1 - s.base = (abs s).length - nargs - 1 by omega] at this
  exact this

end GLua.ApiStack
