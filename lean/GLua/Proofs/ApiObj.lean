/-
  C10, object-level entries that are not single delegations (ObjLen, ToStringMeta, Concat / stringConcat): their stack
  traffic — `Push(fn); Push(arg)…; Call(n, 1); reg.Pop()` and `top := Top(); Push…; …; SetTop(top)` — restores the
  caller's list exactly and hands back the handler's first result.
-/
import GLua.Proofs.ApiCallR

namespace GLua.ApiStack
open GLua

theorem run_pushes : ∀ (vs : List OVal) {s : St}, WF s → Refines s (run s (vs.map .push)) (abs s ++ vs)
  | [], s, hw => by
    simp only [List.map_nil, run, List.append_nil]
    exact refines_ok_self hw
  | v :: r, s, hw => by
    simp only [List.map_cons, run, applyOp]
    obtain ⟨h1, h2⟩ := push_refines hw v
    cases hp : push s v with
    | error e =>
      rw [bind_err]
      exact ⟨fun s' e' => (by cases e'), fun e' he' => (by cases he'; exact h2 _ hp)⟩
    | ok s1 =>
      rw [bind_ok]
      obtain ⟨a, b, w, d⟩ := h1 s1 hp
      obtain ⟨ih1, ih2⟩ := run_pushes r w
      refine ⟨fun s' e' => ?_, ih2⟩
      obtain ⟨a', b', w', d'⟩ := ih1 s' e'
      refine ⟨?_, by rw [b', b], w', by rw [d', d]⟩
      rw [a', a]
      simp [StackSpec.push]

theorem adjust_one (vs : List OVal) : StackSpec.adjust vs 1 = [vs.headD none] := by
  cases vs <;> simp [StackSpec.adjust]

theorem fnSlot_append (l : List OVal) (fn : OVal) (args : List OVal) :
    StackSpec.fnSlot (l ++ fn :: args) args.length = fn := by
  unfold StackSpec.fnSlot
  have : (l ++ fn :: args).length - args.length - 1 = l.length := by
    simp only [List.length_append, List.length_cons]; omega
  rw [this, List.getD_eq_getElem?_getD, List.getElem?_append_right (Nat.le_refl _)]
  simp

theorem argsOf_append (l : List OVal) (fn : OVal) (args : List OVal) :
    StackSpec.argsOf (l ++ fn :: args) args.length = args := by
  unfold StackSpec.argsOf
  have : (l ++ fn :: args).length - args.length = l.length + 1 := by
    simp only [List.length_append, List.length_cons]; omega
  rw [this, show l ++ fn :: args = (l ++ [fn]) ++ args by simp]
  rw [List.drop_append_of_le_length (by simp)]
  simp

/-- what the handler receives: the arguments (preceded by the handler object when it is called through `__call`). -/
def handlerArgs (fn : OVal) (args : List OVal) (kind : Callee) : List OVal :=
  (if kind = .viaCall then [fn] else []) ++ args

theorem calleeArgs_append (l : List OVal) (fn : OVal) (args : List OVal) (kind : Callee) :
    calleeArgs (l ++ fn :: args) args.length kind = handlerArgs fn args kind := by
  unfold calleeArgs StackSpec.calleeArgs handlerArgs
  rw [fnSlot_append, argsOf_append]
  cases kind <;> rfl

/-- **the handler-call sequence** `Push(fn); Push(a)…; Call(len(args), 1); ret := reg.Pop()`. -/
theorem callHandler_contract {s : St} (hw : WF s) (fn : OVal) (args : List OVal) (kind : Callee) (body : GFunction)
    (hb : ∀ s1 c, CalleeEntry s1 args.length kind c → BodyOKAt body c) :
    (∀ s' x, callHandler s fn args kind body = .ok (s', x) →
      abs s' = abs s ∧ callerPrefix s' = callerPrefix s ∧ WF s' ∧ s'.base = s.base ∧
      ∃ c c' n, abs c = handlerArgs fn args kind ∧ body c = .ok (c', n) ∧
        x = .val ((StackSpec.topMost (abs c') n.toNat).headD none)) ∧
    (∀ e, callHandler s fn args kind body = .error e →
      e = overflow ∨ (kind = .none ∧ e = notCallable) ∨
      ∃ c, abs c = handlerArgs fn args kind ∧ body c = .error e) := by
  obtain ⟨hp1, hp2⟩ := run_pushes (fn :: args) hw
  unfold callHandler
  cases hr : run s ((fn :: args).map .push) with
  | error e0 =>
    simp only [bind_err]
    exact ⟨fun s' x e => (by cases e), fun e he => (by cases he; exact Or.inl (hp2 _ hr))⟩
  | ok s1 =>
    simp only [bind_ok]
    obtain ⟨a1, b1, w1, d1⟩ := hp1 s1 hr
    have hna : args.length + 1 ≤ (abs s1).length := by
      rw [a1]; simp only [List.length_append, List.length_cons]; omega
    obtain ⟨hok, herr⟩ := callRHost_contract w1 args.length hna 1 (by omega) kind body (hb s1)
    cases hc : callRHost s1 (args.length : Int) 1 kind body with
    | error e0 =>
      simp only [bind_err]
      refine ⟨fun s' x e => (by cases e), fun e he => ?_⟩
      cases he
      rcases herr _ hc with h | h | ⟨c, hce, hbe⟩
      · exact Or.inl h
      · exact Or.inr (Or.inl h)
      · exact Or.inr (Or.inr ⟨c, by rw [hce.args, a1, calleeArgs_append], hbe⟩)
    | ok s2 =>
      simp only [bind_ok]
      obtain ⟨c, c', n, hce, hbd, hn0, hnl, a2, b2, w2, d2⟩ := hok s2 hc
      -- the caller's list is now `l ++ [first result]`
      have hlist : abs s2 = abs s ++ [(StackSpec.topMost (abs c') n.toNat).headD none] := by
        rw [a2, a1]
        unfold StackSpec.call
        rw [adjust_one]
        have : (abs s ++ fn :: args).length - args.length - 1 = (abs s).length := by
          simp only [List.length_append, List.length_cons]; omega
        rw [this, List.take_left']
        rfl
      have hlen2 := abs_length s2 w2.top_le
      have hl2 : (abs s2).length = (abs s).length + 1 := by rw [hlist]; simp
      obtain ⟨x, r, hpop, a3, b3, w3⟩ := pop_one w2 (by omega)
      rw [hpop]
      simp only [bind_ok]
      obtain ⟨x', r', hpop', hx, _, _, _⟩ := regPop_ok w2.top_le (by omega : 0 < s2.reg.top)
      rw [hpop] at hpop'
      cases hpop'
      have hlast : (abs s2)[(abs s).length]? = some ((StackSpec.topMost (abs c') n.toNat).headD none) := by
        rw [hlist, List.getElem?_append_right (Nat.le_refl _)]
        simp
      obtain ⟨hslot, _⟩ := abs_get w2 hlast
      rw [show s2.base + (abs s).length = s2.reg.top - 1 by omega, hx] at hslot
      constructor
      · intro s' y e
        cases e
        refine ⟨?_, by rw [b3, b2, b1], w3, by show s2.base = s.base; rw [d2, d1], c, c', n,
          by rw [hce.args, a1, calleeArgs_append], hbd, by cases hslot; rfl⟩
        rw [a3, hl2, hlist]
        simp
      · intro e he
        cases he

/-- **the `Concat` bracket** `top := reg.Top(); Push…; inner; reg.SetTop(top)`: when the inner activity (reads and
    handler calls, each of which restores the list by `callHandler_contract`) leaves the list as it found it, the
    caller's list afterwards is exactly the list before, whatever was pushed. -/
theorem concatFrame_restores {s : St} (hw : WF s) (values : List OVal) (inner : St → Except Err St)
    (hin : ∀ s1, WF s1 → ∀ s2, inner s1 = .ok s2 →
      abs s2 = abs s1 ∧ callerPrefix s2 = callerPrefix s1 ∧ WF s2 ∧ s2.base = s1.base) :
    (∀ s', concatFrame s values inner = .ok s' →
      abs s' = abs s ∧ callerPrefix s' = callerPrefix s ∧ WF s' ∧ s'.base = s.base) ∧
    (∀ e, concatFrame s values inner = .error e → e = overflow ∨ ∃ s1, WF s1 ∧ inner s1 = .error e) := by
  have hlen := abs_length s hw.top_le
  have hbl := hw.base_le
  obtain ⟨hp1, hp2⟩ := run_pushes values hw
  unfold concatFrame
  by_cases hv : values.isEmpty = true
  · rw [if_pos hv]
    exact ⟨fun s' e => (by cases e; exact ⟨rfl, rfl, hw, rfl⟩), fun e he => (by cases he)⟩
  rw [if_neg hv]
  cases hr : run s (values.map .push) with
  | error e0 =>
    simp only [bind_err]
    exact ⟨fun s' e => (by cases e), fun e he => (by cases he; exact Or.inl (hp2 _ hr))⟩
  | ok s1 =>
    simp only [bind_ok]
    obtain ⟨a1, b1, w1, d1⟩ := hp1 s1 hr
    cases hi : inner s1 with
    | error e0 =>
      simp only [bind_err]
      exact ⟨fun s' e => (by cases e), fun e he => (by cases he; exact Or.inr ⟨s1, w1, hi⟩)⟩
    | ok s2 =>
      simp only [bind_ok]
      obtain ⟨a2, b2, w2, d2⟩ := hin s1 w1 s2 hi
      have hrs := refines_of_regSetTop w2 (abs s).length (t := (s.reg.top : Int)) (by rw [d2, d1]; omega)
      have hres : StackSpec.resize (abs s2) (abs s).length = abs s := by
        rw [a2, a1]
        unfold StackSpec.resize
        rw [List.take_left']
        · simp
        · rfl
      rw [hres] at hrs
      constructor
      · intro s' e
        obtain ⟨a, b, w, d⟩ := hrs.1 s' e
        exact ⟨a, by rw [b, b2, b1], w, by rw [d, d2, d1]⟩
      · intro e he
        exact Or.inl (hrs.2 e he)

end GLua.ApiStack
