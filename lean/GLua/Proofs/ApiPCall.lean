/-
  C10, protected calls seen through the Go API's value stack: the list view (`Get(1) … Get(GetTop())`) of the
  protected-call protocol model of C05 (Model/PCall.lean) and what a failed `PCall` leaves of it.
-/
import GLua.Proofs.PCall
import GLua.Proofs.PCallStep

namespace GLua.PCall

/-- the value stack of the running activation as the Go API shows it: registers `LocalBase … top-1`. -/
def apiList (s : St) : List V := (List.range (s.top - s.localBase)).map (fun j => s.regs (s.localBase + j))

theorem apiList_length (s : St) : (apiList s).length = s.top - s.localBase := by
  simp [apiList]

theorem apiList_getElem? (s : St) (j : Nat) :
    (apiList s)[j]? = if j < s.top - s.localBase then some (s.regs (s.localBase + j)) else none := by
  by_cases h : j < s.top - s.localBase
  · rw [if_pos h, List.getElem?_eq_getElem (by rw [apiList_length]; exact h)]
    simp [apiList]
  · rw [if_neg h, List.getElem?_eq_none (by rw [apiList_length]; omega)]

theorem localBase_congr (s s' : St) (hf : s'.frames = s.frames) (hc : s'.cur = s.cur) :
    s'.localBase = s.localBase := by
  unfold St.localBase St.curFrame
  rw [hf, hc]

/-- a protected call can only be entered with function and arguments on the caller's own list. -/
theorem entry_room (s s0 : St) (nargs : Nat) (h : Option (V × Bool)) (e : Op) (he : IsEntry nargs h e)
    (h0 : step fixedCfg s e = .ok s0) : s.localBase + nargs + 1 ≤ s.top := by
  rcases he with ⟨isG, rfl⟩ | ⟨k, rfl⟩
  · simp only [step] at h0
    split at h0
    · assumption
    · cases h0
  · simp only [step] at h0
    split at h0
    · assumption
    · cases h0

theorem pcall_failed_list_main (s s0 s1 s2 : St) (hinv : Inv s) (nargs : Nat) (h : Option (V × Bool)) (e : Op)
    (ops : List Op) (last : Op) (he : IsEntry nargs h e)
    (h0 : step fixedCfg s e = .ok s0) (hd0 : s0.pstack.length = s.pstack.length + 1)
    (h1 : runAbove fixedCfg (s.pstack.length + 1) s0 ops = some s1)
    (h2 : step fixedCfg s1 last = .ok s2) (hfail : isSuccessExit last = false)
    (hout : s2.pstack.length ≤ s.pstack.length)
    (hno : ∀ o ∈ ops, noUpvalStore o = true) :
    s2.localBase = s.localBase ∧
    apiList s2 = (apiList s).take ((apiList s).length - nargs - 1) ∧
    (∀ i, i < s.localBase → s2.regs i = s.regs i) := by
  obtain ⟨hfr, hcur, htop, _, _, _, _, hregs, _⟩ :=
    pcall_restores_main s s0 s1 s2 hinv nargs h e ops last he h0 hd0 h1 h2 hfail hout
  have hcr := caller_registers_main s s0 s1 hinv nargs h e ops he h0 hd0 h1 hno
  have hroom := entry_room s s0 nargs h e he h0
  have hlb := localBase_congr s s2 hfr hcur
  have hr : ∀ i, i < s.top - nargs - 1 → s2.regs i = s.regs i := fun i hi => by rw [hregs i hi, hcr i hi]
  refine ⟨hlb, ?_, fun i hi => hr i (by omega)⟩
  apply List.ext_getElem?
  intro j
  rw [List.getElem?_take, apiList_getElem?, apiList_getElem?, apiList_length, hlb, htop]
  by_cases hj : j < s.top - s.localBase - nargs - 1
  · rw [if_pos (by omega), if_pos hj, if_pos (by omega), hr _ (by omega)]
  · rw [if_neg (by omega), if_neg hj]

/-! ### the finer frame condition: inner activity of ANY kind — stores through upvalues included — changes a register
  below the call window only if that register is an open upvalue of the caller's at the time of the call -/

/-- every open upvalue of `s'` is one of `s` or lies at or above `b`. -/
def UvSub (b : Nat) (s' s : St) : Prop := ∀ u ∈ s'.uvs, u ∈ s.uvs ∨ b ≤ u

theorem uvSub_of_eq {b : Nat} {s' s : St} (h : s'.uvs = s.uvs) : UvSub b s' s :=
  fun _ hu => Or.inl (h ▸ hu)

theorem mem_closeUpvalues (l : List Nat) (i u : Nat) (h : u ∈ closeUpvalues l i) : u ∈ l := by
  unfold closeUpvalues at h
  induction l with
  | nil => simp at h
  | cons x xs ih =>
    by_cases hx : x < i
    · simp only [List.takeWhile_cons, hx, decide_true, ↓reduceIte, List.mem_cons] at h
      rcases h with rfl | h
      · simp
      · exact List.mem_cons_of_mem _ (ih h)
    · simp [hx] at h

theorem mem_findUpvalue (l : List Nat) (i u : Nat) (h : u ∈ findUpvalue l i) : u ∈ l ∨ u = i := by
  induction l with
  | nil =>
    simp only [findUpvalue, List.mem_singleton] at h
    exact Or.inr h
  | cons x xs ih =>
    simp only [findUpvalue] at h
    split at h
    · exact Or.inl h
    · split at h
      · simp only [List.mem_cons] at h
        rcases h with rfl | h
        · exact Or.inr rfl
        · exact Or.inl (by simpa using h)
      · simp only [List.mem_cons] at h
        rcases h with rfl | h
        · exact Or.inl (by simp)
        · rcases ih h with h | h
          · exact Or.inl (List.mem_cons_of_mem _ h)
          · exact Or.inr h

theorem step_uvsub {R : PRec} {F : List Frame} {U : List Nat} {rest : List PRec} (s s' : St) (o : Op)
    (hinv : Inv s) (hin : Inside R F U rest s) (h : step fixedCfg s o = .ok s') : UvSub R.base s' s := by
  have hf := inside_facts s hinv hin
  have raiseCase : ∀ (t : St) (r0 : PRec) (rest0 : List PRec) (k : RaiseKind), t.uvs = s.uvs → t.pstack = r0 :: rest0 →
      raiseIn fixedCfg t k = .ok s' → UvSub R.base s' s := by
    intro t r0 rest0 k ht hp hk
    obtain ⟨s2, h2, ho⟩ := raiseIn_out t r0 rest0 k hp
    rw [h2] at hk; cases hk
    cases ho with
    | exit hfr hcur htop huv hps hpf hhef hregs hlog =>
      intro u hu
      rw [huv, ht] at hu
      exact Or.inl (mem_closeUpvalues _ _ _ hu)
    | handler f hfr hcur hbase htop huv hps hhef hni hsome hregs hlog =>
      intro u hu
      rw [huv, ht] at hu
      exact Or.inl hu
  have raiseHere : ∀ k, raiseIn fixedCfg s k = .ok s' → UvSub R.base s' s := by
    intro k hk
    cases hp : s.pstack with
    | nil => exact absurd hp (raiseIn_ok_nonempty s s' k hk)
    | cons r0 rest0 => exact raiseCase s r0 rest0 k rfl hp hk
  have popCase : ∀ (s1 : St) (n : Nat), popFrame s n = some s1 → ∀ u ∈ s1.uvs, u ∈ s.uvs := by
    intro s1 n hpop u hu
    obtain ⟨f, _, _, _, _, _, _, _, _, _, huv, _⟩ := popFrame_out s s1 n hpop
    rw [huv] at hu
    split at hu
    · exact hu
    · exact mem_closeUpvalues _ _ _ hu
  cases o with
  | push v =>
    simp only [step] at h
    split at h
    · exact raiseHere _ h
    · cases h; exact uvSub_of_eq rfl
  | setTop n =>
    simp only [step] at h
    split at h
    · cases h
    · cases h; exact uvSub_of_eq rfl
  | setReg off v =>
    simp only [step] at h
    split at h
    · cases h
    · cases h; exact uvSub_of_eq rfl
  | setUpval j v =>
    simp only [step] at h
    split at h
    · cases h; exact uvSub_of_eq rfl
    · cases h
  | openUpval off =>
    simp only [step] at h
    split at h
    · cases h
      intro u hu
      have hu' : u ∈ findUpvalue s.uvs (s.localBase + off) := hu
      rcases mem_findUpvalue _ _ _ hu' with h1 | h1
      · exact Or.inl h1
      · exact Or.inr (by omega)
    · cases h
  | closeUpvals off =>
    simp only [step] at h
    cases h
    intro u hu
    exact Or.inl (mem_closeUpvalues _ _ _ hu)
  | setLine n =>
    simp only [step] at h
    split at h
    · cases h; exact uvSub_of_eq rfl
    · cases h
  | call isG nargs =>
    simp only [step] at h
    split at h
    · cases h; exact uvSub_of_eq rfl
    · cases h
  | ret n =>
    simp only [step] at h
    split at h
    · split at h
      · rename_i s1 hpop
        cases h
        exact fun u hu => Or.inl (popCase _ n hpop u hu)
      · cases h
    · cases h
  | enter nargs hh isG =>
    simp only [step] at h
    split at h
    · cases h; exact uvSub_of_eq rfl
    · cases h
  | enterFail nargs hh k =>
    simp only [step] at h
    split at h
    · exact raiseCase (prologue s nargs hh)
        { sp := s.sp, base := s.top - nargs - 1, oldPanic := s.panicFn, errfunc := hh } s.pstack k rfl rfl h
    · cases h
  | retLeave n =>
    simp only [step] at h
    split at h
    · split at h
      · cases h
      · split at h
        · cases h
        · rename_i s1 hpop
          cases h
          intro u hu
          have hu' : u ∈ s1.uvs := hu
          exact Or.inl (popCase _ n hpop u hu')
    · cases h
  | raise k => exact raiseHere k h
  | retHandler =>
    simp only [step] at h
    split at h
    · rename_i r0 rest0 hp
      split at h
      · cases h
      · split at h
        · cases h
        · rename_i s1 hpop
          cases h
          intro u hu
          have hu' : u ∈ closeUpvalues s1.uvs r0.base := hu
          exact Or.inl (popCase _ 1 hpop u (mem_closeUpvalues _ _ _ hu'))
    · cases h

/-- one step of inner activity: a register below the call window that is not an open upvalue keeps its value. -/
theorem step_regs_below_uv {R : PRec} {F : List Frame} {U : List Nat} {rest : List PRec} (s s' : St) (o : Op)
    (hinv : Inv s) (hin : Inside R F U rest s) (h : step fixedCfg s o = .ok s')
    (hd : s'.pstack.length ≥ rest.length + 1) :
    ∀ i, i < R.base → i ∉ s.uvs → s'.regs i = s.regs i := by
  intro i hi hni
  by_cases hno : noUpvalStore o = true
  · exact step_regs_below s s' o hinv hin h hd hno i hi
  · cases o with
    | setUpval j v =>
      simp only [step] at h
      split at h
      · rename_i i' hj
        cases h
        show (if i = i' then v else s.regs i) = s.regs i
        have hne : i ≠ i' := by
          intro heq
          subst heq
          exact hni (List.mem_of_getElem? hj)
        rw [if_neg hne]
      · cases h
    | _ => simp [noUpvalStore] at hno

theorem runAbove_regs_below_uv {R : PRec} {F : List Frame} {U : List Nat} {rest : List PRec} (U0 : List Nat)
    (ops : List Op) (s s' : St) (hinv : Inv s) (hin : Inside R F U rest s)
    (hu0 : ∀ u ∈ s.uvs, u < R.base → u ∈ U0)
    (h : runAbove fixedCfg (rest.length + 1) s ops = some s') :
    ∀ i, i < R.base → i ∉ U0 → s'.regs i = s.regs i := by
  induction ops generalizing s with
  | nil => simp [runAbove] at h; subst h; intro i _ _; rfl
  | cons o os ih =>
    simp only [runAbove] at h
    split at h
    · rename_i s1 hs1
      split at h
      · cases h
      · rename_i hlen
        intro i hi hni
        have h1 := step_regs_below_uv s s1 o hinv hin hs1 (by omega) i hi
          (fun hm => hni (hu0 i hm hi))
        have hsub := step_uvsub s s1 o hinv hin hs1
        have h2 := ih s1 (step_inv s s1 o hinv hs1) (step_inside s s1 o hinv hin hs1 (by omega))
          (fun u hu hub => by
            rcases hsub u hu with h3 | h3
            · exact hu0 u h3 hub
            · omega) h i hi hni
        rw [h2, h1]
    · cases h

/-- the entry of a protected call changes neither the registers below its window nor the open upvalues. -/
theorem entry_keeps (s s0 : St) (nargs : Nat) (h : Option (V × Bool)) (e : Op) (he : IsEntry nargs h e)
    (h0 : step fixedCfg s e = .ok s0) (hd0 : s0.pstack.length = s.pstack.length + 1) :
    (∀ i, i < s.top - nargs - 1 → s0.regs i = s.regs i) ∧ s0.uvs = s.uvs := by
  rcases he with ⟨isG, rfl⟩ | ⟨k, rfl⟩
  · simp only [step] at h0
    split at h0
    · cases h0; exact ⟨fun i _ => rfl, rfl⟩
    · cases h0
  · simp only [step] at h0
    split at h0
    · obtain ⟨s3, h3, ho⟩ := raiseIn_out (prologue s nargs h)
        { sp := s.sp, base := s.top - nargs - 1, oldPanic := s.panicFn, errfunc := h } s.pstack k rfl
      rw [h3] at h0; cases h0
      cases ho with
      | exit hfr hcur htop huv hps hpf hhef hregs hlog => rw [hps] at hd0; omega
      | handler f hfr hcur hbase htop huv hps hhef hni hsome hregs hlog =>
        exact ⟨fun i hi => hregs i (by simp only [prologue]; omega), huv⟩
    · cases h0

theorem caller_registers_uv_main (s s0 s1 : St) (hinv : Inv s) (nargs : Nat) (h : Option (V × Bool)) (e : Op)
    (ops : List Op) (he : IsEntry nargs h e)
    (h0 : step fixedCfg s e = .ok s0) (hd0 : s0.pstack.length = s.pstack.length + 1)
    (h1 : runAbove fixedCfg (s.pstack.length + 1) s0 ops = some s1) :
    ∀ i, i < s.top - nargs - 1 → i ∉ s.uvs → s1.regs i = s.regs i := by
  have hinv0 := step_inv s s0 e hinv h0
  have hin0 := entry_inside s s0 hinv nargs h e he h0 hd0
  obtain ⟨hr0, hu0⟩ := entry_keeps s s0 nargs h e he h0 hd0
  intro i hi hni
  have h2 := runAbove_regs_below_uv s.uvs ops s0 s1 hinv0 hin0 (fun u hu _ => hu0 ▸ hu) h1 i hi hni
  rw [h2, hr0 i hi]

/-- **the list after a failed protected call, any inner activity** (upvalue stores included). -/
theorem pcall_failed_list_uv_main (s s0 s1 s2 : St) (hinv : Inv s) (nargs : Nat) (h : Option (V × Bool)) (e : Op)
    (ops : List Op) (last : Op) (he : IsEntry nargs h e)
    (h0 : step fixedCfg s e = .ok s0) (hd0 : s0.pstack.length = s.pstack.length + 1)
    (h1 : runAbove fixedCfg (s.pstack.length + 1) s0 ops = some s1)
    (h2 : step fixedCfg s1 last = .ok s2) (hfail : isSuccessExit last = false)
    (hout : s2.pstack.length ≤ s.pstack.length)
    (hnu : ∀ u ∈ s.uvs, u < s.localBase ∨ s.top - nargs - 1 ≤ u) :
    s2.localBase = s.localBase ∧
    apiList s2 = (apiList s).take ((apiList s).length - nargs - 1) ∧
    (∀ i, i < s.localBase → i ∉ s.uvs → s2.regs i = s.regs i) := by
  obtain ⟨hfr, hcur, htop, _, _, _, _, hregs, _⟩ :=
    pcall_restores_main s s0 s1 s2 hinv nargs h e ops last he h0 hd0 h1 h2 hfail hout
  have hcr := caller_registers_uv_main s s0 s1 hinv nargs h e ops he h0 hd0 h1
  have hroom := entry_room s s0 nargs h e he h0
  have hlb := localBase_congr s s2 hfr hcur
  have hr : ∀ i, i < s.top - nargs - 1 → i ∉ s.uvs → s2.regs i = s.regs i :=
    fun i hi hni => by rw [hregs i hi, hcr i hi hni]
  refine ⟨hlb, ?_, fun i hi hni => hr i (by omega) hni⟩
  apply List.ext_getElem?
  intro j
  rw [List.getElem?_take, apiList_getElem?, apiList_getElem?, apiList_length, hlb, htop]
  by_cases hj : j < s.top - s.localBase - nargs - 1
  · rw [if_pos (by omega), if_pos hj, if_pos (by omega)]
    rw [hr _ (by omega) (fun hm => by rcases hnu _ hm with h3 | h3 <;> omega)]
  · rw [if_neg (by omega), if_neg hj]

/-- what the Go API shows after a run: the list of the current activation and the number of protected calls still open. -/
def Res.view? : Res → Option (List V × Nat)
  | .ok s => some (apiList s, s.pstack.length)
  | _ => none

end GLua.PCall
