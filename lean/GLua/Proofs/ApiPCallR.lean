/-
  C10: a protected call that fails somewhere inside — after the callee was entered, after any number of nested
  activations pushed values and called on, after the innermost pushed partial results, whatever a handler left —
  composed with the deferred function of `PCall` (registry level: capacity, growth, Go nil slots, exact SetTop).
-/
import GLua.Proofs.ApiObj

namespace GLua.ApiStack
open GLua

/-- an activation inside the protected call: well-formed, its base above the call base `B` (the function slot), and
    every slot up to and including `B` as the caller `s` had it. -/
structure Keeps (B : Nat) (s c : St) : Prop where
  wf : WF c
  above : B + 1 ≤ c.base
  below : ∀ j, j < B + 1 → c.reg.array[j]? = s.reg.array[j]?

theorem keeps_pushes {B : Nat} {s c c1 : St} (hk : Keeps B s c) (vs : List OVal)
    (h : run c (vs.map .push) = .ok c1) : Keeps B s c1 ∧ abs c1 = abs c ++ vs := by
  obtain ⟨a, b, w, d⟩ := (run_pushes vs hk.wf).1 c1 h
  have := hk.above
  exact ⟨⟨w, by rw [d]; exact hk.above,
    fun j hj => by rw [prefix_get b d j (by rw [d]; omega)]; exact hk.below j hj⟩, a⟩

/-- the length of the list the next activation starts with. -/
def fitNext (lv : Level) : Nat := lv.nargs + (if lv.kind = .viaCall then 1 else 0)

/-- every level calls with function and arguments on its OWN list (`n` = length of the current activation's list). -/
def levelsFit : Nat → List Level → Bool
  | _, [] => true
  | n, lv :: rest => decide (lv.nargs + 1 ≤ n + lv.pushed.length) && levelsFit (fitNext lv) rest

theorem calleeArgs_length (l : List OVal) (nargs : Nat) (kind : Callee) (h : nargs + 1 ≤ l.length) :
    (calleeArgs l nargs kind).length = nargs + (if kind = .viaCall then 1 else 0) := by
  unfold calleeArgs StackSpec.calleeArgs StackSpec.argsOf
  cases kind <;> simp <;> omega

theorem keeps_enter {B : Nat} {s c1 c2 : St} (hk : Keeps B s c1) (nargs : Nat) (kind : Callee)
    (hna : nargs + 1 ≤ (abs c1).length) (f : Slot)
    (hf : regGet c1.reg ((c1.reg.top : Int) - (nargs : Int) - 1) = .ok f)
    (h : pushCallFrameG c1 nargs kind f = .ok c2) :
    Keeps B s c2 ∧ (abs c2).length = nargs + (if kind = .viaCall then 1 else 0) := by
  have hlen := abs_length c1 hk.wf.top_le
  have hbl := hk.wf.base_le
  have hab := hk.above
  have hget : regGet c1.reg ((c1.reg.top : Int) - (nargs : Int) - 1) = .ok (.val (fnSlot (abs c1) nargs)) :=
    regGet_val hk.wf (i := (abs c1).length - nargs - 1) (by omega) (by omega)
  rw [hget] at hf
  cases hf
  have hce := (pushCallFrameG_entry hk.wf nargs hna kind).1 c2 h
  refine ⟨⟨hce.wf, by rw [hce.base]; omega, fun j hj => ?_⟩, ?_⟩
  · rw [hce.below j (by omega)]
    exact hk.below j hj
  · rw [hce.args]
    exact calleeArgs_length _ _ _ hna

theorem enter_err {c1 : St} (hw : WF c1) (nargs : Nat) (kind : Callee) (hna : nargs + 1 ≤ (abs c1).length)
    (f : Slot) (hf : regGet c1.reg ((c1.reg.top : Int) - (nargs : Int) - 1) = .ok f) (e : Err)
    (h : pushCallFrameG c1 nargs kind f = .error e) : e = overflow ∨ e = notCallable := by
  have hlen := abs_length c1 hw.top_le
  have hbl := hw.base_le
  have hget : regGet c1.reg ((c1.reg.top : Int) - (nargs : Int) - 1) = .ok (.val (fnSlot (abs c1) nargs)) :=
    regGet_val hw (i := (abs c1).length - nargs - 1) (by omega) (by omega)
  rw [hget] at hf
  cases hf
  rcases (pushCallFrameG_entry hw nargs hna kind).2 e h with h1 | ⟨_, h1⟩
  · exact Or.inl h1
  · exact Or.inr h1

theorem regGet_fn {c1 : St} (hw : WF c1) (nargs : Nat) (hna : nargs + 1 ≤ (abs c1).length) :
    ∃ f, regGet c1.reg ((c1.reg.top : Int) - (nargs : Int) - 1) = .ok f := by
  have hlen := abs_length c1 hw.top_le
  have hbl := hw.base_le
  exact ⟨_, regGet_val hw (i := (abs c1).length - nargs - 1) (by omega) (by omega)⟩

theorem keeps_descend : ∀ (levels : List Level) {B : Nat} {s c : St} (n : Nat), Keeps B s c → (abs c).length = n →
    levelsFit n levels = true →
    (∀ ci, descend c levels = .ok ci → Keeps B s ci) ∧
    (∀ e, descend c levels = .error e → e = overflow ∨ e = notCallable)
  | [], B, s, c, n, hk, _, _ => by
    simp only [descend]
    exact ⟨fun ci e => (by cases e; exact hk), fun e he => (by cases he)⟩
  | lv :: rest, B, s, c, n, hk, hn, hfit => by
    simp only [levelsFit, Bool.and_eq_true, decide_eq_true_eq] at hfit
    obtain ⟨hfit1, hfit2⟩ := hfit
    simp only [descend]
    cases hr : run c (lv.pushed.map .push) with
    | error e0 =>
      simp only [bind_err]
      exact ⟨fun ci e => (by cases e),
        fun e he => (by cases he; exact Or.inl ((run_pushes lv.pushed hk.wf).2 _ hr))⟩
    | ok c1 =>
      simp only [bind_ok]
      obtain ⟨hk1, ha1⟩ := keeps_pushes hk lv.pushed hr
      have hna : lv.nargs + 1 ≤ (abs c1).length := by rw [ha1, List.length_append, hn]; exact hfit1
      obtain ⟨f, hf⟩ := regGet_fn hk1.wf lv.nargs hna
      rw [hf]
      simp only [bind_ok]
      cases hp : pushCallFrameG c1 lv.nargs lv.kind f with
      | error e0 =>
        simp only [bind_err]
        exact ⟨fun ci e => (by cases e), fun e he => (by cases he; exact enter_err hk1.wf lv.nargs lv.kind hna f hf _ hp)⟩
      | ok c2 =>
        simp only [bind_ok]
        obtain ⟨hk2, hl2⟩ := keeps_enter hk1 lv.nargs lv.kind hna f hf hp
        exact keeps_descend rest (fitNext lv) hk2 hl2 hfit2

/-- **PCall, composed with a failure anywhere inside.** -/
theorem pcallFailAt_contract {s : St} (hw : WF s) (nargs : Nat) (hna : nargs + 1 ≤ (abs s).length) (kind : Callee)
    (levels : List Level) (hfit : levelsFit (nargs + (if kind = .viaCall then 1 else 0)) levels = true)
    (last : List OVal) (msg : OVal) (hjunk : List OVal) (path : RecoverPath) :
    (∀ s', pcallFailAt s nargs kind levels last msg hjunk path = .ok s' →
      abs s' = StackSpec.callFailed (abs s) nargs ∧ callerPrefix s' = callerPrefix s ∧ WF s' ∧ s'.base = s.base) ∧
    (∀ e, pcallFailAt s nargs kind levels last msg hjunk path = .error e → e = overflow ∨ e = notCallable) := by
  have hlen := abs_length s hw.top_le
  have hbl := hw.base_le
  have hget : regGet s.reg ((s.reg.top : Int) - (nargs : Int) - 1) = .ok (.val (fnSlot (abs s) nargs)) :=
    regGet_val hw (i := (abs s).length - nargs - 1) (by omega) (by omega)
  obtain ⟨hent, henterr⟩ := pushCallFrameG_entry hw nargs hna kind
  unfold pcallFailAt
  simp only [hget, bind_ok]
  cases hp : pushCallFrameG s nargs kind (.val (fnSlot (abs s) nargs)) with
  | error e0 =>
    simp only [bind_err]
    refine ⟨fun s' e => (by cases e), fun e he => ?_⟩
    cases he
    rcases henterr _ hp with h | ⟨_, h⟩
    · exact Or.inl h
    · exact Or.inr h
  | ok c =>
    simp only [bind_ok]
    have hce := hent c hp
    have hk : Keeps (s.reg.top - nargs - 1) s c :=
      ⟨hce.wf, by rw [hce.base]; omega, fun j hj => hce.below j (by omega)⟩
    have hcl : (abs c).length = nargs + (if kind = .viaCall then 1 else 0) := by
      rw [hce.args]; exact calleeArgs_length _ _ _ hna
    obtain ⟨hd1, hd2⟩ := keeps_descend levels _ hk hcl hfit
    cases hd : descend c levels with
    | error e0 =>
      simp only [bind_err]
      exact ⟨fun s' e => (by cases e), fun e he => (by cases he; exact hd2 _ hd)⟩
    | ok ci =>
      simp only [bind_ok]
      have hki := hd1 ci hd
      cases hr : run ci (last.map .push) with
      | error e0 =>
        simp only [bind_err]
        exact ⟨fun s' e => (by cases e), fun e he => (by cases he; exact Or.inl ((run_pushes last hki.wf).2 _ hr))⟩
      | ok cf =>
        simp only [bind_ok]
        obtain ⟨hkf, _⟩ := keeps_pushes hki last hr
        cases hpm : push cf msg with
        | error e0 =>
          simp only [bind_err]
          exact ⟨fun s' e => (by cases e), fun e he => (by cases he; exact Or.inl ((push_refines hkf.wf msg).2 _ hpm))⟩
        | ok ce =>
          simp only [bind_ok]
          obtain ⟨_, b, w, d⟩ := (push_refines hkf.wf msg).1 ce hpm
          have hfa := hkf.above
          have hke : Keeps (s.reg.top - nargs - 1) s ce :=
            ⟨w, by rw [d]; exact hkf.above,
             fun j hj => by rw [prefix_get b d j (by rw [d]; omega)]; exact hkf.below j hj⟩
          have hkeb := hke.wf.base_le
          have hkea := hke.above
          have hkh0 : Keeps (s.reg.top - nargs - 1) s { ce with base := ce.reg.top } :=
            ⟨⟨Nat.le_refl _, hke.wf.top_le, fun j h1 h2 => by
                have h1' : ce.reg.top ≤ j := h1
                have h2' : j < ce.reg.top := h2
                omega⟩,
             by show s.reg.top - nargs - 1 + 1 ≤ ce.reg.top; omega, hke.below⟩
          cases hh : run { ce with base := ce.reg.top } (hjunk.map .push) with
          | error e0 =>
            simp only [bind_err]
            exact ⟨fun s' e => (by cases e),
              fun e he => (by cases he; exact Or.inl ((run_pushes hjunk hkh0.wf).2 _ hh))⟩
          | ok ch =>
            simp only [bind_ok]
            obtain ⟨hkh, _⟩ := keeps_pushes hkh0 hjunk hh
            rw [pcallDeferred_eq_recover]
            have hkhb := hkh.wf.base_le
            have hkha := hkh.above
            have := pcallRecover_contract hw nargs hna ch.reg hkh.wf.top_le
              (fun j hj => hkh.below j (by omega)) (by omega)
            exact ⟨this.1, fun e he => Or.inl (this.2 e he)⟩

end GLua.ApiStack
