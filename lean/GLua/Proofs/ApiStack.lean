/-
  Lemmas for C10: the registry primitives of Model/ApiStack.lean in pointwise form
  (`array[j]?` after the operation in terms of `array[·]?` before), then the stack API.
-/
import GLua.Model.ApiStack
import GLua.Spec.StackSpec

namespace GLua.ApiStack
open GLua

theorem bind_ok {α β : Type} (a : α) (f : α → Except Err β) : (Except.ok a >>= f) = f a := rfl
theorem bind_err {α β : Type} (e : Err) (f : α → Except Err β) : (Except.error e >>= f) = .error e := rfl

/-! ### registry primitives -/

theorem checkSize_ok {r r' : Reg} {n : Int} (h : r.top ≤ r.array.length) (e : checkSize r n = .ok r') :
    r'.top = r.top ∧ r.array.length ≤ r'.array.length ∧ n ≤ r'.array.length ∧
    ∀ j, j < r.top → r'.array[j]? = r.array[j]? := by
  unfold checkSize at e
  split at e
  · rename_i hn
    unfold resize at e
    split at e
    · cases e
    · rename_i hns
      unfold forceResize at e
      split at e
      · omega
      · cases e
        generalize resizeTarget r n.toNat = m at hns
        simp only [List.length_append, List.length_take, List.length_replicate]
        refine ⟨trivial, by omega, by omega, ?_⟩
        intro j hj
        rw [List.getElem?_append_left, List.getElem?_take]
        · split
          · rfl
          · omega
        · simp only [List.length_take]; omega
  · cases e
    exact ⟨rfl, Nat.le_refl _, by omega, fun _ _ => rfl⟩

theorem checkSize_err {r : Reg} {n : Int} {e : Err} (h : r.top ≤ r.array.length)
    (he : checkSize r n = .error e) : e = overflow := by
  unfold checkSize at he
  split at he
  · unfold resize at he
    split at he
    · cases he; rfl
    · unfold forceResize at he
      split at he
      · omega
      · cases he
  · cases he

theorem regGet_ok {r : Reg} {i : Int} {x : Slot} (e : regGet r i = .ok x) :
    0 ≤ i ∧ i < r.array.length ∧ r.array[i.toNat]? = some x := by
  unfold regGet at e
  split at e
  · cases e
  · rename_i h
    cases e
    refine ⟨by omega, by omega, ?_⟩
    rw [List.getD_eq_getElem?_getD]
    have : i.toNat < r.array.length := by omega
    simp [List.getElem?_eq_getElem this]

theorem regGet_noPanic {r : Reg} {i : Int} (h0 : 0 ≤ i) (h1 : i < r.array.length) :
    ∃ x, regGet r i = .ok x := by
  unfold regGet
  split
  · omega
  · exact ⟨_, rfl⟩

theorem regSet_ok {r r' : Reg} {i : Int} {v : Slot} (h : r.top ≤ r.array.length) (h0 : 0 ≤ i)
    (e : regSet r i v = .ok r') :
    r'.top = (if i.toNat ≥ r.top then i.toNat + 1 else r.top) ∧ r'.top ≤ r'.array.length ∧
    r.array.length ≤ r'.array.length ∧
    r'.array[i.toNat]? = some v ∧ ∀ j, j ≠ i.toNat → j < r.top → r'.array[j]? = r.array[j]? := by
  unfold regSet at e
  cases hc : checkSize r (i + 1) with
  | error err => simp [hc, bind, Except.bind] at e
  | ok r1 =>
    obtain ⟨ht, hl, hn, hp⟩ := checkSize_ok h hc
    simp only [hc, bind, Except.bind] at e
    split at e
    · cases e
    · rename_i hb
      cases e
      simp only [List.length_set, ht]
      refine ⟨trivial, by split <;> omega, hl, ?_, ?_⟩
      · rw [List.getElem?_set]; simp; omega
      · intro j hj hjt
        rw [List.getElem?_set]
        split
        · omega
        · exact hp j hjt

theorem regSet_err {r : Reg} {i : Int} {v : Slot} {err : Err} (h : r.top ≤ r.array.length) (h0 : 0 ≤ i)
    (e : regSet r i v = .error err) : err = overflow := by
  unfold regSet at e
  cases hc : checkSize r (i + 1) with
  | error err' =>
    simp only [hc, bind, Except.bind] at e
    cases e
    exact checkSize_err h hc
  | ok r1 =>
    obtain ⟨ht, hl, hn, hp⟩ := checkSize_ok h hc
    simp only [hc, bind, Except.bind] at e
    split at e
    · omega
    · cases e

theorem fillRange_getElem? (l : List Slot) (lo hi : Nat) (x : Slot) (j : Nat) :
    (fillRange l lo hi x)[j]? = (l[j]?).map (fun s => if lo ≤ j ∧ j < hi then x else s) := by
  unfold fillRange
  rw [List.getElem?_mapIdx]

theorem fillRange_length (l : List Slot) (lo hi : Nat) (x : Slot) : (fillRange l lo hi x).length = l.length := by
  unfold fillRange; rw [List.length_mapIdx]

theorem regSetTop_ok {r r' : Reg} {t : Int} (h : r.top ≤ r.array.length) (e : regSetTop r t = .ok r') :
    0 ≤ t ∧ r'.top = t.toNat ∧ r'.top ≤ r'.array.length ∧ r.array.length ≤ r'.array.length ∧
    (∀ j, j < r.top → j < t.toNat → r'.array[j]? = r.array[j]?) ∧
    (∀ j, r.top ≤ j → j < t.toNat → r'.array[j]? = some (.val none)) := by
  unfold regSetTop at e
  cases hc : checkSize r t with
  | error err => simp [hc, bind, Except.bind] at e
  | ok r1 =>
    obtain ⟨ht, hl, hn, hp⟩ := checkSize_ok h hc
    simp only [hc, bind, Except.bind] at e
    split at e
    · cases e
    · split at e
      · cases e
      · cases e
        simp only [fillRange_length, ht]
        refine ⟨by omega, trivial, by omega, hl, ?_, ?_⟩
        · intro j hj hjt
          rw [fillRange_getElem?, fillRange_getElem?, hp j hj]
          have hj' : j < r.array.length := by omega
          obtain ⟨x, hx⟩ : ∃ x, r.array[j]? = some x := ⟨_, List.getElem?_eq_getElem hj'⟩
          rw [hx]; simp only [Option.map_some]
          rw [if_neg (by omega), if_neg (by omega)]
        · intro j hj hjt
          rw [fillRange_getElem?, fillRange_getElem?]
          have hj' : j < r1.array.length := by omega
          obtain ⟨x, hx⟩ : ∃ x, r1.array[j]? = some x := ⟨_, List.getElem?_eq_getElem hj'⟩
          rw [hx]; simp only [Option.map_some]
          rw [if_neg (by omega), if_pos (by omega)]

theorem regSetTop_err {r : Reg} {t : Int} {err : Err} (h : r.top ≤ r.array.length) (h0 : 0 ≤ t)
    (e : regSetTop r t = .error err) : err = overflow := by
  unfold regSetTop at e
  cases hc : checkSize r t with
  | error err' =>
    simp only [hc, bind, Except.bind] at e
    cases e
    exact checkSize_err h hc
  | ok r1 =>
    obtain ⟨ht, hl, hn, hp⟩ := checkSize_ok h hc
    simp only [hc, bind, Except.bind] at e
    split at e
    · omega
    · split at e
      · omega
      · cases e

theorem regPush_ok {r r' : Reg} {v : OVal} (h : r.top ≤ r.array.length) (e : regPush r v = .ok r') :
    r'.top = r.top + 1 ∧ r'.top ≤ r'.array.length ∧ r.array.length ≤ r'.array.length ∧
    r'.array[r.top]? = some (.val v) ∧ ∀ j, j < r.top → r'.array[j]? = r.array[j]? := by
  unfold regPush at e
  cases hc : checkSize r (r.top + 1) with
  | error err => simp [hc, bind, Except.bind] at e
  | ok r1 =>
    obtain ⟨ht, hl, hn, hp⟩ := checkSize_ok h hc
    simp only [hc, bind, Except.bind] at e
    split at e
    · cases e
    · cases e
      simp only [List.length_set, ht]
      refine ⟨trivial, by omega, hl, ?_, ?_⟩
      · rw [List.getElem?_set]; simp; omega
      · intro j hj
        rw [List.getElem?_set]
        split
        · omega
        · exact hp j hj

theorem regPush_err {r : Reg} {v : OVal} {err : Err} (h : r.top ≤ r.array.length)
    (e : regPush r v = .error err) : err = overflow := by
  unfold regPush at e
  cases hc : checkSize r (r.top + 1) with
  | error err' =>
    simp only [hc, bind, Except.bind] at e
    cases e
    exact checkSize_err h hc
  | ok r1 =>
    obtain ⟨ht, hl, hn, hp⟩ := checkSize_ok h hc
    simp only [hc, bind, Except.bind] at e
    split at e
    · omega
    · cases e

theorem regPop_ok {r : Reg} (h : r.top ≤ r.array.length) (h0 : 0 < r.top) :
    ∃ x r', regPop r = .ok (x, r') ∧ r.array[r.top - 1]? = some x ∧ r'.top = r.top - 1 ∧
      r'.array.length = r.array.length ∧ ∀ j, j < r.top - 1 → r'.array[j]? = r.array[j]? := by
  unfold regPop
  split
  · omega
  · refine ⟨_, _, rfl, ?_, rfl, by simp, ?_⟩
    · rw [List.getD_eq_getElem?_getD]
      have : r.top - 1 < r.array.length := by omega
      simp [List.getElem?_eq_getElem this]
    · intro j hj
      simp only
      rw [List.getElem?_set]
      split
      · omega
      · rfl

/-! ### the two shifting loops -/

theorem insertLoop_ok (reg : Nat) : ∀ (k : Nat) (r r' : Reg), r.top ≤ r.array.length → reg + k ≤ r.top →
    insertLoop r reg k = .ok r' →
    r'.top ≤ r'.array.length ∧ r.array.length ≤ r'.array.length ∧
    r'.top = (if k = 0 then r.top else max r.top (reg + k + 1)) ∧
    ∀ j, (j < r.top ∨ j ≤ reg + k) → r'.array[j]? = if reg < j ∧ j ≤ reg + k then r.array[j - 1]? else r.array[j]?
  | 0, r, r', h, _, e => by
    simp only [insertLoop] at e
    cases e
    refine ⟨h, Nat.le_refl _, by simp, ?_⟩
    intro j _
    have : ¬ (reg < j ∧ j ≤ reg + 0) := by omega
    rw [if_neg this]
  | k + 1, r, r', h, hk, e => by
    simp only [insertLoop] at e
    cases hg : regGet r ((reg + k : Nat) : Int) with
    | error err => rw [hg, bind_err] at e; cases e
    | ok v =>
      obtain ⟨_, _, hv⟩ := regGet_ok hg
      rw [hg, bind_ok] at e
      cases hs : regSet r ((reg + k + 1 : Nat) : Int) v with
      | error err => rw [hs, bind_err] at e; cases e
      | ok r1 =>
        rw [hs, bind_ok] at e
        obtain ⟨ht1, hl1, hlen1, hat1, hp1⟩ := regSet_ok h (by omega) hs
        simp only [Int.toNat_natCast] at ht1 hat1 hp1 hv
        have ht1' : r1.top = max r.top (reg + k + 2) := by
          rw [ht1]; split <;> omega
        obtain ⟨hl', hlen', ht', hp'⟩ := insertLoop_ok reg k r1 r' hl1 (by omega) e
        refine ⟨hl', by omega, ?_, ?_⟩
        · rw [ht']; simp only [Nat.succ_ne_zero, if_false]
          split <;> omega
        · intro j hj
          rw [hp' j (by omega)]
          by_cases hc1 : reg < j ∧ j ≤ reg + k
          · have hc2 : reg < j ∧ j ≤ reg + (k + 1) := by omega
            rw [if_pos hc1, if_pos hc2]
            exact hp1 (j - 1) (by omega) (by omega)
          · rw [if_neg hc1]
            by_cases hj2 : j = reg + k + 1
            · subst hj2
              have hc2 : reg < reg + k + 1 ∧ reg + k + 1 ≤ reg + (k + 1) := by omega
              rw [if_pos hc2, hat1]
              simp only [Nat.add_sub_cancel]
              exact hv.symm
            · have hc2 : ¬ (reg < j ∧ j ≤ reg + (k + 1)) := by omega
              rw [if_neg hc2]
              exact hp1 j hj2 (by omega)

theorem insertLoop_err (reg : Nat) : ∀ (k : Nat) (r : Reg) (err : Err), r.top ≤ r.array.length → reg + k ≤ r.top →
    insertLoop r reg k = .error err → err = overflow
  | 0, r, err, _, _, e => by simp [insertLoop] at e
  | k + 1, r, err, h, hk, e => by
    simp only [insertLoop] at e
    obtain ⟨v, hg⟩ := regGet_noPanic (r := r) (i := ((reg + k : Nat) : Int)) (by omega) (by omega)
    rw [hg, bind_ok] at e
    cases hs : regSet r ((reg + k + 1 : Nat) : Int) v with
    | error err' =>
      rw [hs, bind_err] at e
      cases e
      exact regSet_err h (by omega) hs
    | ok r1 =>
      rw [hs, bind_ok] at e
      obtain ⟨ht1, hl1, hlen1, hat1, hp1⟩ := regSet_ok h (by omega) hs
      simp only [Int.toNat_natCast] at ht1
      exact insertLoop_err reg k r1 err hl1 (by rw [ht1]; split <;> omega) e

theorem removeLoop_ok : ∀ (k i : Nat) (r r' : Reg), r.top ≤ r.array.length → i + k + 1 ≤ r.top →
    removeLoop r i k = .ok r' →
    r'.top = r.top ∧ r'.top ≤ r'.array.length ∧ r.array.length ≤ r'.array.length ∧
    ∀ j, j < r.top → r'.array[j]? = if i ≤ j ∧ j < i + k then r.array[j + 1]? else r.array[j]?
  | 0, i, r, r', h, _, e => by
    simp only [removeLoop] at e
    cases e
    refine ⟨rfl, h, Nat.le_refl _, ?_⟩
    intro j _
    have : ¬ (i ≤ j ∧ j < i + 0) := by omega
    rw [if_neg this]
  | k + 1, i, r, r', h, hk, e => by
    simp only [removeLoop] at e
    cases hg : regGet r ((i + 1 : Nat) : Int) with
    | error err => rw [hg, bind_err] at e; cases e
    | ok v =>
      obtain ⟨_, _, hv⟩ := regGet_ok hg
      rw [hg, bind_ok] at e
      cases hs : regSet r (i : Int) v with
      | error err => rw [hs, bind_err] at e; cases e
      | ok r1 =>
        rw [hs, bind_ok] at e
        obtain ⟨ht1, hl1, hlen1, hat1, hp1⟩ := regSet_ok h (by omega) hs
        simp only [Int.toNat_natCast] at ht1 hat1 hp1 hv
        have ht1' : r1.top = r.top := by rw [ht1]; split <;> omega
        obtain ⟨ht', hl', hlen', hp'⟩ := removeLoop_ok k (i + 1) r1 r' hl1 (by omega) e
        refine ⟨by omega, hl', by omega, ?_⟩
        intro j hj
        rw [hp' j (by omega)]
        by_cases hc1 : i + 1 ≤ j ∧ j < i + 1 + k
        · have hc2 : i ≤ j ∧ j < i + (k + 1) := by omega
          rw [if_pos hc1, if_pos hc2]
          exact hp1 (j + 1) (by omega) (by omega)
        · rw [if_neg hc1]
          by_cases hj2 : j = i
          · subst hj2
            have hc2 : j ≤ j ∧ j < j + (k + 1) := by omega
            rw [if_pos hc2, hat1]
            exact hv.symm
          · have hc2 : ¬ (i ≤ j ∧ j < i + (k + 1)) := by omega
            rw [if_neg hc2]
            exact hp1 j hj2 hj

theorem removeLoop_err : ∀ (k i : Nat) (r : Reg) (err : Err), r.top ≤ r.array.length → i + k + 1 ≤ r.top →
    removeLoop r i k = .error err → err = overflow
  | 0, i, r, err, _, _, e => by simp [removeLoop] at e
  | k + 1, i, r, err, h, hk, e => by
    simp only [removeLoop] at e
    obtain ⟨v, hg⟩ := regGet_noPanic (r := r) (i := ((i + 1 : Nat) : Int)) (by omega) (by omega)
    rw [hg, bind_ok] at e
    cases hs : regSet r (i : Int) v with
    | error err' =>
      rw [hs, bind_err] at e
      cases e
      exact regSet_err h (by omega) hs
    | ok r1 =>
      rw [hs, bind_ok] at e
      obtain ⟨ht1, hl1, hlen1, hat1, hp1⟩ := regSet_ok h (by omega) hs
      simp only [Int.toNat_natCast] at ht1
      exact removeLoop_err k (i + 1) r1 err hl1 (by rw [ht1]; split <;> omega) e

end GLua.ApiStack
