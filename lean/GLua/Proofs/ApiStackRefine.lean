/-
  C10: the stack API of Model/ApiStack.lean refines the list Spec (Spec/StackSpec.lean), with the frame
  condition (caller prefix unchanged) and preservation of well-formedness.
-/
import GLua.Proofs.ApiStack

namespace GLua.ApiStack
open GLua

/-- the activation's private list exists: `base ≤ top ≤ cap` and the slots base..top-1 hold LValues. -/
structure WF (s : St) : Prop where
  base_le : s.base ≤ s.reg.top
  top_le : s.reg.top ≤ s.reg.array.length
  vals : ∀ j, s.base ≤ j → j < s.reg.top → ∃ v, s.reg.array[j]? = some (.val v)

/-- abstraction: the list of the current activation (slots base..top-1). -/
def abs (s : St) : List OVal := ((s.reg.array.take s.reg.top).drop s.base).map Slot.toOVal

/-- everything that belongs to callers: the slots below base. -/
def callerPrefix (s : St) : List Slot := s.reg.array.take s.base

theorem abs_getElem? (s : St) (j : Nat) :
    (abs s)[j]? = if s.base + j < s.reg.top then (s.reg.array[s.base + j]?).map Slot.toOVal else none := by
  unfold abs
  rw [List.getElem?_map, List.getElem?_drop, List.getElem?_take]
  split <;> simp

theorem abs_length (s : St) (h : s.reg.top ≤ s.reg.array.length) : (abs s).length = s.reg.top - s.base := by
  unfold abs
  simp only [List.length_map, List.length_drop, List.length_take]
  omega

theorem abs_get {s : St} (hw : WF s) {i : Nat} {v : OVal} (h : (abs s)[i]? = some v) :
    s.reg.array[s.base + i]? = some (.val v) ∧ s.base + i < s.reg.top := by
  rw [abs_getElem?] at h
  split at h
  · rename_i hlt
    obtain ⟨w, hw'⟩ := hw.vals (s.base + i) (by omega) hlt
    rw [hw'] at h
    simp only [Option.map_some, Slot.toOVal, Option.some.injEq] at h
    subst h
    exact ⟨hw', hlt⟩
  · cases h

theorem abs_get_lt {s : St} (hw : WF s) {i : Nat} (h : s.base + i < s.reg.top) :
    ∃ v, (abs s)[i]? = some v ∧ s.reg.array[s.base + i]? = some (.val v) := by
  obtain ⟨w, hw'⟩ := hw.vals (s.base + i) (by omega) h
  refine ⟨w, ?_, hw'⟩
  rw [abs_getElem?, if_pos h, hw']
  rfl

/-- the workhorse: a successor state whose slots are described pointwise refines the list `l'`. -/
theorem refine_of_pointwise {s s' : St} {l' : List OVal} (hb : s'.base = s.base)
    (hcap : s'.reg.top ≤ s'.reg.array.length)
    (hframe : ∀ j, j < s.base → s'.reg.array[j]? = s.reg.array[j]?)
    (hlen : s'.reg.top = s.base + l'.length)
    (hvals : ∀ j v, l'[j]? = some v → s'.reg.array[s.base + j]? = some (.val v)) :
    abs s' = l' ∧ callerPrefix s' = callerPrefix s ∧ WF s' := by
  refine ⟨?_, ?_, ?_⟩
  · apply List.ext_getElem?
    intro j
    rw [abs_getElem?, hb]
    by_cases hj : j < l'.length
    · rw [if_pos (by omega)]
      have : l'[j]? = some l'[j] := List.getElem?_eq_getElem hj
      rw [hvals j _ this, this]
      rfl
    · rw [if_neg (by omega)]
      exact (List.getElem?_eq_none (by omega)).symm
  · unfold callerPrefix
    apply List.ext_getElem?
    intro j
    rw [List.getElem?_take, List.getElem?_take, hb]
    split
    · exact hframe j (by assumption)
    · rfl
  · refine ⟨by omega, hcap, ?_⟩
    intro j hj1 hj2
    rw [hb] at hj1
    have hj : j - s.base < l'.length := by omega
    have : l'[j - s.base]? = some l'[j - s.base] := List.getElem?_eq_getElem hj
    have := hvals _ _ this
    rw [show s.base + (j - s.base) = j by omega] at this
    exact ⟨_, this⟩

/-- outcome classes: an operation either succeeds or ends in the registry-overflow Lua error; never a Go panic. -/
def OkOrOverflow {α : Type} (x : Except Err α) : Prop := (∃ a, x = .ok a) ∨ x = .error overflow

/-! ### Push -/

theorem push_refines {s : St} (hw : WF s) (v : OVal) :
    (∀ s', push s v = .ok s' → abs s' = StackSpec.push (abs s) v ∧ callerPrefix s' = callerPrefix s ∧ WF s' ∧ s'.base = s.base) ∧
    (∀ e, push s v = .error e → e = overflow) := by
  constructor
  · intro s' e
    unfold push at e
    cases hp : regPush s.reg v with
    | error err => rw [hp, bind_err] at e; cases e
    | ok r =>
      rw [hp, bind_ok] at e
      cases e
      obtain ⟨ht, hl, hlen, hat, hpt⟩ := regPush_ok hw.top_le hp
      have hb : ({ s with reg := r } : St).base = s.base := rfl
      have := refine_of_pointwise (s := s) (s' := { s with reg := r }) (l' := StackSpec.push (abs s) v) hb hl
        (fun j hj => hpt j (by have := hw.base_le; omega))
        (by simp only [StackSpec.push, List.length_append, List.length_singleton, abs_length s hw.top_le, ht]
            have := hw.base_le; omega)
        (by
          intro j w hj
          simp only [StackSpec.push] at hj
          rw [List.getElem?_append] at hj
          split at hj
          · obtain ⟨h1, h2⟩ := abs_get hw hj
            show r.array[s.base + j]? = _
            rw [hpt _ h2]; exact h1
          · rename_i hjl
            rw [abs_length s hw.top_le] at hjl hj
            have hj0 : j - (s.reg.top - s.base) = 0 := by
              by_cases h0 : j - (s.reg.top - s.base) = 0
              · exact h0
              · rw [List.getElem?_eq_none (by simp; omega)] at hj; cases hj
            rw [hj0] at hj
            simp only [List.getElem?_cons_zero, Option.some.injEq] at hj
            subst hj
            show r.array[s.base + j]? = _
            have := hw.base_le
            rw [show s.base + j = s.reg.top by omega]
            exact hat)
      exact ⟨this.1, this.2.1, this.2.2, rfl⟩
  · intro e he
    unfold push at he
    cases hp : regPush s.reg v with
    | error err =>
      rw [hp, bind_err] at he
      cases he
      exact regPush_err hw.top_le hp
    | ok r => rw [hp, bind_ok] at he; cases he

/-! ### index resolution of the Spec -/

theorem resolve_pos {l : List OVal} {idx : Int} (h1 : 1 ≤ idx) (h2 : idx ≤ l.length) :
    StackSpec.resolve l idx = some (idx - 1).toNat := by
  unfold StackSpec.resolve; rw [if_pos ⟨h1, h2⟩]

theorem resolve_neg {l : List OVal} {idx : Int} (h1 : idx ≤ -1) (h2 : -(l.length : Int) ≤ idx) :
    StackSpec.resolve l idx = some (l.length + idx).toNat := by
  unfold StackSpec.resolve; rw [if_neg (by omega), if_pos ⟨h1, h2⟩]

theorem resolve_none {l : List OVal} {idx : Int} (h : idx = 0 ∨ idx > l.length ∨ idx < -(l.length : Int)) :
    StackSpec.resolve l idx = none := by
  unfold StackSpec.resolve; rw [if_neg (by omega), if_neg (by omega)]

/-- the index arithmetic `base + idx - 1` of a positive index does not leave the range of a Go `int`
    (it does for `idx > MaxInt64 - base + 1`: then the register number wraps around to a negative one). -/
def IdxOK (base : Nat) (idx : Int) : Prop := idx > 0 → (base : Int) + idx - 1 ≤ maxInt

/-- … for the index an operation hands to `indexToReg` (SetTop / Insert / Remove; none for Push / Pop; none for
    Replace — like Get it compares before it adds, since the repair of C10-index-int-overflow). -/
def OpIdxOK (base : Nat) : StackOp → Prop
  | .setTop i => IdxOK base i
  | .insert _ i => IdxOK base i
  | .remove i => IdxOK base i
  | _ => True

theorem wrapInt_id {x : Int} (h0 : 0 ≤ x) (h1 : x ≤ maxInt) : wrapInt x = x := by
  unfold wrapInt
  unfold maxInt at h1
  omega

theorem idxOK_nonpos (base : Nat) {idx : Int} (h : idx ≤ 0) : IdxOK base idx := fun h' => by omega

theorem regGet_val {s : St} (hw : WF s) {i : Nat} (h : s.base + i < s.reg.top) {reg : Int}
    (hr : reg = (s.base : Int) + i) :
    regGet s.reg reg = .ok (.val ((abs s).getD i none)) := by
  obtain ⟨v, h1, h2⟩ := abs_get_lt hw h
  have := hw.top_le
  unfold regGet
  rw [if_neg (by omega)]
  rw [List.getD_eq_getElem?_getD, List.getD_eq_getElem?_getD, h1]
  rw [show reg.toNat = s.base + i by omega, h2]
  rfl

/-! ### Get: reads inside the list give the element, reads outside give nil -/

theorem get_refines {s : St} (hw : WF s) (idx : Int) (hidx : Generated.RegistryIndex < idx) :
    get s idx = .ok (.val (StackSpec.get (abs s) idx)) := by
  have hlen := abs_length s hw.top_le
  have hbl := hw.base_le
  unfold get currentLocalBase StackSpec.get
  by_cases h1 : idx > 0
  · rw [if_pos h1]
    by_cases h2 : idx ≤ (s.reg.top : Int) - s.base
    · rw [if_pos h2, resolve_pos (by omega) (by omega)]
      exact regGet_val hw (by omega) (by omega)
    · rw [if_neg h2, resolve_none (by omega)]
  · rw [if_neg h1]
    by_cases h0 : idx = 0
    · rw [if_pos h0, resolve_none (by omega)]
    · rw [if_neg h0, if_pos hidx]
      by_cases h2 : (s.reg.top : Int) + idx < s.base
      · rw [if_pos h2, resolve_none (by omega)]
      · rw [if_neg h2, resolve_neg (by omega) (by omega)]
        exact regGet_val hw (by omega) (by omega)

/-! ### Replace -/

theorem regSet_refines {s : St} (hw : WF s) {p : Nat} (hp : p < (abs s).length) (v : OVal) {reg : Int}
    (hr : reg = (s.base : Int) + p) :
    (∀ r, regSet s.reg reg (.val v) = .ok r →
      abs { s with reg := r } = (abs s).set p v ∧ callerPrefix { s with reg := r } = callerPrefix s ∧
      WF { s with reg := r }) ∧
    (∀ e, regSet s.reg reg (.val v) = .error e → e = overflow) := by
  have hlen := abs_length s hw.top_le
  have hbl := hw.base_le
  constructor
  · intro r e
    obtain ⟨ht, hl, hlen', hat, hpt⟩ := regSet_ok hw.top_le (by omega) e
    have hrn : reg.toNat = s.base + p := by omega
    rw [hrn] at ht hat hpt
    rw [if_neg (by omega)] at ht
    exact refine_of_pointwise (s := s) (s' := { s with reg := r }) rfl hl
      (fun j hj => hpt j (by omega) (by omega))
      (by simp only [List.length_set]; show r.top = _; omega)
      (by
        intro j w hj
        show r.array[s.base + j]? = _
        rw [List.getElem?_set] at hj
        split at hj
        · rename_i hpj
          subst hpj
          first
            | (rw [if_pos hp] at hj; cases hj; exact hat)
            | (cases hj; exact hat)
        · obtain ⟨h1, h2⟩ := abs_get hw hj
          rw [hpt _ (by omega) h2]; exact h1)
  · intro e he
    exact regSet_err hw.top_le (by omega) he

/-- shape of every refinement statement: success refines `spec`, keeps the caller prefix, the base and
    well-formedness; the only possible error is the registry-overflow Lua error (never a Go panic). -/
def Refines (s : St) (res : Except Err St) (spec : List OVal) : Prop :=
  (∀ s', res = .ok s' → abs s' = spec ∧ callerPrefix s' = callerPrefix s ∧ WF s' ∧ s'.base = s.base) ∧
  (∀ e, res = .error e → e = overflow)

theorem refines_ok_self {s : St} (hw : WF s) : Refines s (.ok s) (abs s) :=
  ⟨fun s' e => by cases e; exact ⟨rfl, rfl, hw, rfl⟩, fun e he => by cases he⟩

theorem refines_of_regSet {s : St} (hw : WF s) {p : Nat} (hp : p < (abs s).length) (v : OVal) {reg : Int}
    (hr : reg = (s.base : Int) + p) :
    Refines s (do let r ← regSet s.reg reg (.val v); .ok { s with reg := r }) ((abs s).set p v) := by
  obtain ⟨h1, h2⟩ := regSet_refines hw hp v hr
  constructor
  · intro s' e
    cases hs : regSet s.reg reg (.val v) with
    | error err => rw [hs, bind_err] at e; cases e
    | ok r =>
      rw [hs, bind_ok] at e
      cases e
      obtain ⟨a, b, c⟩ := h1 r hs
      exact ⟨a, b, c, rfl⟩
  · intro e he
    cases hs : regSet s.reg reg (.val v) with
    | error err => rw [hs, bind_err] at he; cases he; exact h2 _ hs
    | ok r => rw [hs, bind_ok] at he; cases he

theorem replace_refines {s : St} (hw : WF s) (idx : Int) (v : OVal) (hidx : Generated.RegistryIndex < idx) :
    Refines s (replace s idx v) (StackSpec.replace (abs s) idx v) := by
  have hlen := abs_length s hw.top_le
  have hbl := hw.base_le
  unfold replace currentLocalBase StackSpec.replace
  by_cases h1 : idx > 0
  · rw [if_pos h1]
    by_cases h2 : idx ≤ (s.reg.top : Int) - s.base
    · rw [if_pos h2, resolve_pos (by omega) (by omega)]
      exact refines_of_regSet hw (by omega) v (by omega)
    · rw [if_neg h2, resolve_none (by omega)]
      exact refines_ok_self hw
  · rw [if_neg h1]
    by_cases h0 : idx = 0
    · rw [if_pos h0, resolve_none (by omega)]
      exact refines_ok_self hw
    · rw [if_neg h0, if_pos hidx]
      by_cases h2 : (s.reg.top : Int) + idx ≥ s.base
      · rw [if_pos h2, resolve_neg (by omega) (by omega)]
        exact refines_of_regSet hw (by omega) v (by omega)
      · rw [if_neg h2, resolve_none (by omega)]
        exact refines_ok_self hw

/-! ### index translation -/

theorem indexToReg_cases {s : St} (hw : WF s) (idx : Int) (hok : IdxOK s.base idx) :
    (∃ p : Nat, StackSpec.resolve (abs s) idx = some p ∧ p < (abs s).length ∧ indexToReg s idx = (s.base : Int) + p ∧
        (idx > 0 → (p : Int) = idx - 1) ∧ (idx < 0 → (p : Int) = (abs s).length + idx)) ∨
    (StackSpec.resolve (abs s) idx = none ∧
      ((idx > (abs s).length ∧ indexToReg s idx = (s.base : Int) + idx - 1) ∨
       ((idx = 0 ∨ idx < -((abs s).length : Int)) ∧ indexToReg s idx = -1))) := by
  have hlen := abs_length s hw.top_le
  have hbl := hw.base_le
  unfold indexToReg currentLocalBase
  by_cases h1 : idx > 0
  · rw [if_pos h1]
    simp only [wrapInt_id (x := (s.base : Int) + idx - 1) (by omega) (hok h1)]
    by_cases h2 : idx ≤ (abs s).length
    · left
      exact ⟨(idx - 1).toNat, resolve_pos (by omega) h2, by omega, by omega, by omega, by omega⟩
    · right
      exact ⟨resolve_none (by omega), Or.inl ⟨by omega, by first | rfl | trivial | omega⟩⟩
  · rw [if_neg h1]
    by_cases h0 : idx = 0
    · rw [if_pos h0]
      right
      exact ⟨resolve_none (by omega), Or.inr ⟨by omega, by first | rfl | trivial | omega⟩⟩
    · rw [if_neg h0]
      by_cases h2 : (s.reg.top : Int) + idx < s.base
      · simp only [h2, if_true]
        right
        exact ⟨resolve_none (by omega), Or.inr ⟨by omega, by first | rfl | trivial | omega⟩⟩
      · simp only [h2, if_false]
        left
        exact ⟨((abs s).length + idx).toNat, resolve_neg (by omega) (by omega), by omega, by omega, by omega, by omega⟩

/-! ### SetTop -/

theorem resize_length (l : List OVal) (n : Nat) : (StackSpec.resize l n).length = n := by
  unfold StackSpec.resize
  simp only [List.length_append, List.length_take, List.length_replicate]
  omega

theorem refines_of_regSetTop {s : St} (hw : WF s) (n' : Nat) {t : Int} (ht : t = (s.base : Int) + n') :
    Refines s (do let r ← regSetTop s.reg t; .ok { s with reg := r }) (StackSpec.resize (abs s) n') := by
  have hlen := abs_length s hw.top_le
  have hbl := hw.base_le
  constructor
  · intro s' e
    cases hs : regSetTop s.reg t with
    | error err => rw [hs, bind_err] at e; cases e
    | ok r =>
      rw [hs, bind_ok] at e
      cases e
      obtain ⟨h0, htop, hl, hlen', hsame, hnil⟩ := regSetTop_ok hw.top_le hs
      have htn : t.toNat = s.base + n' := by omega
      rw [htn] at htop hsame hnil
      have := refine_of_pointwise (s := s) (s' := { s with reg := r }) (l' := StackSpec.resize (abs s) n') rfl hl
        (fun j hj => hsame j (by omega) (by omega))
        (by rw [resize_length]; exact htop)
        (by
          intro j w hj
          show r.array[s.base + j]? = _
          unfold StackSpec.resize at hj
          rw [List.getElem?_append] at hj
          simp only [List.length_take] at hj
          split at hj
          · rename_i hjl
            rw [List.getElem?_take] at hj
            rw [if_pos (by omega)] at hj
            obtain ⟨h1, h2⟩ := abs_get hw hj
            rw [hsame _ h2 (by omega)]; exact h1
          · rename_i hjl
            rw [List.getElem?_replicate] at hj
            split at hj
            · cases hj
              exact hnil _ (by omega) (by omega)
            · cases hj)
      exact ⟨this.1, this.2.1, this.2.2, rfl⟩
  · intro e he
    cases hs : regSetTop s.reg t with
    | error err => rw [hs, bind_err] at he; cases he; exact regSetTop_err hw.top_le (by omega) hs
    | ok r => rw [hs, bind_ok] at he; cases he

theorem setTop_refines {s : St} (hw : WF s) (idx : Int) (hok : IdxOK s.base idx) :
    Refines s (setTop s idx) (StackSpec.setTop (abs s) idx) := by
  have hlen := abs_length s hw.top_le
  have hbl := hw.base_le
  unfold setTop currentLocalBase StackSpec.setTop
  rcases indexToReg_cases hw idx hok with ⟨p, _, hp, hreg, hpos, hneg⟩ | ⟨_, ⟨hbig, hreg⟩ | ⟨hlow, hreg⟩⟩
  · -- a valid index
    rw [hreg, if_neg (by omega)]
    by_cases h1 : idx > 0
    · rw [if_pos (by omega)]
      have := hpos h1
      exact refines_of_regSetTop hw idx.toNat (by omega)
    · have h2 : idx < 0 := by
        rcases Int.lt_trichotomy idx 0 with h | h | h
        · exact h
        · subst h
          have : StackSpec.resolve (abs s) 0 = none := resolve_none (Or.inl rfl)
          simp_all
        · omega
      have := hneg h2
      rw [if_neg (by omega)]
      exact refines_of_regSetTop hw ((abs s).length + idx + 1).toNat (by omega)
  · rw [hreg, if_neg (by omega), if_pos (by omega)]
    exact refines_of_regSetTop hw idx.toNat (by omega)
  · rw [hreg]
    have hz : ((if (0 : Int) ≤ idx then StackSpec.resize (abs s) idx.toNat
        else StackSpec.resize (abs s) ((abs s).length + idx + 1).toNat) : List OVal) = StackSpec.resize (abs s) 0 := by
      rcases hlow with h | h
      · subst h; rfl
      · rw [if_neg (by omega)]
        rw [show ((abs s).length + idx + 1 : Int).toNat = 0 by omega]
    rw [hz]
    by_cases hb : (-1 + 1 : Int) < s.base
    · rw [if_pos hb]
      exact refines_of_regSetTop hw 0 (by omega)
    · rw [if_neg hb]
      exact refines_of_regSetTop hw 0 (by omega)

/-! ### Pop -/

theorem pop_one {s : St} (hw : WF s) (h : s.base < s.reg.top) :
    ∃ x r, regPop s.reg = .ok (x, r) ∧ abs { s with reg := r } = (abs s).take ((abs s).length - 1) ∧
      callerPrefix { s with reg := r } = callerPrefix s ∧ WF { s with reg := r } := by
  have hlen := abs_length s hw.top_le
  obtain ⟨x, r, hp, _, htop, hl, hsame⟩ := regPop_ok hw.top_le (by omega)
  refine ⟨x, r, hp, ?_⟩
  exact refine_of_pointwise (s := s) (s' := { s with reg := r }) rfl (by show r.top ≤ r.array.length; have := hw.top_le; omega)
    (fun j hj => hsame j (by omega))
    (by simp only [List.length_take]; show r.top = _; omega)
    (by
      intro j w hj
      show r.array[s.base + j]? = _
      rw [List.getElem?_take] at hj
      split at hj
      · obtain ⟨h1, h2⟩ := abs_get hw hj
        rw [hsame _ (by omega)]; exact h1
      · cases hj)

theorem pop_refines : ∀ (n : Nat) {s : St}, WF s →
    (n ≤ (abs s).length → Refines s (pop s n) ((abs s).take ((abs s).length - n)) ∧ ∃ s', pop s n = .ok s') ∧
    ((abs s).length < n → pop s n = .error underflow)
  | 0, s, hw => by
    refine ⟨fun _ => ⟨?_, s, rfl⟩, fun h => by omega⟩
    simp only [pop, Nat.sub_zero, List.take_length]
    exact refines_ok_self hw
  | n + 1, s, hw => by
    have hlen := abs_length s hw.top_le
    have hbl := hw.base_le
    simp only [pop]
    have hgt : getTop s = (s.reg.top : Int) - s.base := rfl
    by_cases h0 : getTop s = 0
    · rw [if_pos h0]
      exact ⟨fun h => by omega, fun _ => rfl⟩
    · rw [if_neg h0]
      obtain ⟨x, r, hp, habs, hpre, hw1⟩ := pop_one hw (by omega)
      rw [hp, bind_ok]
      simp only
      have ih := pop_refines n hw1
      have hlen1 : (abs { s with reg := r }).length = (abs s).length - 1 := by
        rw [habs, List.length_take]; omega
      constructor
      · intro hn
        obtain ⟨⟨ih1, ih2⟩, s', hs'⟩ := ih.1 (by omega)
        refine ⟨⟨?_, ?_⟩, s', hs'⟩
        · intro s'' e
          obtain ⟨a, b, c, d⟩ := ih1 s'' e
          refine ⟨?_, by rw [b, hpre], c, d⟩
          rw [a, hlen1, habs, List.take_take]
          congr 1
          omega
        · exact ih2
      · intro hn
        exact ih.2 (by omega)

/-! ### Remove -/

theorem eraseIdx_last (l : List OVal) : l.eraseIdx (l.length - 1) = l.take (l.length - 1) := by
  apply List.ext_getElem?
  intro j
  rw [List.getElem?_eraseIdx, List.getElem?_take]
  split
  · rfl
  · exact List.getElem?_eq_none (by omega)

theorem remove_refines {s : St} (hw : WF s) (idx : Int) (hok : IdxOK s.base idx) :
    Refines s (remove s idx) (StackSpec.remove (abs s) idx) := by
  have hlen := abs_length s hw.top_le
  have hbl := hw.base_le
  unfold remove currentLocalBase StackSpec.remove
  rcases indexToReg_cases hw idx hok with ⟨p, hres, hp, hreg, _, _⟩ | ⟨hres, ⟨hbig, hreg⟩ | ⟨hlow, hreg⟩⟩
  · rw [hreg, hres]
    simp only
    rw [if_neg (by omega), if_neg (by omega)]
    by_cases hlast : (s.base : Int) + p = (s.reg.top : Int) - 1
    · rw [if_pos hlast]
      have hpl : p = (abs s).length - 1 := by omega
      rw [hpl, eraseIdx_last]
      exact ((pop_refines 1 hw).1 (by omega)).1
    · rw [if_neg hlast]
      have hrn : ((s.base : Int) + p).toNat = s.base + p := by omega
      rw [hrn]
      constructor
      · intro s' e
        cases hl : removeLoop s.reg (s.base + p) (s.reg.top - 1 - (s.base + p)) with
        | error err => rw [hl, bind_err] at e; cases e
        | ok r1 =>
          rw [hl, bind_ok] at e
          obtain ⟨ht1, hl1, hlen1, hp1⟩ := removeLoop_ok _ _ _ _ hw.top_le (by omega) hl
          cases hs : regSetTop r1 ((s.reg.top : Int) - 1) with
          | error err => rw [hs, bind_err] at e; cases e
          | ok r2 =>
            rw [hs, bind_ok] at e
            cases e
            obtain ⟨_, ht2, hl2, hlen2, hsame2, _⟩ := regSetTop_ok hl1 hs
            have htn : ((s.reg.top : Int) - 1).toNat = s.reg.top - 1 := by omega
            rw [htn] at ht2 hsame2
            have := refine_of_pointwise (s := s) (s' := { s with reg := r2 }) (l' := (abs s).eraseIdx p) rfl hl2
              (fun j hj => by
                show r2.array[j]? = _
                rw [hsame2 j (by omega) (by omega), hp1 j (by omega), if_neg (by omega)])
              (by rw [List.length_eraseIdx, if_pos hp]; show r2.top = _; omega)
              (by
                intro j w hj
                show r2.array[s.base + j]? = _
                rw [List.getElem?_eraseIdx] at hj
                split at hj
                · obtain ⟨h1, h2⟩ := abs_get hw hj
                  rw [hsame2 _ (by omega) (by omega), hp1 _ (by omega), if_neg (by omega)]; exact h1
                · obtain ⟨h1, h2⟩ := abs_get hw hj
                  rw [hsame2 _ (by omega) (by omega), hp1 _ (by omega), if_pos (by omega)]
                  rw [show s.base + j + 1 = s.base + (j + 1) by omega]; exact h1)
            exact ⟨this.1, this.2.1, this.2.2, rfl⟩
      · intro e he
        cases hl : removeLoop s.reg (s.base + p) (s.reg.top - 1 - (s.base + p)) with
        | error err => rw [hl, bind_err] at he; cases he; exact removeLoop_err _ _ _ _ hw.top_le (by omega) hl
        | ok r1 =>
          rw [hl, bind_ok] at he
          obtain ⟨ht1, hl1, hlen1, hp1⟩ := removeLoop_ok _ _ _ _ hw.top_le (by omega) hl
          cases hs : regSetTop r1 ((s.reg.top : Int) - 1) with
          | error err => rw [hs, bind_err] at he; cases he; exact regSetTop_err hl1 (by omega) hs
          | ok r2 => rw [hs, bind_ok] at he; cases he
  · rw [hreg, hres]
    simp only
    rw [if_pos (by omega)]
    exact refines_ok_self hw
  · rw [hreg, hres]
    simp only
    rw [if_neg (by omega), if_pos (by omega)]
    exact refines_ok_self hw

/-! ### Insert -/

theorem insert_at {s : St} (hw : WF s) (p : Nat) (hp : p ≤ (abs s).length) (v : OVal) {reg : Int}
    (hr : reg = (s.base : Int) + p) :
    Refines s (do
        let r ← insertLoop s.reg (s.base + p) (s.reg.top - (s.base + p))
        let r ← regSet r reg (.val v)
        .ok { s with reg := r }) ((abs s).insertIdx p v) := by
  have hlen := abs_length s hw.top_le
  have hbl := hw.base_le
  constructor
  · intro s' e
    cases hl : insertLoop s.reg (s.base + p) (s.reg.top - (s.base + p)) with
    | error err => rw [hl, bind_err] at e; cases e
    | ok r1 =>
      rw [hl, bind_ok] at e
      obtain ⟨hl1, hlen1, ht1, hp1⟩ := insertLoop_ok _ _ _ _ hw.top_le (by omega) hl
      cases hs : regSet r1 reg (.val v) with
      | error err => rw [hs, bind_err] at e; cases e
      | ok r2 =>
        rw [hs, bind_ok] at e
        cases e
        obtain ⟨ht2, hl2, hlen2, hat2, hp2⟩ := regSet_ok hl1 (by omega) hs
        have hrn : reg.toNat = s.base + p := by omega
        rw [hrn] at ht2 hat2 hp2
        have hr1top : r1.top = if p = (abs s).length then s.reg.top else s.reg.top + 1 := by
          rw [ht1]
          by_cases hpl : p = (abs s).length
          · rw [if_pos (by omega), if_pos hpl]
          · rw [if_neg (by omega), if_neg hpl]; omega
        have hr2top : r2.top = s.reg.top + 1 := by
          rw [ht2, hr1top]
          by_cases hpl : p = (abs s).length
          · rw [if_pos hpl, if_pos (by omega)]; omega
          · rw [if_neg hpl, if_neg (by omega)]
        have := refine_of_pointwise (s := s) (s' := { s with reg := r2 }) (l' := (abs s).insertIdx p v) rfl hl2
          (fun j hj => by
            show r2.array[j]? = _
            rw [hp2 j (by omega) (by rw [hr1top]; split <;> omega), hp1 j (Or.inl (by omega)), if_neg (by omega)])
          (by rw [List.length_insertIdx, if_pos hp]; show r2.top = _; omega)
          (by
            intro j w hj
            show r2.array[s.base + j]? = _
            rw [List.getElem?_insertIdx] at hj
            split at hj
            · -- below the insertion point
              obtain ⟨h1, h2⟩ := abs_get hw hj
              rw [hp2 _ (by omega) (by rw [hr1top]; split <;> omega), hp1 _ (Or.inl h2), if_neg (by omega)]
              exact h1
            · split at hj
              · rename_i _ hjp
                subst hjp
                split at hj <;> (cases hj; exact hat2)
              · -- above: shifted by one
                rename_i hj1 hj2
                obtain ⟨h1, h2⟩ := abs_get hw hj
                have hpl : p ≠ (abs s).length := by omega
                rw [hp2 _ (by omega) (by rw [hr1top, if_neg hpl]; omega), hp1 _ (Or.inr (by omega)), if_pos (by omega)]
                rw [show s.base + j - 1 = s.base + (j - 1) by omega]
                exact h1)
        exact ⟨this.1, this.2.1, this.2.2, rfl⟩
  · intro e he
    cases hl : insertLoop s.reg (s.base + p) (s.reg.top - (s.base + p)) with
    | error err => rw [hl, bind_err] at he; cases he; exact insertLoop_err _ _ _ _ hw.top_le (by omega) hl
    | ok r1 =>
      rw [hl, bind_ok] at he
      obtain ⟨hl1, hlen1, ht1, hp1⟩ := insertLoop_ok _ _ _ _ hw.top_le (by omega) hl
      cases hs : regSet r1 reg (.val v) with
      | error err => rw [hs, bind_err] at he; cases he; exact regSet_err hl1 (by omega) hs
      | ok r2 => rw [hs, bind_ok] at he; cases he

theorem resize_self (l : List OVal) : StackSpec.resize l l.length = l := by
  unfold StackSpec.resize
  simp

/-- the `reg >= top` branch of Insert, `SetTop(reg); Set(reg, v)`: the list is padded with nil up to `reg` (not at
    all for `reg = top`) and the value appended. -/
theorem insert_beyond {s : St} (hw : WF s) (v : OVal) {reg : Int} (n : Nat) (hr : reg = (s.base : Int) + n)
    (hn : (abs s).length ≤ n) :
    Refines s (do
        let r ← regSetTop s.reg reg
        let r ← regSet r reg (.val v)
        .ok { s with reg := r }) (StackSpec.resize (abs s) n ++ [v]) := by
  have hlen := abs_length s hw.top_le
  have hbl := hw.base_le
  obtain ⟨h1, h2⟩ := refines_of_regSetTop hw n (t := reg) hr
  cases hs : regSetTop s.reg reg with
  | error err =>
    rw [hs] at h2
    refine ⟨fun s' e => (by rw [bind_err] at e; cases e), fun e he => ?_⟩
    rw [bind_err] at he
    cases he
    exact h2 _ (by rw [bind_err])
  | ok r1 =>
    rw [hs] at h1
    obtain ⟨ha, hp, hw1, _⟩ := h1 { s with reg := r1 } (by rw [bind_ok])
    rw [bind_ok]
    have hlen1 : (abs { s with reg := r1 }).length = n := by rw [ha, resize_length]
    have htop1 : (abs { s with reg := r1 }).length = r1.top - s.base := abs_length { s with reg := r1 } hw1.top_le
    have hbl1 : s.base ≤ r1.top := hw1.base_le
    have key : ∀ (l : List OVal) (k : Nat), l.length = k → l.insertIdx k v = l ++ [v] := by
      intro l k h; subst h; exact List.insertIdx_length_self
    have h3 := insert_at hw1 n (by omega) v (reg := reg) hr
    have hz : r1.top - (s.base + n) = 0 := by have := hn; omega
    have h4 : Refines { s with reg := r1 } (do
        let r ← regSet r1 reg (.val v)
        .ok { s with reg := r }) ((abs { s with reg := r1 }).insertIdx n v) := by
      have h5 := h3
      show Refines { s with reg := r1 } (do
        let r ← regSet ({ s with reg := r1 } : St).reg reg (.val v)
        .ok { ({ s with reg := r1 } : St) with reg := r }) _
      rw [show ({ s with reg := r1 } : St).reg.top - (({ s with reg := r1 } : St).base + n) = 0 from hz] at h5
      simpa only [insertLoop, bind_ok] using h5
    obtain ⟨g1, g2⟩ := h4
    refine ⟨fun s' e => ?_, fun e he => g2 e he⟩
    obtain ⟨a, b, c, d⟩ := g1 s' e
    refine ⟨?_, by rw [b, hp], c, d⟩
    rw [a, key _ n hlen1, ha]

/-- what `Insert(v, idx)` does for EVERY index: in front of the element at a valid index, append at top+1, nil-padding
    up to idx-1 and then the value beyond top+1, and at the bottom for the indices below the list (0, idx < -top). -/
def insertModelList (l : List OVal) (v : OVal) (idx : Int) : List OVal :=
  match StackSpec.insert l v idx with
  | some l' => l'
  | none => if idx > 0 then StackSpec.resize l (idx - 1).toNat ++ [v] else l.insertIdx 0 v

theorem insert_refines {s : St} (hw : WF s) (v : OVal) (idx : Int) (hok : IdxOK s.base idx) :
    Refines s (insert s v idx) (insertModelList (abs s) v idx) := by
  have hlen := abs_length s hw.top_le
  have hbl := hw.base_le
  unfold insert currentLocalBase insertModelList StackSpec.insert StackSpec.insertAt
  rcases indexToReg_cases hw idx hok with ⟨p, hres, hp, hreg, _, _⟩ | ⟨hres, ⟨hbig, hreg⟩ | ⟨hlow, hreg⟩⟩
  · rw [hreg, hres]
    simp only
    rw [if_neg (by omega)]
    have hclamp : (if (s.base : Int) + p ≤ s.base then (s.base : Int) else (s.base : Int) + p) = (s.base : Int) + p := by
      split <;> omega
    rw [hclamp, show ((s.base : Int) + p).toNat = s.base + p by omega]
    exact insert_at hw p (by omega) v rfl
  · -- idx > top: nil-padding up to idx-1 (none for idx = top+1), then the value
    rw [hreg, hres]
    simp only
    have e1 : (s.base : Int) + idx - 1 ≥ (s.reg.top : Int) := by omega
    rw [if_pos e1]
    have h := insert_beyond hw v (reg := (s.base : Int) + idx - 1) (idx - 1).toNat (by omega) (by omega)
    by_cases e3 : idx = ((abs s).length : Int) + 1
    · rw [if_pos e3]
      rw [show (idx - 1).toNat = (abs s).length by omega, resize_self] at h
      exact h
    · rw [if_neg e3]
      simp only
      rw [if_pos (by omega)]
      exact h
  · rw [hreg, hres]
    simp only
    have e1 : ¬ ((-1 : Int) ≥ (s.reg.top : Int)) := by omega
    have e2 : (-1 : Int) ≤ (s.base : Int) := by omega
    have e3 : ¬ (idx = ((abs s).length : Int) + 1) := by omega
    rw [if_neg e1, if_pos e2, if_neg e3]
    simp only
    rw [if_neg (by omega)]
    have := insert_at hw 0 (Nat.zero_le _) v (reg := (s.base : Int)) (by omega)
    simpa only [Nat.add_zero, Int.toNat_natCast] using this

/-- every Insert that succeeds leaves a well-formed list of LValues — whatever register number the index translation
    produced (also a wrapped one): beyond the top `SetTop(reg); Set(reg, v)`, at or below the base the bottom of the own
    list, in between the position itself. -/
theorem insert_total {s : St} (hw : WF s) (v : OVal) (idx : Int) :
    ∃ l', Refines s (insert s v idx) l' := by
  have hlen := abs_length s hw.top_le
  have hbl := hw.base_le
  unfold insert currentLocalBase
  generalize indexToReg s idx = reg
  simp only
  by_cases h1 : reg ≥ (s.reg.top : Int)
  · rw [if_pos h1]
    exact ⟨_, insert_beyond hw v (reg := reg) (reg - s.base).toNat (by omega) (by omega)⟩
  · rw [if_neg h1]
    by_cases h2 : reg ≤ (s.base : Int)
    · rw [if_pos h2]
      have := insert_at hw 0 (Nat.zero_le _) v (reg := (s.base : Int)) (by omega)
      exact ⟨_, by simpa only [Nat.add_zero, Int.toNat_natCast] using this⟩
    · rw [if_neg h2]
      have := insert_at hw (reg - s.base).toNat (by omega) v (reg := reg) (by omega)
      rw [show s.base + (reg - (s.base : Int)).toNat = reg.toNat by omega] at this
      exact ⟨_, this⟩

end GLua.ApiStack
