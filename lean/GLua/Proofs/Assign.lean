/-
  `compileAssignStmt` restricted to local targets and local / constant right-hand sides computes the
  SIMULTANEOUS assignment (for every number of targets and every register file).

  Two layers: (I) the compile functions emit a straight-line segment whose execution is a pure "spec function"
  mirroring the compile recursion; (II) the spec functions compute the simultaneous assignment.
-/
import GLua.Proofs.Lowering

namespace GLua.Assign
open GLua.Compile GLua.MiniVM GLua.CondSpec GLua.Lowering

variable [NumStruct]
set_option linter.unusedSectionVars false
variable {V : Type}

/-- right-hand sides of the restricted statement: constants and locals below `B`. -/
def SimpleRhs (B : Nat) : Cond → Prop
  | .tru | .fls | .nil | .num _ | .str _ => True
  | .loc r => r < B
  | _ => False

/-- the value of a simple right-hand side in a register file. -/
def sval (d : Dom V) (ρ : Nat → V) : Cond → V
  | .tru => d.trueV
  | .fls => d.falseV
  | .nil => d.nilV
  | .num n => d.num (NumStruct.lit n)
  | .str s => d.str s
  | .loc r => ρ r
  | _ => d.nilV

theorem sval_eval (d : Dom V) (ρ γ : Nat → V) {B : Nat} {e : Cond} (h : SimpleRhs B e) : eval d ρ γ e = some (sval d ρ e) := by
  cases e <;> simp [SimpleRhs] at h <;> rfl

theorem sval_congr (d : Dom V) {ρ1 ρ2 : Nat → V} {B : Nat} {e : Cond} (h : SimpleRhs B e) (hag : ∀ x, x < B → ρ1 x = ρ2 x) :
    sval d ρ1 e = sval d ρ2 e := by
  cases e <;> simp [SimpleRhs] at h <;> simp [sval]
  exact hag _ h

/-! ### straight-line execution -/

def sstep (d : Dom V) (consts : List Konst) (ρ : Nat → V) : Instr → Option (Nat → V)
  | .move a b => some (setReg ρ a (ρ b))
  | .loadk a bx => (consts[bx]?).map fun k => setReg ρ a (Env.konst d k)
  | .loadbool a b c => if c = 0 then some (setReg ρ a (if b ≠ 0 then d.trueV else d.falseV)) else none
  | .loadnil a b => some (fillNil ρ a b d.nilV)
  | _ => none

def sexec (d : Dom V) (consts : List Konst) : List Instr → (Nat → V) → Option (Nat → V)
  | [], ρ => some ρ
  | i :: r, ρ => (sstep d consts ρ i).bind (sexec d consts r)

theorem sexec_append (d : Dom V) (consts : List Konst) (l1 l2 : List Instr) (ρ : Nat → V) :
    sexec d consts (l1 ++ l2) ρ = (sexec d consts l1 ρ).bind (sexec d consts l2) := by
  induction l1 generalizing ρ with
  | nil => simp [sexec]
  | cons i r ih =>
    simp only [List.cons_append, sexec]
    cases sstep d consts ρ i with
    | none => simp
    | some ρ1 => simp [ih]

theorem sstep_step (d : Dom V) (consts : List Konst) (code : List Instr) (p : Nat) (i : Instr) (ρ ρ' g : Nat → V)
    (hc : code[p]? = some i) (hs : sstep d consts ρ i = some ρ') :
    step d code consts ⟨p, ρ, g⟩ = .ok ⟨p + 1, ρ', g⟩ := by
  cases i <;> simp [sstep] at hs
  case move a b => subst hs; simp [step, hc]
  case loadk a bx =>
    obtain ⟨k, hk, rfl⟩ := hs
    simp [step, hc, hk]
  case loadbool a b c =>
    obtain ⟨rfl, rfl⟩ := hs
    simp [step, hc]
  case loadnil a b => subst hs; simp [step, hc]

/-- a straight-line segment inside any code runs on the MiniVM as `sexec` says. -/
theorem sexec_reaches (d : Dom V) (consts : List Konst) (g : Nat → V) :
    ∀ (seg pre post : List Instr) (ρ ρ' : Nat → V), sexec d consts seg ρ = some ρ' →
      Reaches d (pre ++ seg ++ post) consts ⟨pre.length, ρ, g⟩ ⟨pre.length + seg.length, ρ', g⟩ := by
  intro seg
  induction seg with
  | nil => intro pre post ρ ρ' h; simp [sexec] at h; subst h; exact .refl _
  | cons i r ih =>
    intro pre post ρ ρ' h
    simp only [sexec] at h
    cases hs : sstep d consts ρ i with
    | none => simp [hs] at h
    | some ρ1 =>
      simp only [hs, Option.bind_some] at h
      have hc : (pre ++ i :: r ++ post)[pre.length]? = some i := by simp
      have h1 := sstep_step d consts _ _ _ _ _ g hc hs
      have h2 := ih (pre ++ [i]) post ρ1 ρ' h
      simp only [List.append_assoc, List.singleton_append, List.length_append, List.length_singleton] at h2
      refine .step h1 ?_
      simpa [Nat.add_assoc, Nat.add_comm 1] using h2


/-! ### (I) the compile functions emit segments that execute as the spec functions say -/

/-- one simple right-hand side compiled into destination context `ec`: exactly one load instruction. -/
theorem load_sem (d : Dom V) {B : Nat} (e : Cond) (he : SimpleRhs B e) (reg : Nat) (ec : ExpCtx) (st : CState) :
    (comp e (.expr reg ec) st).inc = (if savereg ec reg < reg then 0 else 1) ∧
    st.consts <+: (comp e (.expr reg ec) st).st.consts ∧
    (comp e (.expr reg ec) st).st.regTop = st.regTop ∧
    ∃ ld, (comp e (.expr reg ec) st).st.code = st.code ++ [ld] ∧
      ∀ consts, (comp e (.expr reg ec) st).st.consts <+: consts → ∀ ρ : Nat → V,
        sstep d consts ρ ld = some (setReg ρ (savereg ec reg) (sval d ρ e)) := by
  cases e <;> simp [SimpleRhs] at he
  case tru =>
    refine ⟨by simp [comp, leafExpr, loadK], by simp [comp, leafExpr, loadK], by simp [comp, leafExpr, loadK], .loadbool (savereg ec reg) 1 0, by simp [comp, leafExpr, loadK], ?_⟩
    intro consts _ ρ; simp [sstep, sval]
  case fls =>
    refine ⟨by simp [comp, leafExpr, loadK], by simp [comp, leafExpr, loadK], by simp [comp, leafExpr, loadK], .loadbool (savereg ec reg) 0 0, by simp [comp, leafExpr, loadK], ?_⟩
    intro consts _ ρ; simp [sstep, sval]
  case nil =>
    refine ⟨by simp [comp, leafExpr, loadK], by simp [comp, leafExpr, loadK], by simp [comp, leafExpr, loadK], .loadnil (savereg ec reg) (savereg ec reg), by simp [comp, leafExpr, loadK], ?_⟩
    intro consts _ ρ; simp [sstep, sval, fillNil_one]
  case num n =>
    obtain ⟨hk1, hk2, hk3, _, _, hk6⟩ := constIndex_spec st (.num (NumStruct.lit n))
    refine ⟨by simp [comp, leafExpr, loadK], by simpa [comp, leafExpr, loadK] using hk2, by simpa [comp, leafExpr, loadK] using hk6,
      .loadk (savereg ec reg) (constIndex st (.num (NumStruct.lit n))).2, by simp [comp, leafExpr, loadK, hk3], ?_⟩
    intro consts hpre ρ
    have : consts[(constIndex st (.num (NumStruct.lit n))).2]? = some (.num (NumStruct.lit n)) := prefix_get_some (by simpa [comp, leafExpr, loadK] using hpre) hk1
    simp [sstep, sval, this, Env.konst]
  case str s =>
    obtain ⟨hk1, hk2, hk3, _, _, hk6⟩ := constIndex_spec st (.str s)
    refine ⟨by simp [comp, leafExpr, loadK], by simpa [comp, leafExpr, loadK] using hk2, by simpa [comp, leafExpr, loadK] using hk6,
      .loadk (savereg ec reg) (constIndex st (.str s)).2, by simp [comp, leafExpr, loadK, hk3], ?_⟩
    intro consts hpre ρ
    have : consts[(constIndex st (.str s)).2]? = some (.str s) := prefix_get_some (by simpa [comp, leafExpr, loadK] using hpre) hk1
    simp [sstep, sval, this, Env.konst]
  case loc r =>
    refine ⟨by simp [comp, leafExpr, loadK], by simp [comp, leafExpr, loadK], by simp [comp, leafExpr, loadK], .move (savereg ec reg) r, by simp [comp, leafExpr, loadK], ?_⟩
    intro consts _ ρ; simp [sstep, sval]

/-- the register file after the loads of `compileAssignStmtRight` for the named targets. -/
def namedSpec (d : Dom V) : Nat → (Nat → V) → List AssignCtx → List Cond → (Nat → V)
  | _, ρ, [], _ => ρ
  | reg, ρ, ac :: acs, rhs =>
    namedSpec d (reg + (if savereg ac.ec reg < reg then 0 else 1))
      (setReg ρ (savereg ac.ec reg) (sval d ρ (rhs.headD .nil))) acs rhs.tail

def namedReg : Nat → List AssignCtx → Nat
  | reg, [] => reg
  | reg, ac :: acs => namedReg (reg + (if savereg ac.ec reg < reg then 0 else 1)) acs

def namedAcs : Nat → List AssignCtx → List AssignCtx
  | _, [] => []
  | reg, ac :: acs =>
    { ac with needmove := decide ((if savereg ac.ec reg < reg then 0 else 1) ≠ 0) } ::
      namedAcs (reg + (if savereg ac.ec reg < reg then 0 else 1)) acs

theorem named_code (d : Dom V) (B : Nat) : ∀ (acs : List AssignCtx) (st : CState) (reg : Nat) (rhs : List Cond),
    (∀ e ∈ rhs, SimpleRhs B e) →
    (compileAssignStmtRight.named st reg acs rhs).2.1 = namedReg reg acs ∧
    (compileAssignStmtRight.named st reg acs rhs).2.2.1 = namedAcs reg acs ∧
    (compileAssignStmtRight.named st reg acs rhs).2.2.2 = rhs.drop acs.length ∧
    st.consts <+: (compileAssignStmtRight.named st reg acs rhs).1.consts ∧
    (compileAssignStmtRight.named st reg acs rhs).1.regTop = st.regTop ∧
    ∃ seg, (compileAssignStmtRight.named st reg acs rhs).1.code = st.code ++ seg ∧
      ∀ consts, (compileAssignStmtRight.named st reg acs rhs).1.consts <+: consts → ∀ ρ : Nat → V,
        sexec d consts seg ρ = some (namedSpec d reg ρ acs rhs) := by
  intro acs
  induction acs with
  | nil =>
    intro st reg rhs _
    exact ⟨rfl, rfl, by simp [compileAssignStmtRight.named], List.prefix_refl _, rfl, [],
      by simp [compileAssignStmtRight.named], fun _ _ ρ => by simp [sexec, namedSpec]⟩
  | cons ac acs ih =>
    intro st reg rhs hrhs
    have hhead : SimpleRhs B (rhs.headD .nil) := by
      cases rhs with
      | nil => simp [SimpleRhs]
      | cons e r => exact hrhs e (by simp)
    have htail : ∀ e ∈ rhs.tail, SimpleRhs B e := fun e he => hrhs e (List.mem_of_mem_tail he)
    obtain ⟨hinc, hk, htop, ld, hcode, hld⟩ := load_sem d (rhs.headD .nil) hhead reg ac.ec st
    obtain ⟨h1, h2, h3, h4, h5, seg, hseg, hsem⟩ := ih (comp (rhs.headD .nil) (.expr reg ac.ec) st).st
      (reg + (comp (rhs.headD .nil) (.expr reg ac.ec) st).inc) rhs.tail htail
    simp only [compileAssignStmtRight.named]
    rw [hinc] at h1 h2 h3 h4 h5 hseg hsem ⊢
    refine ⟨by simpa [namedReg] using h1, ?_, ?_, hk.trans h4, by rw [h5, htop], ld :: seg, ?_, ?_⟩
    · simp only [namedAcs]; rw [h2]
    · rw [h3]; simp [List.drop_tail]
    · rw [hseg, hcode]; simp
    · intro consts hpre ρ
      simp only [sexec, namedSpec]
      rw [hld consts (h4.trans hpre) ρ]
      simp only [Option.bind_some]
      exact hsem consts hpre _


/-- the register file after the surplus right-hand sides. -/
def surplusSpec (d : Dom V) : Nat → (Nat → V) → List Cond → (Nat → V)
  | _, ρ, [] => ρ
  | reg, ρ, e :: rest => surplusSpec d (reg + 1) (setReg ρ reg (sval d ρ e)) rest

theorem surplus_code (d : Dom V) (B : Nat) : ∀ (extra : List Cond) (st : CState) (reg : Nat),
    (∀ e ∈ extra, SimpleRhs B e) →
    st.consts <+: (compileAssignStmtRight.surplus st reg extra).consts ∧
    ∃ seg, (compileAssignStmtRight.surplus st reg extra).code = st.code ++ seg ∧
      ∀ consts, (compileAssignStmtRight.surplus st reg extra).consts <+: consts → ∀ ρ : Nat → V,
        sexec d consts seg ρ = some (surplusSpec d reg ρ extra) := by
  intro extra
  induction extra with
  | nil => intro st reg _; exact ⟨List.prefix_refl _, [], by simp [compileAssignStmtRight.surplus], fun _ _ ρ => by simp [sexec, surplusSpec]⟩
  | cons e rest ih =>
    intro st reg h
    obtain ⟨hinc, hk, _, ld, hcode, hld⟩ := load_sem d e (h e (by simp)) reg ecnone0 st
    rw [savereg_ecnone0] at hinc hld
    simp only [Nat.lt_irrefl, if_false] at hinc
    obtain ⟨h4, seg, hseg, hsem⟩ := ih (comp e (.expr reg ecnone0) st).st (reg + (comp e (.expr reg ecnone0) st).inc)
      (fun e' he' => h e' (by simp [he']))
    simp only [compileAssignStmtRight.surplus]
    rw [hinc] at h4 hseg hsem ⊢
    refine ⟨hk.trans h4, ld :: seg, by rw [hseg, hcode]; simp, ?_⟩
    intro consts hpre ρ
    simp only [sexec, surplusSpec]
    rw [hld consts (h4.trans hpre) ρ]
    simp only [Option.bind_some]
    exact hsem consts hpre _

/-- the register file after the store loop. -/
def storesSpec : (Nat → V) → Nat → List (Target × AssignCtx) → (Nat → V)
  | ρ, _, [] => ρ
  | ρ, reg, (.loc r, ac) :: rest =>
    if ac.needmove then storesSpec (setReg ρ r (ρ (reg - 1))) (reg - 1) rest else storesSpec ρ reg rest
  | ρ, reg, (.glob _, _) :: rest => storesSpec ρ reg rest

theorem stores_code (d : Dom V) : ∀ (ps : List (Target × AssignCtx)) (st : CState) (reg : Nat),
    (∀ p ∈ ps, ∃ r, p.1 = .loc r) →
    (assignStores st reg ps).consts = st.consts ∧
    ∃ seg, (assignStores st reg ps).code = st.code ++ seg ∧
      ∀ consts (ρ : Nat → V), sexec d consts seg ρ = some (storesSpec ρ reg ps) := by
  intro ps
  induction ps with
  | nil => intro st reg _; exact ⟨rfl, [], by simp [assignStores], fun _ ρ => by simp [sexec, storesSpec]⟩
  | cons p rest ih =>
    intro st reg h
    obtain ⟨r, hr⟩ := h p (by simp)
    rcases p with ⟨tg, ac⟩
    simp only at hr; subst hr
    have hrest : ∀ p ∈ rest, ∃ r, p.1 = .loc r := fun p hp => h p (by simp [hp])
    by_cases hm : ac.needmove = true
    · obtain ⟨hc, seg, hseg, hsem⟩ := ih (emit st (.move r (reg - 1))) (reg - 1) hrest
      simp only [assignStores, hm, if_true]
      refine ⟨by rw [hc]; rfl, .move r (reg - 1) :: seg, by rw [hseg]; simp, ?_⟩
      intro consts ρ
      simp only [sexec, sstep, Option.bind_some, storesSpec, hm, if_true]
      exact hsem consts _
    · obtain ⟨hc, seg, hseg, hsem⟩ := ih st reg hrest
      simp only [assignStores, hm]
      refine ⟨hc, seg, hseg, ?_⟩
      intro consts ρ
      simp only [storesSpec, hm]
      exact hsem consts ρ


/-! ### (II) what the spec functions compute -/

def ndCtx : AssignCtx := { ec := ⟨ecLocal, regNotDefined⟩ }

/-- every context is "not stored directly" (destination = a fresh temporary). -/
def AllND (acs : List AssignCtx) : Prop := ∀ ac ∈ acs, ac.ec = ⟨ecLocal, regNotDefined⟩

theorem savereg_nd (reg : Nat) : savereg ⟨ecLocal, regNotDefined⟩ reg = reg := by simp [savereg]

theorem namedReg_nd : ∀ (acs : List AssignCtx) (reg : Nat), AllND acs → namedReg reg acs = reg + acs.length := by
  intro acs
  induction acs with
  | nil => intro reg _; rfl
  | cons ac acs ih =>
    intro reg h
    have hac : ac.ec = ⟨ecLocal, regNotDefined⟩ := h ac (by simp)
    simp only [namedReg, hac, savereg_nd, Nat.lt_irrefl, if_false, List.length_cons]
    rw [ih (reg + 1) (fun a ha => h a (by simp [ha]))]; omega

theorem namedAcs_nd : ∀ (acs : List AssignCtx) (reg : Nat), AllND acs →
    (namedAcs reg acs).length = acs.length ∧ ∀ ac ∈ namedAcs reg acs, ac.needmove = true := by
  intro acs
  induction acs with
  | nil => intro reg _; simp [namedAcs]
  | cons ac acs ih =>
    intro reg h
    have hac : ac.ec = ⟨ecLocal, regNotDefined⟩ := h ac (by simp)
    obtain ⟨h1, h2⟩ := ih (reg + 1) (fun a ha => h a (by simp [ha]))
    simp only [namedAcs, hac, savereg_nd, Nat.lt_irrefl, if_false, List.length_cons, h1, List.mem_cons, forall_eq_or_imp]
    exact ⟨trivial, by simp, h2⟩

/-- after the loads into temporaries: temporary `reg + j` holds the OLD value of the j-th right-hand side,
    everything below `reg` is untouched. -/
theorem namedSpec_nd (d : Dom V) (B : Nat) (ρ0 : Nat → V) : ∀ (acs : List AssignCtx) (reg : Nat) (ρ : Nat → V) (rhs : List Cond),
    AllND acs → B ≤ reg → (∀ x, x < B → ρ x = ρ0 x) → (∀ e ∈ rhs, SimpleRhs B e) →
    (∀ j, j < acs.length → namedSpec d reg ρ acs rhs (reg + j) = sval d ρ0 ((rhs[j]?).getD .nil)) ∧
    (∀ x, x < reg → namedSpec d reg ρ acs rhs x = ρ x) := by
  intro acs
  induction acs with
  | nil => intro reg ρ rhs _ _ _ _; simp [namedSpec]
  | cons ac acs ih =>
    intro reg ρ rhs h hB hag hrhs
    have hac : ac.ec = ⟨ecLocal, regNotDefined⟩ := h ac (by simp)
    have hhead : SimpleRhs B (rhs.headD .nil) := by
      cases rhs with
      | nil => simp [SimpleRhs]
      | cons e r => exact hrhs e (by simp)
    simp only [namedSpec, hac, savereg_nd, Nat.lt_irrefl, if_false]
    have hag1 : ∀ x, x < B → setReg ρ reg (sval d ρ (rhs.headD .nil)) x = ρ0 x := by
      intro x hx; rw [setReg_other _ _ (by omega)]; exact hag x hx
    obtain ⟨h1, h2⟩ := ih (reg + 1) (setReg ρ reg (sval d ρ (rhs.headD .nil))) rhs.tail
      (fun a ha => h a (by simp [ha])) (by omega) hag1 (fun e he => hrhs e (List.mem_of_mem_tail he))
    constructor
    · intro j hj
      cases j with
      | zero =>
        show namedSpec d (reg + 1) _ acs rhs.tail reg = _
        rw [h2 reg (by omega), setReg_same, sval_congr d hhead hag]
        cases rhs <;> simp
      | succ j =>
        have := h1 j (by simp at hj; omega)
        rw [show reg + (j + 1) = reg + 1 + j by omega, this]
        cases rhs <;> simp
    · intro x hx
      rw [h2 x (by omega), setReg_other _ _ (by omega)]

theorem surplusSpec_below (d : Dom V) : ∀ (extra : List Cond) (reg : Nat) (ρ : Nat → V) (x : Nat), x < reg →
    surplusSpec d reg ρ extra x = ρ x := by
  intro extra
  induction extra with
  | nil => intro reg ρ x _; rfl
  | cons e rest ih =>
    intro reg ρ x hx
    simp only [surplusSpec]
    rw [ih (reg + 1) _ x (by omega), setReg_other _ _ (by omega)]

/-- the store loop over targets that all need a move: target i receives temporary `R + i`. -/
theorem storesSpec_moves (B : Nat) : ∀ (n : Nat) (ts : List Nat) (acs : List AssignCtx) (ρ : Nat → V) (R : Nat),
    ts.length = n → acs.length = n → (∀ ac ∈ acs, ac.needmove = true) → ts.Nodup → (∀ t ∈ ts, t < B) → B ≤ R →
    (∀ i t, ts[i]? = some t → storesSpec ρ (R + n) ((ts.map Target.loc).zip acs).reverse t = ρ (R + i)) ∧
    (∀ x, x ∉ ts → storesSpec ρ (R + n) ((ts.map Target.loc).zip acs).reverse x = ρ x) := by
  intro n
  induction n with
  | zero =>
    intro ts acs ρ R hts _ _ _ _ _
    have : ts = [] := List.length_eq_zero_iff.mp hts
    subst this
    simp [storesSpec]
  | succ n ih =>
    intro ts acs ρ R hts hacs hmv hnd hlt hB
    obtain ⟨ts0, t, rfl⟩ : ∃ ts0 t, ts = ts0 ++ [t] := by
      rcases List.eq_nil_or_concat ts with h | ⟨l, a, h⟩
      · subst h; simp at hts
      · exact ⟨l, a, by simpa using h⟩
    obtain ⟨a0, a, rfl⟩ : ∃ a0 a, acs = a0 ++ [a] := by
      rcases List.eq_nil_or_concat acs with h | ⟨l, a, h⟩
      · subst h; simp at hacs
      · exact ⟨l, a, by simpa using h⟩
    have hl0 : ts0.length = n := by simpa using hts
    have hla0 : a0.length = n := by simpa using hacs
    have hzip : ((ts0 ++ [t]).map Target.loc).zip (a0 ++ [a]) = (ts0.map Target.loc).zip a0 ++ [(Target.loc t, a)] := by
      rw [List.map_append, List.zip_append (by simp [hl0, hla0])]; rfl
    rw [hzip, List.reverse_append]
    have ha : a.needmove = true := hmv a (by simp)
    simp only [List.reverse_cons, List.reverse_nil, List.nil_append, List.singleton_append, storesSpec, ha, if_true]
    have hnd0 : ts0.Nodup := (List.nodup_append.mp hnd).1
    have htn : t ∉ ts0 := by
      intro hmem
      have := (List.nodup_append.mp hnd).2.2 t hmem t (by simp)
      exact this rfl
    have htB : t < B := hlt t (by simp)
    obtain ⟨h1, h2⟩ := ih ts0 a0 (setReg ρ t (ρ (R + (n + 1) - 1))) R hl0 hla0 (fun ac hac => hmv ac (by simp [hac])) hnd0
      (fun x hx => hlt x (by simp [hx])) hB
    have hreg : R + (n + 1) - 1 = R + n := by omega
    rw [hreg] at h1 h2 ⊢
    constructor
    · intro i x hix
      by_cases hi : i < ts0.length
      · rw [List.getElem?_append_left hi] at hix
        rw [h1 i x hix, setReg_other _ _ (by omega)]
      · have hi' : i = ts0.length := by
          have : i < (ts0 ++ [t]).length := by
            rcases Nat.lt_or_ge i (ts0 ++ [t]).length with h | h
            · exact h
            · simp [List.getElem?_eq_none h] at hix
          simp at this; omega
        subst hi'
        simp at hix; subst hix
        rw [h2 t htn, setReg_same, hl0]
    · intro x hx
      have hx0 : x ∉ ts0 := fun h => hx (by simp [h])
      have hxt : x ≠ t := fun h => hx (by simp [h])
      rw [h2 x hx0, setReg_other _ _ hxt]


/-! ### the left-hand side -/

def leftAcs (m n : Nat) : Nat → List Nat → List AssignCtx
  | _, [] => []
  | i, t :: rest =>
    { ec := if i + 1 = n ∧ m ≤ n then ⟨ecLocal, t⟩ else ⟨ecLocal, regNotDefined⟩ } :: leftAcs m n (i + 1) rest

theorem left_go (m n : Nat) : ∀ (ts : List Nat) (st : CState) (i : Nat),
    compileAssignStmtLeft.go m n st i (ts.map Target.loc) = (st, leftAcs m n i ts) := by
  intro ts
  induction ts with
  | nil => intro st i; rfl
  | cons t rest ih => intro st i; simp [compileAssignStmtLeft.go, leftAcs, ih]

theorem leftAcs_length (m n : Nat) : ∀ (ts : List Nat) (i : Nat), (leftAcs m n i ts).length = ts.length := by
  intro ts; induction ts with
  | nil => intro i; rfl
  | cons t rest ih => intro i; simp [leftAcs, ih]

theorem leftAcs_nd (m n : Nat) : ∀ (ts : List Nat) (i : Nat), (i + ts.length < n ∨ ¬ m ≤ n) → AllND (leftAcs m n i ts) := by
  intro ts
  induction ts with
  | nil => intro i _ ac hac; simp [leftAcs] at hac
  | cons t rest ih =>
    intro i h ac hac
    simp only [leftAcs, List.mem_cons] at hac
    rcases hac with rfl | hac
    · have : ¬ (i + 1 = n ∧ m ≤ n) := by
        rcases h with h | h
        · simp at h; omega
        · exact fun hh => h hh.2
      simp [this]
    · have h' : i + 1 + rest.length < n ∨ ¬ m ≤ n := by
        rcases h with h | h
        · left; simp at h; omega
        · right; exact h
      exact ih (i + 1) h' ac hac

theorem leftAcs_append (m n : Nat) : ∀ (ts0 : List Nat) (tl : Nat) (i : Nat),
    leftAcs m n i (ts0 ++ [tl]) = leftAcs m n i ts0 ++
      [{ ec := if i + ts0.length + 1 = n ∧ m ≤ n then ⟨ecLocal, tl⟩ else ⟨ecLocal, regNotDefined⟩ }] := by
  intro ts0
  induction ts0 with
  | nil => intro tl i; simp [leftAcs]
  | cons t rest ih =>
    intro tl i
    simp only [List.cons_append, leftAcs, ih, List.length_cons]
    congr 3
    simp only [Nat.add_assoc, Nat.add_comm 1]

/-! ### append lemmas -/

theorem namedReg_append : ∀ (a1 a2 : List AssignCtx) (reg : Nat), namedReg reg (a1 ++ a2) = namedReg (namedReg reg a1) a2 := by
  intro a1; induction a1 with
  | nil => intro a2 reg; rfl
  | cons a r ih => intro a2 reg; simp [namedReg, ih]

theorem namedAcs_append : ∀ (a1 a2 : List AssignCtx) (reg : Nat),
    namedAcs reg (a1 ++ a2) = namedAcs reg a1 ++ namedAcs (namedReg reg a1) a2 := by
  intro a1; induction a1 with
  | nil => intro a2 reg; rfl
  | cons a r ih => intro a2 reg; simp [namedAcs, namedReg, ih]

theorem namedSpec_append (d : Dom V) : ∀ (a1 a2 : List AssignCtx) (reg : Nat) (ρ : Nat → V) (rhs : List Cond),
    namedSpec d reg ρ (a1 ++ a2) rhs = namedSpec d (namedReg reg a1) (namedSpec d reg ρ a1 rhs) a2 (rhs.drop a1.length) := by
  intro a1; induction a1 with
  | nil => intro a2 reg ρ rhs; rfl
  | cons a r ih => intro a2 reg ρ rhs; simp [namedSpec, namedReg, ih, List.drop_tail]

/-! ### the theorem -/

/-- `compileAssignStmt` on local targets and simple right-hand sides: the emitted straight-line segment computes
    the simultaneous assignment. -/
theorem assign_parallel (d : Dom V) (st : CState) (ts : List Nat) (rhs : List Cond)
    (hnd : ts.Nodup) (hlt : ∀ t ∈ ts, t < st.regTop) (hrhs : ∀ e ∈ rhs, SimpleRhs st.regTop e) (hB : st.regTop ≤ 256) :
    ∃ seg, (compileAssignStmt st (ts.map Target.loc) rhs).code = st.code ++ seg ∧
      st.consts <+: (compileAssignStmt st (ts.map Target.loc) rhs).consts ∧
      ∀ consts, (compileAssignStmt st (ts.map Target.loc) rhs).consts <+: consts → ∀ ρ : Nat → V,
        ∃ ρ', sexec d consts seg ρ = some ρ' ∧
          (∀ (i t : Nat), ts[i]? = some t → ρ' t = sval d ρ ((rhs[i]?).getD .nil)) ∧
          (∀ x, x < st.regTop → x ∉ ts → ρ' x = ρ x) := by
  -- the three phases
  have hleft : compileAssignStmtLeft st (ts.map Target.loc) rhs.length = (st, leftAcs rhs.length ts.length 0 ts) := by
    simp [compileAssignStmtLeft, left_go]
  generalize hacs : leftAcs rhs.length ts.length 0 ts = acs at hleft
  have hacsl : acs.length = ts.length := by rw [← hacs]; exact leftAcs_length _ _ _ _
  obtain ⟨hn1, hn2, hn3, hn4, -, seg1, hseg1, hsem1⟩ := named_code d st.regTop acs st st.regTop rhs hrhs
  generalize hres : compileAssignStmtRight.named st st.regTop acs rhs = res at hn1 hn2 hn3 hn4 hseg1 hsem1
  have hextra : ∀ e ∈ res.2.2.2, SimpleRhs st.regTop e := by
    rw [hn3]; intro e he; exact hrhs e (List.mem_of_mem_drop he)
  obtain ⟨hs4, seg2, hseg2, hsem2⟩ := surplus_code d st.regTop res.2.2.2 res.1 res.2.1 hextra
  have hps : ∀ p ∈ ((ts.map Target.loc).zip res.2.2.1).reverse, ∃ r, p.1 = Target.loc r := by
    intro p hp
    rw [List.mem_reverse] at hp
    have := (List.of_mem_zip hp).1
    simp only [List.mem_map] at this
    obtain ⟨r, _, hr⟩ := this
    exact ⟨r, hr.symm⟩
  obtain ⟨hc3, seg3, hseg3, hsem3⟩ := stores_code d ((ts.map Target.loc).zip res.2.2.1).reverse
    (compileAssignStmtRight.surplus res.1 res.2.1 res.2.2.2) res.2.1 hps
  have hfinal : compileAssignStmt st (ts.map Target.loc) rhs =
      assignStores (compileAssignStmtRight.surplus res.1 res.2.1 res.2.2.2) res.2.1 ((ts.map Target.loc).zip res.2.2.1).reverse := by
    simp only [compileAssignStmt, hleft, compileAssignStmtRight, hres]
  rw [hfinal]
  refine ⟨seg1 ++ seg2 ++ seg3, by rw [hseg3, hseg2, hseg1]; simp, by rw [hc3]; exact hn4.trans hs4, ?_⟩
  intro consts hpre ρ
  rw [hc3] at hpre
  have e1 := hsem1 consts (hs4.trans hpre) ρ
  have e2 := hsem2 consts hpre (namedSpec d st.regTop ρ acs rhs)
  have e3 := hsem3 consts (surplusSpec d res.2.1 (namedSpec d st.regTop ρ acs rhs) res.2.2.2)
  refine ⟨_, by rw [sexec_append, sexec_append, e1]; simp only [Option.bind_some]; rw [e2]; simp only [Option.bind_some]; exact e3, ?_⟩
  rw [hn1, hn2]
  -- (II) meaning
  by_cases hdir : rhs.length ≤ ts.length ∧ ts ≠ []
  · -- the last target is stored in place
    obtain ⟨hm, hne⟩ := hdir
    obtain ⟨ts0, tl, rfl⟩ : ∃ ts0 tl, ts = ts0 ++ [tl] := by
      rcases List.eq_nil_or_concat ts with h | ⟨l, a, h⟩
      · exact absurd h hne
      · exact ⟨l, a, by simpa using h⟩
    have hlen : (ts0 ++ [tl]).length = ts0.length + 1 := by simp
    rw [hlen] at hacs hm
    rw [leftAcs_append] at hacs
    have hcond : (0 + ts0.length + 1 = ts0.length + 1 ∧ rhs.length ≤ ts0.length + 1) := ⟨by omega, hm⟩
    rw [if_pos hcond] at hacs
    generalize ha0 : leftAcs rhs.length (ts0.length + 1) 0 ts0 = a0 at hacs
    have hnd0 : AllND a0 := by rw [← ha0]; exact leftAcs_nd _ _ _ _ (Or.inl (by omega))
    have ha0l : a0.length = ts0.length := by rw [← ha0]; exact leftAcs_length _ _ _ _
    subst hacs
    have htl : tl < st.regTop := hlt tl (by simp)
    have hsv : savereg ⟨ecLocal, tl⟩ (st.regTop + ts0.length) = tl := by
      have : tl ≠ regNotDefined := by simp [regNotDefined, Generated.regNotDefined]; omega
      simp [savereg, this]
    have hreg0 := namedReg_nd a0 st.regTop hnd0
    have hlt' : tl < st.regTop + ts0.length := by omega
    rw [namedReg_append, namedAcs_append, namedSpec_append, hreg0, ha0l]
    simp only [namedReg, namedAcs, namedSpec, hsv, hlt', if_true, Nat.add_zero]
    have hdrop : rhs.drop (ts0 ++ [tl]).length = [] := by
      apply List.drop_eq_nil_of_le; rw [hlen]; exact hm
    rw [hn3, hacsl, hdrop]
    simp only [surplusSpec]
    obtain ⟨hna1, hna2⟩ := namedAcs_nd a0 st.regTop hnd0
    -- the zip: last pair is (tl, no move)
    have hzip : ((ts0 ++ [tl]).map Target.loc).zip (namedAcs st.regTop a0 ++ [{ ec := ⟨ecLocal, tl⟩, needmove := decide (0 ≠ 0) }]) =
        (ts0.map Target.loc).zip (namedAcs st.regTop a0) ++ [(Target.loc tl, { ec := ⟨ecLocal, tl⟩, needmove := decide (0 ≠ 0) })] := by
      rw [List.map_append, List.zip_append (by simp [hna1, ha0l])]; rfl
    rw [hzip, List.reverse_append]
    simp only [List.reverse_cons, List.reverse_nil, List.nil_append, List.singleton_append, storesSpec]
    have hfalse : decide ((0 : Nat) ≠ 0) = false := by decide
    simp only [hfalse, Bool.false_eq_true, if_false]
    obtain ⟨hv1, hv2⟩ := namedSpec_nd d st.regTop ρ a0 st.regTop ρ rhs hnd0 (Nat.le_refl _) (fun _ _ => rfl) hrhs
    have hnd0' : ts0.Nodup := (List.nodup_append.mp hnd).1
    have htn : tl ∉ ts0 := by
      intro hmem
      exact (List.nodup_append.mp hnd).2.2 tl hmem tl (by simp) rfl
    obtain ⟨hs1, hs2⟩ := storesSpec_moves st.regTop ts0.length ts0 (namedAcs st.regTop a0)
      (setReg (namedSpec d st.regTop ρ a0 rhs) tl (sval d (namedSpec d st.regTop ρ a0 rhs) ((rhs.drop ts0.length).headD .nil)))
      st.regTop rfl (by rw [hna1, ha0l]) hna2 hnd0' (fun t ht => hlt t (by simp [ht])) (Nat.le_refl _)
    have hheadS : SimpleRhs st.regTop ((rhs.drop ts0.length).headD .nil) := by
      cases hdr : rhs.drop ts0.length with
      | nil => simp [SimpleRhs]
      | cons e r => exact hrhs e (List.mem_of_mem_drop (by rw [hdr]; simp))
    have hheadV : (rhs.drop ts0.length).headD .nil = (rhs[ts0.length]?).getD .nil := by
      cases hdr : rhs.drop ts0.length with
      | nil =>
        have : rhs.length ≤ ts0.length := List.drop_eq_nil_iff.mp hdr
        simp [List.getElem?_eq_none this]
      | cons e r =>
        have : rhs[ts0.length]? = some e := by
          have := congrArg (fun l => l[0]?) hdr
          simpa [List.getElem?_drop] using this
        simp [this]
    refine ⟨?_, ?_⟩
    · intro i t hit
      by_cases hi : i < ts0.length
      · rw [List.getElem?_append_left hi] at hit
        rw [hs1 i t hit, setReg_other _ _ (by omega), hv1 i (by rw [ha0l]; exact hi)]
      · have hi' : i = ts0.length := by
          have : i < (ts0 ++ [tl]).length := by
            rcases Nat.lt_or_ge i (ts0 ++ [tl]).length with h | h
            · exact h
            · simp [List.getElem?_eq_none h] at hit
          simp at this; omega
        subst hi'
        simp at hit; subst hit
        rw [hs2 _ htn, setReg_same, sval_congr d hheadS (fun x hx => hv2 x hx), hheadV]
    · intro x hx hxn
      have hx0 : x ∉ ts0 := fun h => hxn (by simp [h])
      have hxt : x ≠ tl := fun h => hxn (by simp [h])
      rw [hs2 x hx0, setReg_other _ _ hxt, hv2 x hx]
  · -- every target goes through a temporary
    have hnd_acs : AllND acs := by
      rw [← hacs]
      by_cases hts : ts = []
      · subst hts; intro ac hac; simp [leftAcs] at hac
      · exact leftAcs_nd _ _ _ _ (Or.inr (fun h => hdir ⟨h, hts⟩))
    have hreg0 := namedReg_nd acs st.regTop hnd_acs
    obtain ⟨hna1, hna2⟩ := namedAcs_nd acs st.regTop hnd_acs
    obtain ⟨hv1, hv2⟩ := namedSpec_nd d st.regTop ρ acs st.regTop ρ rhs hnd_acs (Nat.le_refl _) (fun _ _ => rfl) hrhs
    rw [hreg0, hacsl]
    obtain ⟨hs1, hs2⟩ := storesSpec_moves st.regTop ts.length ts (namedAcs st.regTop acs)
      (surplusSpec d (st.regTop + ts.length) (namedSpec d st.regTop ρ acs rhs) res.2.2.2)
      st.regTop rfl (by rw [hna1, hacsl]) hna2 hnd hlt (Nat.le_refl _)
    refine ⟨?_, ?_⟩
    · intro i t hit
      have hi : i < ts.length := by
        rcases Nat.lt_or_ge i ts.length with h | h
        · exact h
        · simp [List.getElem?_eq_none h] at hit
      rw [hs1 i t hit, surplusSpec_below d _ _ _ _ (by omega), hv1 i (by rw [hacsl]; exact hi)]
    · intro x hx hxn
      rw [hs2 x hxn, surplusSpec_below d _ _ _ _ (by omega), hv2 x hx]

end GLua.Assign
