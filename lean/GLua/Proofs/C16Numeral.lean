/-
  Lemmas for C16 `numeral_agreement`: the repaired shared reader (utils.go luaNumeralBase + parseNumber, delegating
  to strconv.ParseFloat) accepts exactly the Spec's Lua numerals and reads the Spec's exact value.
-/
import GLua.Model.Numeral

set_option linter.unusedSimpArgs false
set_option linter.unusedVariables false

namespace GLua.Proofs.C16Numeral
open GLua GLua.NumSpec GLua.NumModel

/-! ### small facts -/

theorem trim6_eq (s : Bytes) : trim6 s = trim s := rfl

theorem stripSign_eq (s : Bytes) : Go.stripSign s = sign s := by
  unfold Go.stripSign sign
  split <;> simp_all

theorem skipSign_eq (s : Bytes) : skipSign s = (sign s).2 := by
  unfold skipSign sign
  split <;> simp_all

theorem isDec_iff (c : Nat) : isDec c = true ↔ 48 ≤ c ∧ c ≤ 57 := by
  simp [isDec]

theorem digitVal_dec (c : Nat) (h : isDec c = true) : digitVal c = some (c - 48) := by
  have := (isDec_iff c).1 h
  simp [digitVal, this]

theorem countDec_eq (s : Bytes) : countDec s = ((s.takeWhile isDec).length, s.dropWhile isDec) := by
  induction s with
  | nil => rfl
  | cons c r ih =>
    unfold countDec
    by_cases h : isDec c = true
    · simp [h, ih]
    · simp [h]

theorem scanDecimal_eq (s buf : Bytes) : scanDecimal buf s = (buf ++ s.takeWhile isDec, s.dropWhile isDec) := by
  induction s generalizing buf with
  | nil => simp [scanDecimal]
  | cons c r ih =>
    unfold scanDecimal
    by_cases h : isDec c = true
    · simp [h, ih]
    · simp [h]

theorem lower_x (x : Nat) (hx : x < 256) : Go.lower x = 120 ↔ (x = 120 ∨ x = 88) := by
  unfold Go.lower
  split <;> omega

theorem lower_e (x : Nat) : Go.lower x = 101 ↔ (x = 101 ∨ x = 69) := by
  unfold Go.lower
  split <;> omega

theorem dropWhile_head_not (p : Nat → Bool) (s : Bytes) (c : Nat) (r : Bytes) (h : s.dropWhile p = c :: r) : p c = false := by
  induction s with
  | nil => simp at h
  | cons d t ih =>
    simp only [List.dropWhile_cons] at h
    split at h
    · exact ih h
    · rename_i hd
      simp at h
      obtain ⟨rfl, _⟩ := h
      simpa using hd

theorem all_takeWhile (p : Nat → Bool) (s : Bytes) : (s.takeWhile p).all p = true := by
  induction s with
  | nil => simp
  | cons d t ih =>
    simp only [List.takeWhile_cons]
    split
    · simp_all
    · simp

theorem takeWhile_all (p : Nat → Bool) (s : Bytes) (h : s.all p = true) : s.takeWhile p = s := by
  induction s with
  | nil => simp
  | cons d t ih => simp_all

theorem dropWhile_all (p : Nat → Bool) (s : Bytes) (h : s.all p = true) : s.dropWhile p = [] := by
  induction s with
  | nil => simp
  | cons d t ih => simp_all

/-! ### strconv.readFloat on digit runs -/

def stepVal (b : Nat) (a c : Nat) : Nat := a * b + (digitVal c).getD 0

theorem valIn_eq (b : Nat) (ds : Bytes) : valIn b ds = ds.foldl (stepVal b) 0 := rfl

/-- state of readFloat's mantissa loop after a run of decimal digits. -/
def advDec (st : Go.MState) (ds : Bytes) : Go.MState :=
  { st with sawdigits := st.sawdigits || !ds.isEmpty,
            mant := ds.foldl (stepVal 10) st.mant,
            frac := if st.sawdot then st.frac + ds.length else st.frac }

theorem mantLoop_dec (ds : Bytes) : ∀ (st : Go.MState) (rest : Bytes), ds.all isDec = true →
    Go.mantLoop false st (ds ++ rest) = Go.mantLoop false (advDec st ds) rest := by
  induction ds with
  | nil =>
    intro st rest _
    have : advDec st [] = st := by
      cases st; simp [advDec]
    simp [this]
  | cons c r ih =>
    intro st rest h
    simp only [List.all_cons, Bool.and_eq_true] at h
    obtain ⟨hc, hr⟩ := h
    have hc' := (isDec_iff c).1 hc
    have h95 : c ≠ 95 := by omega
    have h46 : c ≠ 46 := by omega
    simp only [List.cons_append]
    rw [Go.mantLoop]
    simp only [h95, h46, hc, if_false, if_true]
    rw [ih _ _ hr]
    congr 1
    cases st with
    | mk sawdot sawdigits mant frac us =>
      simp only [advDec, List.foldl_cons, stepVal, digitVal_dec c hc, Option.getD_some, List.isEmpty_cons, List.length_cons]
      cases sawdot <;> simp <;> omega

theorem mantLoop_nil (hex : Bool) (st : Go.MState) : Go.mantLoop hex st [] = (st, []) := by
  rw [Go.mantLoop]

theorem mantLoop_stop (st : Go.MState) (c : Nat) (r : Bytes) (h95 : c ≠ 95) (h46 : c ≠ 46 ∨ st.sawdot = true)
    (hd : isDec c = false) : Go.mantLoop false st (c :: r) = (st, c :: r) := by
  rw [Go.mantLoop]
  simp only [h95, if_false, hd]
  by_cases h : c = 46
  · rcases h46 with h46 | h46
    · exact absurd h h46
    · simp [h, h46]
  · simp [h]

theorem mantLoop_dot (st : Go.MState) (r : Bytes) (h : st.sawdot = false) :
    Go.mantLoop false st (46 :: r) = Go.mantLoop false { st with sawdot := true } r := by
  rw [Go.mantLoop]
  simp [h]

theorem expLoop_dec (ds : Bytes) : ∀ (e : Nat) (us : Bool), ds.all isDec = true →
    Go.expLoop e us ds = (ds.foldl (stepVal 10) e, us, []) := by
  induction ds with
  | nil => intro e us _; simp [Go.expLoop]
  | cons c r ih =>
    intro e us h
    simp only [List.all_cons, Bool.and_eq_true] at h
    obtain ⟨hc, hr⟩ := h
    have hc' := (isDec_iff c).1 hc
    have h95 : c ≠ 95 := by omega
    rw [Go.expLoop]
    simp only [h95, hc, if_false, if_true]
    rw [ih _ _ hr]
    simp [stepVal, digitVal_dec c hc]

/-! ### luaNumeralBase accepts exactly the Spec's grammar -/

/-- the 3-character hex prefix test of luaNumeralBase / readFloat. -/
def hex3 (u : Bytes) : Prop := ∃ x c r, u = 48 :: x :: c :: r ∧ (x = 120 ∨ x = 88)

theorem luaNumeralBase_dec (s : Bytes) (h : ¬ hex3 (skipSign s)) : luaNumeralBase s = luaNumeralDec (skipSign s) := by
  unfold luaNumeralBase
  split
  · rename_i x c r heq
    by_cases hx : x = 120 ∨ x = 88
    · exact absurd ⟨x, c, r, heq, hx⟩ h
    · simp only [hx, if_false, heq]
  · rfl

theorem luaNumeralBase_hex (s : Bytes) (x c : Nat) (r : Bytes) (heq : skipSign s = 48 :: x :: c :: r) (hx : x = 120 ∨ x = 88) :
    luaNumeralBase s = if (c :: r).all isHexDigit then 16 else 0 := by
  unfold luaNumeralBase
  simp only [heq, hx, if_true]

theorem len_drop_iff (p : Nat → Bool) (ds : Bytes) :
    ((ds.takeWhile p).length = 0 ∨ ds.dropWhile p ≠ []) ↔ ¬ (ds ≠ [] ∧ ds.all p = true) := by
  induction ds with
  | nil => simp
  | cons d t ih =>
    by_cases hd : p d = true
    · simp only [List.takeWhile_cons, hd, if_true, List.length_cons, List.dropWhile_cons, List.all_cons, Bool.true_and]
      have : ¬ (t.takeWhile p).length + 1 = 0 := by omega
      simp only [this, false_or, ne_eq, reduceCtorEq, not_false_eq_true, true_and]
      constructor
      · intro h hall
        exact h (dropWhile_all p t hall)
      · intro h hd'
        apply h
        have := all_takeWhile p t
        have e : t.takeWhile p = t := by
          have := List.takeWhile_append_dropWhile (p := p) (l := t)
          rw [hd'] at this; simpa using this
        rw [e] at this; exact this
    · simp [hd]

theorem frac_eq (r1 : Bytes) : luaNumeralFrac r1 = ((fraction r1).1.length, (fraction r1).2) := by
  unfold luaNumeralFrac fraction
  split <;> simp [countDec_eq]

/-- the exponent test of luaNumeralBase against the Spec's `exponent`. -/
theorem exp_eq (nd : Nat) (r2 : Bytes) (hnd : nd > 0) :
    ((luaNumeralExp nd r2).1 = 0 ∨ (luaNumeralExp nd r2).2 ≠ []) ↔ exponent r2 = none := by
  unfold luaNumeralExp exponent
  cases r2 with
  | nil => simp; omega
  | cons e t =>
    by_cases he : e = 101 ∨ e = 69
    · simp only [hnd, he, and_self, if_true, countDec_eq, skipSign_eq]
      generalize (sign t).2 = ds
      rw [len_drop_iff]
      by_cases hds : ds ≠ [] ∧ ds.all isDec = true
      · simp [hds]
      · simp only [hds, not_false_eq_true, if_false]
    · simp [he]

theorem luaNumeralDec_spec (u : Bytes) : luaNumeralDec u = if (decimal u).isSome then 10 else 0 := by
  unfold luaNumeralDec decimal
  simp only [countDec_eq, frac_eq]
  by_cases hnd : (u.takeWhile isDec).length + (fraction (u.dropWhile isDec)).1.length = 0
  · have : ∀ r, (luaNumeralExp 0 r).1 = 0 := by
      intro r; unfold luaNumeralExp; split <;> simp
    simp [hnd, this]
  · have hpos : (u.takeWhile isDec).length + (fraction (u.dropWhile isDec)).1.length > 0 := by omega
    have := exp_eq _ (fraction (u.dropWhile isDec)).2 hpos
    by_cases hex : exponent (fraction (u.dropWhile isDec)).2 = none
    · have h1 := this.2 hex
      simp only [h1, if_true, hnd, if_false, hex]
      simp
    · have h1 : ¬ _ := fun h => hex (this.1 h)
      simp only [h1, if_false, hnd]
      cases hx : exponent (fraction (u.dropWhile isDec)).2 with
      | none => exact absurd hx hex
      | some v => simp

/-! ### the value strconv.ParseFloat reads on an accepted decimal numeral -/

theorem exponent_some (r2 : Bytes) (e' : Int) (h : exponent r2 = some e') :
    (r2 = [] ∧ e' = 0) ∨
    (∃ c t, r2 = c :: t ∧ (c = 101 ∨ c = 69) ∧ (sign t).2 ≠ [] ∧ (sign t).2.all isDec = true ∧
       e' = (if (sign t).1 then -(valIn 10 (sign t).2 : Int) else (valIn 10 (sign t).2 : Int))) := by
  unfold exponent at h
  split at h
  · left; simp at h; exact ⟨rfl, h.symm⟩
  · rename_i c t
    right
    by_cases hc : c = 101 ∨ c = 69
    · simp only [hc, if_true] at h
      by_cases hds : (sign t).2 ≠ [] ∧ (sign t).2.all isDec = true
      · refine ⟨c, t, rfl, hc, hds.1, hds.2, ?_⟩
        have h1 : ((sign t).2 ≠ [] ∧ (sign t).2.all isDec = true) = True := by simp [hds]
        simp only [h1, if_true] at h
        exact (Option.some.inj h).symm
      · simp only [hds, if_false] at h
        simp at h
    · simp only [hc, if_false] at h
      simp at h

/-- readFloat's exponent part on what the Spec's `exponent` accepts. -/
theorem readExp_dec (s : Bytes) (neg : Bool) (st : Go.MState) (hus : st.us = false) (r2 : Bytes) (e' : Int)
    (h : exponent r2 = some e') :
    Go.readExp s neg false st r2 =
      some (.exact { neg := neg, mant := st.mant, exp10 := e' - (st.frac : Int), exp2 := 0 }) := by
  rcases exponent_some r2 e' h with ⟨rfl, rfl⟩ | ⟨c, t, rfl, hc, hne, hall, rfl⟩
  · simp [Go.readExp, Go.finishFloat, hus]
  · have hl : Go.lower c = 101 := (lower_e c).2 hc
    have ht : t ≠ [] := by
      intro ht; subst ht; simp [sign] at hne
    unfold Go.readExp
    simp only [hl, Bool.false_eq_true, if_false, if_true]
    cases t with
    | nil => exact absurd rfl ht
    | cons t0 tr =>
      simp only [stripSign_eq]
      generalize hsg : sign (t0 :: tr) = sg at hne hall ⊢
      obtain ⟨eneg, ds⟩ := sg
      simp only at hne hall ⊢
      cases ds with
      | nil => exact absurd rfl hne
      | cons d dr =>
        have hd : isDec d = true := by
          simp only [List.all_cons, Bool.and_eq_true] at hall; exact hall.1
        simp only [hd, Bool.not_true, Bool.false_eq_true, if_false]
        rw [expLoop_dec _ _ _ hall]
        simp only [Go.finishFloat, hus]
        simp [valIn_eq]

/-- after the mantissa, an accepted exponent part starts with a byte that stops readFloat's mantissa loop. -/
theorem mantLoop_at_exp (st : Go.MState) (r2 : Bytes) (e' : Int) (h : exponent r2 = some e') :
    Go.mantLoop false st r2 = (st, r2) := by
  rcases exponent_some r2 e' h with ⟨rfl, _⟩ | ⟨c, t, rfl, hc, _, _, _⟩
  · exact mantLoop_nil _ _
  · apply mantLoop_stop
    · omega
    · left; omega
    · rcases hc with rfl | rfl <;> decide

theorem mantLoop_decimal (u : Bytes) (e' : Int)
    (hexp : exponent (fraction (u.dropWhile isDec)).2 = some e') :
    ∃ st, Go.mantLoop false {} u = (st, (fraction (u.dropWhile isDec)).2) ∧
      st.sawdigits = (decide ((u.takeWhile isDec).length + (fraction (u.dropWhile isDec)).1.length > 0)) ∧
      st.mant = valIn 10 (u.takeWhile isDec ++ (fraction (u.dropWhile isDec)).1) ∧
      st.frac = (fraction (u.dropWhile isDec)).1.length ∧ st.us = false := by
  have hu : u = u.takeWhile isDec ++ u.dropWhile isDec := (List.takeWhile_append_dropWhile).symm
  generalize hip : u.takeWhile isDec = ip at hu ⊢
  generalize hr1 : u.dropWhile isDec = r1 at hu hexp ⊢
  have hipall : ip.all isDec = true := by rw [← hip]; exact all_takeWhile _ _
  rw [hu, mantLoop_dec ip _ _ hipall]
  cases r1 with
  | nil =>
    refine ⟨advDec {} ip, ?_, ?_, ?_, ?_, ?_⟩
    · simp only [fraction]; exact mantLoop_nil _ _
    · simp [advDec, fraction]; cases ip <;> simp
    · simp [advDec, fraction, valIn_eq]
    · simp [advDec, fraction]
    · simp [advDec]
  | cons c t =>
    by_cases hc : c = 46
    · subst hc
      have hfr : fraction (46 :: t) = (t.takeWhile isDec, t.dropWhile isDec) := rfl
      rw [hfr] at hexp ⊢
      simp only at hexp ⊢
      rw [mantLoop_dot _ _ (by simp [advDec])]
      have ht : t = t.takeWhile isDec ++ t.dropWhile isDec := (List.takeWhile_append_dropWhile).symm
      generalize hfp : t.takeWhile isDec = fp at ht ⊢
      generalize hr2 : t.dropWhile isDec = r2 at ht hexp ⊢
      have hfpall : fp.all isDec = true := by rw [← hfp]; exact all_takeWhile _ _
      rw [ht, mantLoop_dec fp _ _ hfpall, mantLoop_at_exp _ _ _ hexp]
      refine ⟨_, rfl, ?_, ?_, ?_, ?_⟩
      · simp [advDec]; cases ip <;> cases fp <;> simp <;> omega
      · simp [advDec, valIn_eq, List.foldl_append]
      · simp [advDec]
      · simp [advDec]
    · have hfr : fraction (c :: t) = ([], c :: t) := by
        unfold fraction; split
        · rename_i heq; simp at heq; exact absurd heq.1 hc
        · rfl
      rw [hfr] at hexp ⊢
      simp only at hexp ⊢
      rw [mantLoop_at_exp _ _ _ hexp]
      refine ⟨_, rfl, ?_, ?_, ?_, ?_⟩
      · simp [advDec]; cases ip <;> simp
      · simp [advDec, valIn_eq]
      · simp [advDec]
      · simp [advDec]

/-- an accepted decimal starts with a digit or with the point. -/
theorem decimal_head (u : Bytes) (m : Nat) (e : Int) (hd : decimal u = some (m, e)) :
    ∃ c t, u = c :: t ∧ (isDec c = true ∨ c = 46) := by
  cases u with
  | nil => simp [decimal, fraction] at hd
  | cons c t =>
    refine ⟨c, t, rfl, ?_⟩
    by_cases h1 : isDec c = true
    · exact Or.inl h1
    · by_cases h2 : c = 46
      · exact Or.inr h2
      · exfalso
        have hf : fraction (c :: t) = ([], c :: t) := by
          unfold fraction; split
          · rename_i heq; simp at heq; exact absurd heq.1 h2
          · rfl
        simp [decimal, h1, hf] at hd

theorem hexPrefix_dec (u : Bytes) (m : Nat) (e : Int) (hd : decimal u = some (m, e)) : Go.hexPrefix u = (false, u) := by
  unfold Go.hexPrefix
  split
  · rename_i x y t
    by_cases hx : Go.lower x = 120
    · exfalso
      have hx' : x = 120 ∨ x = 88 := by
        unfold Go.lower at hx; split at hx <;> omega
      have h1 : isDec x = false := by rcases hx' with rfl | rfl <;> decide
      have h2 : x ≠ 46 := by omega
      have hf : fraction (x :: y :: t) = ([], x :: y :: t) := by
        unfold fraction; split
        · rename_i heq; simp at heq; exact absurd heq.1 h2
        · rfl
      have hex : exponent (x :: y :: t) = none := by
        unfold exponent
        have : ¬ (x = 101 ∨ x = 69) := by omega
        simp [this]
      have htw : (48 :: x :: y :: t).takeWhile isDec = [48] := by
        simp [List.takeWhile_cons, h1]; decide
      have hdw : (48 :: x :: y :: t).dropWhile isDec = x :: y :: t := by
        simp [List.dropWhile_cons, h1]; decide
      simp [decimal, htw, hdw, hf, hex] at hd
    · simp [hx]
  · rfl

theorem special_none (s u : Bytes) (neg : Bool) (hs : sign s = (neg, u)) (c : Nat) (t : Bytes) (hu : u = c :: t)
    (hc : isDec c = true ∨ c = 46) : Go.special s = none := by
  have hc' : (48 ≤ c ∧ c ≤ 57) ∨ c = 46 := by
    rcases hc with h | h
    · exact Or.inl ((isDec_iff c).1 h)
    · exact Or.inr h
  have hcp : Go.commonPrefixLen (c :: t) Go.sInfinity = 0 := by
    simp only [Go.commonPrefixLen, Go.sInfinity]
    have h1 : ¬ (65 ≤ c ∧ c ≤ 90) := by omega
    have h2 : c ≠ 105 := by omega
    simp [h1, h2]
  subst hu
  unfold sign at hs
  split at hs
  · -- '-'
    simp at hs; obtain ⟨_, rfl⟩ := hs
    simp [Go.special, Go.infPart, hcp]
  · simp at hs; obtain ⟨_, rfl⟩ := hs
    simp [Go.special, Go.infPart, hcp]
  · rename_i h45 h43
    simp at hs; obtain ⟨_, rfl⟩ := hs
    have : ¬ (c = 43 ∨ c = 45) := by omega
    have h2 : ¬ (c = 105 ∨ c = 73) := by omega
    have h3 : ¬ (c = 110 ∨ c = 78) := by omega
    simp [Go.special, this, h2, h3]

theorem readFloat_dec (s u : Bytes) (neg : Bool) (hs : sign s = (neg, u)) (m : Nat) (e : Int)
    (hd : decimal u = some (m, e)) :
    Go.readFloat s = some (.exact { neg := neg, mant := m, exp10 := e, exp2 := 0 }) := by
  obtain ⟨c, t, hu, hc⟩ := decimal_head u m e hd
  have hne : s ≠ [] := by
    intro h; subst h; simp [sign] at hs; rw [hs.2] at hu; simp at hu
  have hhp := hexPrefix_dec u m e hd
  unfold decimal at hd
  simp only at hd
  by_cases hnd : (u.takeWhile isDec).length + (fraction (u.dropWhile isDec)).1.length = 0
  · simp [hnd] at hd
  · simp only [hnd, if_false] at hd
    cases hex : exponent (fraction (u.dropWhile isDec)).2 with
    | none => simp [hex] at hd
    | some e' =>
      simp only [hex, Option.map_some, Option.some.injEq, Prod.mk.injEq] at hd
      obtain ⟨hm, he⟩ := hd
      obtain ⟨st, hml, hsd, hmant, hfrac, hus⟩ := mantLoop_decimal u e' hex
      unfold Go.readFloat
      simp only [hne, if_false, stripSign_eq, hs, hhp, hml]
      have : st.sawdigits = true := by rw [hsd]; simp; omega
      simp only [this, Bool.not_true, Bool.false_eq_true, if_false]
      rw [readExp_dec _ _ _ hus _ _ hex, hmant, hfrac, hm, he]

theorem parseFloat_dec (s u : Bytes) (neg : Bool) (hs : sign s = (neg, u)) (m : Nat) (e : Int)
    (hd : decimal u = some (m, e)) :
    Go.parseFloat s = some (.exact { neg := neg, mant := m, exp10 := e, exp2 := 0 }) := by
  obtain ⟨c, t, hu, hc⟩ := decimal_head u m e hd
  unfold Go.parseFloat
  rw [special_none s u neg hs c t hu hc]
  exact readFloat_dec s u neg hs m e hd

/-! ### hexadecimal integers -/

theorem isHexDigit_iff (c : Nat) : isHexDigit c = true ↔ (48 ≤ c ∧ c ≤ 57) ∨ (97 ≤ c ∧ c ≤ 102) ∨ (65 ≤ c ∧ c ≤ 70) := by
  simp [isHexDigit, isDec, or_assoc]

theorem isHexDigit_eq (c : Nat) : isHexDigit c = isDigitIn 16 c := by
  by_cases h : isHexDigit c = true
  · rw [h]
    rcases (isHexDigit_iff c).1 h with h1 | h1 | h1
    · have : digitVal c = some (c - 48) := by simp [digitVal, h1]
      simp [isDigitIn, this]; omega
    · have : digitVal c = some (c - 87) := by
        unfold digitVal
        rw [if_neg (by omega), if_pos (by omega)]
      simp [isDigitIn, this]; omega
    · have : digitVal c = some (c - 55) := by
        unfold digitVal
        rw [if_neg (by omega), if_neg (by omega), if_pos (by omega)]
      simp [isDigitIn, this]; omega
  · have hn : ¬ ((48 ≤ c ∧ c ≤ 57) ∨ (97 ≤ c ∧ c ≤ 102) ∨ (65 ≤ c ∧ c ≤ 70)) := fun h' => h ((isHexDigit_iff c).2 h')
    have h' : isHexDigit c = false := by simpa using h
    rw [h']
    symm
    unfold isDigitIn digitVal
    by_cases a1 : 48 ≤ c ∧ c ≤ 57
    · exact absurd (Or.inl a1) hn
    · rw [if_neg a1]
      by_cases a2 : 97 ≤ c ∧ c ≤ 122
      · rw [if_pos a2]; simp; omega
      · rw [if_neg a2]
        by_cases a3 : 65 ≤ c ∧ c ≤ 90
        · rw [if_pos a3]; simp; omega
        · rw [if_neg a3]

/-- state of readFloat's mantissa loop after a run of hexadecimal digits before any point. -/
def advHex (st : Go.MState) (ds : Bytes) : Go.MState :=
  { st with sawdigits := st.sawdigits || !ds.isEmpty, mant := ds.foldl (stepVal 16) st.mant }

theorem mantLoop_hex (ds : Bytes) : ∀ (st : Go.MState) (rest : Bytes), st.sawdot = false → ds.all isHexDigit = true →
    Go.mantLoop true st (ds ++ rest) = Go.mantLoop true (advHex st ds) rest := by
  induction ds with
  | nil =>
    intro st rest _ _
    have : advHex st [] = st := by cases st; simp [advHex]
    simp [this]
  | cons c r ih =>
    intro st rest hdot h
    simp only [List.all_cons, Bool.and_eq_true] at h
    obtain ⟨hc, hr⟩ := h
    have hc' := (isHexDigit_iff c).1 hc
    have h95 : c ≠ 95 := by omega
    have h46 : c ≠ 46 := by omega
    simp only [List.cons_append]
    rw [Go.mantLoop]
    simp only [h95, h46, if_false]
    by_cases hd : isDec c = true
    · simp only [hd, if_true]
      rw [ih _ _ (by simpa using hdot) hr]
      congr 1
      cases st with
      | mk sawdot sawdigits mant frac us =>
        simp only at hdot
        subst hdot
        simp [advHex, stepVal, digitVal_dec c hd]
    · have hd' : isDec c = false := by simpa using hd
      have hnd : ¬ (48 ≤ c ∧ c ≤ 57) := fun h => hd ((isDec_iff c).2 h)
      have hl : 97 ≤ Go.lower c ∧ Go.lower c ≤ 102 := by
        unfold Go.lower; split <;> omega
      have hv : (digitVal c).getD 0 = Go.lower c - 97 + 10 := by
        unfold digitVal Go.lower
        rw [if_neg hnd]
        by_cases a2 : 97 ≤ c ∧ c ≤ 122
        · rw [if_pos a2]; simp; split <;> omega
        · rw [if_neg a2]
          have a3 : 65 ≤ c ∧ c ≤ 90 := by omega
          rw [if_pos a3]; simp; split <;> omega
      simp only [hd', Bool.false_eq_true, if_false, hl, and_self, if_true, true_and]
      rw [ih _ _ (by simpa using hdot) hr]
      congr 1
      cases st with
      | mk sawdot sawdigits mant frac us =>
        simp only at hdot
        subst hdot
        simp [advHex, stepVal, hv]

theorem sign_append (s u : Bytes) (neg : Bool) (hs : sign s = (neg, u)) (hu : u ≠ []) (tl : Bytes) :
    sign (s ++ tl) = (neg, u ++ tl) := by
  unfold sign at hs ⊢
  cases s with
  | nil => simp at hs; exact absurd hs.2 hu
  | cons c r =>
    by_cases h45 : c = 45
    · subst h45; simp at hs ⊢; exact ⟨hs.1, by rw [hs.2]⟩
    · by_cases h43 : c = 43
      · subst h43; simp at hs ⊢; exact ⟨hs.1, by rw [hs.2]⟩
      · split at hs
        · rename_i heq; simp at heq; exact absurd heq.1 h45
        · rename_i heq; simp at heq; exact absurd heq.1 h43
        · simp at hs
          obtain ⟨h1, h2⟩ := hs
          subst h1; subst h2
          simp only [List.cons_append]
          split
          · rename_i heq; simp at heq; exact absurd heq.1 h45
          · rename_i heq; simp at heq; exact absurd heq.1 h43
          · rfl

/-- ParseFloat(number + "p0") on an accepted hexadecimal integer. -/
theorem parseFloat_hex (s : Bytes) (neg : Bool) (x c : Nat) (r : Bytes) (hs : sign s = (neg, 48 :: x :: c :: r))
    (hx : x = 120 ∨ x = 88) (hall : (c :: r).all isHexDigit = true) :
    Go.parseFloat (s ++ [112, 48]) =
      some (.exact { neg := neg, mant := valIn 16 (c :: r), exp10 := 0, exp2 := 0 }) := by
  have hs' := sign_append s _ neg hs (by simp) [112, 48]
  unfold Go.parseFloat
  rw [special_none (s ++ [112, 48]) _ neg hs' 48 _ rfl (Or.inl (by decide))]
  simp only
  have hne : s ++ [112, 48] ≠ [] := by simp
  have hl : Go.lower x = 120 := by rcases hx with rfl | rfl <;> decide
  unfold Go.readFloat
  simp only [hne, if_false, stripSign_eq, hs']
  have hhp : Go.hexPrefix (48 :: x :: c :: r ++ [112, 48]) = (true, (c :: r) ++ [112, 48]) := by
    simp [Go.hexPrefix, hl]
  rw [hhp]
  simp only
  rw [mantLoop_hex (c :: r) _ _ rfl hall]
  have hstop : ∀ st, Go.mantLoop true st [112, 48] = (st, [112, 48]) := by
    intro st
    rw [Go.mantLoop]
    simp [isDec, Go.lower]
  rw [hstop]
  simp [advHex, Go.readExp, Go.lower, Go.stripSign, isDec, Go.expLoop, Go.finishFloat, valIn_eq]

/-! ### the shared reader -/

theorem all_hex_eq (l : Bytes) : l.all isHexDigit = l.all (isDigitIn 16) := by
  induction l with
  | nil => rfl
  | cons c r ih => simp [List.all_cons, isHexDigit_eq, ih]

theorem unsigned_not_hex3 (u : Bytes) (h : ¬ hex3 u) : unsigned u = decimal u := by
  unfold unsigned
  split
  · rename_i x r
    by_cases hx : x = 120 ∨ x = 88
    · cases r with
      | nil => rcases hx with rfl | rfl <;> decide
      | cons c r' => exact absurd ⟨x, c, r', rfl, hx⟩ h
    · simp [hx]
  · rfl

/-- **the shared reader is the Spec's reader**: utils.go parseNumber (repaired) accepts exactly the Lua 5.1
    numerals (blanks and one sign allowed) and reads the Spec's exact value. -/
theorem parseNumber_eq_spec (s : Bytes) : parseNumber s = (numeral s).map NumV.exact := by
  unfold parseNumber numeral
  rw [trim6_eq]
  generalize trim s = t
  cases hsg : sign t with
  | mk neg u =>
    simp only
    have hsk : skipSign t = u := by rw [skipSign_eq, hsg]
    by_cases hh : hex3 u
    · obtain ⟨x, c, r, rfl, hx⟩ := hh
      rw [luaNumeralBase_hex t x c r hsk hx]
      have hun : unsigned (48 :: x :: c :: r) = (hexInt (c :: r)).map (·, 0) := by simp [unsigned, hx]
      rw [hun]
      by_cases hall : (c :: r).all isHexDigit = true
      · simp only [hall, if_true]
        rw [parseFloat_hex t neg x c r hsg hx hall]
        have h16 : (c :: r).all (isDigitIn 16) = true := by rw [← all_hex_eq]; exact hall
        simp [hexInt, h16]
      · simp only [hall, if_false]
        have h16 : ¬ (c :: r).all (isDigitIn 16) = true := by rw [← all_hex_eq]; exact hall
        simp [hexInt, h16]
    · rw [luaNumeralBase_dec t (by rwa [hsk]), hsk, luaNumeralDec_spec, unsigned_not_hex3 u hh]
      cases hd : decimal u with
      | none => simp
      | some p =>
        obtain ⟨m, e⟩ := p
        simp only [Option.isSome_some, if_true, Option.map_some]
        rw [parseFloat_dec t u neg hsg m e hd]

/-! ### tonumber -/

theorem dropWhile_id (p : Nat → Bool) (l : Bytes) (h : ∀ c, l.head? = some c → p c = false) : l.dropWhile p = l := by
  cases l with
  | nil => rfl
  | cons c r => simp [List.dropWhile_cons, h c rfl]

theorem dropWhile_head (p : Nat → Bool) (l : Bytes) : ∀ c, (l.dropWhile p).head? = some c → p c = false := by
  intro c hc
  cases h : l.dropWhile p with
  | nil => rw [h] at hc; simp at hc
  | cons d r =>
    rw [h] at hc; simp at hc; subst hc
    exact dropWhile_head_not p l d r h

theorem dropWhile_suffix (p : Nat → Bool) (l : Bytes) : ∃ x, l = x ++ l.dropWhile p :=
  ⟨l.takeWhile p, (List.takeWhile_append_dropWhile).symm⟩

theorem trim_trim (s : Bytes) : trim (trim s) = trim s := by
  unfold trim trimL
  generalize ha : s.dropWhile isBlank = a
  have hah := dropWhile_head isBlank s
  rw [ha] at hah
  generalize hb : a.reverse.dropWhile isBlank = b
  have hbh := dropWhile_head isBlank a.reverse
  rw [hb] at hbh
  obtain ⟨x, hx⟩ := dropWhile_suffix isBlank a.reverse
  rw [hb] at hx
  -- a = b.reverse ++ x.reverse
  have ha' : a = b.reverse ++ x.reverse := by
    have := congrArg List.reverse hx
    simpa using this
  have h1 : b.reverse.dropWhile isBlank = b.reverse := by
    apply dropWhile_id
    intro c hc
    apply hah
    rw [ha']
    cases hbr : b.reverse with
    | nil => rw [hbr] at hc; simp at hc
    | cons d r => rw [hbr] at hc; simp at hc; subst hc; simp
  rw [h1]
  simp only [List.reverse_reverse]
  rw [dropWhile_id isBlank b hbh]

theorem numeral_trim (s : Bytes) : numeral (trim s) = numeral s := by
  unfold numeral; rw [trim_trim]

theorem has0x_iff (u : Bytes) : has0x u = true ↔ ∃ x r, u = 48 :: x :: r ∧ (x = 120 ∨ x = 88) := by
  unfold has0x
  split
  · rename_i x r
    simp
  · rename_i h
    simp
    intro x r hu
    exact absurd hu (h x r)

theorem isDigitIn_x (b x : Nat) (hb : b ≤ 16) (hx : x = 120 ∨ x = 88) : isDigitIn b x = false := by
  rcases hx with rfl | rfl <;> simp [isDigitIn, digitVal] <;> omega

theorem ofInt_signed (neg : Bool) (v : Nat) :
    ofInt (if neg then -(v : Int) else (v : Int)) = .exact { neg := neg && v != 0, mant := v, exp10 := 0 } := by
  unfold ofInt
  cases neg
  · have h1 : decide ((v : Int) < 0) = false := by simp
    simp [h1]
  · by_cases hv : v = 0
    · subst hv; simp
    · have h1 : decide (-(v : Int) < 0) = true := by simp; omega
      have h2 : (v != 0) = true := by simp [hv]
      simp only [h1, h2, Bool.true_and, if_true]
      simp

theorem bigSetString_eq (t : Bytes) (b : Nat) :
    (Go.bigSetString t b).map ofInt =
      (if (sign t).2 ≠ [] ∧ (sign t).2.all (isDigitIn b) = true then
         some (NumV.exact { neg := (sign t).1 && valIn b (sign t).2 != 0, mant := valIn b (sign t).2, exp10 := 0 })
       else none) := by
  unfold Go.bigSetString
  rw [stripSign_eq]
  generalize sign t = sg
  obtain ⟨neg, u⟩ := sg
  simp only
  by_cases h : u ≠ [] ∧ u.all (isDigitIn b) = true
  · rw [if_pos h, if_pos h, Option.map_some, ofInt_signed]
  · rw [if_neg h, if_neg h, Option.map_none]

theorem map_if_exact (c : Prop) [Decidable c] (x : Exact) :
    (if c then some (NumV.exact x) else none) = Option.map NumV.exact (if c then some x else none) := by
  split <;> rfl

/-- `tonumber(s)` and `tonumber(s, b)` after the repair, against the Spec. -/
theorem baseToNumber_none (s : Bytes) : baseToNumber none s = .val ((numeral s).map NumV.exact) := by
  simp [baseToNumber, trim6_eq, parseNumber_eq_spec, numeral_trim]

theorem baseToNumber_some (b : Nat) (s : Bytes) (h2 : 2 ≤ b) (h36 : b ≤ 36) :
    baseToNumber (some b) s = .val ((numeralBase b s).map NumV.exact) := by
  unfold baseToNumber numeralBase
  have hr : ¬ (b < 2 ∨ b > 36) := by omega
  simp only [Option.getD_some, hr, if_false, trim6_eq, Option.isNone_some, Bool.false_eq_true, false_or]
  generalize ht : trim s = t
  cases hsg : sign t with
  | mk neg u =>
    simp only
    have hsk : skipSign t = u := by rw [skipSign_eq, hsg]
    have hnum : parseNumber t = (numeral s).map NumV.exact := by
      rw [parseNumber_eq_spec, ← ht, numeral_trim]
    by_cases h10 : b = 10
    · simp [h10, hnum]
    · by_cases h16 : b = 16
      · subst h16
        by_cases hx : has0x u = true
        · obtain ⟨x, r, rfl, hx'⟩ := (has0x_iff u).1 hx
          simp only [hx, and_true, h10, false_or, true_and]
          by_cases hl : luaNumeralBase t = 16
          · simp [hl, hnum]
          · simp only [hl, if_false]
            -- neither reader accepts: the `x` is not a digit, and the shared reader said no
            have hbig : (Go.bigSetString t 16).map ofInt = none := by
              rw [bigSetString_eq, hsg]
              simp [List.all_cons, isDigitIn_x 16 x (by omega) hx']
            rw [hbig]
            have hpn : parseNumber t = none := by
              unfold parseNumber
              rw [trim6_eq, ← ht, trim_trim, ht]
              -- luaNumeralBase t is 16 or 0 on a 0x form
              cases r with
              | nil =>
                have : luaNumeralBase t = 0 := by
                  rw [luaNumeralBase_dec t (by rw [hsk]; rintro ⟨_, _, _, h, _⟩; simp at h), hsk, luaNumeralDec_spec]
                  rcases hx' with rfl | rfl <;> decide
                simp [this]
              | cons c r' =>
                have := luaNumeralBase_hex t x c r' hsk hx'
                by_cases hall : (c :: r').all isHexDigit = true
                · rw [if_pos hall] at this; exact absurd this hl
                · rw [if_neg hall] at this; simp [this]
            have hns : numeral s = none := by
              cases h : numeral s with
              | none => rfl
              | some v => rw [h, hpn] at hnum; simp at hnum
            simp [hns]
        · have hx0 : has0x u = false := by simpa using hx
          have hl : luaNumeralBase t ≠ 16 := by
            intro hl
            unfold luaNumeralBase at hl
            rw [hsk] at hl
            split at hl
            · rename_i x c r
              by_cases hxx : x = 120 ∨ x = 88
              · simp [has0x, hxx] at hx0
              · simp only [hxx, if_false] at hl
                rw [luaNumeralDec_spec] at hl; split at hl <;> omega
            · rw [luaNumeralDec_spec] at hl; split at hl <;> omega
          simp only [hl, and_false, if_false, hx0, Bool.false_eq_true, or_false, h10]
          rw [bigSetString_eq, hsg]
          simp only []
          rw [map_if_exact]
      · simp only [h10, h16, false_and, or_false, if_false, false_or]
        rw [bigSetString_eq, hsg]
        simp only []
        rw [map_if_exact]

/-! ### integers: print and read back -/

theorem natDigits_all (fuel : Nat) : ∀ n, (natDigits fuel n).all isDec = true := by
  induction fuel with
  | zero => intro n; simp [natDigits]
  | succ f ih =>
    intro n
    rw [natDigits]
    split
    · simp [isDec]; omega
    · simp only [List.all_append, ih, Bool.true_and, List.all_cons, List.all_nil, Bool.and_true]
      simp [isDec]; omega

theorem natDigits_ne_nil (f n : Nat) : natDigits (f + 1) n ≠ [] := by
  rw [natDigits]; split <;> simp

theorem valIn_snoc (b : Nat) (l : Bytes) (d : Nat) : valIn b (l ++ [d]) = valIn b l * b + (digitVal d).getD 0 := by
  simp [valIn, List.foldl_append]

theorem natDigits_val (fuel : Nat) : ∀ n, n < fuel → valIn 10 (natDigits fuel n) = n := by
  induction fuel with
  | zero => intro n h; omega
  | succ f ih =>
    intro n h
    rw [natDigits]
    split
    · rename_i h10
      have : digitVal (48 + n) = some n := by
        rw [digitVal_dec _ (by simp [isDec]; omega)]; simp
      simp [valIn, this]
    · rename_i h10
      rw [valIn_snoc, ih (n / 10) (by omega)]
      have : digitVal (48 + n % 10) = some (n % 10) := by
        rw [digitVal_dec _ (by simp [isDec]; omega)]; simp
      rw [this]; simp; omega

theorem natDigits_fuel (f1 : Nat) : ∀ f2 n, n < f1 → n < f2 → natDigits f1 n = natDigits f2 n := by
  induction f1 with
  | zero => intro f2 n h; omega
  | succ f ih =>
    intro f2 n h1 h2
    cases f2 with
    | zero => omega
    | succ g =>
      rw [natDigits, natDigits]
      split
      · rfl
      · rw [ih g (n / 10) (by omega) (by omega)]

theorem fmtBits_eq (fuel : Nat) : ∀ u acc, u < fuel → fmtBits fuel u acc = natDigits fuel u ++ acc := by
  induction fuel with
  | zero => intro u acc h; omega
  | succ f ih =>
    intro u acc h
    rw [fmtBits, natDigits]
    split
    · simp
    · rw [ih (u / 10) _ (by omega)]; simp

/-- the printer's integer branch writes the Spec's plain decimal rendering. -/
theorem formatInt_eq_plainInt (i : Int) : formatInt i = plainInt i := by
  unfold formatInt plainInt
  cases i with
  | ofNat n =>
    have : ¬ (Int.ofNat n < 0) := by simp
    simp only [this, if_false]
    have hn : (Int.ofNat n).natAbs = n := rfl
    rw [hn, fmtBits_eq _ _ _ (by omega)]; simp
  | negSucc n =>
    have : Int.negSucc n < 0 := Int.negSucc_lt_zero n
    simp only [this, if_true]
    have hn : (Int.negSucc n).natAbs = n + 1 := rfl
    rw [hn, fmtBits_eq _ _ _ (by omega)]; simp

/-- a string of decimal digits is a numeral denoting its positional value. -/
theorem decimal_digits (ds : Bytes) (hne : ds ≠ []) (hall : ds.all isDec = true) : decimal ds = some (valIn 10 ds, 0) := by
  unfold decimal
  simp only [takeWhile_all isDec ds hall, dropWhile_all isDec ds hall, fraction]
  have : ds.length ≠ 0 := by cases ds <;> simp_all
  simp [this, exponent]

theorem unsigned_digits (ds : Bytes) (hne : ds ≠ []) (hall : ds.all isDec = true) : unsigned ds = some (valIn 10 ds, 0) := by
  rw [unsigned_not_hex3, decimal_digits ds hne hall]
  rintro ⟨x, c, r, rfl, hx⟩
  simp only [List.all_cons, Bool.and_eq_true] at hall
  have := (isDec_iff x).1 hall.2.1
  omega

theorem isBlank_dec (c : Nat) (h : isDec c = true) : isBlank c = false := by
  have := (isDec_iff c).1 h
  simp [isBlank]; omega

theorem trim_noblank (s : Bytes) (h : ∀ c ∈ s, isBlank c = false) : trim s = s := by
  unfold trim trimL
  have h1 : s.dropWhile isBlank = s := by
    apply dropWhile_id
    intro c hc
    cases s with
    | nil => simp at hc
    | cons d r => simp at hc; subst hc; exact h _ (List.mem_cons_self ..)
  rw [h1]
  have h2 : s.reverse.dropWhile isBlank = s.reverse := by
    apply dropWhile_id
    intro c hc
    have : c ∈ s.reverse := by
      cases hr : s.reverse with
      | nil => rw [hr] at hc; simp at hc
      | cons d r => rw [hr] at hc; simp at hc; subst hc; simp
    exact h c (by simpa using this)
  rw [h2]; simp

/-- reading the plain rendering of an integer with the Spec's reader. -/
theorem numeral_plainInt (i : Int) :
    numeral (plainInt i) = some { neg := decide (i < 0), mant := i.natAbs, exp10 := 0 } := by
  cases i with
  | ofNat n =>
    have hds := natDigits_all (n + 1) n
    have hne := natDigits_ne_nil n n
    have hv := natDigits_val (n + 1) n (by omega)
    have hnb : ∀ c ∈ natDigits (n + 1) n, isBlank c = false := by
      intro c hc; exact isBlank_dec c (List.all_eq_true.1 hds c hc)
    unfold numeral plainInt
    simp only [trim_noblank _ hnb]
    have hsg : sign (natDigits (n + 1) n) = (false, natDigits (n + 1) n) := by
      cases hd : natDigits (n + 1) n with
      | nil => exact absurd hd hne
      | cons c r =>
        rw [hd] at hds
        simp only [List.all_cons, Bool.and_eq_true] at hds
        have := (isDec_iff c).1 hds.1
        unfold sign
        split
        · rename_i heq; simp at heq; omega
        · rename_i heq; simp at heq; omega
        · rfl
    rw [hsg]
    simp only [unsigned_digits _ hne hds, hv]
    simp
  | negSucc n =>
    have hds := natDigits_all (n + 2) (n + 1)
    have hne := natDigits_ne_nil (n + 1) (n + 1)
    have hv := natDigits_val (n + 2) (n + 1) (by omega)
    have hnb : ∀ c ∈ (45 :: natDigits (n + 2) (n + 1)), isBlank c = false := by
      intro c hc
      simp only [List.mem_cons] at hc
      rcases hc with rfl | hc
      · decide
      · exact isBlank_dec c (List.all_eq_true.1 hds c hc)
    unfold numeral plainInt
    simp only [trim_noblank _ hnb]
    have hsg : sign (45 :: natDigits (n + 2) (n + 1)) = (true, natDigits (n + 2) (n + 1)) := rfl
    rw [hsg]
    simp only [unsigned_digits _ hne hds, hv]
    have : Int.negSucc n < 0 := Int.negSucc_lt_zero n
    simp [this]

/-! ### the lexer -/

theorem scanHex_eq (s buf : Bytes) : scanHex buf s = (buf ++ s.takeWhile isHexDigit, s.dropWhile isHexDigit) := by
  induction s generalizing buf with
  | nil => simp [scanHex]
  | cons c r ih =>
    unfold scanHex
    by_cases h : isHexDigit c = true
    · simp [h, ih]
    · simp [h]

theorem tw_app (p : Nat → Bool) (l r : Bytes) (hl : l.all p = true) (hr : ∀ c, r.head? = some c → p c = false) :
    (l ++ r).takeWhile p = l ∧ (l ++ r).dropWhile p = r := by
  induction l with
  | nil =>
    cases r with
    | nil => simp
    | cons c t => simp [List.takeWhile_cons, List.dropWhile_cons, hr c rfl]
  | cons d t ih =>
    simp only [List.all_cons, Bool.and_eq_true] at hl
    have := ih hl.2
    simp [List.takeWhile_cons, List.dropWhile_cons, hl.1, this]

theorem decimal_hex3_none (u : Bytes) (h : hex3 u) : decimal u = none := by
  obtain ⟨x, y, t, rfl, hx'⟩ := h
  have h1 : isDec x = false := by rcases hx' with rfl | rfl <;> decide
  have h2 : x ≠ 46 := by omega
  have hf : fraction (x :: y :: t) = ([], x :: y :: t) := by
    unfold fraction; split
    · rename_i heq; simp at heq; exact absurd heq.1 h2
    · rfl
  have hex : exponent (x :: y :: t) = none := by
    unfold exponent
    have : ¬ (x = 101 ∨ x = 69) := by omega
    simp [this]
  have htw : (48 :: x :: y :: t).takeWhile isDec = [48] := by
    simp [List.takeWhile_cons, h1]; decide
  have hdw : (48 :: x :: y :: t).dropWhile isDec = x :: y :: t := by
    simp [List.dropWhile_cons, h1]; decide
  simp [decimal, htw, hdw, hf, hex]

/-- head of an accepted exponent part: not a digit, not the point. -/
theorem exponent_head (ex : Bytes) (h : (exponent ex).isSome = true) :
    ∀ c, ex.head? = some c → isDec c = false ∧ c ≠ 46 := by
  intro c hc
  cases hx : exponent ex with
  | none => rw [hx] at h; simp at h
  | some e' =>
    rcases exponent_some ex e' hx with ⟨rfl, _⟩ | ⟨c', t, rfl, hc', _, _, _⟩
    · simp at hc
    · simp at hc; subst hc
      rcases hc' with rfl | rfl <;> exact ⟨by decide, by decide⟩

/-- a well-formed mantissa followed by a well-formed exponent part is a decimal numeral. -/
theorem decimal_build (ip fp : Bytes) (dot : Bool) (ex : Bytes)
    (hip : ip.all isDec = true) (hfp : fp.all isDec = true) (hdot : dot = false → fp = [])
    (hnd : ip.length + fp.length > 0) (hex : (exponent ex).isSome = true) :
    (decimal (ip ++ ((if dot then 46 :: fp else []) ++ ex))).isSome = true := by
  have hh := exponent_head ex hex
  cases dot with
  | true =>
    simp only [if_true]
    have h1 := tw_app isDec ip (46 :: fp ++ ex) hip (by intro c hc; simp at hc; subst hc; decide)
    have h2 := tw_app isDec fp ex hfp (fun c hc => (hh c hc).1)
    unfold decimal
    simp only [List.cons_append] at h1 ⊢
    simp only [h1.1, h1.2, fraction, h2.1, h2.2]
    have : ¬ (ip.length + fp.length = 0) := by omega
    simp only [this, if_false]
    cases hx : exponent ex with
    | none => rw [hx] at hex; simp at hex
    | some v => simp
  | false =>
    have hfp0 := hdot rfl
    subst hfp0
    simp only [Bool.false_eq_true, if_false, List.nil_append]
    have h1 := tw_app isDec ip ex hip (fun c hc => (hh c hc).1)
    have hfr : fraction ex = ([], ex) := by
      unfold fraction; split
      · rename_i t
        exact absurd rfl (hh 46 rfl).2
      · rfl
    unfold decimal
    simp only [h1.1, h1.2, hfr]
    have : ¬ (ip.length + ([] : Bytes).length = 0) := by simpa using (by simpa using hnd : ip.length > 0) |> Nat.ne_of_gt
    simp only [this, if_false]
    cases hx : exponent ex with
    | none => rw [hx] at hex; simp at hex
    | some v => simp

theorem scanExpSign_cases (buf : Bytes) (e : Nat) (r3 : Bytes) :
    ∃ sg, scanExpSign buf e r3 = (buf ++ e :: sg, (sign r3).2) ∧ r3 = sg ++ (sign r3).2 ∧
      ((sg = [] ∧ (∀ c, r3.head? = some c → c ≠ 45 ∧ c ≠ 43)) ∨ sg = [45] ∨ sg = [43]) := by
  cases r3 with
  | nil => exact ⟨[], rfl, rfl, Or.inl ⟨rfl, by simp⟩⟩
  | cons c t =>
    by_cases h45 : c = 45
    · subst h45; exact ⟨[45], by simp [scanExpSign, sign], rfl, Or.inr (Or.inl rfl)⟩
    · by_cases h43 : c = 43
      · subst h43; exact ⟨[43], by simp [scanExpSign, sign], rfl, Or.inr (Or.inr rfl)⟩
      · have h1 : scanExpSign buf e (c :: t) = (buf ++ [e], c :: t) := by
          unfold scanExpSign; split
          · rename_i heq; simp at heq; exact absurd heq.1 h45
          · rename_i heq; simp at heq; exact absurd heq.1 h43
          · rfl
        have h2 : sign (c :: t) = (false, c :: t) := by
          unfold sign; split
          · rename_i heq; simp at heq; exact absurd heq.1 h45
          · rename_i heq; simp at heq; exact absurd heq.1 h43
          · rfl
        refine ⟨[], by rw [h1, h2], by rw [h2]; rfl, Or.inl ⟨rfl, ?_⟩⟩
        intro c' hc; simp at hc; subst hc; exact ⟨h45, h43⟩

theorem sign_digit_head (d : Nat) (r : Bytes) (hd : isDec d = true) : sign (d :: r) = (false, d :: r) := by
  have := (isDec_iff d).1 hd
  unfold sign; split
  · rename_i heq; simp at heq; omega
  · rename_i heq; simp at heq; omega
  · rfl

/-- what the lexer's exponent part produces is an accepted exponent (or nothing was consumed). -/
theorem scanExp_tok (b2 r2 t rest : Bytes) (h : scanExp (b2, r2) = .tok t rest) :
    ∃ ex, t = b2 ++ ex ∧ (exponent ex).isSome = true := by
  unfold scanExp at h
  simp only at h
  split at h
  · rename_i e r3
    by_cases he : e = 101 ∨ e = 69
    · simp only [he, if_true] at h
      obtain ⟨sg, hq, hr3, hsg⟩ := scanExpSign_cases b2 e r3
      rw [hq] at h
      unfold scanExpDigits at h
      simp only at h
      split at h
      · rename_i d r5 hds
        by_cases hd : isDec d = true
        · simp only [hd, if_true, scanDecimal_eq, LexRes.tok.injEq] at h
          obtain ⟨ht, _⟩ := h
          refine ⟨e :: sg ++ d :: r5.takeWhile isDec, ?_, ?_⟩
          · rw [← ht]; simp
          · have hall : (d :: r5.takeWhile isDec).all isDec = true := by
              simp [List.all_cons, hd, all_takeWhile]
            have hsign : (sign (sg ++ d :: r5.takeWhile isDec)).2 = d :: r5.takeWhile isDec := by
              rcases hsg with ⟨rfl, _⟩ | rfl | rfl
              · simp only [List.nil_append, sign_digit_head d _ hd]
              · rfl
              · rfl
            unfold exponent
            simp only [List.cons_append, he, if_true, hsign]
            simp [hall]
        · simp [hd] at h
      · simp at h
    · simp only [he, if_false, LexRes.tok.injEq] at h
      exact ⟨[], by simp [h.1], by simp [exponent]⟩
  · simp only [LexRes.tok.injEq] at h
    exact ⟨[], by simp [h.1], by simp [exponent]⟩

/-- on an accepted exponent part the lexer consumes all of it. -/
theorem scanExp_full (b2 r2 : Bytes) (e' : Int) (h : exponent r2 = some e') : scanExp (b2, r2) = .tok (b2 ++ r2) [] := by
  rcases exponent_some r2 e' h with ⟨rfl, _⟩ | ⟨c, t, rfl, hc, hne, hall, _⟩
  · simp [scanExp]
  · unfold scanExp
    simp only [hc, if_true]
    obtain ⟨sg, hq, hr3, _⟩ := scanExpSign_cases b2 c t
    rw [hq]
    unfold scanExpDigits
    simp only
    cases hds : (sign t).2 with
    | nil => exact absurd hds hne
    | cons d r5 =>
      rw [hds] at hall hr3
      simp only [List.all_cons, Bool.and_eq_true] at hall
      simp only [hall.1, if_true, scanDecimal_eq, takeWhile_all isDec r5 hall.2, dropWhile_all isDec r5 hall.2]
      rw [hr3]; simp

/-- the first character of a number token, as `Scanner.Scan` dispatches. -/
def startsNumber (ch : Nat) (inp : Bytes) : Prop :=
  isDec ch = true ∨ (ch = 46 ∧ ∃ d r, inp = d :: r ∧ isDec d = true)

theorem scanFrac_dot (ch : Nat) (b t : Bytes) (h46 : ch ≠ 46) : scanFrac ch (b, 46 :: t) = scanDecimal (b ++ [46]) t := by
  simp [scanFrac, h46]

theorem scanFrac_nodot (ch : Nat) (b : Bytes) (c : Nat) (t : Bytes) (h : c ≠ 46) : scanFrac ch (b, c :: t) = (b, c :: t) := by
  unfold scanFrac
  split
  · split
    · rename_i heq; simp at heq; exact absurd heq.1 h
    · rfl
  · rfl

theorem scanFrac_nil (ch : Nat) (b : Bytes) : scanFrac ch (b, []) = (b, []) := by
  unfold scanFrac; split <;> rfl

theorem scanFrac_46 (p : Bytes × Bytes) : scanFrac 46 p = p := by simp [scanFrac]

theorem fraction_nodot (c : Nat) (t : Bytes) (h : c ≠ 46) : fraction (c :: t) = ([], c :: t) := by
  unfold fraction; split
  · rename_i heq; simp at heq; exact absurd heq.1 h
  · rfl

/-- mantissa part of scanNumberCore against the Spec's decomposition of `ch :: inp`. -/
theorem scanMant (ch : Nat) (inp : Bytes) (hst : startsNumber ch inp) :
    ∃ (dot : Bool),
      scanFrac ch (scanDecimal [ch] inp) =
        ((ch :: inp).takeWhile isDec ++ (if dot then 46 :: (fraction ((ch :: inp).dropWhile isDec)).1 else []),
         (fraction ((ch :: inp).dropWhile isDec)).2) ∧
      (dot = false → (fraction ((ch :: inp).dropWhile isDec)).1 = []) ∧
      ((ch :: inp).takeWhile isDec).length + (fraction ((ch :: inp).dropWhile isDec)).1.length > 0 ∧
      ((ch :: inp).takeWhile isDec ++ (if dot then 46 :: (fraction ((ch :: inp).dropWhile isDec)).1 else [])) ++
        (fraction ((ch :: inp).dropWhile isDec)).2 = ch :: inp := by
  rw [scanDecimal_eq]
  rcases hst with hd | ⟨rfl, d, r, rfl, hd⟩
  · -- starts with a digit
    have hc := (isDec_iff ch).1 hd
    have h46 : ch ≠ 46 := by omega
    have htw : (ch :: inp).takeWhile isDec = ch :: inp.takeWhile isDec := by simp [List.takeWhile_cons, hd]
    have hdw : (ch :: inp).dropWhile isDec = inp.dropWhile isDec := by simp [List.dropWhile_cons, hd]
    rw [htw, hdw]
    simp only [List.singleton_append]
    have hinp : inp.takeWhile isDec ++ inp.dropWhile isDec = inp := List.takeWhile_append_dropWhile
    cases hr1 : inp.dropWhile isDec with
    | nil =>
      rw [hr1] at hinp
      refine ⟨false, ?_, ?_, ?_, ?_⟩
      · simp [fraction, scanFrac_nil]
      · simp [fraction]
      · simp; omega
      · simp only [fraction, Bool.false_eq_true, if_false, List.append_nil]
        simp at hinp; rw [hinp]
    | cons c t =>
      rw [hr1] at hinp
      by_cases h : c = 46
      · subst h
        have ht : t.takeWhile isDec ++ t.dropWhile isDec = t := List.takeWhile_append_dropWhile
        refine ⟨true, ?_, ?_, ?_, ?_⟩
        · rw [scanFrac_dot _ _ _ h46, scanDecimal_eq]; simp [fraction]
        · simp
        · simp; omega
        · simp only [fraction, if_true, List.cons_append, List.append_assoc]
          rw [ht, hinp]
      · rw [fraction_nodot c t h]
        refine ⟨false, ?_, ?_, ?_, ?_⟩
        · rw [scanFrac_nodot _ _ _ _ h]; simp
        · simp
        · simp
        · simp only [Bool.false_eq_true, if_false, List.append_nil, List.cons_append]
          rw [hinp]
  · -- starts with the point, a digit follows
    have h46 : isDec 46 = false := by decide
    have htw : (46 :: d :: r).takeWhile isDec = [] := by simp [List.takeWhile_cons, h46]
    have hdw : (46 :: d :: r).dropWhile isDec = 46 :: d :: r := by simp [List.dropWhile_cons, h46]
    rw [htw, hdw, scanFrac_46]
    refine ⟨true, ?_, ?_, ?_, ?_⟩
    · simp [fraction]
    · simp
    · simp [fraction, List.takeWhile_cons, hd]
    · simp only [fraction, if_true, List.nil_append, List.cons_append]
      rw [List.takeWhile_append_dropWhile]

theorem literal_isSome (t : Bytes) : (literal t).isSome = (unsigned t).isSome := by
  unfold literal; cases unsigned t <;> rfl

/-- **every number token the lexer produces is a Lua numeral** (so compile.go's NaN fallback is dead code). -/
theorem scanNumberCore_tok_numeral (ch : Nat) (inp t rest : Bytes) (hst : startsNumber ch inp)
    (h : scanNumberCore ch inp = .tok t rest) : (literal t).isSome = true := by
  rw [literal_isSome]
  have decimalPath : scanExp (scanFrac ch (scanDecimal [ch] inp)) = .tok t rest → (unsigned t).isSome = true := by
    intro h
    obtain ⟨dot, hm, hdot, hnd, _⟩ := scanMant ch inp hst
    rw [hm] at h
    obtain ⟨ex, rfl, hex⟩ := scanExp_tok _ _ _ _ h
    have hb := decimal_build ((ch :: inp).takeWhile isDec) (fraction ((ch :: inp).dropWhile isDec)).1 dot ex
      (all_takeWhile _ _) (by
        unfold fraction; split
        · exact all_takeWhile _ _
        · rfl) hdot hnd hex
    rw [← List.append_assoc] at hb
    have hnh : ¬ hex3 (((ch :: inp).takeWhile isDec ++ (if dot then 46 :: (fraction ((ch :: inp).dropWhile isDec)).1 else [])) ++ ex) := by
      intro hh; rw [decimal_hex3_none _ hh] at hb; simp at hb
    rw [unsigned_not_hex3 _ hnh]; exact hb
  unfold scanNumberCore at h
  cases inp with
  | nil => exact decimalPath h
  | cons x t' =>
    simp only at h
    by_cases hc : ch = 48 ∧ (x = 120 ∨ x = 88)
    · obtain ⟨rfl, hx⟩ := hc
      have hcond : (48 = 48 ∧ (x = 120 ∨ x = 88)) := ⟨rfl, hx⟩
      rw [if_pos hcond, scanHex_eq] at h
      simp only at h
      by_cases hl : ([48, x] ++ t'.takeWhile isHexDigit).length = 2
      · rw [if_pos hl] at h; simp at h
      · rw [if_neg hl] at h
        simp only [LexRes.tok.injEq] at h
        obtain ⟨rfl, _⟩ := h
        have hne : t'.takeWhile isHexDigit ≠ [] := by
          intro he; rw [he] at hl; simp at hl
        have hall : (t'.takeWhile isHexDigit).all (isDigitIn 16) = true := by
          rw [← all_hex_eq]; exact all_takeWhile _ _
        simp [unsigned, hx, hexInt, hne, hall]
    · simp only [hc, if_false] at h
      exact decimalPath h

theorem decimal_starts (ch : Nat) (inp : Bytes) (m : Nat) (e : Int) (hd : decimal (ch :: inp) = some (m, e)) :
    startsNumber ch inp := by
  obtain ⟨c, t, hu, hc⟩ := decimal_head _ m e hd
  simp at hu; obtain ⟨rfl, rfl⟩ := hu
  rcases hc with hc | rfl
  · exact Or.inl hc
  · right
    refine ⟨rfl, ?_⟩
    have h46 : isDec 46 = false := by decide
    unfold decimal at hd
    simp only [List.takeWhile_cons, List.dropWhile_cons, h46, Bool.false_eq_true, if_false, fraction] at hd
    cases hi : inp with
    | nil => rw [hi] at hd; simp at hd
    | cons d r =>
      rw [hi] at hd
      by_cases hdd : isDec d = true
      · exact ⟨d, r, rfl, hdd⟩
      · simp [List.takeWhile_cons, hdd] at hd

theorem isLuaWs_start (ch : Nat) (inp : Bytes) (hst : startsNumber ch inp) : isLuaWs ch = false := by
  rcases hst with h | ⟨rfl, _⟩
  · have := (isDec_iff ch).1 h
    simp [isLuaWs]; omega
  · decide

/-- **every Lua numeral is lexed as one token, whole.** -/
theorem lexNumberCore_numeral (s : Bytes) (v : Exact) (h : literal s = some v) : lexNumber scanNumberCore s = .tok s [] := by
  have hu : (unsigned s).isSome = true := by rw [← literal_isSome, h]; rfl
  by_cases hh : hex3 s
  · obtain ⟨x, c, r, rfl, hx⟩ := hh
    have hun : unsigned (48 :: x :: c :: r) = (hexInt (c :: r)).map (·, 0) := by simp [unsigned, hx]
    rw [hun] at hu
    have hall : (c :: r).all isHexDigit = true := by
      rw [all_hex_eq]
      unfold hexInt at hu
      by_cases hc : (c :: r) ≠ [] ∧ (c :: r).all (isDigitIn 16) = true
      · exact hc.2
      · rw [if_neg hc] at hu; simp at hu
    have h48 : isLuaWs 48 = false := by decide
    unfold lexNumber
    simp only [List.dropWhile_cons, h48, Bool.false_eq_true, if_false]
    have hd48 : isDec 48 = true := by decide
    simp only [hd48, if_true]
    unfold scanNumberCore
    simp only [hx, and_self, if_true, scanHex_eq, takeWhile_all _ _ hall, dropWhile_all _ _ hall]
    simp
  · rw [unsigned_not_hex3 s hh] at hu
    cases hd : decimal s with
    | none => rw [hd] at hu; simp at hu
    | some p =>
      obtain ⟨m, e⟩ := p
      cases s with
      | nil => simp [decimal, fraction] at hd
      | cons ch inp =>
        have hst := decimal_starts ch inp m e hd
        have hws := isLuaWs_start ch inp hst
        -- the scanner's hex test fails
        have hnohex : ∀ x t', inp = x :: t' → ¬ (ch = 48 ∧ (x = 120 ∨ x = 88)) := by
          rintro x t' rfl ⟨rfl, hx⟩
          cases t' with
          | nil =>
            rcases hx with rfl | rfl <;> simp [decimal, fraction, exponent, isDec] at hd
          | cons c r => exact hh ⟨x, c, r, rfl, hx⟩
        have hscan : scanNumberCore ch inp = .tok (ch :: inp) [] := by
          have body : scanExp (scanFrac ch (scanDecimal [ch] inp)) = .tok (ch :: inp) [] := by
            obtain ⟨dot, hm, hdot, hnd, hcat⟩ := scanMant ch inp hst
            rw [hm]
            -- the Spec accepted the exponent part
            unfold decimal at hd
            simp only at hd
            have hnd' : ¬ (((ch :: inp).takeWhile isDec).length + (fraction ((ch :: inp).dropWhile isDec)).1.length = 0) := by omega
            rw [if_neg hnd'] at hd
            cases hex : exponent (fraction ((ch :: inp).dropWhile isDec)).2 with
            | none => rw [hex] at hd; simp at hd
            | some e' =>
              rw [scanExp_full _ _ e' hex, hcat]
          unfold scanNumberCore
          cases inp with
          | nil => exact body
          | cons x t' =>
            simp only [hnohex x t' rfl, if_false]
            exact body
        unfold lexNumber
        simp only [List.dropWhile_cons, hws, Bool.false_eq_true, if_false]
        rcases hst with hdch | ⟨rfl, d, r, rfl, hdd⟩
        · simp only [hdch, if_true]; exact hscan
        · have h46 : isDec 46 = false := by decide
          simp only [h46, Bool.false_eq_true, if_false, if_true, hdd]
          exact hscan

/-- **every number token the lexer produces is a Lua numeral** (so compile.go's NaN fallback is dead code). -/
theorem scanNumber_tok_numeral (ch : Nat) (inp t rest : Bytes) (hst : startsNumber ch inp)
    (h : scanNumber ch inp = .tok t rest) : (literal t).isSome = true :=
  scanNumberCore_tok_numeral ch inp t rest hst (numeralEnd_tok _ _ _ _ h)

/-- **every Lua numeral is lexed as one token, whole** (nothing follows it, so `numeralEnd` lets it pass). -/
theorem lexNumber_numeral (s : Bytes) (v : Exact) (h : literal s = some v) : lexNumber scanNumber s = .tok s [] := by
  have hc := lexNumberCore_numeral s v h
  unfold lexNumber at hc ⊢
  split
  · rename_i heq; rw [heq] at hc; simp at hc
  · rename_i c r heq
    rw [heq] at hc
    simp only at hc ⊢
    split
    · rename_i hd; rw [if_pos hd] at hc; unfold scanNumber; rw [hc]; exact numeralEnd_nil _ _
    · rename_i hd
      rw [if_neg hd] at hc
      split
      · rename_i h46
        rw [if_pos h46] at hc
        split
        · rename_i d r' 
          simp only at hc
          split
          · rename_i hdd; rw [if_pos hdd] at hc; unfold scanNumber; rw [hc]; exact numeralEnd_nil _ _
          · rename_i hdd; rw [if_neg hdd] at hc; simp at hc
        · simp at hc
      · rename_i h46; rw [if_neg h46] at hc; simp at hc

theorem exponent_noblank (r2 : Bytes) (h : (exponent r2).isSome = true) : ∀ c ∈ r2, isBlank c = false := by
  cases hx : exponent r2 with
  | none => rw [hx] at h; simp at h
  | some e' =>
    rcases exponent_some r2 e' hx with ⟨rfl, _⟩ | ⟨e, t, rfl, he, hne, hall, _⟩
    · simp
    · intro c hc
      simp only [List.mem_cons] at hc
      rcases hc with rfl | hc
      · rcases he with rfl | rfl <;> decide
      · obtain ⟨sg, _, ht, hsg⟩ := scanExpSign_cases [] e t
        rw [ht] at hc
        simp only [List.mem_append] at hc
        rcases hc with hc | hc
        · rcases hsg with ⟨rfl, _⟩ | rfl | rfl
          · simp at hc
          · simp at hc; subst hc; decide
          · simp at hc; subst hc; decide
        · exact isBlank_dec c (List.all_eq_true.1 hall c hc)

theorem decimal_noblank (u : Bytes) (m : Nat) (e : Int) (hd : decimal u = some (m, e)) : ∀ c ∈ u, isBlank c = false := by
  have hu : u.takeWhile isDec ++ u.dropWhile isDec = u := List.takeWhile_append_dropWhile
  unfold decimal at hd
  simp only at hd
  by_cases hnd : (u.takeWhile isDec).length + (fraction (u.dropWhile isDec)).1.length = 0
  · simp [hnd] at hd
  · rw [if_neg hnd] at hd
    have hex : (exponent (fraction (u.dropWhile isDec)).2).isSome = true := by
      cases hx : exponent (fraction (u.dropWhile isDec)).2 with
      | none => rw [hx] at hd; simp at hd
      | some v => rfl
    have hr2 := exponent_noblank _ hex
    intro c hc
    rw [← hu] at hc
    simp only [List.mem_append] at hc
    rcases hc with hc | hc
    · exact isBlank_dec c (List.all_eq_true.1 (all_takeWhile isDec u) c hc)
    · generalize u.dropWhile isDec = r1 at hc hr2
      unfold fraction at hr2
      split at hr2
      · rename_i t
        have ht : t.takeWhile isDec ++ t.dropWhile isDec = t := List.takeWhile_append_dropWhile
        simp only [List.mem_cons] at hc
        rcases hc with rfl | hc
        · decide
        · rw [← ht] at hc
          simp only [List.mem_append] at hc
          rcases hc with hc | hc
          · exact isBlank_dec c (List.all_eq_true.1 (all_takeWhile isDec t) c hc)
          · exact hr2 c hc
      · exact hr2 c hc

theorem isBlank_hex (c : Nat) (h : isHexDigit c = true) : isBlank c = false := by
  have := (isHexDigit_iff c).1 h
  simp [isBlank]; omega

theorem literal_noblank (s : Bytes) (v : Exact) (h : literal s = some v) : ∀ c ∈ s, isBlank c = false := by
  have hu : (unsigned s).isSome = true := by rw [← literal_isSome, h]; rfl
  by_cases hh : hex3 s
  · obtain ⟨x, c, r, rfl, hx⟩ := hh
    have hun : unsigned (48 :: x :: c :: r) = (hexInt (c :: r)).map (·, 0) := by simp [unsigned, hx]
    rw [hun] at hu
    have hall : (c :: r).all isHexDigit = true := by
      rw [all_hex_eq]
      unfold hexInt at hu
      by_cases hc : (c :: r) ≠ [] ∧ (c :: r).all (isDigitIn 16) = true
      · exact hc.2
      · rw [if_neg hc] at hu; simp at hu
    intro d hd
    simp only [List.mem_cons] at hd
    rcases hd with rfl | rfl | hd
    · decide
    · rcases hx with rfl | rfl <;> decide
    · exact isBlank_hex d (List.all_eq_true.1 hall d (by simpa using hd))
  · rw [unsigned_not_hex3 s hh] at hu
    cases hd : decimal s with
    | none => rw [hd] at hu; simp at hu
    | some p => exact decimal_noblank s p.1 p.2 hd

theorem literal_head (s : Bytes) (v : Exact) (h : literal s = some v) : ∃ c t, s = c :: t ∧ c ≠ 45 ∧ c ≠ 43 := by
  have hu : (unsigned s).isSome = true := by rw [← literal_isSome, h]; rfl
  by_cases hh : hex3 s
  · obtain ⟨x, c, r, rfl, hx⟩ := hh
    exact ⟨48, _, rfl, by decide, by decide⟩
  · rw [unsigned_not_hex3 s hh] at hu
    cases hd : decimal s with
    | none => rw [hd] at hu; simp at hu
    | some p =>
      obtain ⟨c, t, rfl, hc⟩ := decimal_head s p.1 p.2 hd
      refine ⟨c, t, rfl, ?_⟩
      rcases hc with hc | rfl
      · have := (isDec_iff c).1 hc; omega
      · decide

/-- a numeral of the source text read by the run-time reader: same value. -/
theorem numeral_of_literal (s : Bytes) (v : Exact) (h : literal s = some v) : numeral s = some v := by
  obtain ⟨c, t, rfl, h45, h43⟩ := literal_head s v h
  unfold numeral
  rw [trim_noblank _ (literal_noblank _ v h)]
  have hsg : sign (c :: t) = (false, c :: t) := by
    unfold sign; split
    · rename_i heq; simp at heq; exact absurd heq.1 h45
    · rename_i heq; simp at heq; exact absurd heq.1 h43
    · rfl
  rw [hsg]
  exact h

/-- compile.go on a numeral literal: the shared reader returns the Spec's value. -/
theorem literalValue_numeral (s : Bytes) (v : Exact) (h : literal s = some v) :
    literalValue parseNumber s = .exact v := by
  unfold literalValue
  rw [parseNumber_eq_spec, numeral_of_literal s v h]
  rfl

end GLua.Proofs.C16Numeral
